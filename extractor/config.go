package main

// What the translator tracks.  This file is the whole "specification" side of the translator:
// which struct fields are shared mutable state, which lock guards each, which fields are
// immutable once the object is published (the translator then VERIFIES that they are only
// written while the object is still thread-local), and which functions are entry points.

const galaxy = "tkestack.io/galaxy/"

// packages loaded (and walked across: calls between them are followed)
var loadPkgs = []string{
	galaxy + "pkg/ipam/floatingip",
	galaxy + "pkg/ipam/schedulerplugin",
	galaxy + "pkg/ipam/crd",
	galaxy + "pkg/ipam/cloudprovider",
	galaxy + "pkg/ipam/api", // REST controllers: entry points of their own, sharing listers and the ipam with the plugin
	galaxy + "pkg/galaxy",
	galaxy + "pkg/api/cniutil",
	galaxy + "pkg/network/portmapping",
	galaxy + "pkg/policy",
	galaxy + "pkg/utils/iptables", // lock balance only
}

// loc describes one tracked location.  name is "Struct.field" (the field slot), "Struct.field[]"
// (the contents of the map/slice stored there) or "Struct.field[][]" (contents of its elements).
// lock == "" : immutable after publication (no write may happen on a shared object).
type locCfg struct {
	name string
	lock string
}

var imm = ""

const (
	lkCache  = "crdIpam.cacheLock"
	lkNode   = "FloatingIPPlugin.nodeSubnetLock"
	lkCrdKey = "crdKey.Mutex"
	lkCrdC   = "crdCache.lock"
	lkPort   = "PortMappingHandler.Mutex"
	lkPolicy = "PolicyManager.Mutex"
	// a sync.Once seen as a lock: written only inside Do's function (mode W), read only after a Do call (mode R)
	lkGrpcInit = "grpcCloudProvider.init"
)

var locations = []locCfg{
	// pkg/ipam/floatingip: the allocation tables and the pool list
	{"crdIpam.allocatedFIPs", lkCache}, {"crdIpam.allocatedFIPs[]", lkCache},
	{"crdIpam.unallocatedFIPs", lkCache}, {"crdIpam.unallocatedFIPs[]", lkCache},
	{"crdIpam.FloatingIPs", lkCache}, {"crdIpam.FloatingIPs[]", imm},
	// mutable fields of the FloatingIP objects reached through the tables
	{"FloatingIP.Key", lkCache}, {"FloatingIP.Policy", lkCache}, {"FloatingIP.UpdatedAt", lkCache},
	{"FloatingIP.NodeName", lkCache}, {"FloatingIP.PodUid", lkCache}, {"FloatingIP.Labels", lkCache},
	{"FloatingIP.Labels[]", imm},
	// immutable after publication
	{"FloatingIP.IP", imm}, {"FloatingIP.pool", imm},
	{"FloatingIPPool.NodeSubnets", imm}, {"FloatingIPPool.NodeSubnets[]", imm},
	{"FloatingIPPool.nodeSubnets", imm}, {"FloatingIPPool.nodeSubnets[]", imm}, {"FloatingIPPool.index", imm},
	{"SparseSubnet.IPRanges", imm}, {"SparseSubnet.IPRanges[]", imm}, {"SparseSubnet.Gateway", imm},
	{"SparseSubnet.Mask", imm}, {"SparseSubnet.Vlan", imm},
	// pkg/ipam/schedulerplugin
	{"FloatingIPPlugin.nodeSubnet", lkNode}, {"FloatingIPPlugin.nodeSubnet[]", lkNode},
	{"crdKey.keyToGVR", lkCrdKey}, {"crdKey.keyToGVR[]", lkCrdKey},
	// pkg/ipam/cloudprovider: the gRPC client is dialled once, by whichever request comes first
	{"grpcCloudProvider.client", lkGrpcInit},
	// pkg/ipam/crd
	{"crdCache.startedInformers", lkCrdC}, {"crdCache.startedInformers[]", lkCrdC},
	// pkg/galaxy: the network configuration table is filled by Init and read-only afterwards; the
	// inner per-network maps are shared by every CNI request
	{"Galaxy.netConf", imm}, {"Galaxy.netConf[]", imm}, {"Galaxy.netConf[][]", imm},
	// pkg/network/portmapping
	{"PortMappingHandler.podPortMap", lkPort}, {"PortMappingHandler.podPortMap[]", lkPort},
	// pkg/policy: the slice is replaced wholesale under the mutex, never modified in place
	{"PolicyManager.policies", lkPolicy}, {"PolicyManager.policies[]", imm},
}

// struct types whose fields are tracked by static type -> package that declares them.  Accesses are
// recognised wherever the loaded packages select such a field.
var structPkg = map[string]string{
	"crdIpam": galaxy + "pkg/ipam/floatingip", "FloatingIP": galaxy + "pkg/ipam/floatingip",
	"FloatingIPPool": galaxy + "pkg/ipam/floatingip", "SparseSubnet": galaxy + "pkg/utils/nets",
	"FloatingIPPlugin": galaxy + "pkg/ipam/schedulerplugin", "crdKey": galaxy + "pkg/ipam/schedulerplugin",
	"crdCache": galaxy + "pkg/ipam/crd", "Galaxy": galaxy + "pkg/galaxy", "grpcCloudProvider": galaxy + "pkg/ipam/cloudprovider",
	"PortMappingHandler": galaxy + "pkg/network/portmapping", "PolicyManager": galaxy + "pkg/policy",
}

// entry points: every exported method of these types, plus the listed unexported ones (handlers and
// goroutine bodies registered by constructors), is walked with a SHARED receiver and no lock held.
type entryCfg struct {
	pkg, typ string
	exported bool     // all exported methods
	extra    []string // unexported roots
	skip     []string // exported methods that run before the instance is shared (walked as init instead)
	initOnly []string // walked with a thread-local receiver: verifies writes to immutable fields happen only here
	// parameters owned by the calling thread until the entry point stores them (caller passes a freshly
	// decoded object); recorded as an assumption in the evidence
	freshParams map[string][]string
}

var entries = []entryCfg{
	{pkg: galaxy + "pkg/ipam/floatingip", typ: "crdIpam", exported: true,
		extra:       []string{"handleFIPAssign", "handleFIPUnassign"},
		freshParams: map[string][]string{"ConfigurePool": {"floatIPs"}}},
	{pkg: galaxy + "pkg/ipam/schedulerplugin", typ: "FloatingIPPlugin", exported: true,
		extra: []string{"resyncPod", "syncPodIPsIntoDB", "updateConfigMap", "unbind", "loop", "getNodeSubnet", "queryNodeSubnet"}},
	{pkg: galaxy + "pkg/ipam/schedulerplugin", typ: "crdKey", exported: true},
	{pkg: galaxy + "pkg/ipam/crd", typ: "crdCache", exported: true},
	{pkg: galaxy + "pkg/ipam/cloudprovider", typ: "grpcCloudProvider", exported: true},
	{pkg: galaxy + "pkg/ipam/api", typ: "PoolController", exported: true},
	{pkg: galaxy + "pkg/ipam/api", typ: "Controller", exported: true},
	{pkg: galaxy + "pkg/galaxy", typ: "Galaxy", exported: false, extra: []string{"cni", "requestFunc", "cleanIPtables"},
		initOnly: []string{"Init"}},
	{pkg: galaxy + "pkg/network/portmapping", typ: "PortMappingHandler", exported: true},
	{pkg: galaxy + "pkg/policy", typ: "PolicyManager", exported: true,
		extra: []string{"syncPods", "syncNetworkPolices", "syncNetworkPolicyRules"}},
}

// methods of types outside the loaded packages that modify their receiver (sets.String etc.)
var mutatorNames = map[string]bool{"Insert": true, "Delete": true, "Add": true, "Set": true, "Store": true,
	"Remove": true, "Push": true, "Pop": true, "Reset": true, "PopAny": true, "Swap": true}

const maxDepth = 9
