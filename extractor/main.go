// extractor: Go AST -> Generated/Locks.v (C19 lock discipline, C18 lock balance).
//
//	extractor <repo dir> <out dir>
//
// writes <out>/Locks.v (Coq definitions checked by Props/C19.v's lockset_sound and by
// locks_balanced) and <out>/locks.json (the same data with source positions, for the driver).
// The translator is syntactic and TRUSTED: Coq checks its output, not the translator.
package main

import (
	"encoding/json"
	"fmt"
	"go/ast"
	"go/token"
	"go/types"
	"os"
	"path/filepath"
	"sort"
	"strings"
	"time"

	"golang.org/x/tools/go/packages"
)

type entryOut struct {
	Name     string   `json:"name"`
	Init     bool     `json:"init"`
	Accesses []access `json:"accesses"`
}

type output struct {
	Repo        string            `json:"repo"`
	Locks       []string          `json:"locks"`
	Locs        []string          `json:"locs"`
	Guards      map[string]string `json:"guards"`
	Entries     []entryOut        `json:"entries"`
	Diagnostics []string          `json:"diagnostics"`
	CacheWrites []cacheWrite      `json:"cache_writes"`
	GoWrites    []cacheWrite      `json:"go_writes"`
	Notes       []string          `json:"notes"`
	Stats       map[string]int    `json:"stats"`
	Functions   []fnPaths         `json:"functions"`
	FuncsTotal  int               `json:"functions_total"`
	Seconds     float64           `json:"seconds"`
}

func main() {
	if len(os.Args) < 3 {
		fmt.Fprintln(os.Stderr, "usage: extractor <repo> <outdir>")
		os.Exit(2)
	}
	t0 := time.Now()
	repo, outdir := os.Args[1], os.Args[2]
	cfg := &packages.Config{Mode: packages.NeedName | packages.NeedSyntax | packages.NeedTypes | packages.NeedTypesInfo |
		packages.NeedFiles | packages.NeedImports, Dir: repo}
	pkgs, err := packages.Load(cfg, loadPkgs...)
	if err != nil {
		fmt.Fprintln(os.Stderr, "load:", err)
		os.Exit(1)
	}
	prog := &program{funcs: map[string]*funcInfo{}, locs: map[string]locCfg{}}
	byPath := map[string]*packages.Package{}
	for _, p := range pkgs {
		if len(p.Errors) > 0 {
			fmt.Fprintln(os.Stderr, "package", p.PkgPath, "does not type-check:", p.Errors)
			os.Exit(1)
		}
		byPath[p.PkgPath] = p
		prog.fset = p.Fset
	}
	for _, path := range loadPkgs { // deterministic order
		p := byPath[path]
		if p == nil {
			fmt.Fprintln(os.Stderr, "package not loaded:", path)
			os.Exit(1)
		}
		prog.pkgs = append(prog.pkgs, p)
		for _, f := range p.Syntax {
			for _, d := range f.Decls {
				if fd, ok := d.(*ast.FuncDecl); ok && fd.Body != nil {
					if o, ok := p.TypesInfo.Defs[fd.Name].(*types.Func); ok {
						prog.funcs[funcKey(o)] = &funcInfo{funcKey(o), fd, p}
					}
				}
			}
		}
	}
	for _, l := range locations {
		prog.locs[l.name] = l
	}
	out := output{Repo: repo, Guards: map[string]string{}, Stats: map[string]int{}}
	lockIdx := map[string]int{}
	for _, l := range locations {
		out.Locs = append(out.Locs, l.name)
		if l.lock != "" {
			if _, ok := lockIdx[l.lock]; !ok {
				lockIdx[l.lock] = len(out.Locks)
				out.Locks = append(out.Locks, l.lock)
			}
			out.Guards[l.name] = l.lock
		}
	}
	// ---------------------------------------------------------------- C19: one walk per entry point
	var allDiags []string
	notes := map[string]bool{}
	for _, ec := range entries {
		p := byPath[ec.pkg]
		type ep struct {
			fd   *ast.FuncDecl
			init bool
		}
		var eps []ep
		for _, f := range p.Syntax {
			for _, d := range f.Decls {
				fd, ok := d.(*ast.FuncDecl)
				if !ok || fd.Body == nil || fd.Recv == nil || len(fd.Recv.List) != 1 {
					continue
				}
				if namedName(p.TypesInfo.TypeOf(fd.Recv.List[0].Type)) != ec.typ {
					continue
				}
				n := fd.Name.Name
				switch {
				case has(ec.initOnly, n):
					eps = append(eps, ep{fd, true})
				case has(ec.skip, n):
				case ec.exported && ast.IsExported(n), has(ec.extra, n):
					eps = append(eps, ep{fd, false})
				}
			}
		}
		sort.Slice(eps, func(i, j int) bool { return eps[i].fd.Name.Name < eps[j].fd.Name.Name })
		for _, n := range append(append([]string{}, ec.extra...), ec.initOnly...) {
			found := false
			for _, e := range eps {
				if e.fd.Name.Name == n {
					found = true
				}
			}
			if !found {
				allDiags = append(allDiags, fmt.Sprintf("configured entry point %s.%s no longer exists", ec.typ, n))
			}
		}
		for _, e := range eps {
			w := &walker{prog: prog, pkg: p, env: map[types.Object]aval{}, vdepth: map[types.Object]int{},
				globals: map[types.Object]*aobj{}, seen: map[string]bool{}, notFound: map[string]bool{}, stats: out.Stats}
			recv := w.newObj(e.init, ec.typ)
			recv.root = true
			name := ec.typ + "." + e.fd.Name.Name
			w.entryFresh = map[string]bool{}
			for _, fp := range ec.freshParams[e.fd.Name.Name] {
				w.entryFresh[fp] = true
			}
			res, _ := w.inline(name, p, e.fd.Recv, e.fd.Type, e.fd.Body, aval{recv}, nil, nil)
			// escape check: an entry point must hand out copies, never a pointer to a shared tracked struct
			for _, rv := range res {
				w.escapes(rv, e.fd.Pos(), name, 0, map[*aobj]bool{})
			}
			if len(realHeld(w.held)) > 0 {
				w.diag(e.fd.Body.Rbrace, "entry point %s returns holding %s", name, heldString(w.held))
			}
			out.Entries = append(out.Entries, entryOut{Name: name, Init: e.init, Accesses: w.out})
			allDiags = append(allDiags, w.diags...)
			for _, cw := range w.cacheW {
				cw.Via = name + ": " + cw.Via
				out.CacheWrites = append(out.CacheWrites, cw)
			}
			for _, gw := range w.goW {
				gw.Via = name + ": " + gw.Via
				out.GoWrites = append(out.GoWrites, gw)
			}
			for k := range w.notFound {
				notes[name+": "+k] = true
			}
			out.Stats["inlined calls"] += w.ncalls
		}
	}
	out.Diagnostics = uniq(allDiags)
	for k := range notes {
		out.Notes = append(out.Notes, k)
	}
	sort.Strings(out.Notes)
	// ---------------------------------------------------------------- C18: lock operations per function and path
	bw := &walker{prog: prog, env: map[types.Object]aval{}, vdepth: map[types.Object]int{}, globals: map[types.Object]*aobj{},
		seen: map[string]bool{}, notFound: map[string]bool{}, stats: map[string]int{}}
	b := &balancer{prog: prog, w: bw, memo: map[string][][]lop{}, active: map[string]bool{}, hasLock: map[string]bool{}}
	out.Functions, out.FuncsTotal = b.run()
	for _, f := range out.Functions {
		for _, p := range f.Paths {
			for _, o := range p {
				if _, ok := lockIdx[o.Lock]; !ok {
					lockIdx[o.Lock] = len(out.Locks)
					out.Locks = append(out.Locks, o.Lock)
				}
			}
		}
	}
	out.Seconds = time.Since(t0).Seconds()
	// ---------------------------------------------------------------- emit
	if err := os.MkdirAll(outdir, 0755); err != nil {
		fmt.Fprintln(os.Stderr, err)
		os.Exit(1)
	}
	js, _ := json.MarshalIndent(out, "", " ")
	if err := os.WriteFile(filepath.Join(outdir, "locks.json"), js, 0644); err != nil {
		fmt.Fprintln(os.Stderr, err)
		os.Exit(1)
	}
	if err := os.WriteFile(filepath.Join(outdir, "Locks.v"), []byte(emitCoq(&out, lockIdx)), 0644); err != nil {
		fmt.Fprintln(os.Stderr, err)
		os.Exit(1)
	}
	na := 0
	for _, e := range out.Entries {
		na += len(e.Accesses)
	}
	fmt.Printf("extractor: %d packages, %d entry points, %d accesses, %d functions with lock operations of %d, %d diagnostics, %.1fs\n",
		len(pkgs), len(out.Entries), na, len(out.Functions), out.FuncsTotal, len(out.Diagnostics), out.Seconds)
}

func has(l []string, s string) bool {
	for _, x := range l {
		if x == s {
			return true
		}
	}
	return false
}

func uniq(l []string) []string {
	seen := map[string]bool{}
	var r []string
	for _, s := range l {
		if !seen[s] {
			seen[s] = true
			r = append(r, s)
		}
	}
	return r
}

func nlist(ids []string, idx map[string]int) string {
	var s []string
	for _, id := range ids {
		s = append(s, fmt.Sprint(idx[id]))
	}
	return "[" + strings.Join(s, "; ") + "]"
}

func emitCoq(o *output, lockIdx map[string]int) string {
	var b strings.Builder
	locIdx := map[string]int{}
	fmt.Fprintf(&b, "(** GENERATED by /verif/extractor from the Go sources of %s - do not edit.\n", o.Repo)
	b.WriteString("    Entry points of the tracked packages with every access to a tracked shared location and the\n")
	b.WriteString("    locks syntactically held there (C19), and the lock operations of every function along every\n")
	b.WriteString("    path (C18 lock balance). *)\n")
	b.WriteString("From Coq Require Import List NArith Bool.\nFrom Galaxy.Model Require Import Lockset.\nImport ListNotations.\nOpen Scope N_scope.\n\n")
	b.WriteString("(* locks *)\n")
	for i, l := range o.Locks {
		fmt.Fprintf(&b, "(* %d = %s *)\n", i, l)
	}
	b.WriteString("(* locations; a location without guard is immutable after publication *)\n")
	var guards []string
	for i, l := range o.Locs {
		locIdx[l] = i
		g := "immutable after publication"
		if lk, ok := o.Guards[l]; ok {
			g = "guarded by " + lk
			guards = append(guards, fmt.Sprintf("(%d, %d)", i, lockIdx[lk]))
		}
		fmt.Fprintf(&b, "(* %d = %s : %s *)\n", i, l, g)
	}
	fmt.Fprintf(&b, "Definition guards : list (loc * lock) := [%s].\n", strings.Join(guards, "; "))
	b.WriteString("Definition lock_of : loc -> option lock := lock_of_table guards.\n")
	b.WriteString("Definition W (x : loc) (hw hr : list lock) : acc := {| a_write := true; a_loc := x; a_hw := hw; a_hr := hr |}.\n")
	b.WriteString("Definition R (x : loc) (hw hr : list lock) : acc := {| a_write := false; a_loc := x; a_hw := hw; a_hr := hr |}.\n\n")
	var names []string
	for i, e := range o.Entries {
		if e.Init {
			continue // runs before the instance is shared; its accesses on the thread-local receiver were skipped
		}
		fmt.Fprintf(&b, "(* %s *)\nDefinition e_%d : list acc := [", cm(e.Name), i)
		for j, a := range e.Accesses {
			if j > 0 {
				b.WriteString(";")
			}
			k := "R"
			if a.Write {
				k = "W"
			}
			fmt.Fprintf(&b, "\n  %s %d %s %s (* %s %s *)", k, locIdx[a.Loc], nlist(a.HW, lockIdx), nlist(a.HR, lockIdx), a.Loc, a.Pos)
		}
		b.WriteString("].\n")
		names = append(names, fmt.Sprintf("e_%d", i))
	}
	fmt.Fprintf(&b, "\nDefinition entries : list (list acc) := [%s].\n", strings.Join(names, "; "))
	b.WriteString("Definition generated : list prog := map prog_of_entry entries.\n\n")
	b.WriteString("(* lock operations per function and path *)\n")
	var fnames []string
	for i, f := range o.Functions {
		fmt.Fprintf(&b, "(* %s %s *)\nDefinition f_%d : list (list lop) := [", cm(f.Name), f.Pos, i)
		for j, p := range f.Paths {
			if j > 0 {
				b.WriteString(";")
			}
			b.WriteString("\n  [")
			for k, op := range p {
				if k > 0 {
					b.WriteString("; ")
				}
				act := map[string]string{"Lock": "Acq", "Unlock": "Rel", "RLock": "RAcq", "RUnlock": "RRel"}[op.Op]
				if op.Defer {
					fmt.Fprintf(&b, "LDefer (%s %d)", act, lockIdx[op.Lock])
				} else {
					fmt.Fprintf(&b, "LAct (%s %d)", act, lockIdx[op.Lock])
				}
			}
			b.WriteString("]")
		}
		b.WriteString("].\n")
		fnames = append(fnames, fmt.Sprintf("f_%d", i))
	}
	fmt.Fprintf(&b, "\nDefinition fn_paths : list (list (list lop)) := [%s].\n", strings.Join(fnames, "; "))
	return b.String()
}

// cm makes a string safe inside a Coq comment
func cm(s string) string {
	return strings.ReplaceAll(strings.ReplaceAll(s, "(*", "("), "*)", ")")
}

var _ = token.NoPos
