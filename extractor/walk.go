package main

// The abstract walk.  One pass per entry point over the Go AST with
//   - a linear lock state (locks syntactically held, with the abstract object that owns each lock),
//   - an abstract heap of objects: thread-local ("fresh": allocated by this thread and not yet stored
//     in shared memory) or shared, with the tracked location their contents belong to,
//   - calls into loaded packages inlined (depth <= maxDepth, no recursion), closures replayed where
//     they are called, deferred calls run at every return.
// Every read/write of a tracked location on a shared object is recorded with the locks held.

import (
	"fmt"
	"go/ast"
	"go/token"
	"go/types"
	"sort"
	"strings"

	"golang.org/x/tools/go/packages"
)

type closure struct {
	lit *ast.FuncLit
	pkg *packages.Package
}

type aobj struct {
	id      int
	fresh   bool
	tag     string // tracked location of this object's CONTENTS ("" = none)
	parent  *aobj
	typ     string // named struct type, if known
	fields  map[string]aval
	elems   aval
	unknown *aobj // lazily created "some element already in there" of a shared container
	fn      *closure
	decl    *funcInfo
	recv    aval // bound receiver of a method value
	root    bool // the shared instance an entry point runs on
	// cache != "": the object was handed out by an informer cache (a Lister / Indexer / Store method): it is the cache's own
	// object, shared with every other reader and with the informer itself, and must never be written (client-go contract:
	// DeepCopy before modifying)
	cache string
}

type aval []*aobj

func (v aval) add(o *aobj) aval {
	if o == nil {
		return v
	}
	for _, x := range v {
		if x == o {
			return v
		}
	}
	return append(v, o)
}

func union(a, b aval) aval {
	r := append(aval{}, a...)
	for _, o := range b {
		r = r.add(o)
	}
	return r
}

type held struct {
	id    string
	owner *aobj
	mode  byte // 'W' or 'R'
	// once: a sync.Once seen as a lock - the function passed to Do runs holding it in mode W, everything after a Do call
	// on this path holds it in mode R for good (Do returns only after the one execution of the function has completed and
	// the function never runs again): sticky entries are not "locks still held" at a return
	once bool
}

func realHeld(h []held) []held {
	var r []held
	for _, x := range h {
		if !x.once {
			r = append(r, x)
		}
	}
	return r
}

// cacheWrite: a store through an object handed out by an informer cache
type cacheWrite struct {
	What string `json:"what"`
	From string `json:"from"`
	Pos  string `json:"pos"`
	Via  string `json:"via"`
}

type access struct {
	Loc   string   `json:"loc"`
	Write bool     `json:"write"`
	HW    []string `json:"hw"`
	HR    []string `json:"hr"`
	Pos   string   `json:"pos"`
	Via   string   `json:"via"`
}

type funcInfo struct {
	key  string
	decl *ast.FuncDecl
	pkg  *packages.Package
}

type deferred struct {
	call     *ast.CallExpr
	pkg      *packages.Package
	closures aval // for `defer f(x)()`: the value of f(x), computed when the defer statement ran
}

type frame struct {
	defers   []deferred
	results  []aval
	named    []types.Object
	exitHeld []held
	hasExit  bool
	name     string
}

type walker struct {
	prog     *program
	pkg      *packages.Package
	env      map[types.Object]aval
	vdepth   map[types.Object]int
	globals  map[types.Object]*aobj
	held     []held
	frames   []*frame
	stack    []string
	cond     int
	out      []access
	cacheW   []cacheWrite
	goW      []cacheWrite
	// goroutine bodies: goSpawn is set by a go statement and consumed by the inline of the function literal it starts;
	// while goActive, goRange is the source range of that literal and goInLoop says the go statement sat in a loop
	goSpawn, goActive, goInLoop bool
	goRange                     [2]token.Pos
	loopDepth                   int
	seen     map[string]bool
	diags    []string
	nextID   int
	ncalls   int
	notFound map[string]bool
	stats    map[string]int
	// parameters of the entry point that the calling thread owns (config.go freshParams)
	entryFresh map[string]bool
}

type program struct {
	pkgs  []*packages.Package
	funcs map[string]*funcInfo
	locs  map[string]locCfg
	fset  *token.FileSet
}

func (w *walker) newObj(fresh bool, typ string) *aobj {
	w.nextID++
	return &aobj{id: w.nextID, fresh: fresh, typ: typ, fields: map[string]aval{}}
}

func (w *walker) diag(pos token.Pos, format string, a ...interface{}) {
	s := fmt.Sprintf("%s: %s", w.position(pos), fmt.Sprintf(format, a...))
	for _, d := range w.diags {
		if d == s {
			return
		}
	}
	w.diags = append(w.diags, s)
}

func (w *walker) position(pos token.Pos) string {
	p := w.prog.fset.Position(pos)
	f := p.Filename
	if i := strings.Index(f, "/pkg/"); i >= 0 {
		f = f[i+1:]
	}
	return fmt.Sprintf("%s:%d", f, p.Line)
}

// ------------------------------------------------------------------ types
func deref(t types.Type) types.Type {
	if t == nil {
		return nil
	}
	t = types.Unalias(t)
	if p, ok := t.Underlying().(*types.Pointer); ok {
		return types.Unalias(p.Elem())
	}
	return t
}

func namedName(t types.Type) string {
	t = deref(t)
	if n, ok := t.(*types.Named); ok {
		return n.Obj().Name()
	}
	return ""
}

func namedPkg(t types.Type) string {
	t = deref(t)
	if n, ok := t.(*types.Named); ok && n.Obj().Pkg() != nil {
		return n.Obj().Pkg().Path()
	}
	return ""
}

// trackedStruct returns the struct name if t (or *t) is one of the configured struct types
func trackedStruct(t types.Type) string {
	n := namedName(t)
	if n != "" && structPkg[n] == namedPkg(t) {
		return n
	}
	return ""
}

func isStructValue(t types.Type) bool {
	if t == nil {
		return false
	}
	t = types.Unalias(t)
	if _, ok := t.Underlying().(*types.Struct); ok {
		return true
	}
	return false
}

// fieldDecl returns the struct (name, tracked?) that directly declares the selected field
func fieldDecl(sel *types.Selection) (structName string, embeddedPath []string) {
	t := sel.Recv()
	idx := sel.Index()
	for i, k := range idx {
		t = deref(t)
		st, ok := t.Underlying().(*types.Struct)
		if !ok {
			return "", nil
		}
		if i == len(idx)-1 {
			return trackedStruct(t), embeddedPath
		}
		embeddedPath = append(embeddedPath, st.Field(k).Name())
		t = st.Field(k).Type()
	}
	return "", nil
}

// ------------------------------------------------------------------ heap
func (w *walker) contentTag(parentTag string) string {
	t := parentTag + "[]"
	if _, ok := w.prog.locs[t]; ok {
		return t
	}
	return ""
}

// field value of o; created lazily for objects we did not build ourselves
func (w *walker) getField(o *aobj, strct, f string, ft types.Type) aval {
	if v, ok := o.fields[f]; ok {
		return v
	}
	c := w.newObj(o.fresh, trackedStruct(ft))
	c.parent = o
	c.cache = o.cache
	if strct != "" {
		if _, ok := w.prog.locs[strct+"."+f]; ok {
			c.tag = w.contentTag(strct + "." + f)
		}
	}
	o.fields[f] = aval{c}
	return o.fields[f]
}

func (w *walker) getElems(o *aobj, et types.Type) aval {
	r := append(aval{}, o.elems...)
	if !o.fresh {
		if o.unknown == nil {
			u := w.newObj(false, trackedStruct(et))
			u.parent = o
			u.cache = o.cache
			if o.tag != "" {
				u.tag = w.contentTag(o.tag)
			}
			o.unknown = u
		}
		r = r.add(o.unknown)
	}
	return r
}

// publish: the object (and everything reachable from it) becomes visible to other threads
func (w *walker) publish(v aval, parent *aobj, tag string, depth int) {
	if depth > 6 {
		return
	}
	for _, o := range v {
		if !o.fresh {
			continue
		}
		o.fresh = false
		if o.parent == nil {
			o.parent = parent
		}
		if o.tag == "" {
			o.tag = tag
		}
		for _, fv := range o.fields {
			w.publish(fv, o, "", depth+1)
		}
		et := ""
		if o.tag != "" {
			et = w.contentTag(o.tag)
		}
		w.publish(o.elems, o, et, depth+1)
	}
}

// ------------------------------------------------------------------ accesses
func (w *walker) lockOwnerFor(o *aobj, lockID string) *aobj {
	want := lockID[:strings.Index(lockID, ".")]
	for a, n := o, 0; a != nil && n < 12; a, n = a.parent, n+1 {
		if a.typ == want {
			return a
		}
	}
	return nil
}

func (w *walker) record(o *aobj, loc string, write bool, pos token.Pos) {
	cfg, ok := w.prog.locs[loc]
	if !ok || o == nil {
		return
	}
	if o.fresh {
		w.stats["thread-local accesses skipped"]++
		return
	}
	a := access{Loc: loc, Write: write, Pos: w.position(pos), Via: strings.Join(w.stack, " > "), HW: []string{}, HR: []string{}}
	if cfg.lock != "" {
		owner := w.lockOwnerFor(o, cfg.lock)
		for _, h := range w.held {
			if h.id != cfg.lock {
				continue
			}
			if owner != nil && h.owner != nil && h.owner != owner {
				continue // the same kind of lock, but of another instance
			}
			if h.mode == 'W' {
				a.HW = append(a.HW, h.id)
			} else {
				a.HR = append(a.HR, h.id)
			}
		}
	}
	sort.Strings(a.HW)
	sort.Strings(a.HR)
	k := fmt.Sprint(a.Loc, a.Write, a.HW, a.HR, a.Pos)
	if w.seen[k] {
		return
	}
	w.seen[k] = true
	w.out = append(w.out, a)
}

// noteCacheWrite: a field / element / whole-value store through an informer-cache object
func (w *walker) noteCacheWrite(v aval, what string, pos token.Pos) {
	for _, o := range v {
		if o.cache == "" || o.fresh {
			continue
		}
		k := "cachewrite" + what + w.position(pos)
		if w.seen[k] {
			continue
		}
		w.seen[k] = true
		w.cacheW = append(w.cacheW, cacheWrite{What: what, From: o.cache, Pos: w.position(pos), Via: strings.Join(w.stack, " > ")})
	}
}

// hasProvenance: the object is the entry point's instance or was reached through it / through a tracked table
func hasProvenance(o *aobj) bool {
	for a, n := o, 0; a != nil && n < 12; a, n = a.parent, n+1 {
		if a.root || a.tag != "" {
			return true
		}
	}
	return false
}

// recordField: access to a field tracked by its static struct type.  Outside the package that declares the
// struct, an object of unknown origin is a COPY handed out by that package's exported API (the walk checks
// that no entry point returns a pointer to a shared tracked struct), not the shared object itself.
func (w *walker) recordField(o *aobj, strct, f string, write bool, pos token.Pos) {
	if !o.fresh && !hasProvenance(o) && w.pkg.PkgPath != structPkg[strct] {
		w.stats["accesses to copies outside the declaring package skipped"]++
		return
	}
	w.record(o, strct+"."+f, write, pos)
}

// content access of every object in v
func (w *walker) content(v aval, write bool, pos token.Pos) {
	for _, o := range v {
		if o.tag != "" {
			w.record(o, o.tag, write, pos)
		}
	}
}

// whole-struct access (copy *p, or a value passed to code we do not see)
func (w *walker) wholeStruct(v aval, t types.Type, write bool, pos token.Pos) {
	s := trackedStruct(t)
	if s == "" {
		return
	}
	for name := range w.prog.locs {
		if strings.HasPrefix(name, s+".") && !strings.HasSuffix(name, "]") {
			for _, o := range v {
				w.recordField(o, s, name[len(s)+1:], write, pos)
			}
		}
	}
}

// everything an opaque callee can read through v
func (w *walker) deepRead(v aval, write bool, pos token.Pos, depth int, visited map[*aobj]bool) {
	if depth > 4 {
		return
	}
	for _, o := range v {
		if visited[o] {
			continue
		}
		visited[o] = true
		if o.tag != "" {
			w.record(o, o.tag, write, pos)
		}
		for _, fv := range o.fields {
			w.deepRead(fv, false, pos, depth+1, visited)
		}
		w.deepRead(o.elems, false, pos, depth+1, visited)
	}
}

func (w *walker) escapes(v aval, pos token.Pos, name string, depth int, vis map[*aobj]bool) {
	if depth > 4 {
		return
	}
	for _, o := range v {
		if vis[o] {
			continue
		}
		vis[o] = true
		if !o.fresh && hasProvenance(o) && o.typ != "" && !o.root {
			for loc, cfg := range w.prog.locs {
				if strings.HasPrefix(loc, o.typ+".") && cfg.lock != "" {
					w.diag(pos, "%s returns a pointer to a shared %s (its lock-guarded fields escape the lock)", name, o.typ)
					break
				}
			}
		}
		for _, fv := range o.fields {
			w.escapes(fv, pos, name, depth+1, vis)
		}
		w.escapes(o.elems, pos, name, depth+1, vis)
	}
}

// ------------------------------------------------------------------ locks
func copyHeld(h []held) []held { return append([]held{}, h...) }

func sameHeld(a, b []held) bool {
	if len(a) != len(b) {
		return false
	}
	for i := range a {
		if a[i] != b[i] {
			return false
		}
	}
	return true
}

func meetHeld(a, b []held) []held {
	var r []held
	for _, x := range a {
		for _, y := range b {
			if x == y {
				r = append(r, x)
				break
			}
		}
	}
	return r
}

func heldString(h []held) string {
	var s []string
	for _, x := range h {
		s = append(s, fmt.Sprintf("%s(%c)", x.id, x.mode))
	}
	return "[" + strings.Join(s, " ") + "]"
}

func (w *walker) lockOp(id string, owner *aobj, op string, pos token.Pos) {
	switch op {
	case "Lock", "RLock":
		for _, h := range w.held {
			if h.id == id && (h.owner == owner || h.owner == nil || owner == nil) {
				w.diag(pos, "%s of %s while this thread already holds it (Go locks are not re-entrant)", op, id)
			}
		}
		m := byte('W')
		if op == "RLock" {
			m = 'R'
		}
		w.held = append(w.held, held{id, owner, m, false})
	case "Unlock", "RUnlock":
		m := byte('W')
		if op == "RUnlock" {
			m = 'R'
		}
		for i := len(w.held) - 1; i >= 0; i-- {
			h := w.held[i]
			if h.id == id && h.mode == m && (h.owner == owner || h.owner == nil || owner == nil) {
				w.held = append(copyHeld(w.held[:i]), w.held[i+1:]...)
				return
			}
		}
		w.diag(pos, "%s of %s which is not held in that mode here", op, id)
	}
}

// isOnceDo recognises X.f.Do(fn) where f is a sync.Once field of a named struct: id "Struct.f", owner X
func (w *walker) isOnceDo(c *ast.CallExpr) (id string, ownerExpr ast.Expr, ok bool) {
	se, isSel := c.Fun.(*ast.SelectorExpr)
	if !isSel || len(c.Args) != 1 {
		return
	}
	sel := w.pkg.TypesInfo.Selections[se]
	if sel == nil || sel.Kind() != types.MethodVal {
		return
	}
	fn, isFn := sel.Obj().(*types.Func)
	if !isFn || fn.FullName() != "(*sync.Once).Do" {
		return
	}
	if x, isX := ast.Unparen(se.X).(*ast.SelectorExpr); isX {
		if fs := w.pkg.TypesInfo.Selections[x]; fs != nil && fs.Kind() == types.FieldVal {
			t := fs.Recv()
			idx := fs.Index()
			for i := 0; i < len(idx)-1; i++ {
				t = deref(t).Underlying().(*types.Struct).Field(idx[i]).Type()
			}
			return namedName(t) + "." + x.Sel.Name, x.X, true
		}
	}
	return
}

// isLockCall recognises X.Lock()/Unlock()/RLock()/RUnlock() on sync.Mutex / sync.RWMutex
func (w *walker) isLockCall(c *ast.CallExpr) (id string, ownerExpr ast.Expr, op string, ok bool) {
	se, isSel := c.Fun.(*ast.SelectorExpr)
	if !isSel {
		return
	}
	sel := w.pkg.TypesInfo.Selections[se]
	if sel == nil || sel.Kind() != types.MethodVal {
		return
	}
	fn, isFn := sel.Obj().(*types.Func)
	if !isFn || fn.Pkg() == nil || fn.Pkg().Path() != "sync" {
		return
	}
	full := fn.FullName()
	if !strings.HasPrefix(full, "(*sync.Mutex).") && !strings.HasPrefix(full, "(*sync.RWMutex).") {
		return
	}
	op = fn.Name()
	if op != "Lock" && op != "Unlock" && op != "RLock" && op != "RUnlock" {
		return
	}
	if len(sel.Index()) > 1 {
		// embedded mutex: X is the struct that embeds it
		t := deref(sel.Recv())
		st, isSt := t.Underlying().(*types.Struct)
		if !isSt {
			return
		}
		return namedName(t) + "." + st.Field(sel.Index()[0]).Name(), se.X, op, true
	}
	// X is the mutex itself
	switch x := ast.Unparen(se.X).(type) {
	case *ast.SelectorExpr:
		if fs := w.pkg.TypesInfo.Selections[x]; fs != nil && fs.Kind() == types.FieldVal {
			t := fs.Recv()
			idx := fs.Index()
			for i := 0; i < len(idx)-1; i++ {
				t = deref(t).Underlying().(*types.Struct).Field(idx[i]).Type()
			}
			return namedName(t) + "." + x.Sel.Name, x.X, op, true
		}
	case *ast.Ident:
		return "var." + x.Name, nil, op, true
	}
	return "expr." + types.ExprString(se.X), nil, op, true
}

// ------------------------------------------------------------------ expressions
func (w *walker) typeOf(e ast.Expr) types.Type { return w.pkg.TypesInfo.TypeOf(e) }

func (w *walker) bind(obj types.Object, v aval) {
	if obj == nil {
		return
	}
	if d, ok := w.vdepth[obj]; ok && w.cond > d {
		w.env[obj] = union(w.env[obj], v) // assignment under a condition: the old value may survive
		return
	}
	w.env[obj] = v
	if _, ok := w.vdepth[obj]; !ok {
		w.vdepth[obj] = w.cond
	}
}

func (w *walker) declare(obj types.Object, v aval) {
	if obj == nil {
		return
	}
	w.env[obj] = v
	w.vdepth[obj] = w.cond
}

func (w *walker) lookup(obj types.Object, pos token.Pos) aval {
	if v, ok := w.env[obj]; ok {
		return v
	}
	switch o := obj.(type) {
	case *types.Var:
		if o.Parent() != nil && o.Pkg() != nil && o.Parent() == o.Pkg().Scope() || o.Pkg() != nil && o.Parent() == nil && !o.IsField() {
			g := w.globals[obj]
			if g == nil {
				g = w.newObj(false, trackedStruct(o.Type()))
				w.globals[obj] = g
			}
			return aval{g}
		}
		u := w.newObj(false, trackedStruct(o.Type())) // a variable we never saw being set: unknown, shared
		w.env[obj] = aval{u}
		w.vdepth[obj] = 0
		return w.env[obj]
	case *types.Func:
		if fi := w.prog.funcs[funcKey(o)]; fi != nil {
			f := w.newObj(true, "")
			f.decl = fi
			return aval{f}
		}
	}
	return nil
}

// loadValue evaluates e as an rvalue: a struct VALUE is copied (reading every tracked field of the
// original), everything else is a reference to the same abstract objects
func (w *walker) loadValue(e ast.Expr) aval {
	v := w.eval(e)
	t := w.typeOf(e)
	if !isStructValue(t) {
		return v
	}
	switch ast.Unparen(e).(type) {
	case *ast.CompositeLit, *ast.CallExpr:
		return v
	}
	w.wholeStruct(v, t, false, e.Pos())
	c := w.newObj(true, trackedStruct(t))
	for _, o := range v {
		for f, fv := range o.fields {
			c.fields[f] = union(c.fields[f], fv)
		}
	}
	return aval{c}
}

func (w *walker) eval(e ast.Expr) aval {
	switch x := e.(type) {
	case nil:
		return nil
	case *ast.Ident:
		if x.Name == "_" || x.Name == "nil" {
			return nil
		}
		obj := w.pkg.TypesInfo.ObjectOf(x)
		if obj == nil {
			return nil
		}
		return w.lookup(obj, x.Pos())
	case *ast.ParenExpr:
		return w.eval(x.X)
	case *ast.SelectorExpr:
		return w.evalSelector(x, false)
	case *ast.CallExpr:
		r := w.call(x)
		if len(r) > 0 {
			return r[0]
		}
		return nil
	case *ast.IndexExpr:
		if tv, ok := w.pkg.TypesInfo.Types[x.X]; ok && tv.IsType() {
			return nil
		}
		base := w.eval(x.X)
		w.eval(x.Index)
		w.content(base, false, x.Pos())
		var r aval
		for _, o := range base {
			r = union(r, w.getElems(o, w.typeOf(x)))
		}
		return r
	case *ast.SliceExpr:
		base := w.eval(x.X)
		w.eval(x.Low)
		w.eval(x.High)
		w.eval(x.Max)
		w.content(base, false, x.Pos())
		return base
	case *ast.StarExpr:
		return w.eval(x.X) // pointer and pointee share the abstract object; copies are made by loadValue
	case *ast.UnaryExpr:
		v := w.eval(x.X)
		if x.Op == token.AND {
			return v
		}
		if x.Op == token.ARROW {
			return aval{w.newObj(false, trackedStruct(w.typeOf(x)))}
		}
		return nil
	case *ast.BinaryExpr:
		w.eval(x.X)
		w.eval(x.Y)
		return nil
	case *ast.KeyValueExpr:
		w.eval(x.Key)
		return w.eval(x.Value)
	case *ast.CompositeLit:
		t := w.typeOf(x)
		o := w.newObj(true, trackedStruct(t))
		var st *types.Struct
		if t != nil {
			st, _ = deref(t).Underlying().(*types.Struct)
		}
		for i, el := range x.Elts {
			if kv, ok := el.(*ast.KeyValueExpr); ok {
				if id, ok := kv.Key.(*ast.Ident); ok && st != nil {
					o.fields[id.Name] = w.loadValue(kv.Value)
					continue
				}
				w.eval(kv.Key)
				o.elems = union(o.elems, w.loadValue(kv.Value))
				continue
			}
			if st != nil && i < st.NumFields() {
				o.fields[st.Field(i).Name()] = w.loadValue(el)
			} else {
				o.elems = union(o.elems, w.loadValue(el))
			}
		}
		return aval{o}
	case *ast.FuncLit:
		o := w.newObj(true, "")
		o.fn = &closure{x, w.pkg}
		return aval{o}
	case *ast.TypeAssertExpr:
		return w.eval(x.X)
	case *ast.BasicLit:
		return nil
	}
	return nil
}

// evalSelector: X.f as rvalue (lhs=false: records the slot read) or as the target of a store (lhs=true)
func (w *walker) evalSelector(x *ast.SelectorExpr, lhs bool) aval {
	sel := w.pkg.TypesInfo.Selections[x]
	if sel == nil {
		// qualified identifier pkg.Name
		if obj := w.pkg.TypesInfo.ObjectOf(x.Sel); obj != nil {
			return w.lookup(obj, x.Pos())
		}
		return nil
	}
	base := w.eval(x.X)
	switch sel.Kind() {
	case types.FieldVal:
		strct, path := fieldDecl(sel)
		// step through embedded structs
		for _, emb := range path {
			var nb aval
			for _, o := range base {
				nb = union(nb, w.getField(o, "", emb, nil))
			}
			base = nb
		}
		f := x.Sel.Name
		var r aval
		for _, o := range base {
			if strct != "" && !lhs {
				w.recordField(o, strct, f, false, x.Sel.Pos())
			}
			r = union(r, w.getField(o, strct, f, sel.Type()))
		}
		return r
	case types.MethodVal:
		if fn, ok := sel.Obj().(*types.Func); ok {
			if fi := w.prog.funcs[funcKey(fn)]; fi != nil {
				m := w.newObj(true, "")
				m.decl = fi
				m.recv = base
				return aval{m}
			}
		}
	}
	return nil
}

// store v into the place denoted by lhs
// noteGoWrite: inside the literal body of a goroutine that was started in a loop, a store whose root is a variable of the
// ENCLOSING function (captured by the literal), with no lock held: every instance of the goroutine writes the same variable
func (w *walker) noteGoWrite(lhs ast.Expr) {
	if !w.goActive || !w.goInLoop || len(realHeld(w.held)) > 0 {
		return
	}
	if lhs.Pos() < w.goRange[0] || lhs.Pos() > w.goRange[1] {
		return
	}
	e := ast.Unparen(lhs)
	for {
		switch x := e.(type) {
		case *ast.IndexExpr:
			e = ast.Unparen(x.X)
			continue
		case *ast.SelectorExpr:
			e = ast.Unparen(x.X)
			continue
		case *ast.StarExpr:
			e = ast.Unparen(x.X)
			continue
		}
		break
	}
	id, ok := e.(*ast.Ident)
	if !ok || id.Name == "_" {
		return
	}
	obj, ok := w.pkg.TypesInfo.ObjectOf(id).(*types.Var)
	if !ok || obj.IsField() || obj.Pkg() == nil || obj.Parent() == obj.Pkg().Scope() {
		return
	}
	if obj.Pos() >= w.goRange[0] && obj.Pos() <= w.goRange[1] {
		return // declared inside the goroutine (or one of its parameters)
	}
	k := "gowrite" + w.position(lhs.Pos())
	if w.seen[k] {
		return
	}
	w.seen[k] = true
	w.goW = append(w.goW, cacheWrite{What: "variable " + id.Name + " of the enclosing function", From: "go statement in a loop",
		Pos: w.position(lhs.Pos()), Via: strings.Join(w.stack, " > ")})
}

func (w *walker) store(lhs ast.Expr, v aval, pos token.Pos) {
	w.noteGoWrite(lhs)
	switch x := ast.Unparen(lhs).(type) {
	case *ast.Ident:
		if x.Name == "_" {
			return
		}
		obj := w.pkg.TypesInfo.ObjectOf(x)
		if obj == nil {
			return
		}
		if vr, ok := obj.(*types.Var); ok && vr.Pkg() != nil && vr.Parent() == vr.Pkg().Scope() {
			w.publish(v, w.lookup(obj, pos)[0], "", 0) // stored in a package-level variable
			return
		}
		w.bind(obj, v)
	case *ast.SelectorExpr:
		sel := w.pkg.TypesInfo.Selections[x]
		if sel == nil || sel.Kind() != types.FieldVal {
			if obj := w.pkg.TypesInfo.ObjectOf(x.Sel); obj != nil {
				if g := w.lookup(obj, pos); len(g) > 0 {
					w.publish(v, g[0], "", 0)
				}
			}
			return
		}
		strct, path := fieldDecl(sel)
		base := w.eval(x.X)
		for _, emb := range path {
			var nb aval
			for _, o := range base {
				nb = union(nb, w.getField(o, "", emb, nil))
			}
			base = nb
		}
		f := x.Sel.Name
		w.noteCacheWrite(base, "field "+f, x.Sel.Pos())
		for _, o := range base {
			tag := ""
			if strct != "" {
				w.recordField(o, strct, f, true, x.Sel.Pos())
				if _, ok := w.prog.locs[strct+"."+f]; ok {
					tag = w.contentTag(strct + "." + f)
				}
			}
			if !o.fresh {
				w.publish(v, o, tag, 0)
			} else {
				for _, c := range v {
					if c.tag == "" && tag != "" && c.fresh {
						c.tag = tag
						if c.parent == nil {
							c.parent = o
						}
					}
				}
			}
			if len(base) == 1 && w.cond == 0 {
				o.fields[f] = v
			} else {
				o.fields[f] = union(o.fields[f], v)
			}
		}
	case *ast.IndexExpr:
		base := w.eval(x.X)
		w.eval(x.Index)
		w.content(base, true, x.Pos())
		w.noteCacheWrite(base, "element", x.Pos())
		for _, o := range base {
			if !o.fresh {
				et := ""
				if o.tag != "" {
					et = w.contentTag(o.tag)
				}
				w.publish(v, o, et, 0)
			}
			o.elems = union(o.elems, v)
		}
	case *ast.StarExpr:
		base := w.eval(x.X)
		w.wholeStruct(base, w.typeOf(x), true, x.Pos())
		w.noteCacheWrite(base, "whole value", x.Pos())
		for _, o := range base {
			for _, s := range v {
				for f, fv := range s.fields {
					o.fields[f] = union(o.fields[f], fv)
					if !o.fresh {
						w.publish(fv, o, "", 0)
					}
				}
			}
		}
	default:
		w.eval(lhs)
	}
}

// ------------------------------------------------------------------ calls
func funcKey(fn *types.Func) string {
	return fn.FullName()
}

var fatalFuncs = map[string]bool{"os.Exit": true, "k8s.io/klog.Fatal": true, "k8s.io/klog.Fatalf": true,
	"k8s.io/klog.Fatalln": true, "log.Fatal": true, "log.Fatalf": true, "log.Panicf": true, "log.Panic": true,
	"k8s.io/klog/v2.Fatal": true, "k8s.io/klog/v2.Fatalf": true}

func (w *walker) staticCallee(c *ast.CallExpr) *types.Func {
	switch f := ast.Unparen(c.Fun).(type) {
	case *ast.Ident:
		fn, _ := w.pkg.TypesInfo.ObjectOf(f).(*types.Func)
		return fn
	case *ast.SelectorExpr:
		fn, _ := w.pkg.TypesInfo.ObjectOf(f.Sel).(*types.Func)
		return fn
	}
	return nil
}

func (w *walker) isTerminatingCall(c *ast.CallExpr) bool {
	if id, ok := c.Fun.(*ast.Ident); ok && id.Name == "panic" {
		if _, isB := w.pkg.TypesInfo.ObjectOf(id).(*types.Builtin); isB {
			return true
		}
	}
	if fn := w.staticCallee(c); fn != nil {
		return fatalFuncs[fn.FullName()]
	}
	return false
}

func (w *walker) call(c *ast.CallExpr) []aval {
	info := w.pkg.TypesInfo
	// conversion
	if tv, ok := info.Types[c.Fun]; ok && tv.IsType() {
		if len(c.Args) == 1 {
			return []aval{w.eval(c.Args[0])}
		}
		return nil
	}
	// builtins
	if id, ok := ast.Unparen(c.Fun).(*ast.Ident); ok {
		if _, isB := info.ObjectOf(id).(*types.Builtin); isB {
			return []aval{w.builtin(id.Name, c)}
		}
	}
	// sync.Once: X.f.Do(func)
	if id, ownerExpr, ok := w.isOnceDo(c); ok {
		var owner *aobj
		if ov := w.eval(ownerExpr); len(ov) > 0 {
			owner = ov[0]
		}
		done := false
		for _, h := range w.held {
			if h.once && h.id == id && h.owner == owner {
				done = true
			}
		}
		arg := w.loadValue(c.Args[0])
		if !done {
			w.held = append(w.held, held{id, owner, 'W', true})
			for _, o := range arg {
				if o.fn != nil {
					w.inline(fmt.Sprintf("func@%s", w.position(o.fn.lit.Pos())), o.fn.pkg, nil, o.fn.lit.Type, o.fn.lit.Body, nil, nil, c)
				} else if o.decl != nil {
					w.inline(o.decl.key, o.decl.pkg, o.decl.decl.Recv, o.decl.decl.Type, o.decl.decl.Body, o.recv, nil, c)
				}
			}
			for i := len(w.held) - 1; i >= 0; i-- {
				if w.held[i].once && w.held[i].id == id && w.held[i].owner == owner && w.held[i].mode == 'W' {
					w.held = append(copyHeld(w.held[:i]), w.held[i+1:]...)
					break
				}
			}
			w.held = append(w.held, held{id, owner, 'R', true})
		}
		return nil
	}
	// lock operations
	if id, ownerExpr, op, ok := w.isLockCall(c); ok {
		var owner *aobj
		if ownerExpr != nil {
			if ov := w.eval(ownerExpr); len(ov) > 0 {
				owner = ov[0]
			}
		}
		w.lockOp(id, owner, op, c.Pos())
		return nil
	}
	// who is called?
	var recv aval
	var hasRecv bool
	var targets aval // closures / declared functions as values
	var fi *funcInfo
	fn := w.staticCallee(c)
	switch f := ast.Unparen(c.Fun).(type) {
	case *ast.SelectorExpr:
		sel := info.Selections[f]
		if sel != nil && sel.Kind() == types.MethodVal {
			recv = w.eval(f.X)
			hasRecv = true
			// step through embedded structs to the declaring receiver
			idx := sel.Index()
			t := sel.Recv()
			for i := 0; i < len(idx)-1; i++ {
				st, ok := deref(t).Underlying().(*types.Struct)
				if !ok {
					break
				}
				var nb aval
				for _, o := range recv {
					nb = union(nb, w.getField(o, "", st.Field(idx[i]).Name(), st.Field(idx[i]).Type()))
				}
				recv = nb
				t = st.Field(idx[i]).Type()
			}
			if fn != nil {
				fi = w.prog.funcs[funcKey(fn)]
			}
		} else if sel != nil && sel.Kind() == types.FieldVal {
			targets = w.evalSelector(f, false) // a func-typed field
		} else if fn != nil {
			fi = w.prog.funcs[funcKey(fn)] // pkg.Func
		}
	case *ast.Ident:
		if fn != nil {
			fi = w.prog.funcs[funcKey(fn)]
		} else {
			targets = w.eval(f)
		}
	default:
		targets = w.eval(c.Fun) // f(x)() , func literal called in place
	}
	// arguments (evaluated once)
	args := make([]aval, len(c.Args))
	for i, a := range c.Args {
		args[i] = w.loadValue(a)
	}
	if fi != nil {
		if r, ok := w.inline(fi.key, fi.pkg, fi.decl.Recv, fi.decl.Type, fi.decl.Body, recv, args, c); ok {
			return r
		}
	}
	if len(targets) > 0 {
		var res []aval
		called := false
		for _, t := range targets {
			var r []aval
			ok := false
			if t.fn != nil {
				r, ok = w.inline(fmt.Sprintf("func@%s", w.position(t.fn.lit.Pos())), t.fn.pkg, nil, t.fn.lit.Type, t.fn.lit.Body, nil, args, c)
			} else if t.decl != nil {
				r, ok = w.inline(t.decl.key, t.decl.pkg, t.decl.decl.Recv, t.decl.decl.Type, t.decl.decl.Body, t.recv, args, c)
			}
			if ok {
				called = true
				for i := range r {
					for len(res) <= i {
						res = append(res, nil)
					}
					res[i] = union(res[i], r[i])
				}
			}
		}
		if called {
			return res
		}
	}
	// opaque callee: it may read everything reachable from its arguments; function literals passed to it
	// are assumed to run here, on this thread, under the locks held now
	w.stats["calls not followed (external, interface or depth)"]++
	name := ""
	if fn != nil {
		name = fn.Name()
	}
	vis := map[*aobj]bool{}
	if hasRecv {
		// a method of a type we do not see, applied to tracked contents (sets.String.Has, ...)
		w.deepRead(recv, mutatorNames[name] && w.recvIsExternal(fn), c.Pos(), 0, vis)
		if mutatorNames[name] && w.recvIsExternal(fn) {
			w.noteCacheWrite(recv, "method "+name, c.Pos())
		}
	}
	for i, a := range args {
		w.deepRead(a, false, c.Args[i].Pos(), 0, vis)
		for _, o := range a {
			if o.fn != nil {
				w.inline(fmt.Sprintf("func@%s", w.position(o.fn.lit.Pos())), o.fn.pkg, nil, o.fn.lit.Type, o.fn.lit.Body, nil, nil, c)
			} else if o.decl != nil {
				w.inline(o.decl.key, o.decl.pkg, o.decl.decl.Recv, o.decl.decl.Type, o.decl.decl.Body, o.recv, nil, c)
			}
			for _, fv := range o.fields { // ResourceEventHandlerFuncs{AddFunc: func..}
				for _, fo := range fv {
					if fo.fn != nil {
						w.inline(fmt.Sprintf("func@%s", w.position(fo.fn.lit.Pos())), fo.fn.pkg, nil, fo.fn.lit.Type, fo.fn.lit.Body, nil, nil, c)
					}
				}
			}
		}
	}
	// results: unknown shared objects
	n := 1
	if tup, ok := w.typeOf(c).(*types.Tuple); ok {
		n = tup.Len()
	}
	res := make([]aval, n)
	for i := range res {
		var t types.Type
		if tup, ok := w.typeOf(c).(*types.Tuple); ok {
			t = tup.At(i).Type()
		} else {
			t = w.typeOf(c)
		}
		res[i] = aval{w.newObj(false, trackedStruct(t))}
		if from := w.cacheSource(c, fn); from != "" {
			res[i][0].cache = from
		}
	}
	return res
}

// cacheSource: the call hands out objects of an informer cache - Get / List / ByIndex / GetByKey / ... of a type called
// ...Lister, ...NamespaceLister, Indexer or Store (client-go listers and the generated ones)
func (w *walker) cacheSource(c *ast.CallExpr, fn *types.Func) string {
	if fn == nil {
		return ""
	}
	switch fn.Name() {
	case "Get", "List", "ByIndex", "GetByKey", "ListKeys", "Index":
	default:
		return ""
	}
	f, ok := ast.Unparen(c.Fun).(*ast.SelectorExpr)
	if !ok {
		return ""
	}
	sel := w.pkg.TypesInfo.Selections[f]
	if sel == nil || sel.Kind() != types.MethodVal {
		return ""
	}
	n := namedName(sel.Recv())
	if strings.HasSuffix(n, "Lister") || n == "Indexer" || n == "Store" {
		return n + "." + fn.Name()
	}
	return ""
}

func (w *walker) recvIsExternal(fn *types.Func) bool {
	if fn == nil || fn.Pkg() == nil {
		return true
	}
	return !strings.HasPrefix(fn.Pkg().Path(), galaxy)
}

func (w *walker) builtin(name string, c *ast.CallExpr) aval {
	switch name {
	case "len", "cap":
		v := w.eval(c.Args[0])
		w.content(v, false, c.Pos())
		return nil
	case "append":
		s := w.eval(c.Args[0])
		if len(s) == 0 {
			s = aval{w.newObj(true, "")}
		}
		var add aval
		for i, a := range c.Args[1:] {
			v := w.loadValue(a)
			if c.Ellipsis.IsValid() && i == len(c.Args)-2 {
				w.content(v, false, a.Pos())
				for _, o := range v {
					add = union(add, w.getElems(o, nil))
				}
			} else {
				add = union(add, v)
			}
		}
		// append may write into the backing array of a shared slice
		w.content(s, true, c.Pos())
		// the result may be a new backing array: model it as a new thread-local slice that has the old elements
		r := w.newObj(true, "")
		for _, o := range s {
			r.elems = union(r.elems, w.getElems(o, nil))
			if o.fresh {
				o.elems = union(o.elems, add)
			}
		}
		r.elems = union(r.elems, add)
		allFresh := true
		for _, o := range s {
			if !o.fresh {
				allFresh = false
			}
		}
		if allFresh && len(s) == 1 {
			return s // keep identity for the common `x = append(x, ..)` on local slices
		}
		return aval{r}
	case "delete":
		m := w.eval(c.Args[0])
		w.eval(c.Args[1])
		w.content(m, true, c.Pos())
		return nil
	case "make", "new":
		for _, a := range c.Args[1:] {
			w.eval(a)
		}
		var t types.Type
		if tv, ok := w.pkg.TypesInfo.Types[c.Args[0]]; ok {
			t = tv.Type
		}
		return aval{w.newObj(true, trackedStruct(t))}
	case "copy":
		d := w.eval(c.Args[0])
		s := w.eval(c.Args[1])
		w.content(d, true, c.Pos())
		w.content(s, false, c.Pos())
		for _, o := range d {
			for _, so := range s {
				o.elems = union(o.elems, w.getElems(so, nil))
			}
		}
		return nil
	default:
		for _, a := range c.Args {
			w.eval(a)
		}
	}
	return nil
}

// inline walks the body of a callee in the caller's lock state
func (w *walker) inline(key string, pkg *packages.Package, recvList *ast.FieldList, ft *ast.FuncType, body *ast.BlockStmt,
	recv aval, args []aval, at *ast.CallExpr) ([]aval, bool) {
	if body == nil {
		return nil, false
	}
	if len(w.stack) >= maxDepth {
		w.notFound["depth limit reached at "+key] = true
		return nil, false
	}
	for _, s := range w.stack {
		if s == key {
			return nil, false // recursion: treat as opaque
		}
	}
	w.ncalls++
	if w.ncalls > 20000 {
		w.notFound["call budget exhausted"] = true
		return nil, false
	}
	savedPkg, savedCond := w.pkg, w.cond
	savedLoop, savedActive, savedRange, savedInLoop := w.loopDepth, w.goActive, w.goRange, w.goInLoop
	if w.goSpawn {
		// this is the body of a goroutine
		w.goSpawn, w.goActive, w.goRange = false, true, [2]token.Pos{ft.Pos(), body.End()}
	}
	defer func() { w.loopDepth, w.goActive, w.goRange, w.goInLoop = savedLoop, savedActive, savedRange, savedInLoop }()
	w.loopDepth = 0
	w.pkg = pkg
	w.cond = 0
	w.stack = append(w.stack, key)
	fr := &frame{name: key}
	w.frames = append(w.frames, fr)
	info := pkg.TypesInfo
	if recvList != nil && len(recvList.List) == 1 && len(recvList.List[0].Names) == 1 {
		w.declare(info.ObjectOf(recvList.List[0].Names[0]), recv)
	}
	i := 0
	if ft.Params != nil {
		for _, fld := range ft.Params.List {
			_, variadic := fld.Type.(*ast.Ellipsis)
			names := fld.Names
			if len(names) == 0 {
				i++
				continue
			}
			for _, nm := range names {
				obj := info.ObjectOf(nm)
				switch {
				case args == nil:
					w.declare(obj, aval{w.newObj(len(w.stack) == 1 && w.entryFresh[nm.Name], trackedStruct(obj.Type()))})
				case variadic && !(at != nil && at.Ellipsis.IsValid()):
					s := w.newObj(true, "")
					for j := i; j < len(args); j++ {
						s.elems = union(s.elems, args[j])
					}
					w.declare(obj, aval{s})
				case i < len(args):
					w.declare(obj, args[i])
				default:
					w.declare(obj, nil)
				}
				i++
			}
		}
	}
	if ft.Results != nil {
		for _, fld := range ft.Results.List {
			for _, nm := range fld.Names {
				obj := info.ObjectOf(nm)
				w.declare(obj, aval{w.newObj(true, trackedStruct(obj.Type()))})
				fr.named = append(fr.named, obj)
			}
			if len(fld.Names) == 0 {
				fr.named = append(fr.named, nil)
			}
		}
	}
	fr.results = make([]aval, len(fr.named))
	term := w.block(body.List)
	if !term {
		// falling off the end: deferred calls run now
		w.collectNamed(fr)
		w.runDefers(fr)
		if fr.hasExit && !sameHeld(realHeld(fr.exitHeld), realHeld(w.held)) {
			w.diag(body.Rbrace, "%s returns holding %s on one path and %s on another", key, heldString(fr.exitHeld), heldString(w.held))
			w.held = meetHeld(fr.exitHeld, w.held)
		} else if fr.hasExit {
			w.held = meetHeld(fr.exitHeld, w.held)
		}
	} else if fr.hasExit {
		w.held = fr.exitHeld
	}
	w.frames = w.frames[:len(w.frames)-1]
	w.stack = w.stack[:len(w.stack)-1]
	w.pkg, w.cond = savedPkg, savedCond
	return fr.results, true
}

func (w *walker) collectNamed(fr *frame) {
	for i, obj := range fr.named {
		if obj != nil {
			fr.results[i] = union(fr.results[i], w.env[obj])
		}
	}
}

func (w *walker) runDefers(fr *frame) {
	for i := len(fr.defers) - 1; i >= 0; i-- {
		d := fr.defers[i]
		saved := w.pkg
		w.pkg = d.pkg
		if d.closures != nil {
			for _, t := range d.closures {
				if t.fn != nil {
					w.inline(fmt.Sprintf("deferred func@%s", w.position(t.fn.lit.Pos())), t.fn.pkg, nil, t.fn.lit.Type, t.fn.lit.Body, nil, nil, nil)
				}
			}
		} else {
			w.call(d.call)
		}
		w.pkg = saved
	}
}

// ------------------------------------------------------------------ statements; result: the path ends here
func (w *walker) block(list []ast.Stmt) bool {
	for _, s := range list {
		if w.stmt(s) {
			return true
		}
	}
	return false
}

type branch struct {
	held []held
	term bool
}

func (w *walker) merge(pos token.Pos, saved []held, bs []branch) bool {
	var live [][]held
	for _, b := range bs {
		if !b.term {
			live = append(live, b.held)
		}
	}
	if len(live) == 0 {
		w.held = saved
		return true
	}
	h := live[0]
	for _, o := range live[1:] {
		if !sameHeld(realHeld(h), realHeld(o)) {
			w.diag(pos, "lock state differs between branches: %s vs %s", heldString(h), heldString(o))
		}
		if !sameHeld(h, o) {
			h = meetHeld(h, o) // (a Once done on one branch only is not done afterwards)
		}
	}
	w.held = h
	return false
}

func (w *walker) stmt(s ast.Stmt) bool {
	switch x := s.(type) {
	case nil:
		return false
	case *ast.ExprStmt:
		w.eval(x.X)
		if c, ok := x.X.(*ast.CallExpr); ok && w.isTerminatingCall(c) {
			return true
		}
	case *ast.AssignStmt:
		w.assign(x)
	case *ast.IncDecStmt:
		w.eval(x.X)
		w.store(x.X, nil, x.Pos())
	case *ast.DeclStmt:
		if gd, ok := x.Decl.(*ast.GenDecl); ok {
			for _, sp := range gd.Specs {
				vs, ok := sp.(*ast.ValueSpec)
				if !ok {
					continue
				}
				var vals []aval
				if len(vs.Values) == 1 && len(vs.Names) > 1 {
					if c, ok := vs.Values[0].(*ast.CallExpr); ok {
						vals = w.call(c)
					}
				} else {
					for _, v := range vs.Values {
						vals = append(vals, w.loadValue(v))
					}
				}
				for i, nm := range vs.Names {
					obj := w.pkg.TypesInfo.ObjectOf(nm)
					if i < len(vals) {
						w.declare(obj, vals[i])
					} else if obj != nil {
						w.declare(obj, aval{w.newObj(true, trackedStruct(obj.Type()))}) // zero value: thread-local
					}
				}
			}
		}
	case *ast.DeferStmt:
		fr := w.frames[len(w.frames)-1]
		d := deferred{call: x.Call, pkg: w.pkg}
		if inner, ok := x.Call.Fun.(*ast.CallExpr); ok {
			// defer f(x)(): f(x) runs now, its result runs at exit
			r := w.call(inner)
			d.closures = aval{}
			if len(r) > 0 {
				d.closures = union(d.closures, r[0])
			}
		} else if fl, ok := x.Call.Fun.(*ast.FuncLit); ok {
			o := w.newObj(true, "")
			o.fn = &closure{fl, w.pkg}
			d.closures = aval{o}
		}
		fr.defers = append(fr.defers, d)
	case *ast.GoStmt:
		// a new thread: starts with no lock held; its arguments escape
		saved := w.held
		w.held = nil
		w.stack = append(w.stack, "go")
		for _, a := range x.Call.Args {
			w.publish(w.eval(a), nil, "", 0)
		}
		savedSpawn, savedInLoop := w.goSpawn, w.goInLoop
		w.goSpawn, w.goInLoop = true, w.loopDepth > 0
		w.eval(x.Call)
		w.goSpawn, w.goInLoop = savedSpawn, savedInLoop
		w.stack = w.stack[:len(w.stack)-1]
		w.held = saved
	case *ast.ReturnStmt:
		fr := w.frames[len(w.frames)-1]
		if len(x.Results) == 1 && len(fr.results) > 1 {
			if c, ok := x.Results[0].(*ast.CallExpr); ok {
				r := w.call(c)
				for i := range fr.results {
					if i < len(r) {
						fr.results[i] = union(fr.results[i], r[i])
					}
				}
			}
		} else if len(x.Results) > 0 {
			for i, r := range x.Results {
				v := w.loadValue(r)
				if i < len(fr.results) {
					fr.results[i] = union(fr.results[i], v)
					if fr.named[i] != nil {
						w.env[fr.named[i]] = v
					}
				}
			}
		} else {
			w.collectNamed(fr)
		}
		// deferred calls run with the locks held at this return
		saved := copyHeld(w.held)
		w.runDefers(fr)
		if len(x.Results) == 0 {
			w.collectNamed(fr)
		}
		if fr.hasExit && !sameHeld(realHeld(fr.exitHeld), realHeld(w.held)) {
			w.diag(x.Pos(), "%s returns holding %s here but %s at an earlier return", fr.name, heldString(w.held), heldString(fr.exitHeld))
			fr.exitHeld = meetHeld(fr.exitHeld, w.held)
		} else if fr.hasExit {
			fr.exitHeld = meetHeld(fr.exitHeld, w.held)
		} else if !fr.hasExit {
			fr.exitHeld = copyHeld(w.held)
			fr.hasExit = true
		}
		w.held = saved
		return true
	case *ast.BranchStmt:
		return true
	case *ast.BlockStmt:
		return w.block(x.List)
	case *ast.LabeledStmt:
		return w.stmt(x.Stmt)
	case *ast.IfStmt:
		w.stmt(x.Init)
		w.eval(x.Cond)
		saved := copyHeld(w.held)
		w.cond++
		t1 := w.block(x.Body.List)
		b1 := branch{w.held, t1}
		w.held = copyHeld(saved)
		t2 := false
		if x.Else != nil {
			t2 = w.stmt(x.Else)
		}
		b2 := branch{w.held, t2}
		w.cond--
		return w.merge(x.Pos(), saved, []branch{b1, b2})
	case *ast.ForStmt:
		w.stmt(x.Init)
		saved := copyHeld(w.held)
		w.loopDepth++
		defer func() { w.loopDepth-- }()
		w.cond++
		for pass := 0; pass < 2; pass++ {
			w.held = copyHeld(saved)
			w.eval(x.Cond)
			t := w.block(x.Body.List)
			if !t {
				w.stmt(x.Post)
				if !sameHeld(realHeld(saved), realHeld(w.held)) {
					w.diag(x.Pos(), "loop body changes the lock state: %s -> %s", heldString(saved), heldString(w.held))
				}
			}
		}
		w.cond--
		w.held = saved
	case *ast.RangeStmt:
		src := w.eval(x.X)
		w.content(src, false, x.X.Pos())
		saved := copyHeld(w.held)
		w.loopDepth++
		defer func() { w.loopDepth-- }()
		w.cond++
		for pass := 0; pass < 2; pass++ {
			w.held = copyHeld(saved)
			if x.Key != nil {
				if x.Tok == token.DEFINE {
					if id, ok := x.Key.(*ast.Ident); ok {
						w.declare(w.pkg.TypesInfo.ObjectOf(id), nil)
					}
				} else {
					w.store(x.Key, nil, x.Pos())
				}
			}
			if x.Value != nil {
				var ev aval
				for _, o := range src {
					if o.fn != nil || o.decl != nil {
						continue
					}
					ev = union(ev, w.getElems(o, w.typeOf(x.Value)))
				}
				if isStructValue(w.typeOf(x.Value)) {
					c := w.newObj(true, trackedStruct(w.typeOf(x.Value)))
					for _, o := range ev {
						for f, fv := range o.fields {
							c.fields[f] = union(c.fields[f], fv)
						}
					}
					ev = aval{c}
				}
				if x.Tok == token.DEFINE {
					if id, ok := x.Value.(*ast.Ident); ok {
						w.declare(w.pkg.TypesInfo.ObjectOf(id), ev)
					}
				} else {
					w.store(x.Value, ev, x.Pos())
				}
			}
			t := w.block(x.Body.List)
			if !t && !sameHeld(realHeld(saved), realHeld(w.held)) {
				w.diag(x.Pos(), "loop body changes the lock state: %s -> %s", heldString(saved), heldString(w.held))
			}
		}
		w.cond--
		w.held = saved
	case *ast.SwitchStmt:
		w.stmt(x.Init)
		w.eval(x.Tag)
		return w.clauses(x.Pos(), x.Body, nil)
	case *ast.TypeSwitchStmt:
		w.stmt(x.Init)
		var src aval
		var bindName *ast.Ident
		switch a := x.Assign.(type) {
		case *ast.AssignStmt:
			if ta, ok := a.Rhs[0].(*ast.TypeAssertExpr); ok {
				src = w.eval(ta.X)
			}
			bindName, _ = a.Lhs[0].(*ast.Ident)
		case *ast.ExprStmt:
			if ta, ok := a.X.(*ast.TypeAssertExpr); ok {
				src = w.eval(ta.X)
			}
		}
		_ = bindName
		return w.clauses(x.Pos(), x.Body, src)
	case *ast.SelectStmt:
		return w.clauses(x.Pos(), x.Body, nil)
	case *ast.SendStmt:
		w.eval(x.Chan)
		w.publish(w.loadValue(x.Value), nil, "", 0)
	case *ast.EmptyStmt:
	}
	return false
}

func (w *walker) clauses(pos token.Pos, body *ast.BlockStmt, tsSrc aval) bool {
	saved := copyHeld(w.held)
	var bs []branch
	hasDefault := false
	w.cond++
	for _, cl := range body.List {
		w.held = copyHeld(saved)
		var list []ast.Stmt
		switch c := cl.(type) {
		case *ast.CaseClause:
			if c.List == nil {
				hasDefault = true
			}
			for _, e := range c.List {
				if tv, ok := w.pkg.TypesInfo.Types[e]; !ok || !tv.IsType() {
					w.eval(e)
				}
			}
			if tsSrc != nil {
				if obj := w.pkg.TypesInfo.Implicits[c]; obj != nil {
					w.declare(obj, tsSrc)
				}
			}
			list = c.Body
		case *ast.CommClause:
			if c.Comm == nil {
				hasDefault = true
			}
			w.stmt(c.Comm)
			list = c.Body
		}
		t := w.block(list)
		// a `break` ends the clause, not the enclosing path
		if t && len(list) > 0 {
			if br, ok := list[len(list)-1].(*ast.BranchStmt); ok && br.Tok == token.BREAK && br.Label == nil {
				t = false
			}
		}
		bs = append(bs, branch{w.held, t})
	}
	w.cond--
	if !hasDefault {
		bs = append(bs, branch{saved, false})
	}
	return w.merge(pos, saved, bs)
}

func (w *walker) assign(x *ast.AssignStmt) {
	var vals []aval
	if len(x.Rhs) == 1 && len(x.Lhs) > 1 {
		switch r := ast.Unparen(x.Rhs[0]).(type) {
		case *ast.CallExpr:
			vals = w.call(r)
		case *ast.IndexExpr, *ast.TypeAssertExpr, *ast.UnaryExpr:
			vals = []aval{w.loadValue(x.Rhs[0]), nil}
		default:
			vals = []aval{w.loadValue(x.Rhs[0])}
		}
	} else {
		for _, r := range x.Rhs {
			vals = append(vals, w.loadValue(r))
		}
	}
	for i, l := range x.Lhs {
		var v aval
		if i < len(vals) {
			v = vals[i]
		}
		if x.Tok != token.ASSIGN && x.Tok != token.DEFINE {
			w.eval(l) // op-assignment reads the target first
		}
		if x.Tok == token.DEFINE {
			if id, ok := l.(*ast.Ident); ok && id.Name != "_" {
				if obj := w.pkg.TypesInfo.Defs[id]; obj != nil {
					w.declare(obj, v)
					continue
				}
			}
		}
		w.store(l, v, x.Pos())
	}
}
