#!/bin/bash
# Build the C19/C18 translator offline.  Usage: build.sh <outdir>   (writes <outdir>/extractor)
# go.mod/go.sum are copied next to the binary so that the build never dirties the git tree.
set -e
HERE="$(cd "$(dirname "$0")" && pwd)"
OUT="$1"
mkdir -p "$OUT"
export GOFLAGS=-mod=mod GOPROXY=off GOSUMDB=off GOTOOLCHAIN=local
cp "$HERE/go.mod" "$OUT/extractor.mod"
[ -f "$HERE/go.sum" ] && cp "$HERE/go.sum" "$OUT/extractor.sum"
cd "$HERE"
go build -modfile="$OUT/extractor.mod" -o "$OUT/extractor" .
