package main

// Lock balance (C18): for every function (and function literal) of the loaded packages that performs
// lock operations, the sequences of lock operations along every syntactic path.  Calls to functions
// of the loaded packages that themselves lock are expanded (depth <= 3), so that a callee taking a
// lock its caller already holds shows up as a re-entrant acquisition.

import (
	"fmt"
	"go/ast"
	"go/token"
	"go/types"
	"strings"

	"golang.org/x/tools/go/packages"
)

type lop struct {
	Op    string `json:"op"` // Lock Unlock RLock RUnlock
	Lock  string `json:"lock"`
	Defer bool   `json:"defer"`
}

type fnPaths struct {
	Name      string  `json:"name"`
	Pos       string  `json:"pos"`
	Paths     [][]lop `json:"paths"`
	Truncated bool    `json:"truncated"`
	// statements between a non-deferred Lock and its Unlock that call other code (a panic there would
	// leave the lock held); informational
	UndeferredCalls []string `json:"undeferred_calls"`
}

const maxPaths = 2000

type balancer struct {
	prog    *program
	w       *walker // only for isLockCall / positions
	memo    map[string][][]lop
	active  map[string]bool
	hasLock map[string]bool
}

func containsLockOps(b *balancer, pkg *packages.Package, n ast.Node) bool {
	found := false
	ast.Inspect(n, func(m ast.Node) bool {
		if found {
			return false
		}
		if c, ok := m.(*ast.CallExpr); ok {
			b.w.pkg = pkg
			if _, _, _, ok := b.w.isLockCall(c); ok {
				found = true
			} else if fn := b.w.staticCallee(c); fn != nil && b.hasLock[funcKey(fn)] {
				found = true
			}
		}
		return true
	})
	return found
}

func containsReturn(n ast.Node) bool {
	found := false
	ast.Inspect(n, func(m ast.Node) bool {
		switch m.(type) {
		case *ast.ReturnStmt:
			found = true
		case *ast.FuncLit:
			return false
		}
		return !found
	})
	return found
}

type pathSet struct {
	open  [][]lop // paths that reach the end of the statement list
	done  [][]lop // paths that left the function
	trunc bool
}

func cross(a [][]lop, b [][]lop) [][]lop {
	var r [][]lop
	for _, x := range a {
		for _, y := range b {
			r = append(r, append(append([]lop{}, x...), y...))
			if len(r) > maxPaths {
				return r
			}
		}
	}
	return r
}

func dedupe(ps [][]lop) [][]lop {
	seen := map[string]bool{}
	var r [][]lop
	for _, p := range ps {
		k := fmt.Sprint(p)
		if !seen[k] {
			seen[k] = true
			r = append(r, p)
		}
	}
	return r
}

// ops of one expression / simple statement, in evaluation order (function literals are separate functions)
func (b *balancer) exprOps(pkg *packages.Package, n ast.Node, depth int) [][]lop {
	cur := [][]lop{{}}
	if n == nil {
		return cur
	}
	ast.Inspect(n, func(m ast.Node) bool {
		switch c := m.(type) {
		case *ast.FuncLit:
			return false
		case *ast.CallExpr:
			b.w.pkg = pkg
			if id, _, op, ok := b.w.isLockCall(c); ok {
				cur = cross(cur, [][]lop{{{Op: op, Lock: id}}})
				return false
			}
			// a function literal handed to the call as an argument (walkIPRanges(ranges, func(ip) bool {...}), sort.Slice,
			// wait.PollImmediate ...) runs while the caller still holds what it holds: its lock operations happen here - or
			// not at all, when the callee does not invoke it.  Calls that only REGISTER the literal for later are excluded.
			if cb := b.callbackOps(pkg, c, depth); cb != nil {
				for _, a := range c.Args {
					if _, isLit := a.(*ast.FuncLit); !isLit {
						cur = cross(cur, b.exprOps(pkg, a, depth))
					}
				}
				cur = cross(cur, cb)
				if fn := b.w.staticCallee(c); fn == nil || !b.hasLock[funcKey(fn)] {
					return false
				}
			}
			if fn := b.w.staticCallee(c); fn != nil && b.hasLock[funcKey(fn)] && depth < 3 {
				if fi := b.prog.funcs[funcKey(fn)]; fi != nil && !b.active[fi.key] {
					callee := b.funcPaths(fi.key, fi.pkg, fi.decl.Body, depth+1)
					var flat [][]lop
					for _, p := range callee {
						flat = append(flat, expandDefers(p))
					}
					// arguments first
					for _, a := range c.Args {
						cur = cross(cur, b.exprOps(pkg, a, depth))
					}
					cur = cross(cur, dedupe(flat))
					return false
				}
			}
		}
		return true
	})
	return cur
}

// registering calls: the literal runs later, on another goroutine or after the caller returned
var deferredCallbackCallee = map[string]bool{"AfterFunc": true, "AddEventHandler": true, "AddEventHandlerWithResyncPeriod": true,
	"HandleFunc": true, "Handle": true, "Route": true, "To": true, "OnStartedLeading": true, "NewTimer": true}

// callbackOps: the alternatives "not invoked" / "invoked once" for the function literals with lock operations among the
// arguments of a call; nil when there is none
func (b *balancer) callbackOps(pkg *packages.Package, c *ast.CallExpr, depth int) [][]lop {
	name := ""
	switch f := c.Fun.(type) {
	case *ast.Ident:
		name = f.Name
	case *ast.SelectorExpr:
		name = f.Sel.Name
	}
	if deferredCallbackCallee[name] {
		return nil
	}
	var out [][]lop
	for _, a := range c.Args {
		fl, ok := a.(*ast.FuncLit)
		if !ok || !containsLockOps(b, pkg, fl.Body) {
			continue
		}
		ps := b.stmts(pkg, fl.Body.List, depth+1)
		alts := [][]lop{{}}
		for _, p := range append(append([][]lop{}, ps.open...), ps.done...) {
			alts = append(alts, expandDefers(p))
		}
		alts = dedupe(alts)
		if out == nil {
			out = alts
		} else {
			out = cross(out, alts)
		}
	}
	return out
}

func expandDefers(p []lop) []lop {
	var acts, defs []lop
	for _, o := range p {
		if o.Defer {
			defs = append([]lop{{Op: o.Op, Lock: o.Lock}}, defs...)
		} else {
			acts = append(acts, o)
		}
	}
	return append(acts, defs...)
}

func (b *balancer) funcPaths(key string, pkg *packages.Package, body *ast.BlockStmt, depth int) [][]lop {
	if p, ok := b.memo[key]; ok {
		return p
	}
	b.active[key] = true
	ps := b.stmts(pkg, body.List, depth)
	delete(b.active, key)
	all := dedupe(append(ps.done, ps.open...))
	b.memo[key] = all
	return all
}

func (b *balancer) stmts(pkg *packages.Package, list []ast.Stmt, depth int) pathSet {
	res := pathSet{open: [][]lop{{}}}
	for _, s := range list {
		if len(res.open) == 0 {
			break
		}
		ps := b.stmt(pkg, s, depth)
		res.done = append(res.done, cross(res.open, ps.done)...)
		res.open = dedupe(cross(res.open, ps.open))
		res.trunc = res.trunc || ps.trunc
		if len(res.open)+len(res.done) > maxPaths {
			res.trunc = true
			if len(res.open) > maxPaths/2 {
				res.open = res.open[:maxPaths/2]
			}
			if len(res.done) > maxPaths/2 {
				res.done = res.done[:maxPaths/2]
			}
		}
	}
	res.done = dedupe(res.done)
	return res
}

func (b *balancer) stmt(pkg *packages.Package, s ast.Stmt, depth int) pathSet {
	one := func(ops [][]lop) pathSet { return pathSet{open: ops} }
	if s == nil {
		return one([][]lop{{}})
	}
	// statements without lock operations and without return contribute nothing
	if !containsLockOps(b, pkg, s) && !containsReturn(s) {
		if br, ok := s.(*ast.BranchStmt); ok && br.Tok != token.FALLTHROUGH {
			return pathSet{open: [][]lop{{}}} // break/continue/goto: stays inside the function
		}
		return one([][]lop{{}})
	}
	switch x := s.(type) {
	case *ast.ReturnStmt:
		cur := [][]lop{{}}
		for _, r := range x.Results {
			cur = cross(cur, b.exprOps(pkg, r, depth))
		}
		return pathSet{done: cur}
	case *ast.DeferStmt:
		b.w.pkg = pkg
		if id, _, op, ok := b.w.isLockCall(x.Call); ok {
			return one([][]lop{{{Op: op, Lock: id, Defer: true}}})
		}
		// defer f(x)(): f(x) runs now
		if inner, ok := x.Call.Fun.(*ast.CallExpr); ok {
			return one(b.exprOps(pkg, inner, depth))
		}
		return one([][]lop{{}})
	case *ast.BlockStmt:
		return b.stmts(pkg, x.List, depth)
	case *ast.LabeledStmt:
		return b.stmt(pkg, x.Stmt, depth)
	case *ast.IfStmt:
		pre := cross(b.stmt(pkg, x.Init, depth).open, b.exprOps(pkg, x.Cond, depth))
		th := b.stmts(pkg, x.Body.List, depth)
		el := pathSet{open: [][]lop{{}}}
		if x.Else != nil {
			el = b.stmt(pkg, x.Else, depth)
		}
		return pathSet{open: dedupe(cross(pre, append(th.open, el.open...))), done: cross(pre, append(th.done, el.done...)),
			trunc: th.trunc || el.trunc}
	case *ast.ForStmt:
		pre := cross(b.stmt(pkg, x.Init, depth).open, b.exprOps(pkg, x.Cond, depth))
		body := b.stmts(pkg, x.Body.List, depth)
		post := b.stmt(pkg, x.Post, depth).open
		open := append([][]lop{{}}, cross(body.open, post)...) // zero or one iteration
		return pathSet{open: dedupe(cross(pre, open)), done: cross(pre, body.done), trunc: body.trunc}
	case *ast.RangeStmt:
		pre := b.exprOps(pkg, x.X, depth)
		body := b.stmts(pkg, x.Body.List, depth)
		open := append([][]lop{{}}, body.open...)
		return pathSet{open: dedupe(cross(pre, open)), done: cross(pre, body.done), trunc: body.trunc}
	case *ast.SwitchStmt, *ast.TypeSwitchStmt, *ast.SelectStmt:
		var bodyList []ast.Stmt
		pre := [][]lop{{}}
		switch y := x.(type) {
		case *ast.SwitchStmt:
			pre = cross(b.stmt(pkg, y.Init, depth).open, b.exprOps(pkg, y.Tag, depth))
			bodyList = y.Body.List
		case *ast.TypeSwitchStmt:
			pre = b.stmt(pkg, y.Init, depth).open
			bodyList = y.Body.List
		case *ast.SelectStmt:
			bodyList = y.Body.List
		}
		res := pathSet{}
		hasDefault := false
		for _, cl := range bodyList {
			var l []ast.Stmt
			switch c := cl.(type) {
			case *ast.CaseClause:
				l = c.Body
				if c.List == nil {
					hasDefault = true
				}
			case *ast.CommClause:
				l = c.Body
				if c.Comm == nil {
					hasDefault = true
				}
			}
			ps := b.stmts(pkg, l, depth)
			res.open = append(res.open, ps.open...)
			res.done = append(res.done, ps.done...)
			res.trunc = res.trunc || ps.trunc
		}
		if !hasDefault {
			res.open = append(res.open, []lop{})
		}
		return pathSet{open: dedupe(cross(pre, res.open)), done: cross(pre, res.done), trunc: res.trunc}
	case *ast.GoStmt:
		return one([][]lop{{}}) // another thread
	default:
		return one(b.exprOps(pkg, s, depth))
	}
}

// undeferredCalls lists calls made between a non-deferred Lock and the matching Unlock in one statement list
func (b *balancer) undeferredCalls(pkg *packages.Package, body *ast.BlockStmt) []string {
	var out []string
	var visit func(list []ast.Stmt)
	visit = func(list []ast.Stmt) {
		lockedAt := -1
		for i, s := range list {
			if es, ok := s.(*ast.ExprStmt); ok {
				if c, ok := es.X.(*ast.CallExpr); ok {
					b.w.pkg = pkg
					if _, _, op, ok := b.w.isLockCall(c); ok {
						if op == "Lock" || op == "RLock" {
							// deferred unlock right after?
							if i+1 < len(list) {
								if _, isDefer := list[i+1].(*ast.DeferStmt); isDefer {
									continue
								}
							}
							lockedAt = i
						} else {
							lockedAt = -1
						}
						continue
					}
				}
			}
			if lockedAt >= 0 {
				ast.Inspect(s, func(m ast.Node) bool {
					if c, ok := m.(*ast.CallExpr); ok {
						if tv, ok := pkg.TypesInfo.Types[c.Fun]; ok && tv.IsType() {
							return true
						}
						if id, ok := c.Fun.(*ast.Ident); ok {
							if _, isB := pkg.TypesInfo.ObjectOf(id).(*types.Builtin); isB {
								return true
							}
						}
						out = append(out, fmt.Sprintf("%s %s", b.w.position(c.Pos()), types.ExprString(c.Fun)))
					}
					return true
				})
			}
			ast.Inspect(s, func(m ast.Node) bool {
				if bl, ok := m.(*ast.BlockStmt); ok && m != ast.Node(body) {
					visit(bl.List)
					return false
				}
				return true
			})
		}
	}
	visit(body.List)
	return out
}

func (b *balancer) run() (fns []fnPaths, total int) {
	type unit struct {
		name string
		pkg  *packages.Package
		body *ast.BlockStmt
		pos  token.Pos
	}
	var units []unit
	for _, pkg := range b.prog.pkgs {
		for _, f := range pkg.Syntax {
			for _, d := range f.Decls {
				fd, ok := d.(*ast.FuncDecl)
				if !ok || fd.Body == nil {
					continue
				}
				obj, _ := pkg.TypesInfo.Defs[fd.Name].(*types.Func)
				if obj == nil {
					continue
				}
				name := funcKey(obj)
				units = append(units, unit{name, pkg, fd.Body, fd.Pos()})
				n := 0
				ast.Inspect(fd.Body, func(m ast.Node) bool {
					if fl, ok := m.(*ast.FuncLit); ok {
						n++
						units = append(units, unit{fmt.Sprintf("%s$lit%d", name, n), pkg, fl.Body, fl.Pos()})
					}
					return true
				})
			}
		}
	}
	total = len(units)
	// which declared functions lock (directly, then transitively through loaded callees)
	for _, u := range units {
		if !strings.Contains(u.name, "$lit") {
			direct := false
			ast.Inspect(u.body, func(m ast.Node) bool {
				if _, ok := m.(*ast.FuncLit); ok {
					return false
				}
				if c, ok := m.(*ast.CallExpr); ok {
					b.w.pkg = u.pkg
					if _, _, _, ok := b.w.isLockCall(c); ok {
						direct = true
					}
				}
				return !direct
			})
			if direct {
				b.hasLock[u.name] = true
			}
		}
	}
	for changed, round := true, 0; changed && round < 4; round++ {
		changed = false
		for _, u := range units {
			if strings.Contains(u.name, "$lit") || b.hasLock[u.name] {
				continue
			}
			ast.Inspect(u.body, func(m ast.Node) bool {
				if _, ok := m.(*ast.FuncLit); ok {
					return false
				}
				if c, ok := m.(*ast.CallExpr); ok {
					b.w.pkg = u.pkg
					if fn := b.w.staticCallee(c); fn != nil && b.hasLock[funcKey(fn)] {
						b.hasLock[u.name] = true
						changed = true
					}
				}
				return true
			})
		}
	}
	for _, u := range units {
		// only the unit's own statements (nested literals are separate units)
		if !containsLockOpsShallow(b, u.pkg, u.body) {
			continue
		}
		ps := b.stmts(u.pkg, u.body.List, 0)
		all := dedupe(append(ps.done, ps.open...))
		fns = append(fns, fnPaths{Name: shortName(u.name), Pos: b.w.position(u.pos), Paths: all, Truncated: ps.trunc,
			UndeferredCalls: b.undeferredCalls(u.pkg, u.body)})
	}
	return fns, total
}

func containsLockOpsShallow(b *balancer, pkg *packages.Package, body *ast.BlockStmt) bool {
	found := false
	ast.Inspect(body, func(m ast.Node) bool {
		if found {
			return false
		}
		if _, ok := m.(*ast.FuncLit); ok {
			return false
		}
		if c, ok := m.(*ast.CallExpr); ok {
			b.w.pkg = pkg
			if _, _, _, ok := b.w.isLockCall(c); ok {
				found = true
			} else if fn := b.w.staticCallee(c); fn != nil && b.hasLock[funcKey(fn)] {
				found = true
			}
		}
		return true
	})
	return found
}

func shortName(s string) string {
	return strings.ReplaceAll(s, galaxy, "")
}
