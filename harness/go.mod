module verifharness

go 1.18
