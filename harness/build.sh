#!/bin/bash
# Build the Go harness against /repo's CURRENT working tree (replace => $REPO), tags verif.
# Usage: build.sh [outdir]   (default /verif/build/bin)
set -e
HERE="$(cd "$(dirname "$0")" && pwd)"
REPO="${VERIF_REPO:-/repo}"
OUT="${1:-$HERE/../build/bin}"
mkdir -p "$OUT"
export GOFLAGS=-mod=mod GOPROXY=off GOSUMDB=off GOTOOLCHAIN=local CGO_ENABLED=0
cd "$HERE"
# go.mod is regenerated from the repository's own go.mod so that dependency versions follow it
{
  echo "module verifharness"
  echo
  sed -n '/^go /p' "$REPO/go.mod"
  echo
  echo "require tkestack.io/galaxy v0.0.0"
  sed -n '/^require (/,/^)/p' "$REPO/go.mod"
  sed -n '/^replace (/,/^)/p;/^replace [^(]/p' "$REPO/go.mod"
  echo "replace tkestack.io/galaxy => $REPO"
} > go.mod
cp "$REPO/go.sum" go.sum
go build -tags verif -o "$OUT/gh" ./cmd/gh
go build -tags verif -o "$OUT/fakecni" ./cmd/fakecni 2>/dev/null || true
