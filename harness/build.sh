#!/bin/bash
# Build one harness command against the CURRENT working tree of the repository (replace => $VERIF_REPO,
# default /repo), with -tags verif.   Usage: build.sh <outdir> <cmd> [<cmd>...]   (cmd = directory under cmd/)
set -e
HERE="$(cd "$(dirname "$0")" && pwd)"
REPO="${VERIF_REPO:-/repo}"
OUT="$1"; shift
mkdir -p "$OUT"
export GOFLAGS=-mod=mod GOPROXY=off GOSUMDB=off GOTOOLCHAIN=local
cd "$HERE"
# go.mod is regenerated from the repository's own go.mod so that dependency versions follow it
TMPMOD=$(mktemp)
{
  echo "module verifharness"
  echo
  sed -n '/^go /p' "$REPO/go.mod"
  echo
  echo "require tkestack.io/galaxy v0.0.0"
  sed -n '/^require (/,/^)/p' "$REPO/go.mod"
  sed -n '/^replace (/,/^)/p;/^replace [^(]/p' "$REPO/go.mod"
  echo "replace tkestack.io/galaxy => $REPO"
} > "$TMPMOD"
MODFILE="$OUT/go.mod"
cp "$TMPMOD" "$MODFILE"; rm -f "$TMPMOD"
cp "$REPO/go.sum" "$OUT/go.sum"
for c in "$@"; do
  go build -modfile="$MODFILE" -tags verif -o "$OUT/$c" "./cmd/$c"
done
