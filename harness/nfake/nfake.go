// Package nfake: STRICT in-memory fakes of the netfilter kernel state behind galaxy's
// utiliptables.Interface and ipset.Interface (used by the C14/C15/C16 checks).
//
// Semantics (DESIGN.md section 6):
//   - iptables-restore --noflush is atomic per table: the lines between "*table" and COMMIT are applied to
//     a copy which replaces the table only if every line succeeded;
//   - a chain line creates a user chain or flushes an existing one (built-in chains: policy only);
//   - -A appends, duplicates allowed;
//   - -X of a missing, non-empty or referenced chain fails; a rule naming a missing chain (jump target that is
//     neither a standard target nor an existing user chain) or a missing ipset fails; any failure rejects the
//     WHOLE batch of that table;
//   - iptables -N/-F/-X/-C/-A/-I/-D/-S/-P as usual;
//   - ipset: create -exist (same type), add -exist (overwrites the nomatch flag of an existing element), del of
//     a missing element fails, destroy of a set referenced by any rule fails, hash:net lookup gives `nomatch`
//     entries precedence.
//
// Every submitted command/batch is logged with its outcome so that the checks can see rejected batches and
// the reason class (missing-chain, missing-set, busy, ...).
package nfake

import (
	"bytes"
	"fmt"
	"sort"
	"strings"
	"sync"

	"tkestack.io/galaxy/pkg/utils/ipset"
	utiliptables "tkestack.io/galaxy/pkg/utils/iptables"
)

// Rule is the canonical form of one rule (what `iptables -C` compares).
type Rule struct {
	Src     string   `json:"src"`
	Dst     string   `json:"dst"`
	Proto   string   `json:"proto"`
	Comment string   `json:"comment"`
	Match   []string `json:"match"`
	Target  string   `json:"target"`
	TOpts   []string `json:"topts"`
}

type Chain struct {
	Name    string
	Builtin bool
	Policy  string
	Rules   []Rule
}

type Table struct {
	Name   string
	Chains map[string]*Chain
}

type Elem struct {
	Key     string
	NoMatch bool
}

type Set struct {
	Name  string
	Type  string
	Elems []Elem
}

// Op is one logged command or batch.
type Op struct {
	Kind  string `json:"kind"`
	Table string `json:"table,omitempty"`
	Arg   string `json:"arg,omitempty"`
	OK    bool   `json:"ok"`
	Why   string `json:"why,omitempty"` // reason class when !OK
}

type Kernel struct {
	mu     sync.Mutex
	Tables map[string]*Table
	Sets   map[string]*Set
	Log    []Op
	// FailAt > 0: the FailAt-th state-changing iptables call from now on fails without any effect (a transient failure:
	// the xtables lock is held by someone else); the counter then stops
	FailAt int
	nCalls int
	// FailSave: the next iptables-save (SaveInto) fails the same way (a read; nothing to undo)
	FailSave bool
}

// ArmSaveFault makes the next iptables-save fail cleanly.
func (k *Kernel) ArmSaveFault(on bool) {
	k.mu.Lock()
	defer k.mu.Unlock()
	k.FailSave = on
}

// ArmFault makes the n-th (1-based) state-changing iptables call from now fail cleanly; 0 disarms.
func (k *Kernel) ArmFault(n int) {
	k.mu.Lock()
	defer k.mu.Unlock()
	k.FailAt, k.nCalls = n, 0
}

// inject is called, with the mutex held, at the start of every state-changing iptables call.
func (k *Kernel) inject(kind, table, arg string) error {
	if k.FailAt <= 0 {
		return nil
	}
	k.nCalls++
	if k.nCalls != k.FailAt {
		return nil
	}
	k.FailAt = 0
	k.Log = append(k.Log, Op{Kind: kind, Table: table, Arg: arg, OK: false, Why: "injected"})
	return fmt.Errorf("Another app is currently holding the xtables lock (injected transient failure of %s)", kind)
}

var builtins = map[string][]string{
	"filter": {"INPUT", "FORWARD", "OUTPUT"},
	"nat":    {"PREROUTING", "INPUT", "OUTPUT", "POSTROUTING"},
	"mangle": {"PREROUTING", "INPUT", "FORWARD", "OUTPUT", "POSTROUTING"},
}

var stdTargets = map[string]bool{"ACCEPT": true, "DROP": true, "RETURN": true, "REJECT": true, "DNAT": true,
	"SNAT": true, "MASQUERADE": true, "MARK": true, "LOG": true, "REDIRECT": true, "QUEUE": true,
	"NFQUEUE": true, "NOTRACK": true, "CT": true, "TPROXY": true, "TCPMSS": true, "CONNMARK": true, "": true}

func NewKernel() *Kernel {
	k := &Kernel{Tables: map[string]*Table{}, Sets: map[string]*Set{}}
	for t, cs := range builtins {
		tb := &Table{Name: t, Chains: map[string]*Chain{}}
		for _, c := range cs {
			tb.Chains[c] = &Chain{Name: c, Builtin: true, Policy: "ACCEPT"}
		}
		k.Tables[t] = tb
	}
	return k
}

type fail struct{ why, msg string }

func (f *fail) Error() string { return f.msg }

func errNoChain() *fail {
	return &fail{"missing-chain", "iptables: No chain/target/match by that name."}
}

// ---------------------------------------------------------------- rule parsing / printing

func normIP(s string) string { return strings.TrimSuffix(s, "/32") }

func unquote(s string) string {
	if len(s) >= 2 && s[0] == '"' && s[len(s)-1] == '"' {
		return s[1 : len(s)-1]
	}
	return s
}

// Tokenize splits an iptables-restore line on blanks, keeping double-quoted strings together (quotes removed).
func Tokenize(line string) []string {
	var out []string
	var cur []byte
	inq, has := false, false
	for i := 0; i < len(line); i++ {
		c := line[i]
		switch {
		case c == '"':
			inq = !inq
			has = true
		case (c == ' ' || c == '\t') && !inq:
			if has {
				out = append(out, string(cur))
				cur, has = cur[:0], false
			}
		case c == '\\' && inq && i+1 < len(line):
			i++
			cur = append(cur, line[i])
			has = true
		default:
			cur = append(cur, c)
			has = true
		}
	}
	if has {
		out = append(out, string(cur))
	}
	return out
}

// ParseRule turns the argument tokens of a rule (everything after "-A chain") into canonical form.
func ParseRule(tok []string) (Rule, error) {
	r := Rule{Match: []string{}, TOpts: []string{}}
	i := 0
	next := func() (string, error) {
		i++
		if i >= len(tok) {
			return "", &fail{"syntax", "iptables: option requires an argument"}
		}
		return tok[i], nil
	}
	for ; i < len(tok); i++ {
		t := tok[i]
		switch t {
		case "-s", "--source", "--src":
			v, err := next()
			if err != nil {
				return r, err
			}
			r.Src = normIP(v)
		case "-d", "--destination", "--dst":
			v, err := next()
			if err != nil {
				return r, err
			}
			r.Dst = normIP(v)
		case "-p", "--protocol":
			v, err := next()
			if err != nil {
				return r, err
			}
			v = strings.ToLower(v)
			if v == "all" {
				v = ""
			}
			r.Proto = v
		case "-m", "--match":
			v, err := next()
			if err != nil {
				return r, err
			}
			if v == "comment" {
				continue
			}
			r.Match = append(r.Match, "-m", v)
		case "--comment":
			v, err := next()
			if err != nil {
				return r, err
			}
			r.Comment = unquote(v)
		case "-j", "--jump", "-g", "--goto":
			v, err := next()
			if err != nil {
				return r, err
			}
			r.Target = v
			r.TOpts = append(r.TOpts, tok[i+1:]...)
			i = len(tok)
		default:
			r.Match = append(r.Match, t)
		}
	}
	return r, nil
}

func needQuote(s string) bool {
	return s == "" || strings.ContainsAny(s, " \t\"'\\")
}

// Text prints the rule as iptables-save / iptables -S would (after "-A chain").
func (r Rule) Text() string {
	var w []string
	if r.Src != "" {
		s := r.Src
		if !strings.Contains(s, "/") {
			s += "/32"
		}
		w = append(w, "-s", s)
	}
	if r.Dst != "" {
		s := r.Dst
		if !strings.Contains(s, "/") {
			s += "/32"
		}
		w = append(w, "-d", s)
	}
	if r.Proto != "" {
		w = append(w, "-p", r.Proto)
	}
	w = append(w, r.Match...)
	if r.Comment != "" {
		c := r.Comment
		if needQuote(c) {
			c = `"` + c + `"`
		}
		w = append(w, "-m", "comment", "--comment", c)
	}
	if r.Target != "" {
		w = append(w, "-j", r.Target)
		w = append(w, r.TOpts...)
	}
	return strings.Join(w, " ")
}

func eqs(a, b []string) bool {
	if len(a) != len(b) {
		return false
	}
	for i := range a {
		if a[i] != b[i] {
			return false
		}
	}
	return true
}

func (r Rule) Equal(o Rule) bool {
	return r.Src == o.Src && r.Dst == o.Dst && r.Proto == o.Proto && r.Comment == o.Comment &&
		r.Target == o.Target && eqs(r.Match, o.Match) && eqs(r.TOpts, o.TOpts)
}

// SetRefs lists the ipsets a rule names (-m set --match-set NAME dir).
func (r Rule) SetRefs() []string {
	var out []string
	for i := 0; i+1 < len(r.Match); i++ {
		if r.Match[i] == "--match-set" {
			out = append(out, r.Match[i+1])
		}
	}
	return out
}

// ---------------------------------------------------------------- table operations (on a possibly private copy)

func (t *Table) clone() *Table {
	n := &Table{Name: t.Name, Chains: map[string]*Chain{}}
	for k, c := range t.Chains {
		cc := *c
		cc.Rules = append([]Rule(nil), c.Rules...)
		n.Chains[k] = &cc
	}
	return n
}

func (t *Table) referenced(chain string) bool {
	for _, c := range t.Chains {
		for _, r := range c.Rules {
			if r.Target == chain {
				return true
			}
		}
	}
	return false
}

func (k *Kernel) ruleOK(t *Table, r Rule) *fail {
	if !stdTargets[r.Target] {
		c, ok := t.Chains[r.Target]
		if !ok || c.Builtin {
			return errNoChain()
		}
	}
	for _, s := range r.SetRefs() {
		if _, ok := k.Sets[s]; !ok {
			return &fail{"missing-set", fmt.Sprintf("iptables: Set %s doesn't exist.", s)}
		}
	}
	return nil
}

func (k *Kernel) appendRule(t *Table, chain string, r Rule, prepend bool) *fail {
	c, ok := t.Chains[chain]
	if !ok {
		return errNoChain()
	}
	if f := k.ruleOK(t, r); f != nil {
		return f
	}
	if prepend {
		c.Rules = append([]Rule{r}, c.Rules...)
	} else {
		c.Rules = append(c.Rules, r)
	}
	return nil
}

func (t *Table) deleteChain(chain string) *fail {
	c, ok := t.Chains[chain]
	if !ok {
		return errNoChain()
	}
	if c.Builtin {
		return &fail{"builtin", "iptables: Invalid argument (built-in chain)"}
	}
	if len(c.Rules) > 0 {
		return &fail{"busy-nonempty", "iptables: Directory not empty."}
	}
	if t.referenced(chain) {
		return &fail{"busy-referenced", "iptables: CHAIN_DEL failed (Device or resource busy): chain " + chain}
	}
	delete(t.Chains, chain)
	return nil
}

func (t *Table) findRule(chain string, r Rule) int {
	c := t.Chains[chain]
	for i, x := range c.Rules {
		if x.Equal(r) {
			return i
		}
	}
	return -1
}

// ---------------------------------------------------------------- utiliptables.Interface

type IPTables struct{ K *Kernel }

var _ utiliptables.Interface = &IPTables{}

func (k *Kernel) IPTables() *IPTables { return &IPTables{K: k} }

func (k *Kernel) log(kind, table, arg string, f *fail) {
	op := Op{Kind: kind, Table: table, Arg: arg, OK: f == nil}
	if f != nil {
		op.Why = f.why
	}
	k.Log = append(k.Log, op)
}

func asErr(f *fail) error {
	if f == nil {
		return nil
	}
	return f
}

func (k *Kernel) table(name string) *Table {
	t, ok := k.Tables[name]
	if !ok {
		t = &Table{Name: name, Chains: map[string]*Chain{}}
		k.Tables[name] = t
	}
	return t
}

func (f *IPTables) GetVersion() (string, error) { return "1.8.9", nil }
func (f *IPTables) IsIpv6() bool                { return false }

func (f *IPTables) EnsureChain(table utiliptables.Table, chain utiliptables.Chain) (bool, error) {
	k := f.K
	k.mu.Lock()
	defer k.mu.Unlock()
	if err := k.inject("ensure-chain", string(table), string(chain)); err != nil {
		return false, err
	}
	t := k.table(string(table))
	if _, ok := t.Chains[string(chain)]; ok {
		k.log("ensure-chain", t.Name, string(chain), nil)
		return true, nil
	}
	t.Chains[string(chain)] = &Chain{Name: string(chain)}
	k.log("ensure-chain", t.Name, string(chain), nil)
	return false, nil
}

func (f *IPTables) FlushChain(table utiliptables.Table, chain utiliptables.Chain) error {
	k := f.K
	k.mu.Lock()
	defer k.mu.Unlock()
	if err := k.inject("flush-chain", string(table), string(chain)); err != nil {
		return err
	}
	t := k.table(string(table))
	c, ok := t.Chains[string(chain)]
	if !ok {
		fl := errNoChain()
		k.log("flush-chain", t.Name, string(chain), fl)
		return fmt.Errorf("error flushing chain %q: exit status 1: %s", chain, fl.msg)
	}
	c.Rules = nil
	k.log("flush-chain", t.Name, string(chain), nil)
	return nil
}

func (f *IPTables) DeleteChain(table utiliptables.Table, chain utiliptables.Chain) error {
	k := f.K
	k.mu.Lock()
	defer k.mu.Unlock()
	if err := k.inject("delete-chain", string(table), string(chain)); err != nil {
		return err
	}
	t := k.table(string(table))
	fl := t.deleteChain(string(chain))
	k.log("delete-chain", t.Name, string(chain), fl)
	if fl != nil {
		return fmt.Errorf("error deleting chain %q: exit status 1: %s", chain, fl.msg)
	}
	return nil
}

// check mimics `iptables -C`: (exists, error)
// Checked against iptables v1.8.9: a missing jump target or set is a hard error (exit status 2, which galaxy's
// runner reports as an error); a missing CHAIN or rule is exit status 1, which the runner reads as "not there".
func (k *Kernel) check(t *Table, chain string, r Rule) (bool, *fail) {
	if fl := k.ruleOK(t, r); fl != nil {
		return false, fl
	}
	if _, ok := t.Chains[chain]; !ok {
		return false, nil
	}
	return t.findRule(chain, r) >= 0, nil
}

func (f *IPTables) EnsureRule(position utiliptables.RulePosition, table utiliptables.Table, chain utiliptables.Chain,
	args ...string) (bool, error) {
	k := f.K
	k.mu.Lock()
	defer k.mu.Unlock()
	if err := k.inject("ensure-rule", string(table), string(chain)); err != nil {
		return false, err
	}
	t := k.table(string(table))
	r, err := ParseRule(args)
	if err != nil {
		k.log("ensure-rule", t.Name, string(chain), &fail{"syntax", err.Error()})
		return false, err
	}
	ex, fl := k.check(t, string(chain), r)
	if fl != nil {
		k.log("ensure-rule", t.Name, string(chain)+" "+r.Text(), fl)
		return false, fmt.Errorf("error checking rule: exit status 1: %s", fl.msg)
	}
	if ex {
		k.log("ensure-rule", t.Name, string(chain)+" "+r.Text(), nil)
		return true, nil
	}
	fl = k.appendRule(t, string(chain), r, position == utiliptables.Prepend)
	k.log("ensure-rule", t.Name, string(chain)+" "+r.Text(), fl)
	if fl != nil {
		return false, fmt.Errorf("error appending rule: exit status 1: %s", fl.msg)
	}
	return false, nil
}

func (f *IPTables) DeleteRule(table utiliptables.Table, chain utiliptables.Chain, args ...string) error {
	k := f.K
	k.mu.Lock()
	defer k.mu.Unlock()
	if err := k.inject("delete-rule", string(table), string(chain)); err != nil {
		return err
	}
	t := k.table(string(table))
	r, err := ParseRule(args)
	if err != nil {
		k.log("delete-rule", t.Name, string(chain), &fail{"syntax", err.Error()})
		return err
	}
	ex, fl := k.check(t, string(chain), r)
	if fl != nil {
		k.log("delete-rule", t.Name, string(chain)+" "+r.Text(), fl)
		return fmt.Errorf("error checking rule: exit status 1: %s", fl.msg)
	}
	if ex {
		c := t.Chains[string(chain)]
		i := t.findRule(string(chain), r)
		c.Rules = append(c.Rules[:i:i], c.Rules[i+1:]...)
	}
	k.log("delete-rule", t.Name, string(chain)+" "+r.Text(), nil)
	return nil
}

func (f *IPTables) ListRule(table utiliptables.Table, chain utiliptables.Chain, args ...string) ([]string, error) {
	k := f.K
	k.mu.Lock()
	defer k.mu.Unlock()
	t := k.table(string(table))
	c, ok := t.Chains[string(chain)]
	if !ok {
		fl := errNoChain()
		k.log("list-rule", t.Name, string(chain), fl)
		return nil, fmt.Errorf("error listing rule: exit status 1: %s", fl.msg)
	}
	var b bytes.Buffer
	if c.Builtin {
		fmt.Fprintf(&b, "-P %s %s\n", c.Name, c.Policy)
	} else {
		fmt.Fprintf(&b, "-N %s\n", c.Name)
	}
	for _, r := range c.Rules {
		fmt.Fprintf(&b, "-A %s %s\n", c.Name, r.Text())
	}
	k.log("list-rule", t.Name, string(chain), nil)
	return strings.Split(b.String(), "\n"), nil
}

func (t *Table) chainNames() []string {
	var bi, us []string
	for n, c := range t.Chains {
		if c.Builtin {
			bi = append(bi, n)
		} else {
			us = append(us, n)
		}
	}
	sort.Strings(bi)
	sort.Strings(us)
	return append(bi, us...)
}

func (t *Table) saveText() string {
	var b bytes.Buffer
	fmt.Fprintf(&b, "# Generated by strict fake iptables-save\n*%s\n", t.Name)
	names := t.chainNames()
	for _, n := range names {
		c := t.Chains[n]
		p := "-"
		if c.Builtin {
			p = c.Policy
		}
		fmt.Fprintf(&b, ":%s %s [0:0]\n", n, p)
	}
	for _, n := range names {
		for _, r := range t.Chains[n].Rules {
			fmt.Fprintf(&b, "-A %s %s\n", n, r.Text())
		}
	}
	b.WriteString("COMMIT\n# Completed\n")
	return b.String()
}

func (f *IPTables) SaveInto(table utiliptables.Table, buffer *bytes.Buffer) error {
	k := f.K
	k.mu.Lock()
	defer k.mu.Unlock()
	if k.FailSave {
		k.FailSave = false
		k.Log = append(k.Log, Op{Kind: "save", Table: string(table), OK: false, Why: "injected"})
		return fmt.Errorf("Another app is currently holding the xtables lock (injected transient failure of iptables-save)")
	}
	buffer.WriteString(k.table(string(table)).saveText())
	return nil
}

func (f *IPTables) EnsurePolicy(table utiliptables.Table, chain utiliptables.Chain, policy string) error {
	k := f.K
	k.mu.Lock()
	defer k.mu.Unlock()
	t := k.table(string(table))
	c, ok := t.Chains[string(chain)]
	if !ok || !c.Builtin {
		fl := errNoChain()
		k.log("policy", t.Name, string(chain), fl)
		return fl
	}
	c.Policy = policy
	k.log("policy", t.Name, string(chain)+" "+policy, nil)
	return nil
}

func (f *IPTables) Restore(table utiliptables.Table, data []byte, flush utiliptables.FlushFlag,
	counters utiliptables.RestoreCountersFlag) error {
	return f.restore(string(table), data, bool(flush))
}

func (f *IPTables) RestoreAll(data []byte, flush utiliptables.FlushFlag, counters utiliptables.RestoreCountersFlag) error {
	return f.restore("", data, bool(flush))
}

// restore applies the batch; only lines of table `only` when it is non-empty.
func (f *IPTables) restore(only string, data []byte, flush bool) error {
	k := f.K
	k.mu.Lock()
	defer k.mu.Unlock()
	if err := k.inject("restore", only, ""); err != nil {
		return err
	}
	var cur *Table // private copy
	var curName string
	var firstErr error
	lineNo := 0
	skip := false
	for _, line := range strings.Split(string(data), "\n") {
		lineNo++
		line = strings.TrimSpace(line)
		if line == "" || line[0] == '#' {
			continue
		}
		reject := func(fl *fail) {
			k.log("restore", curName, line, fl)
			if firstErr == nil {
				firstErr = fmt.Errorf("iptables-restore: line %d failed: %s", lineNo, fl.msg)
			}
			cur, skip = nil, true // the rest of this table's lines are not applied
		}
		if line[0] == '*' {
			curName = line[1:]
			skip = only != "" && only != curName
			if !skip {
				cur = k.table(curName).clone()
				if flush {
					for n, c := range cur.Chains {
						if c.Builtin {
							c.Rules = nil
						} else {
							delete(cur.Chains, n)
						}
					}
				}
			}
			continue
		}
		if line == "COMMIT" {
			if cur != nil && !skip {
				k.Tables[curName] = cur
				k.log("restore", curName, "COMMIT", nil)
			}
			cur, skip = nil, false
			continue
		}
		if skip {
			continue
		}
		if cur == nil {
			reject(&fail{"syntax", "line outside a table"})
			continue
		}
		if line[0] == ':' {
			fs := strings.Fields(line[1:])
			if len(fs) < 2 {
				reject(&fail{"syntax", "bad chain line"})
				continue
			}
			name, pol := fs[0], fs[1]
			if c, ok := cur.Chains[name]; ok {
				if c.Builtin {
					if pol != "-" {
						c.Policy = pol
					}
				} else {
					if pol != "-" {
						reject(&fail{"syntax", "policy on a user chain"})
						continue
					}
					c.Rules = nil // --noflush: an existing user chain named by a chain line is flushed
				}
			} else {
				if pol != "-" {
					reject(&fail{"syntax", "policy on a user chain"})
					continue
				}
				cur.Chains[name] = &Chain{Name: name}
			}
			continue
		}
		tok := Tokenize(line)
		if len(tok) >= 2 && tok[0][0] == '[' { // counters prefix
			tok = tok[1:]
		}
		if len(tok) < 2 {
			reject(&fail{"syntax", "bad line"})
			continue
		}
		switch tok[0] {
		case "-A", "--append", "-I", "--insert":
			r, err := ParseRule(tok[2:])
			if err != nil {
				reject(&fail{"syntax", err.Error()})
				continue
			}
			if fl := k.appendRule(cur, tok[1], r, tok[0] == "-I" || tok[0] == "--insert"); fl != nil {
				reject(fl)
			}
		case "-D", "--delete":
			r, err := ParseRule(tok[2:])
			if err != nil {
				reject(&fail{"syntax", err.Error()})
				continue
			}
			ex, fl := k.check(cur, tok[1], r)
			if _, ok := cur.Chains[tok[1]]; !ok && fl == nil {
				fl = errNoChain()
			}
			if fl != nil {
				reject(fl)
			} else if !ex {
				reject(&fail{"missing-rule", "iptables: Bad rule (does a matching rule exist in that chain?)."})
			} else {
				c := cur.Chains[tok[1]]
				i := cur.findRule(tok[1], r)
				c.Rules = append(c.Rules[:i:i], c.Rules[i+1:]...)
			}
		case "-X", "--delete-chain":
			if fl := cur.deleteChain(tok[1]); fl != nil {
				reject(fl)
			}
		case "-F", "--flush":
			if c, ok := cur.Chains[tok[1]]; ok {
				c.Rules = nil
			} else {
				reject(errNoChain())
			}
		case "-N", "--new-chain":
			if _, ok := cur.Chains[tok[1]]; ok {
				reject(&fail{"exists", "iptables: Chain already exists."})
			} else {
				cur.Chains[tok[1]] = &Chain{Name: tok[1]}
			}
		default:
			reject(&fail{"syntax", "unsupported line"})
		}
	}
	return firstErr
}

// ---------------------------------------------------------------- ipset.Interface

type IPSet struct{ K *Kernel }

var _ ipset.Interface = &IPSet{}

func (k *Kernel) IPSet() *IPSet { return &IPSet{K: k} }

func (k *Kernel) setReferenced(name string) bool {
	for _, t := range k.Tables {
		for _, c := range t.Chains {
			for _, r := range c.Rules {
				for _, s := range r.SetRefs() {
					if s == name {
						return true
					}
				}
			}
		}
	}
	return false
}

func noSet(name string) *fail {
	return &fail{"missing-set", "ipset v7.15: The set with the given name does not exist"}
}

func (s *IPSet) FlushSet(set string) error {
	k := s.K
	k.mu.Lock()
	defer k.mu.Unlock()
	st, ok := k.Sets[set]
	if !ok {
		k.log("ipset-flush", "", set, noSet(set))
		return fmt.Errorf("error flushing set: %s, error: %s", set, noSet(set).msg)
	}
	st.Elems = nil
	k.log("ipset-flush", "", set, nil)
	return nil
}

func (s *IPSet) DestroySet(set string) error {
	k := s.K
	k.mu.Lock()
	defer k.mu.Unlock()
	if _, ok := k.Sets[set]; !ok {
		k.log("ipset-destroy", "", set, noSet(set))
		return fmt.Errorf("error destroying set %s, error: %s", set, noSet(set).msg)
	}
	if k.setReferenced(set) {
		fl := &fail{"busy-referenced", "ipset v7.15: Set cannot be destroyed: it is in use by a kernel component"}
		k.log("ipset-destroy", "", set, fl)
		return fmt.Errorf("error destroying set %s, error: %s", set, fl.msg)
	}
	delete(k.Sets, set)
	k.log("ipset-destroy", "", set, nil)
	return nil
}

func (s *IPSet) DestroyAllSets() error {
	k := s.K
	k.mu.Lock()
	defer k.mu.Unlock()
	for n := range k.Sets {
		if k.setReferenced(n) {
			fl := &fail{"busy-referenced", "ipset v7.15: Set cannot be destroyed: it is in use by a kernel component"}
			k.log("ipset-destroy-all", "", n, fl)
			return fmt.Errorf("error destroying all sets, error: %s", fl.msg)
		}
	}
	k.Sets = map[string]*Set{}
	k.log("ipset-destroy-all", "", "", nil)
	return nil
}

func (s *IPSet) CreateSet(set *ipset.IPSet, ignoreExistErr bool) error {
	k := s.K
	k.mu.Lock()
	defer k.mu.Unlock()
	ty := string(set.SetType)
	if ty == "" {
		ty = string(ipset.HashIPPort)
	}
	if old, ok := k.Sets[set.Name]; ok {
		if ignoreExistErr && old.Type == ty {
			k.log("ipset-create", "", set.Name+" "+ty, nil)
			return nil
		}
		fl := &fail{"exists", "ipset v7.15: Set cannot be created: set with the same name already exists"}
		k.log("ipset-create", "", set.Name+" "+ty, fl)
		return fmt.Errorf("error creating ipset %s, error: %s", set.Name, fl.msg)
	}
	k.Sets[set.Name] = &Set{Name: set.Name, Type: ty}
	k.log("ipset-create", "", set.Name+" "+ty, nil)
	return nil
}

func (k *Kernel) addElem(name, key string, nomatch, exist bool) *fail {
	st, ok := k.Sets[name]
	if !ok {
		return noSet(name)
	}
	key = normIP(key)
	for i := range st.Elems {
		if st.Elems[i].Key == key {
			if !exist {
				return &fail{"exists", "ipset v7.15: Element cannot be added to the set: it's already added"}
			}
			st.Elems[i].NoMatch = nomatch // add -exist re-adds the element with the new flags
			return nil
		}
	}
	st.Elems = append(st.Elems, Elem{Key: key, NoMatch: nomatch})
	return nil
}

func (k *Kernel) delElem(name, key string) *fail {
	st, ok := k.Sets[name]
	if !ok {
		return noSet(name)
	}
	key = normIP(key)
	for i := range st.Elems {
		if st.Elems[i].Key == key {
			st.Elems = append(st.Elems[:i:i], st.Elems[i+1:]...)
			return nil
		}
	}
	return &fail{"missing-elem", "ipset v7.15: Element cannot be deleted from the set: it's not added (element is missing)"}
}

func (s *IPSet) AddEntry(entry string, set *ipset.IPSet, ignoreExistErr bool) error {
	k := s.K
	k.mu.Lock()
	defer k.mu.Unlock()
	parts := strings.Fields(entry)
	if len(parts) == 0 {
		fl := &fail{"syntax", "empty entry"}
		k.log("ipset-add", "", set.Name, fl)
		return fl
	}
	nom := len(parts) > 1 && parts[1] == "nomatch"
	fl := k.addElem(set.Name, parts[0], nom, ignoreExistErr)
	k.log("ipset-add", "", set.Name+" "+entry, fl)
	if fl != nil {
		return fmt.Errorf("error adding entry %s, error: %s", entry, fl.msg)
	}
	return nil
}

func (s *IPSet) AddEntryWithOptions(entry *ipset.Entry, set *ipset.IPSet, ignoreExistErr bool) error {
	k := s.K
	k.mu.Lock()
	defer k.mu.Unlock()
	nom := false
	for _, o := range entry.Options {
		if o == "nomatch" {
			nom = true
		}
	}
	fl := k.addElem(set.Name, entry.String(), nom, ignoreExistErr)
	k.log("ipset-add", "", set.Name+" "+entry.String()+map[bool]string{true: " nomatch", false: ""}[nom], fl)
	if fl != nil {
		return fmt.Errorf("error adding entry %s, error: %s", entry, fl.msg)
	}
	return nil
}

func (s *IPSet) DelEntry(entry string, set string) error {
	return s.DelEntryWithOptions(set, entry)
}

func (s *IPSet) DelEntryWithOptions(set, entry string, options ...string) error {
	k := s.K
	k.mu.Lock()
	defer k.mu.Unlock()
	fl := k.delElem(set, entry)
	k.log("ipset-del", "", set+" "+entry, fl)
	if fl != nil {
		return fmt.Errorf("error deleting entry %s: from set: %s, error: %s", entry, set, fl.msg)
	}
	return nil
}

func (s *IPSet) TestEntry(entry string, set string) (bool, error) {
	k := s.K
	k.mu.Lock()
	defer k.mu.Unlock()
	st, ok := k.Sets[set]
	if !ok {
		return false, fmt.Errorf("error testing entry %s: %s", entry, noSet(set).msg)
	}
	for _, e := range st.Elems {
		if e.Key == normIP(entry) {
			return true, nil
		}
	}
	return false, nil
}

func (st *Set) entryStrings() []string {
	var out []string
	for _, e := range st.Elems {
		x := e.Key
		if e.NoMatch {
			x += " nomatch"
		}
		out = append(out, x)
	}
	sort.Strings(out)
	return out
}

func (s *IPSet) ListEntries(set string) ([]string, error) {
	k := s.K
	k.mu.Lock()
	defer k.mu.Unlock()
	if len(set) == 0 {
		return nil, fmt.Errorf("set name can't be nil")
	}
	st, ok := k.Sets[set]
	if !ok {
		k.log("ipset-list", "", set, noSet(set))
		return nil, fmt.Errorf("error listing set: %s, error: %s", set, noSet(set).msg)
	}
	out := st.entryStrings()
	if out == nil {
		out = []string{}
	}
	return out, nil
}

func (k *Kernel) setNames() []string {
	var ns []string
	for n := range k.Sets {
		ns = append(ns, n)
	}
	sort.Strings(ns)
	return ns
}

func (s *IPSet) ListSets() ([]string, error) {
	k := s.K
	k.mu.Lock()
	defer k.mu.Unlock()
	var b bytes.Buffer
	for _, n := range k.setNames() {
		b.WriteString(n + "\n")
	}
	k.log("ipset-list-sets", "", "", nil)
	return strings.Split(b.String(), "\n"), nil
}

func (s *IPSet) GetVersion() (string, error) { return "v7.15", nil }

func (s *IPSet) SaveAllSets() ([]byte, error) {
	k := s.K
	k.mu.Lock()
	defer k.mu.Unlock()
	var b bytes.Buffer
	for _, n := range k.setNames() {
		st := k.Sets[n]
		refs := 0
		if k.setReferenced(n) {
			refs = 1
		}
		fmt.Fprintf(&b, "Name: %s\nType: %s\nRevision: 6\nHeader: family inet hashsize 1024 maxelem 65536\n"+
			"Size in memory: 0\nReferences: %d\nMembers:\n", n, st.Type, refs)
		for _, e := range st.entryStrings() {
			b.WriteString(e + "\n")
		}
		b.WriteString("\n")
	}
	return b.Bytes(), nil
}

// ---------------------------------------------------------------- dump / load (harness side)

type DumpChain struct {
	Name    string `json:"name"`
	Builtin bool   `json:"builtin"`
	Policy  string `json:"policy,omitempty"`
	Rules   []Rule `json:"rules"`
}

type DumpSet struct {
	Name  string          `json:"name"`
	Type  string          `json:"type"`
	Elems [][]interface{} `json:"elems"` // [key, nomatch]
}

func (k *Kernel) DumpTable(name string) []DumpChain {
	k.mu.Lock()
	defer k.mu.Unlock()
	t := k.table(name)
	out := []DumpChain{}
	for _, n := range t.chainNames() {
		c := t.Chains[n]
		rs := append([]Rule{}, c.Rules...)
		for i := range rs {
			if rs[i].Match == nil {
				rs[i].Match = []string{}
			}
			if rs[i].TOpts == nil {
				rs[i].TOpts = []string{}
			}
		}
		out = append(out, DumpChain{Name: n, Builtin: c.Builtin, Policy: c.Policy, Rules: rs})
	}
	return out
}

func (k *Kernel) DumpSets() []DumpSet {
	k.mu.Lock()
	defer k.mu.Unlock()
	out := []DumpSet{}
	for _, n := range k.setNames() {
		st := k.Sets[n]
		es := append([]Elem{}, st.Elems...)
		sort.Slice(es, func(i, j int) bool { return es[i].Key < es[j].Key })
		ds := DumpSet{Name: n, Type: st.Type, Elems: [][]interface{}{}}
		for _, e := range es {
			ds.Elems = append(ds.Elems, []interface{}{e.Key, e.NoMatch})
		}
		out = append(out, ds)
	}
	return out
}

// SaveText is the iptables-save-like text of one table.
func (k *Kernel) SaveText(name string) string {
	k.mu.Lock()
	defer k.mu.Unlock()
	return k.table(name).saveText()
}

// TakeLog returns and clears the operation log.
func (k *Kernel) TakeLog() []Op {
	k.mu.Lock()
	defer k.mu.Unlock()
	l := k.Log
	k.Log = nil
	if l == nil {
		l = []Op{}
	}
	return l
}

// LoadChain installs a chain with the given rules WITHOUT any check (prior kernel states of the cases).
func (k *Kernel) LoadChain(table, name string, rules []Rule) {
	k.mu.Lock()
	defer k.mu.Unlock()
	t := k.table(table)
	c, ok := t.Chains[name]
	if !ok {
		c = &Chain{Name: name}
		t.Chains[name] = c
	}
	c.Rules = append([]Rule(nil), rules...)
}

// LoadSet installs a set WITHOUT any check.
func (k *Kernel) LoadSet(name, typ string, elems []Elem) {
	k.mu.Lock()
	defer k.mu.Unlock()
	k.Sets[name] = &Set{Name: name, Type: typ, Elems: append([]Elem(nil), elems...)}
}
