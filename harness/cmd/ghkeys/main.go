// ghkeys: harness command for C11 (allocation keys, list/release API, paging) and C13 (ipinfos codec path).
package main

import "verifharness/ghlib"

func main() { ghlib.Main() }
