package main

import (
	"encoding/json"
	"fmt"
	"io/ioutil"
	"net"
	"os"
	"path/filepath"
	"sort"
	"strings"
	"time"

	"github.com/containernetworking/cni/pkg/skel"
	t020 "github.com/containernetworking/cni/pkg/types/020"
	corev1 "k8s.io/api/core/v1"
	metav1 "k8s.io/apimachinery/pkg/apis/meta/v1"
	"tkestack.io/galaxy/cni/ipam"
	"tkestack.io/galaxy/pkg/api/cniutil"
	galaxyapi "tkestack.io/galaxy/pkg/api/galaxy"
	"tkestack.io/galaxy/pkg/api/galaxy/constant"
	"tkestack.io/galaxy/pkg/galaxy"
	"tkestack.io/galaxy/pkg/utils/nets"
	. "verifharness/ghlib"
)

func init() { Subcommands["ipinfo"] = ipinfoCase }

func numList(v interface{}) []int64 {
	var out []int64
	if l, ok := v.([]interface{}); ok {
		for _, e := range l {
			if n, ok := e.(json.Number); ok {
				x, _ := n.Int64()
				out = append(out, x)
			} else {
				out = append(out, -1)
			}
		}
	}
	return out
}

// infos: [[addr, prefixlen, vlan, gw | -1], ...]
func mkInfos(v interface{}) []constant.IPInfo {
	var out []constant.IPInfo
	if l, ok := v.([]interface{}); ok {
		for _, e := range l {
			f := numList(e)
			ip := nets.IntToIP(uint32(f[0]))
			n := nets.IPNet(net.IPNet{IP: ip, Mask: net.CIDRMask(int(f[1]), 32)})
			info := constant.IPInfo{IP: &n, Vlan: uint16(f[2])}
			if f[3] >= 0 {
				info.Gateway = nets.IntToIP(uint32(f[3]))
			}
			out = append(out, info)
		}
	}
	return out
}

// rr: [["a~b","c"],...] texts of nets.IPRange
func mkRanges(v interface{}) [][]nets.IPRange {
	var out [][]nets.IPRange
	if l, ok := v.([]interface{}); ok {
		for _, e := range l {
			var rs []nets.IPRange
			for _, s := range strList(e) {
				if r := nets.ParseIPRange(s); r != nil {
					rs = append(rs, *r)
				}
			}
			out = append(out, rs)
		}
	}
	return out
}

// what Bind does: the pod's own CniArgs (request_ip_range survives) with Common.IPInfos replaced, json.Marshal
func bindAnnotation(infos []constant.IPInfo, rr [][]nets.IPRange) (string, error) {
	args := constant.CniArgs{RequestIPRange: rr}
	args.Common.IPInfos = infos
	data, err := json.Marshal(&args)
	return string(data), err
}

func decodeArgs(args string) (o map[string]interface{}) {
	o = map[string]interface{}{}
	defer func() {
		if r := recover(); r != nil {
			o["res"] = "panic"
			o["panic"] = fmt.Sprint(r)
		}
	}()
	vlans, results, err := ipam.Allocate("", &skel.CmdArgs{Args: args})
	if err != nil {
		o["res"] = "err"
		o["err"] = err.Error()
		return o
	}
	o["res"] = "ok"
	o["vlans"] = vlans
	rs := []interface{}{}
	for _, r := range results {
		r020, err := t020.GetResult(r)
		if err != nil || r020.IP4 == nil {
			rs = append(rs, nil)
			continue
		}
		ones, bits := r020.IP4.IP.Mask.Size()
		var gw interface{}
		if r020.IP4.Gateway != nil {
			gw = nets.IPToInt(r020.IP4.Gateway)
		}
		rs = append(rs, []interface{}{nets.IPToInt(r020.IP4.IP.IP), ones, gw, bits})
	}
	o["results"] = rs
	return o
}

var e2eSeq int

func ipinfoCase(c map[string]interface{}) map[string]interface{} {
	switch Str(c, "op") {
	case "enc":
		// json.Marshal([]constant.IPInfo), constant.MarshalCniArgs and the annotation as Bind writes it
		return Guarded(5*time.Second, func() map[string]interface{} {
			infos := mkInfos(c["infos"])
			b, err := json.Marshal(infos)
			if err != nil {
				return map[string]interface{}{"res": "err", "err": err.Error()}
			}
			m, _ := constant.MarshalCniArgs(infos)
			a, _ := bindAnnotation(infos, mkRanges(c["rr"]))
			return map[string]interface{}{"res": "ok", "enc": string(b), "marshal_cni_args": m, "annotation": a}
		})
	case "ext":
		// the daemon's raw-member extraction on an annotation text
		return Guarded(5*time.Second, func() map[string]interface{} {
			pod := &corev1.Pod{ObjectMeta: metav1.ObjectMeta{Name: "p", Namespace: "ns",
				Annotations: map[string]string{constant.ExtendedCNIArgsAnnotation: Str(c, "annotation")}}}
			m, err := galaxy.VerifParseExtendedCNIArgs(pod)
			if err != nil {
				return map[string]interface{}{"res": "err", "err": err.Error()}
			}
			out := map[string]string{}
			for k, v := range m {
				out[k] = string(v)
			}
			return map[string]interface{}{"res": "ok", "members": out}
		})
	case "parseargs":
		return Guarded(5*time.Second, func() map[string]interface{} {
			m, err := cniutil.ParseCNIArgs(Str(c, "s"))
			if err != nil {
				return map[string]interface{}{"res": "err"}
			}
			return map[string]interface{}{"res": "ok", "map": m}
		})
	case "buildargs":
		return Guarded(5*time.Second, func() map[string]interface{} {
			m := map[string]string{}
			if mm, ok := c["m"].(map[string]interface{}); ok {
				for k, v := range mm {
					m[k], _ = v.(string)
				}
			}
			return map[string]interface{}{"res": "ok", "s": cniutil.BuildCNIArgs(m)}
		})
	case "alloc":
		return Guarded(5*time.Second, func() map[string]interface{} {
			o := decodeArgs(Str(c, "args"))
			if o["res"] == "panic" {
				o["res"] = "decoder-panic"
			}
			return o
		})
	case "e2e":
		return Guarded(60*time.Second, func() map[string]interface{} { return e2eCase(c) })
	}
	return map[string]interface{}{"res": "harness-error", "err": "unknown op"}
}

// e2eCase: IPAM's encoder -> pod annotation -> the daemon's resolveNetworks -> cniutil.CmdAdd executing the
// ghkeyscni plugin binary once per network -> cni/ipam.Allocate inside the plugin.
//   infos, rr as in "enc" (or "annotation": explicit text); kubelet: CNI_ARGS as the kubelet sends them;
//   nets: number of networks (default networks of the daemon) | "networks": annotation value
func e2eCase(c map[string]interface{}) map[string]interface{} {
	bin := os.Getenv("GHKEYS_CNI_DIR")
	if bin == "" {
		exe, _ := os.Executable()
		bin = filepath.Dir(exe)
	}
	dir, err := ioutil.TempDir("", "keys-e2e-")
	if err != nil {
		return map[string]interface{}{"res": "harness-error", "err": err.Error()}
	}
	defer os.RemoveAll(dir)
	ann := Str(c, "annotation")
	o := map[string]interface{}{"res": "ok"}
	if _, explicit := c["annotation"]; !explicit {
		a, err := bindAnnotation(mkInfos(c["infos"]), mkRanges(c["rr"]))
		if err != nil {
			return map[string]interface{}{"res": "err", "err": err.Error()}
		}
		ann = a
	}
	o["annotation"] = ann
	n := int(Num(c, "nets"))
	if n < 1 {
		n = 1
	}
	conf := map[string]interface{}{}
	var ncs []interface{}
	var defaults []string
	for i := 0; i < n; i++ {
		name := fmt.Sprintf("net%d", i)
		nc := map[string]interface{}{"name": name, "type": "ghkeyscni", "obs_dir": dir}
		if b, _ := c["ipam_section"].(bool); b && i%2 == 0 {
			// the documented alternative source of addresses ("either from CNI Args ipinfos or ipam CNI plugin"): a third-party ipam
			// plugin named in the network configuration - used only for pods WITHOUT ipinfos (the binary is absent here: running
			// it is an error the plugin reports)
			nc["ipam"] = map[string]interface{}{"type": "verif-absent-ipam", "subnet": "172.16.0.0/24"}
		}
		ncs = append(ncs, nc)
		defaults = append(defaults, name)
	}
	conf["NetworkConf"] = ncs
	conf["DefaultNetworks"] = defaults
	confb, _ := json.Marshal(conf)
	g := galaxy.NewGalaxy()
	if err := g.VerifLoadConf(confb); err != nil {
		return map[string]interface{}{"res": "harness-error", "err": "conf: " + err.Error()}
	}
	e2eSeq++
	cid := fmt.Sprintf("keys%d-%d", os.Getpid(), e2eSeq)
	pod := &corev1.Pod{ObjectMeta: metav1.ObjectMeta{Name: "p", Namespace: "ns", Annotations: map[string]string{}}}
	if ann != "" {
		pod.Annotations[constant.ExtendedCNIArgsAnnotation] = ann
	}
	if nw := Str(c, "networks"); nw != "" {
		pod.Annotations[constant.MultusCNIAnnotation] = nw
	}
	req := &galaxyapi.PodRequest{PodName: "p", PodNamespace: "ns", Command: cniutil.COMMAND_ADD,
		CmdArgs: &skel.CmdArgs{ContainerID: cid, Netns: "/proc/self/ns/net", IfName: "eth0", Args: Str(c, "kubelet"), Path: bin}}
	infos, err := g.VerifResolveNetworkInfos(req, pod)
	if err != nil {
		o["res"] = "resolve-err"
		o["err"] = err.Error()
		return o
	}
	per := []interface{}{}
	for _, ni := range infos {
		args := map[string]string{}
		for k, v := range ni.Args {
			args[k] = v
		}
		per = append(per, args)
	}
	o["net_args"] = per
	_, err = cniutil.CmdAdd(req.CmdArgs, infos)
	if err != nil {
		o["add_err"] = err.Error()
	}
	o["final_args"] = req.CmdArgs.Args
	seen := []interface{}{}
	for i := range infos {
		b, err := ioutil.ReadFile(filepath.Join(dir, fmt.Sprintf("%s-net%d.json", cid, i)))
		if err != nil {
			seen = append(seen, nil)
			continue
		}
		var so map[string]interface{}
		d := json.NewDecoder(strings.NewReader(string(b)))
		d.UseNumber()
		_ = d.Decode(&so)
		seen = append(seen, so)
	}
	o["plugin"] = seen
	// clean the saved network info of this container (DEL path; the plugin ignores DEL)
	_ = cniutil.CmdDel(&skel.CmdArgs{ContainerID: cid, Netns: "/proc/self/ns/net", IfName: "eth0", Args: Str(c, "kubelet"), Path: bin}, -1)
	_ = sort.Strings
	return o
}
