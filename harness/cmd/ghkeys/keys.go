package main

import (
	"bytes"
	"encoding/json"
	"fmt"
	"net"
	"net/http/httptest"
	"net/url"
	"sort"
	"time"

	"github.com/emicklei/go-restful"
	corev1 "k8s.io/api/core/v1"
	metav1 "k8s.io/apimachinery/pkg/apis/meta/v1"
	"k8s.io/apimachinery/pkg/runtime"
	"tkestack.io/galaxy/pkg/api/galaxy/constant"
	"tkestack.io/galaxy/pkg/ipam/api"
	ipamctx "tkestack.io/galaxy/pkg/ipam/context"
	"tkestack.io/galaxy/pkg/ipam/floatingip"
	"tkestack.io/galaxy/pkg/ipam/schedulerplugin"
	"tkestack.io/galaxy/pkg/ipam/schedulerplugin/util"
	"tkestack.io/galaxy/pkg/utils/page"
	. "verifharness/ghlib"
)

func init() { Subcommands["keys"] = keysCase }

func koFields(k *util.KeyObj) []interface{} {
	return []interface{}{k.AppTypePrefix, k.Namespace, k.AppName, k.PodName, k.PoolName}
}

func strList(v interface{}) []string {
	var out []string
	if l, ok := v.([]interface{}); ok {
		for _, e := range l {
			s, _ := e.(string)
			out = append(out, s)
		}
	}
	return out
}

// the pool configuration used by the API cases: one pool, 10.0.0.2 ... 10.0.3.250
// three pools in address blocks more than 2^31 apart from each other, so that an ordering of the IPs that is not a total order shows
const apiConf = `{"floatingips":[{"nodeSubnets":["10.1.0.0/16"],"ips":["10.0.0.2~10.0.3.250"],"subnet":"10.0.0.0/22","gateway":"10.0.0.1","vlan":2},` +
	`{"nodeSubnets":["10.1.0.0/16"],"ips":["100.64.0.2~100.64.0.250"],"subnet":"100.64.0.0/24","gateway":"100.64.0.1","vlan":3},` +
	`{"nodeSubnets":["10.1.0.0/16"],"ips":["192.168.5.2~192.168.5.250"],"subnet":"192.168.5.0/24","gateway":"192.168.5.1","vlan":4}]}`

func call(method, target string, body []byte, h func(*restful.Request, *restful.Response)) *httptest.ResponseRecorder {
	req := httptest.NewRequest(method, target, bytes.NewReader(body))
	req.Header.Set("Content-Type", "application/json")
	rec := httptest.NewRecorder()
	resp := restful.NewResponse(rec)
	resp.SetRequestAccepts("application/json")
	h(restful.NewRequest(req), resp)
	return rec
}

func entryObs(e *api.FloatingIP) []interface{} {
	return []interface{}{e.IP, e.Namespace, e.AppName, e.PodName, e.PoolName, e.AppType}
}

func dump(ipam floatingip.IPAM) [][]string {
	fips, _ := ipam.ByKeyword("")
	out := [][]string{}
	for i := range fips {
		out = append(out, []string{fips[i].IP.String(), fips[i].Key})
	}
	sort.Slice(out, func(a, b int) bool { return out[a][0] < out[b][0] })
	return out
}

func keysCase(c map[string]interface{}) map[string]interface{} {
	switch Str(c, "op") {
	case "key":
		return Guarded(5*time.Second, func() map[string]interface{} {
			pod := &corev1.Pod{ObjectMeta: metav1.ObjectMeta{Name: Str(c, "name"), Namespace: Str(c, "ns")}}
			if ows, ok := c["owners"].([]interface{}); ok {
				for _, o := range ows {
					kn := strList(o)
					pod.OwnerReferences = append(pod.OwnerReferences, metav1.OwnerReference{Kind: kn[0], Name: kn[1]})
				}
			}
			if p, ok := c["pool"].(string); ok {
				pod.Annotations = map[string]string{constant.IPPoolAnnotation: p}
			}
			k, err := util.FormatKey(pod)
			o := map[string]interface{}{"res": "ok", "err": err != nil}
			if err != nil {
				return o
			}
			o["key"] = k.KeyInDB
			o["fields"] = koFields(k)
			o["pp"] = k.PoolPrefix()
			o["pap"] = k.PoolAppPrefix()
			o["parsed"] = koFields(util.ParseKey(k.KeyInDB))
			o["parsed_pp"] = koFields(util.ParseKey(k.PoolPrefix()))
			o["parsed_pap"] = koFields(util.ParseKey(k.PoolAppPrefix()))
			o["nko"] = util.NewKeyObj(k.AppTypePrefix, k.Namespace, k.AppName, k.PodName, k.PoolName).KeyInDB
			return o
		})
	case "parse":
		return Guarded(5*time.Second, func() map[string]interface{} {
			k := util.ParseKey(Str(c, "s"))
			return map[string]interface{}{"res": "ok", "parsed": koFields(k), "key": k.KeyInDB}
		})
	case "genkey":
		return Guarded(5*time.Second, func() map[string]interface{} {
			f := strList(c["f"])
			k := util.NewKeyObj(f[0], f[1], f[2], f[3], f[4])
			return map[string]interface{}{"res": "ok", "key": k.KeyInDB, "pp": k.PoolPrefix(), "pap": k.PoolAppPrefix()}
		})
	case "apptype":
		return Guarded(5*time.Second, func() map[string]interface{} {
			return map[string]interface{}{"res": "ok", "prefix": util.GetAppTypePrefix(Str(c, "s")),
				"type": util.GetAppType(Str(c, "s"))}
		})
	case "page":
		return Guarded(5*time.Second, func() map[string]interface{} {
			pg, sz := page.ParsePage(Str(c, "page")), page.ParseSize(Str(c, "size"))
			n := int(Num(c, "len"))
			s, e, p := page.Pagination(pg, sz, n)
			return map[string]interface{}{"res": "ok", "pg": pg, "sz": sz, "start": s, "end": e, "first": p.First,
				"last": p.Last, "total": p.TotalElements, "pages": p.TotalPages, "count": p.NumberOfElements,
				"size": p.Size, "number": p.Number}
		})
	case "api":
		return Guarded(60*time.Second, func() map[string]interface{} { return apiCase(c) })
	}
	return map[string]interface{}{"res": "harness-error", "err": "unknown op"}
}

// apiCase: real crdIpam + real FloatingIPPlugin + real api.Controller handlers.
//   allocs: [[key, ip], ...]   pods: [[ns, name], ...] (present in the pod lister, phase Running)
//   lists:  ["keyword=_&size=100", ...] raw query strings; every response is recorded
//   posts:  [{"list": i, "idx": j, "blank": bool, "ip": "" | override}, {"entry": [ip, ns, app, pod, pool, type]}]
func apiCase(c map[string]interface{}) map[string]interface{} {
	var conf schedulerplugin.Conf
	if err := json.Unmarshal([]byte(apiConf), &conf); err != nil {
		return map[string]interface{}{"res": "harness-error", "err": err.Error()}
	}
	var objs []runtime.Object
	if pods, ok := c["pods"].([]interface{}); ok {
		for _, p := range pods {
			nn := strList(p)
			objs = append(objs, &corev1.Pod{ObjectMeta: metav1.ObjectMeta{Namespace: nn[0], Name: nn[1], UID: "u1"},
				Status: corev1.PodStatus{Phase: corev1.PodRunning}})
		}
	}
	ctx, stop := ipamctx.CreateTestIPAMContext(objs, nil, nil)
	defer close(stop)
	p, err := schedulerplugin.NewFloatingIPPlugin(conf, ctx)
	if err != nil {
		return map[string]interface{}{"res": "harness-error", "err": err.Error()}
	}
	if err := p.Init(); err != nil {
		return map[string]interface{}{"res": "harness-error", "err": err.Error()}
	}
	ipam := p.GetIpam()
	ctl := api.NewController(ipam, ctx.PodLister, p.Release)
	if allocs, ok := c["allocs"].([]interface{}); ok {
		for _, a := range allocs {
			ki := strList(a)
			if err := ipam.AllocateSpecificIP(ki[0], net.ParseIP(ki[1]), floatingip.Attr{Policy: constant.ReleasePolicyNever}); err != nil {
				return map[string]interface{}{"res": "harness-error", "err": "allocate: " + err.Error()}
			}
		}
	}
	o := map[string]interface{}{"res": "ok"}
	var listed [][]api.FloatingIP
	lists := []interface{}{}
	for _, q := range strList(c["lists"]) {
		rec := call("GET", "/v1/ip?"+q, nil, ctl.ListIPs)
		var lr api.ListIPResp
		lo := map[string]interface{}{"code": rec.Code}
		if rec.Code == 200 {
			if err := json.Unmarshal(rec.Body.Bytes(), &lr); err != nil {
				return map[string]interface{}{"res": "harness-error", "err": "list decode: " + err.Error()}
			}
			es := []interface{}{}
			for i := range lr.Content {
				es = append(es, entryObs(&lr.Content[i]))
			}
			lo["content"] = es
			lo["page"] = []interface{}{lr.First, lr.Last, lr.TotalElements, lr.TotalPages, lr.NumberOfElements, lr.Size, lr.Number}
		}
		listed = append(listed, lr.Content)
		lists = append(lists, lo)
	}
	o["lists"] = lists
	// one entry of a release request from its spec: a listed entry (optionally with the appType blanked or another IP) or
	// literal fields
	mkEntry := func(pm map[string]interface{}) (api.FloatingIP, bool) {
		var e api.FloatingIP
		if ent, ok := pm["entry"]; ok {
			f := strList(ent)
			return api.FloatingIP{IP: f[0], Namespace: f[1], AppName: f[2], PodName: f[3], PoolName: f[4], AppType: f[5]}, true
		}
		li, idx := int(Num(pm, "list")), int(Num(pm, "idx"))
		if li >= len(listed) || len(listed[li]) == 0 {
			return e, false
		}
		e = listed[li][idx%len(listed[li])]
		if b, _ := pm["blank"].(bool); b {
			e.AppType = ""
		}
		if ip := Str(pm, "ip"); ip != "" {
			e.IP = ip
		}
		return e, true
	}
	release := func(es []api.FloatingIP) map[string]interface{} {
		body, _ := json.Marshal(api.ReleaseIPReq{IPs: es})
		rec := call("POST", "/v1/ip", body, ctl.ReleaseIPs)
		var rr api.ReleaseIPResp
		_ = json.Unmarshal(rec.Body.Bytes(), &rr)
		un := rr.Unreleased
		if un == nil {
			un = []string{}
		}
		return map[string]interface{}{"code": rec.Code, "unreleased": un, "reasons": rr.Reason, "state": dump(ipam)}
	}
	posts := []interface{}{}
	if ps, ok := c["posts"].([]interface{}); ok {
		for _, pi := range ps {
			pm, _ := pi.(map[string]interface{})
			e, ok := mkEntry(pm)
			if !ok {
				posts = append(posts, map[string]interface{}{"skipped": true})
				continue
			}
			po := release([]api.FloatingIP{e})
			po["entry"] = entryObs(&e)
			posts = append(posts, po)
		}
	}
	// batches: several entries in ONE request
	batches := []interface{}{}
	if bs, ok := c["batches"].([]interface{}); ok {
		for _, bi := range bs {
			var es []api.FloatingIP
			entries := []interface{}{}
			specs, _ := bi.([]interface{})
			for _, pi := range specs {
				pm, _ := pi.(map[string]interface{})
				if e, ok := mkEntry(pm); ok {
					es = append(es, e)
					entries = append(entries, entryObs(&e))
				}
			}
			bo := release(es)
			bo["entries"] = entries
			batches = append(batches, bo)
		}
	}
	o["batches"] = batches
	o["posts"] = posts
	_ = fmt.Sprint
	_ = url.QueryEscape
	return o
}
