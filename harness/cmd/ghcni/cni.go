package main

// C12: the REAL galaxy daemon (NewGalaxy, Init from a JSON file, SetClient(fake), StartServer on its
// constant unix socket) driven by CNI requests over that socket, with the fake plugin binary
// `fakecni` (same directory as this executable) on the daemon's CNI path.
//
// The daemon uses constant paths (/var/run/galaxy/galaxy.sock, /var/lib/cni/galaxy) and registers its
// handlers on the default mux, so every case runs in its OWN child process inside a private mount
// namespace with tmpfs mounted over both directories: cases can run in parallel and concurrent checks
// do not see each other.

import (
	"bytes"
	"encoding/json"
	"fmt"
	"io/ioutil"
	"net"
	"net/http"
	"os"
	"os/exec"
	"path/filepath"
	"sort"
	"strings"
	"sync"
	"syscall"
	"time"

	corev1 "k8s.io/api/core/v1"
	"k8s.io/apimachinery/pkg/api/resource"
	metav1 "k8s.io/apimachinery/pkg/apis/meta/v1"
	"k8s.io/client-go/kubernetes"
	"k8s.io/client-go/rest"
	"net/http/httptest"
	galaxyapi "tkestack.io/galaxy/pkg/api/galaxy"
	"tkestack.io/galaxy/pkg/api/galaxy/private"
	"tkestack.io/galaxy/pkg/galaxy"
	. "verifharness/ghlib"
)

const cniStateDir = "/var/lib/cni/galaxy"

func init() {
	Subcommands["cni"] = cniParent
	Subcommands["cni-child"] = cniChild
}

type jmap = map[string]interface{}

// cniParent runs one case in a child process with a private mount namespace.
func cniParent(c map[string]interface{}) map[string]interface{} { return inPrivateNS("cni-child", c) }

// inPrivateNS runs one case of the given child sub-command in a child process with a private mount namespace.
func inPrivateNS(child string, c map[string]interface{}) map[string]interface{} {
	self, err := os.Executable()
	if err != nil {
		return jmap{"res": "harness-error", "err": err.Error()}
	}
	in, _ := json.Marshal(c)
	cmd := exec.Command(self, child)
	cmd.Stdin = bytes.NewReader(append(in, '\n'))
	var out, errb bytes.Buffer
	cmd.Stdout, cmd.Stderr = &out, &errb
	flags := uintptr(syscall.CLONE_NEWNS)
	if child == "ports-child" {
		// real sockets on host ports: a network namespace of its own, so that no other process's ports (ephemeral ports of
		// connections included) get in the way
		flags |= syscall.CLONE_NEWNET
	}
	cmd.SysProcAttr = &syscall.SysProcAttr{Unshareflags: flags, Setpgid: true}
	if err := cmd.Start(); err != nil {
		return jmap{"res": "harness-error", "err": err.Error()}
	}
	done := make(chan error, 1)
	go func() { done <- cmd.Wait() }()
	select {
	case <-done:
	case <-time.After(120 * time.Second):
		_ = syscall.Kill(-cmd.Process.Pid, syscall.SIGKILL)
		<-done
		return jmap{"res": "timeout"}
	}
	var o map[string]interface{}
	line := bytes.TrimSpace(out.Bytes())
	if len(line) == 0 || json.Unmarshal(line, &o) != nil {
		// the daemon process died (for instance "fatal error: concurrent map writes")
		st := errb.String()
		if len(st) > 3000 {
			st = st[:3000]
		}
		return jmap{"res": "crash", "stderr": st}
	}
	return o
}

var mounted bool

func privateDirs() error {
	if mounted {
		return nil
	}
	for _, d := range []string{private.GalaxySocketDir, cniStateDir} {
		if err := os.MkdirAll(d, 0755); err != nil {
			return err
		}
		if err := syscall.Mount("tmpfs", d, "tmpfs", 0, ""); err != nil {
			return fmt.Errorf("mount tmpfs on %s: %v", d, err)
		}
	}
	mounted = true
	return nil
}

func post(env map[string]string) (int, string) {
	data, _ := json.Marshal(galaxyapi.CNIRequest{Env: env, Config: []byte(`{}`)})
	client := &http.Client{Transport: &http.Transport{Dial: func(proto, addr string) (net.Conn, error) {
		return net.Dial("unix", private.GalaxySocketPath)
	}, DisableKeepAlives: true}, Timeout: 60 * time.Second}
	resp, err := client.Post("http://dummy/cni", "application/json", bytes.NewReader(data))
	if err != nil {
		return -1, err.Error()
	}
	defer resp.Body.Close()
	b, _ := ioutil.ReadAll(resp.Body)
	return resp.StatusCode, string(b)
}

func strs(v interface{}) []string {
	var r []string
	if l, ok := v.([]interface{}); ok {
		for _, x := range l {
			if s, ok := x.(string); ok {
				r = append(r, s)
			}
		}
	}
	return r
}

func bools(v interface{}) []bool {
	r := []bool{}
	if l, ok := v.([]interface{}); ok {
		for _, x := range l {
			b, _ := x.(bool)
			r = append(r, b)
		}
	}
	return r
}

// savedState reads the daemon's per-container files: cid -> [{name, if, tag, prev}]
func savedState() map[string]interface{} {
	res := jmap{}
	fis, err := ioutil.ReadDir(cniStateDir)
	if err != nil {
		return res
	}
	for _, fi := range fis {
		if fi.IsDir() {
			continue
		}
		b, err := ioutil.ReadFile(filepath.Join(cniStateDir, fi.Name()))
		if err != nil {
			continue
		}
		var infos []struct {
			NetworkType string
			Args        map[string]string
			Conf        map[string]interface{}
			IfName      string
		}
		if err := json.Unmarshal(b, &infos); err != nil {
			res[fi.Name()] = "unreadable"
			continue
		}
		l := []interface{}{}
		for _, in := range infos {
			args := []string{}
			for k, v := range in.Args {
				args = append(args, k+"="+v)
			}
			sort.Strings(args)
			l = append(l, jmap{"name": in.NetworkType, "if": in.IfName, "args": args, "conf": in.Conf})
		}
		res[fi.Name()] = l
	}
	return res
}

func cniChild(c map[string]interface{}) map[string]interface{} {
	return Guarded(100*time.Second, func() map[string]interface{} { return cniRun(c) })
}

func cniRun(c map[string]interface{}) map[string]interface{} {
	if err := privateDirs(); err != nil {
		return jmap{"res": "harness-error", "err": err.Error()}
	}
	self, _ := os.Executable()
	bin := filepath.Dir(self)
	dir, err := ioutil.TempDir("", "ghcni")
	if err != nil {
		return jmap{"res": "harness-error", "err": err.Error()}
	}
	defer os.RemoveAll(dir)
	fdir := filepath.Join(dir, "fake")
	netd := filepath.Join(dir, "net.d")
	_ = os.MkdirAll(fdir, 0755)
	_ = os.MkdirAll(netd, 0755)
	os.Setenv("FAKECNI_DIR", fdir)
	confb, _ := json.Marshal(c["conf"])
	confPath := filepath.Join(dir, "galaxy.json")
	_ = ioutil.WriteFile(confPath, confb, 0644)
	if l, ok := c["confdir"].([]interface{}); ok {
		for _, e := range l {
			m, _ := e.(map[string]interface{})
			d := netd
			if sub := Str(m, "sub"); sub != "" {
				d = filepath.Join(netd, sub)
				_ = os.MkdirAll(d, 0755)
			}
			_ = ioutil.WriteFile(filepath.Join(d, Str(m, "file")), []byte(Str(m, "text")), 0644)
		}
	}
	g := galaxy.NewGalaxy()
	g.JsonConfigPath = confPath
	g.NetworkConfDir = netd
	g.CNIPaths = []string{bin}
	if err := g.Init(); err != nil {
		return jmap{"res": "init-err", "err": err.Error()}
	}
	// The API server as the daemon sees it: an HTTP stand-in with the TWO read paths of kube-apiserver - a GET with
	// resourceVersion=0 may be answered from the watch cache, which lags (here: it still shows an earlier version of the pod -
	// its previous incarnation or its form before the binding - when the case gives one), every other GET is a consistent read.
	mkPod := func(m map[string]interface{}, annKey string) *corev1.Pod {
		pod := &corev1.Pod{TypeMeta: metav1.TypeMeta{Kind: "Pod", APIVersion: "v1"},
			ObjectMeta: metav1.ObjectMeta{Name: Str(m, "name"), Namespace: Str(m, "ns"), ResourceVersion: "7"}}
		if an, ok := m[annKey].(map[string]interface{}); ok {
			pod.Annotations = map[string]string{}
			for k, v := range an {
				s, _ := v.(string)
				pod.Annotations[k] = s
			}
		}
		// containers: "eni_at" = index of the container that carries the ENI-IP request among "containers" (default: the
		// only one)
		n, at := int(Num(m, "containers")), int(Num(m, "eni_at"))
		if n < 1 {
			n = 1
		}
		b, _ := m["eni"].(bool)
		for i := 0; i < n; i++ {
			ctr := corev1.Container{Name: fmt.Sprintf("c%d", i)}
			if b && i == at%n {
				ctr.Resources.Requests = corev1.ResourceList{"tke.cloud.tencent.com/eni-ip": resource.MustParse("1")}
			}
			pod.Spec.Containers = append(pod.Spec.Containers, ctr)
		}
		return pod
	}
	current, cached := map[string]*corev1.Pod{}, map[string]*corev1.Pod{}
	if l, ok := c["pods"].([]interface{}); ok {
		for _, e := range l {
			m, _ := e.(map[string]interface{})
			key := Str(m, "ns") + "/" + Str(m, "name")
			current[key] = mkPod(m, "annotations")
			if _, ok := m["cached_annotations"]; ok {
				old := mkPod(m, "cached_annotations")
				old.ResourceVersion = "3"
				cached[key] = old
			}
		}
	}
	var cacheReads int32
	var cacheMu sync.Mutex
	api := httptest.NewServer(http.HandlerFunc(func(rw http.ResponseWriter, r *http.Request) {
		parts := strings.Split(strings.Trim(r.URL.Path, "/"), "/")
		rw.Header().Set("Content-Type", "application/json")
		if r.Method == "GET" && len(parts) == 6 && parts[0] == "api" && parts[2] == "namespaces" && parts[4] == "pods" {
			key := parts[3] + "/" + parts[5]
			pod := current[key]
			if r.URL.Query().Get("resourceVersion") == "0" {
				cacheMu.Lock()
				cacheReads++
				cacheMu.Unlock()
				if old, ok := cached[key]; ok {
					pod = old
				}
			}
			if pod != nil {
				_ = json.NewEncoder(rw).Encode(pod)
				return
			}
		}
		rw.WriteHeader(404)
		_ = json.NewEncoder(rw).Encode(metav1.Status{TypeMeta: metav1.TypeMeta{Kind: "Status", APIVersion: "v1"}, Status: "Failure",
			Reason: metav1.StatusReasonNotFound, Code: 404, Message: "not found"})
	}))
	defer api.Close()
	cli, err := kubernetes.NewForConfig(&rest.Config{Host: api.URL})
	if err != nil {
		return jmap{"res": "harness-error", "err": err.Error()}
	}
	g.SetClient(cli)
	go g.StartServer() // nolint: errcheck
	up := false
	for i := 0; i < 3000; i++ {
		if conn, err := net.Dial("unix", private.GalaxySocketPath); err == nil {
			conn.Close()
			up = true
			break
		}
		time.Sleep(5 * time.Millisecond)
	}
	if !up {
		return jmap{"res": "harness-error", "err": "the daemon's socket did not come up"}
	}
	logPath := filepath.Join(fdir, "log")
	seen := 0
	stepsOut := []interface{}{}
	steps, _ := c["steps"].([]interface{})
	for _, st := range steps {
		sm, _ := st.(map[string]interface{})
		reqs, _ := sm["reqs"].([]interface{})
		results := make([]interface{}, len(reqs))
		var wg sync.WaitGroup
		for i, r := range reqs {
			rm, _ := r.(map[string]interface{})
			cid := Str(rm, "cid")
			sc, _ := json.Marshal(jmap{"fail_add": bools(rm["fail_add"]), "fail_del": bools(rm["fail_del"])})
			_ = ioutil.WriteFile(filepath.Join(fdir, "script-"+cid+".json"), sc, 0644)
			_ = os.Remove(filepath.Join(fdir, "cnt-"+cid+"-ADD"))
			_ = os.Remove(filepath.Join(fdir, "cnt-"+cid+"-DEL"))
			env := map[string]string{"CNI_COMMAND": Str(rm, "cmd"), "CNI_CONTAINERID": cid, "CNI_NETNS": "/proc/self/ns/net",
				"CNI_IFNAME": Str(rm, "ifname"), "CNI_PATH": "/nonexistent/cni/bin", "CNI_ARGS": Str(rm, "args")}
			if gone, _ := rm["netns_gone"].(bool); gone {
				// the runtime sends a DEL with an empty CNI_NETNS when the sandbox's network namespace is gone already
				env["CNI_NETNS"] = ""
			}
			wg.Add(1)
			go func(i int) {
				defer wg.Done()
				code, body := post(env)
				cls := "err"
				if code == 200 {
					cls = "ok"
				}
				if len(body) > 300 {
					body = body[:300]
				}
				results[i] = jmap{"code": code, "class": cls, "body": body}
			}(i)
			if seq, _ := sm["sequential"].(bool); seq || len(reqs) == 1 {
				wg.Wait()
			}
		}
		wg.Wait()
		// new plugin invocations of this step
		lines := []interface{}{}
		if b, err := ioutil.ReadFile(logPath); err == nil {
			all := strings.Split(strings.TrimSpace(string(b)), "\n")
			from := seen
			if from > len(all) {
				from = len(all)
			}
			for _, ln := range all[from:] {
				if ln == "" {
					continue
				}
				var rec interface{}
				if json.Unmarshal([]byte(ln), &rec) == nil {
					lines = append(lines, rec)
				}
			}
			if strings.TrimSpace(string(b)) != "" {
				seen = len(all)
			}
		}
		stepsOut = append(stepsOut, jmap{"results": results, "log": lines, "saved": savedState()})
	}
	cacheMu.Lock()
	defer cacheMu.Unlock()
	return jmap{"res": "ok", "steps": stepsOut, "cache_reads": cacheReads}
}
