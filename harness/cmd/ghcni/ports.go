package main

// ports: the daemon's port-mapping glue (pkg/galaxy/server.go setupPortMapping / cleanupPortMapping / cleanIPtables with
// the per-container state file under /var/lib/cni/galaxy/port) over the REAL PortMappingHandler on the strict iptables fake,
// with a transient failure of the n-th state-changing iptables call of a step.
//
// case:  {"steps": [{"op": "basic"} |
//                   {"op": "setup", "cid": "..", "ns": "..", "pod": "..", "ip": "10.0.0.5", "ports": [[hostPort, containerPort, "TCP", hostIP]], "fault": n} |
//                   {"op": "cleanup", "cid": "..", "ns": "..", "pod": "..", "fault": n} |      (CNI DEL)
//                   {"op": "gc_clean", "cid": "..", "fault": n}]}                               (garbage collector callback)
// per step: {"err": bool, "nat": dump of the NAT table, "files": {cid: ports as saved}, "injected": bool}

import (
	"encoding/json"
	"fmt"
	"io/ioutil"
	"net"
	"os"
	"path/filepath"
	"time"

	"github.com/containernetworking/cni/pkg/skel"
	corev1 "k8s.io/api/core/v1"
	metav1 "k8s.io/apimachinery/pkg/apis/meta/v1"
	galaxyapi "tkestack.io/galaxy/pkg/api/galaxy"
	"tkestack.io/galaxy/pkg/api/k8s"
	"tkestack.io/galaxy/pkg/galaxy"
	"tkestack.io/galaxy/pkg/network/portmapping"
	. "verifharness/ghlib"
	"verifharness/nfake"
)

func init() {
	Subcommands["ports"] = func(c map[string]interface{}) map[string]interface{} { return inPrivateNS("ports-child", c) }
	Subcommands["ports-child"] = func(c map[string]interface{}) map[string]interface{} {
		return Guarded(100*time.Second, func() map[string]interface{} { return portsRun(c) })
	}
}

// chainNameOf asks the REAL code for the chain name of a port: SetupPortMapping on a scratch table, then the target of
// the jump it added to KUBE-HOSTPORTS.
func chainNameOf(p k8s.Port) string {
	k := nfake.NewKernel()
	h := portmapping.New("")
	h.Interface = k.IPTables()
	_, _ = h.EnsureChain("nat", "KUBE-HOSTPORTS")
	if err := h.SetupPortMapping([]k8s.Port{p}); err != nil {
		return ""
	}
	for _, ch := range k.DumpTable("nat") {
		if ch.Name == "KUBE-HOSTPORTS" && len(ch.Rules) == 1 {
			return ch.Rules[0].Target
		}
	}
	return ""
}

func portFiles() map[string]interface{} {
	out := map[string]interface{}{}
	dir := filepath.Join(cniStateDir, "port")
	fis, _ := ioutil.ReadDir(dir)
	for _, fi := range fis {
		b, _ := ioutil.ReadFile(filepath.Join(dir, fi.Name()))
		var v interface{}
		if json.Unmarshal(b, &v) != nil {
			v = string(b)
		}
		out[fi.Name()] = v
	}
	return out
}

func portsRun(c map[string]interface{}) map[string]interface{} {
	if err := privateDirs(); err != nil {
		return jmap{"res": "harness-error", "err": err.Error()}
	}
	_ = os.MkdirAll(filepath.Join(cniStateDir, "port"), 0700)
	k := nfake.NewKernel()
	g := galaxy.NewGalaxy()
	g.VerifUsePortMappingIPTables(k.IPTables())
	var steps []interface{}
	names := [][]interface{}{}
	sl, _ := c["steps"].([]interface{})
	for _, si := range sl {
		st, _ := si.(map[string]interface{})
		o := jmap{"op": Str(st, "op")}
		k.TakeLog()
		k.ArmFault(int(Num(st, "fault")))
		req := &galaxyapi.PodRequest{PodNamespace: Str(st, "ns"), PodName: Str(st, "pod"),
			CmdArgs: &skel.CmdArgs{ContainerID: Str(st, "cid")}}
		var err error
		switch Str(st, "op") {
		case "basic":
			err = g.VerifPortMappingHandler().EnsureBasicRule()
		case "setup":
			pod := &corev1.Pod{ObjectMeta: metav1.ObjectMeta{Namespace: Str(st, "ns"), Name: Str(st, "pod")}}
			ctr := corev1.Container{Name: "c"}
			pl, _ := st["ports"].([]interface{})
			for _, pi := range pl {
				f, _ := pi.([]interface{})
				if len(f) < 4 {
					continue
				}
				hp, _ := f[0].(json.Number).Int64()
				cp, _ := f[1].(json.Number).Int64()
				proto, _ := f[2].(string)
				hip, _ := f[3].(string)
				ctr.Ports = append(ctr.Ports, corev1.ContainerPort{HostPort: int32(hp), ContainerPort: int32(cp),
					Protocol: corev1.Protocol(proto), HostIP: hip})
				kp := k8s.Port{HostPort: int32(hp), ContainerPort: int32(cp), Protocol: proto, HostIP: hip, PodName: Str(st, "pod"), PodIP: Str(st, "ip")}
				names = append(names, []interface{}{hp, proto, cp, Str(st, "pod"), chainNameOf(kp)})
			}
			pod.Spec.Containers = []corev1.Container{ctr}
			err = g.VerifSetupPortMapping(req, Str(st, "ip"), pod)
		case "cleanup":
			err = g.VerifCleanupPortMapping(req)
		case "gc_clean":
			err = g.VerifCleanIPtables(Str(st, "cid"))
		default:
			return jmap{"res": "harness-error", "err": "unknown op"}
		}
		k.ArmFault(0)
		o["err"] = err != nil
		if err != nil {
			o["errtext"] = err.Error()
		}
		inj := false
		for _, l := range k.TakeLog() {
			if l.Why == "injected" {
				inj = true
			}
		}
		o["injected"] = inj
		o["nat"] = k.DumpTable("nat")
		o["files"] = portFiles()
		// bind probe (private network namespace): which of the host ports set up so far are still held by a socket
		held := [][]interface{}{}
		for _, n := range names {
			hp, _ := n[0].(int64)
			proto, _ := n[1].(string)
			if hp != 0 && !canBind(proto, int(hp)) {
				held = append(held, []interface{}{hp, proto})
			}
		}
		o["held"] = held
		steps = append(steps, o)
	}
	return jmap{"res": "ok", "steps": steps, "names": names}
}

// canBind: can a new socket be bound to the port on every address (nobody holds it)
func canBind(proto string, port int) bool {
	switch proto {
	case "TCP":
		l, err := net.Listen("tcp4", fmt.Sprintf("0.0.0.0:%d", port))
		if err != nil {
			return false
		}
		_ = l.Close()
	case "UDP":
		c, err := net.ListenPacket("udp4", fmt.Sprintf("0.0.0.0:%d", port))
		if err != nil {
			return false
		}
		_ = c.Close()
	}
	return true
}
