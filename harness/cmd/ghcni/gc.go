package main

// C17: the REAL garbage collector (gc.NewFlannelGC with the real docker.NewDockerInterface) run round
// by round (verif hook gc.VerifRound = cleanupIP + cleanupGCDirs) against temporary directories, a fake
// Docker daemon on a unix socket (DOCKER_HOST) or a fake CRI RuntimeService on a unix socket
// (CONTAINERD_HOST) plus a fake clientset for the pod lookup, and a recording port-clean callback.

import (
	"context"
	"encoding/json"
	"flag"
	"fmt"
	"io/ioutil"
	"net"
	"net/http"
	"os"
	"path/filepath"
	"sort"
	"strings"
	"sync"
	"time"

	"google.golang.org/grpc"
	"google.golang.org/grpc/codes"
	"google.golang.org/grpc/status"
	corev1 "k8s.io/api/core/v1"
	metav1 "k8s.io/apimachinery/pkg/apis/meta/v1"
	"k8s.io/apimachinery/pkg/runtime"
	"k8s.io/client-go/kubernetes/fake"
	k8stesting "k8s.io/client-go/testing"
	criapi "k8s.io/cri-api/pkg/apis/runtime/v1"
	"tkestack.io/galaxy/pkg/api/docker"
	"tkestack.io/galaxy/pkg/gc"
	. "verifharness/ghlib"
)

func init() { Subcommands["gc"] = gcCase }

// the scripted runtime: answer to the n-th inspect call for a container id
type script struct {
	mu      sync.Mutex
	answers map[string][]interface{} // cid -> answers by call index (the last one repeats)
	dflt    interface{}
	calls   map[string]int
	order   []string
}

func (s *script) next(cid string) interface{} {
	s.mu.Lock()
	defer s.mu.Unlock()
	n := s.calls[cid]
	s.calls[cid] = n + 1
	s.order = append(s.order, cid)
	l, ok := s.answers[cid]
	if !ok || len(l) == 0 {
		return s.dflt
	}
	if n >= len(l) {
		n = len(l) - 1
	}
	return l[n]
}

func ansKind(a interface{}) (string, map[string]interface{}) {
	switch v := a.(type) {
	case string:
		return v, nil
	case map[string]interface{}:
		return Str(v, "kind"), v
	}
	return "", nil
}

// fake Docker daemon
func (s *script) ServeHTTP(w http.ResponseWriter, r *http.Request) {
	p := r.URL.Path
	i := strings.Index(p, "/containers/")
	if i < 0 || !strings.HasSuffix(p, "/json") {
		w.WriteHeader(http.StatusBadRequest)
		fmt.Fprint(w, "unexpected request")
		return
	}
	cid := strings.TrimSuffix(p[i+len("/containers/"):], "/json")
	kind, _ := ansKind(s.next(cid))
	switch kind {
	case "notfound":
		w.WriteHeader(http.StatusNotFound)
		fmt.Fprintf(w, "No such container: %s", cid)
	case "err500":
		w.WriteHeader(http.StatusInternalServerError)
		fmt.Fprint(w, "driver failed")
	case "err500nosuchfile":
		w.WriteHeader(http.StatusInternalServerError)
		fmt.Fprintf(w, "open /var/lib/docker/containers/%s/config.v2.json: no such file or directory", cid)
	case "err500notfoundtext":
		w.WriteHeader(http.StatusInternalServerError)
		fmt.Fprintf(w, "No such container: %s (layer store not found, container is not running)", cid)
	case "badjson":
		w.Header().Set("Content-Type", "application/json")
		fmt.Fprint(w, `{"Id": 7, "State": "x"`)
	case "drop":
		if hj, ok := w.(http.Hijacker); ok {
			if c, _, err := hj.Hijack(); err == nil {
				c.Close()
				return
			}
		}
		w.WriteHeader(http.StatusInternalServerError)
	case "nostate":
		w.Header().Set("Content-Type", "application/json")
		fmt.Fprintf(w, `{"Id":%q,"Name":"/k8s_POD"}`, cid)
	default: // a container status
		w.Header().Set("Content-Type", "application/json")
		running := kind == "running"
		fmt.Fprintf(w, `{"Id":%q,"Name":"/k8s_POD","State":{"Status":%q,"Running":%v,"Pid":7}}`, cid, kind, running)
	}
}

// fake CRI runtime service
type criServer struct {
	criapi.UnimplementedRuntimeServiceServer
	s *script
}

func (c *criServer) PodSandboxStatus(ctx context.Context, req *criapi.PodSandboxStatusRequest) (*criapi.PodSandboxStatusResponse, error) {
	kind, m := ansKind(c.s.next(req.PodSandboxId))
	switch kind {
	case "notfound":
		return nil, status.Errorf(codes.NotFound, "sandbox %s not found", req.PodSandboxId)
	case "unavailable":
		return nil, status.Errorf(codes.Unavailable, "runtime is restarting")
	case "unknown":
		return nil, fmt.Errorf("plain error")
	case "unknown_nosuch":
		return nil, fmt.Errorf("dial tcp: lookup runtime.local: no such host; sandbox not found in cache")
	case "nil":
		return &criapi.PodSandboxStatusResponse{}, nil
	case "ready":
		return &criapi.PodSandboxStatusResponse{Status: &criapi.PodSandboxStatus{Id: req.PodSandboxId,
			State: criapi.PodSandboxState_SANDBOX_READY}}, nil
	default: // notready, with the pod named in the annotations
		return &criapi.PodSandboxStatusResponse{Status: &criapi.PodSandboxStatus{Id: req.PodSandboxId,
			State:       criapi.PodSandboxState_SANDBOX_NOTREADY,
			Annotations: map[string]string{gc.SandboxNamespace: Str(m, "ns"), gc.SandboxName: Str(m, "name")}}}, nil
	}
}

func listDir(d string) interface{} {
	fis, err := ioutil.ReadDir(d)
	if err != nil {
		return nil
	}
	names := []string{}
	for _, fi := range fis {
		names = append(names, fi.Name())
	}
	sort.Strings(names)
	return names
}

func makeDirs(root, prefix string, spec interface{}) []string {
	var paths []string
	l, _ := spec.([]interface{})
	for i, d := range l {
		dm, _ := d.(map[string]interface{})
		p := filepath.Join(root, fmt.Sprintf("%s%d", prefix, i))
		paths = append(paths, p)
		if b, _ := dm["missing"].(bool); b {
			continue
		}
		_ = os.MkdirAll(p, 0755)
		es, _ := dm["entries"].([]interface{})
		for _, e := range es {
			em, _ := e.(map[string]interface{})
			if b, _ := em["dir"].(bool); b {
				_ = os.MkdirAll(filepath.Join(p, Str(em, "name")), 0755)
				_ = ioutil.WriteFile(filepath.Join(p, Str(em, "name"), "inner"), []byte("x"), 0644)
			} else {
				_ = ioutil.WriteFile(filepath.Join(p, Str(em, "name")), []byte(Str(em, "content")), 0600)
			}
		}
	}
	return paths
}

func gcCase(c map[string]interface{}) map[string]interface{} {
	return Guarded(60*time.Second, func() map[string]interface{} { return gcRun(c) })
}

func gcRun(c map[string]interface{}) map[string]interface{} {
	root, err := ioutil.TempDir("", "ghgc")
	if err != nil {
		return jmap{"res": "harness-error", "err": err.Error()}
	}
	defer os.RemoveAll(root)
	ipPaths := makeDirs(root, "ip", c["ipdirs"])
	gcPaths := makeDirs(root, "gc", c["gcdirs"])
	sc := &script{answers: map[string][]interface{}{}, calls: map[string]int{}, dflt: c["default"]}
	if m, ok := c["oracle"].(map[string]interface{}); ok {
		for k, v := range m {
			l, _ := v.([]interface{})
			sc.answers[k] = l
		}
	}
	sock := filepath.Join(root, "rt.sock")
	ln, err := net.Listen("unix", sock)
	if err != nil {
		return jmap{"res": "harness-error", "err": err.Error()}
	}
	defer ln.Close()
	var objs []runtime.Object
	podErr := map[string]bool{}
	if m, ok := c["pods"].(map[string]interface{}); ok {
		for key, v := range m {
			pm, _ := v.(map[string]interface{})
			parts := strings.SplitN(key, "/", 2)
			if b, _ := pm["err"].(bool); b {
				podErr[key] = true
			}
			if b, _ := pm["missing"].(bool); b {
				continue
			}
			pod := &corev1.Pod{ObjectMeta: metav1.ObjectMeta{Namespace: parts[0], Name: parts[1]}}
			sts, _ := pm["states"].([]interface{})
			for i, s := range sts {
				cs := corev1.ContainerStatus{Name: fmt.Sprintf("c%d", i)}
				switch s {
				case "running":
					cs.State.Running = &corev1.ContainerStateRunning{}
				case "waiting":
					cs.State.Waiting = &corev1.ContainerStateWaiting{Reason: "CrashLoopBackOff"}
				case "terminated":
					cs.State.Terminated = &corev1.ContainerStateTerminated{ExitCode: 1}
				}
				pod.Status.ContainerStatuses = append(pod.Status.ContainerStatuses, cs)
			}
			objs = append(objs, pod)
		}
	}
	cli := fake.NewSimpleClientset(objs...)
	cli.PrependReactor("get", "pods", func(action k8stesting.Action) (bool, runtime.Object, error) {
		ga, ok := action.(k8stesting.GetAction)
		if ok && podErr[ga.GetNamespace()+"/"+ga.GetName()] {
			return true, nil, fmt.Errorf("the server is currently unable to handle the request")
		}
		return false, nil, nil
	})
	mode := Str(c, "mode")
	os.Unsetenv("CONTAINERD_HOST")
	os.Unsetenv("DOCKER_HOST")
	if mode == "cri" {
		srv := grpc.NewServer()
		criapi.RegisterRuntimeServiceServer(srv, &criServer{s: sc})
		go srv.Serve(ln) // nolint: errcheck
		defer srv.Stop()
		os.Setenv("CONTAINERD_HOST", "unix://"+sock)
	} else {
		hs := &http.Server{Handler: sc}
		// one connection per request: a dropped connection is then a plain inspect error (Go's transport
		// silently retries idempotent requests only on REUSED connections, which would consume two answers)
		hs.SetKeepAlivesEnabled(false)
		go hs.Serve(ln) // nolint: errcheck
		defer hs.Close()
		os.Setenv("DOCKER_HOST", "unix://"+sock)
	}
	defer os.Unsetenv("CONTAINERD_HOST")
	_ = flag.Set("flannel_allocated_ip_dir", strings.Join(ipPaths, ","))
	_ = flag.Set("gc_dirs", strings.Join(gcPaths, ","))
	dcli, err := docker.NewDockerInterface()
	if err != nil {
		return jmap{"res": "harness-error", "err": "NewDockerInterface: " + err.Error()}
	}
	var ports []string
	portErr := map[string]bool{}
	for _, s := range strs(c["port_err"]) {
		portErr[s] = true
	}
	quit := make(chan struct{})
	defer close(quit)
	g := gc.NewFlannelGC(cli, dcli, quit, func(cid string) error {
		ports = append(ports, cid)
		if portErr[cid] {
			return fmt.Errorf("iptables busy")
		}
		return nil
	})
	rounds := []interface{}{}
	for r := int64(0); r < Num(c, "rounds"); r++ {
		ports = nil
		sc.mu.Lock()
		sc.order = nil
		sc.mu.Unlock()
		if err := gc.VerifRound(g); err != nil {
			return jmap{"res": "round-err", "err": err.Error()}
		}
		ip, gcd := []interface{}{}, []interface{}{}
		for _, p := range ipPaths {
			ip = append(ip, listDir(p))
		}
		for _, p := range gcPaths {
			gcd = append(gcd, listDir(p))
		}
		sc.mu.Lock()
		calls := map[string]int{}
		for k, v := range sc.calls {
			calls[k] = v
		}
		order := append([]string{}, sc.order...)
		sc.mu.Unlock()
		pc := append([]string{}, ports...)
		rounds = append(rounds, jmap{"ip": ip, "gc": gcd, "ports": pc, "calls": calls, "inspects": order})
	}
	_ = json.Marshal
	return jmap{"res": "ok", "rounds": rounds}
}
