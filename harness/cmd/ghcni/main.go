// ghcni: harness command of the CNI request path (C12) and the garbage collector (C17).
package main

import "verifharness/ghlib"

func main() { ghlib.Main() }
