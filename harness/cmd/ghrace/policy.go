package main

// PolicyManager entry points for the race driver: several pods with addresses on this node and an iptables interface whose
// state-changing calls all fail (the xtables lock is held by someone else), so that every per-pod goroutine of a
// synchronisation pass takes its error path at about the same time.

import (
	"bytes"
	"fmt"

	corev1 "k8s.io/api/core/v1"
	networkv1 "k8s.io/api/networking/v1"
	metav1 "k8s.io/apimachinery/pkg/apis/meta/v1"
	"k8s.io/apimachinery/pkg/runtime"
	"k8s.io/client-go/kubernetes/fake"
	networkingv1Lister "k8s.io/client-go/listers/networking/v1"
	"k8s.io/client-go/tools/cache"
	"tkestack.io/galaxy/pkg/api/k8s"
	"tkestack.io/galaxy/pkg/policy"
	utiliptables "tkestack.io/galaxy/pkg/utils/iptables"
	"verifharness/nfake"
)

type busyIPT struct{ utiliptables.Interface }

var errBusy = fmt.Errorf("Another app is currently holding the xtables lock")

func (busyIPT) EnsureChain(utiliptables.Table, utiliptables.Chain) (bool, error) {
	return false, errBusy
}
func (busyIPT) FlushChain(utiliptables.Table, utiliptables.Chain) error  { return errBusy }
func (busyIPT) DeleteChain(utiliptables.Table, utiliptables.Chain) error { return errBusy }
func (busyIPT) EnsureRule(utiliptables.RulePosition, utiliptables.Table, utiliptables.Chain, ...string) (bool, error) {
	return false, errBusy
}
func (busyIPT) DeleteRule(utiliptables.Table, utiliptables.Chain, ...string) error { return errBusy }
func (busyIPT) ListRule(utiliptables.Table, utiliptables.Chain, ...string) ([]string, error) {
	return nil, errBusy
}
func (busyIPT) SaveInto(utiliptables.Table, *bytes.Buffer) error { return errBusy }
func (busyIPT) Restore(utiliptables.Table, []byte, utiliptables.FlushFlag, utiliptables.RestoreCountersFlag) error {
	return errBusy
}
func (busyIPT) RestoreAll([]byte, utiliptables.FlushFlag, utiliptables.RestoreCountersFlag) error {
	return errBusy
}

func policyOps() map[string]func(i int) {
	var objs []runtime.Object
	for i := 0; i < 8; i++ {
		objs = append(objs, &corev1.Pod{ObjectMeta: metav1.ObjectMeta{Namespace: "ns1", Name: fmt.Sprintf("p%d", i), Labels: map[string]string{"app": "web"}},
			Spec: corev1.PodSpec{NodeName: k8s.GetHostname()}, Status: corev1.PodStatus{PodIP: fmt.Sprintf("10.0.0.%d", 2+i)}})
	}
	objs = append(objs, &corev1.Namespace{ObjectMeta: metav1.ObjectMeta{Name: "ns1"}})
	k := nfake.NewKernel()
	quit := make(chan struct{})
	pm := policy.NewForVerif(fake.NewSimpleClientset(objs...), k.IPSet(), busyIPT{k.IPTables()}, "node1", quit)
	np := &networkv1.NetworkPolicy{ObjectMeta: metav1.ObjectMeta{Namespace: "ns1", Name: "pol"},
		Spec: networkv1.NetworkPolicySpec{PodSelector: metav1.LabelSelector{MatchLabels: map[string]string{"app": "web"}},
			PolicyTypes: []networkv1.PolicyType{networkv1.PolicyTypeIngress}}}
	polIdx := cache.NewIndexer(cache.MetaNamespaceKeyFunc, cache.Indexers{cache.NamespaceIndex: cache.MetaNamespaceIndexFunc})
	_ = polIdx.Add(np)
	pm.VerifSetPolicyLister(networkingv1Lister.NewNetworkPolicyLister(polIdx))
	f := func(i int) { _ = pm.AddPolicy(np) }
	return map[string]func(i int){"PolicyManager.AddPolicy": f, "PolicyManager.UpdatePolicy": f, "PolicyManager.DeletePolicy": f,
		"PolicyManager.Run": f, "PolicyManager.syncPods": f}
}
