package main

// gRPC cloud provider entry points for the race driver: a real in-process IPProviderService server on the loopback
// interface and one NEW provider object per iteration (the client is dialled by whichever request comes first, so
// only the first use of an instance can race).

import (
	"context"
	"net"

	"google.golang.org/grpc"
	"tkestack.io/galaxy/pkg/ipam/cloudprovider"
	"tkestack.io/galaxy/pkg/ipam/cloudprovider/rpc"
)

type okProvider struct{}

func (okProvider) AssignIP(context.Context, *rpc.AssignIPRequest) (*rpc.AssignIPReply, error) {
	return &rpc.AssignIPReply{Success: true}, nil
}
func (okProvider) UnAssignIP(context.Context, *rpc.UnAssignIPRequest) (*rpc.UnAssignIPReply, error) {
	return &rpc.UnAssignIPReply{Success: true}, nil
}

func grpcOps(n int) map[string]func(i int) {
	lis, err := net.Listen("tcp", "127.0.0.1:0")
	if err != nil {
		return nil
	}
	srv := grpc.NewServer()
	rpc.RegisterIPProviderServiceServer(srv, okProvider{})
	go func() { _ = srv.Serve(lis) }()
	ps := make([]cloudprovider.CloudProvider, n)
	for i := range ps {
		ps[i] = cloudprovider.NewGRPCCloudProvider(lis.Addr().String())
	}
	return map[string]func(i int){
		"grpcCloudProvider.AssignIP": func(i int) {
			_, _ = ps[i%n].AssignIP(&rpc.AssignIPRequest{NodeName: "n1", IPAddress: "10.0.0.2"})
		},
		"grpcCloudProvider.UnAssignIP": func(i int) {
			_, _ = ps[i%n].UnAssignIP(&rpc.UnAssignIPRequest{NodeName: "n1", IPAddress: "10.0.0.2"})
		},
	}
}
