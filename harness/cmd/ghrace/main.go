// ghrace: run two entry points of galaxy concurrently on ONE shared instance.  Built with -race by
// the C19 check when the lock-discipline check names an access pair; the race detector's report on
// stderr is the replay.  Case: {"a": "<Type.Method>", "b": ["<Type.Method>", ...], "iters": n}: two threads run a, one
// thread cycles through the entry points of b.
package main

import (
	"fmt"
	"net"
	"sync"
	"time"

	"github.com/prometheus/client_golang/prometheus"
	"tkestack.io/galaxy/pkg/api/galaxy/constant"
	fakeGalaxyCli "tkestack.io/galaxy/pkg/ipam/client/clientset/versioned/fake"
	"tkestack.io/galaxy/pkg/ipam/floatingip"
	"tkestack.io/galaxy/pkg/utils/nets"
	. "verifharness/ghlib"
)

func init() { Subcommands["pair"] = pairCase }

func main() { Main() }

func newPools() []*floatingip.FloatingIPPool {
	_, ns, _ := net.ParseCIDR("10.49.27.0/24")
	return []*floatingip.FloatingIPPool{{
		NodeSubnets: []*net.IPNet{ns},
		SparseSubnet: nets.SparseSubnet{
			IPRanges: []nets.IPRange{*nets.ParseIPRange("10.49.27.205~10.49.27.218")},
			Gateway:  net.ParseIP("10.49.27.1"), Mask: net.CIDRMask(24, 32), Vlan: 2},
	}}
}

// ipamOps: every crdIpam entry point reachable through the exported IPAM interface, with canned arguments
func ipamOps(ipam floatingip.IPAM) map[string]func(i int) {
	_, ns, _ := net.ParseCIDR("10.49.27.0/24")
	attr := floatingip.Attr{Policy: constant.ReleasePolicyPodDelete, NodeName: "n1", Uid: "u1"}
	ip := func(i int) net.IP { return net.IPv4(10, 49, 27, byte(205+i%14)) }
	rng := [][]nets.IPRange{{*nets.ParseIPRange("10.49.27.205~10.49.27.218")}}
	return map[string]func(i int){
		"crdIpam.ConfigurePool":    func(i int) { _ = ipam.ConfigurePool(newPools()) },
		"crdIpam.AllocateInSubnet": func(i int) { _, _ = ipam.AllocateInSubnet("dp_ns_a_a-1", ns, attr) },
		"crdIpam.AllocateSpecificIP": func(i int) {
			_ = ipam.AllocateSpecificIP("dp_ns_a_a-2", ip(i), attr)
		},
		"crdIpam.AllocateInSubnetsAndIPRange": func(i int) {
			_, _ = ipam.AllocateInSubnetsAndIPRange("dp_ns_a_a-3", ns, rng, attr)
		},
		"crdIpam.AllocateInSubnetWithKey": func(i int) {
			_ = ipam.AllocateInSubnetWithKey("dp_ns_a_a-1", "dp_ns_a_a-4", ns.String(), attr)
		},
		"crdIpam.ReserveIP": func(i int) { _, _ = ipam.ReserveIP("dp_ns_a_a-1", "dp_ns_a_", attr) },
		"crdIpam.UpdateAttr": func(i int) {
			// an IP the key holds right now, so that the call gets as far as rewriting the entry
			target := ip(i)
			if f, err := ipam.First("dp_ns_a_a-1"); err == nil && f != nil && f.IPInfo.IP != nil {
				target = f.IPInfo.IP.IP
			}
			a2 := attr
			a2.NodeName = fmt.Sprintf("n%d", i%7)
			_ = ipam.UpdateAttr("dp_ns_a_a-1", target, a2)
		},
		"crdIpam.Release": func(i int) { _ = ipam.Release("dp_ns_a_a-1", ip(i)) },
		"crdIpam.ReleaseIPs": func(i int) {
			_, _, _ = ipam.ReleaseIPs(map[string]string{ip(i).String(): "dp_ns_a_a-1"})
		},
		"crdIpam.First":            func(i int) { _, _ = ipam.First("dp_ns_a_a-1") },
		"crdIpam.ByIP":             func(i int) { _, _ = ipam.ByIP(ip(i)) },
		"crdIpam.ByPrefix":         func(i int) { _, _ = ipam.ByPrefix("") },
		"crdIpam.ByKeyword":        func(i int) { _, _ = ipam.ByKeyword("a") },
		"crdIpam.ByKeyAndIPRanges": func(i int) { _, _ = ipam.ByKeyAndIPRanges("dp_ns_a_a-1", rng) },
		"crdIpam.NodeSubnet":       func(i int) { _ = ipam.NodeSubnet(net.ParseIP("10.49.27.3")) },
		"crdIpam.NodeSubnetsByIPRanges": func(i int) {
			_, _ = ipam.NodeSubnetsByIPRanges(rng)
		},
		"crdIpam.Collect": func(i int) {
			ch := make(chan prometheus.Metric, 64)
			ipam.Collect(ch)
		},
	}
}

func pairCase(c map[string]interface{}) map[string]interface{} {
	iters := int(Num(c, "iters"))
	if iters == 0 {
		iters = 200
	}
	return Guarded(60*time.Second, func() map[string]interface{} {
		ipam := floatingip.NewCrdIPAM(fakeGalaxyCli.NewSimpleClientset(), nil)
		if err := ipam.ConfigurePool(newPools()); err != nil {
			return map[string]interface{}{"res": "err", "err": err.Error()}
		}
		ops := ipamOps(ipam)
		if pops, perr := pluginOps(2*iters + 8); perr == nil {
			for k, v := range pops {
				ops[k] = v
			}
		}
		for k, v := range grpcOps(iters) {
			ops[k] = v
		}
		if len(Str(c, "a")) > 7 && Str(c, "a")[:7] == "Galaxy." {
			for k, v := range galaxyOps() {
				ops[k] = v
			}
		}
		if len(Str(c, "a")) > 13 && Str(c, "a")[:13] == "PolicyManager" {
			for k, v := range policyOps() {
				ops[k] = v
			}
		}
		a := ops[Str(c, "a")]
		var bs []func(int)
		if l, ok := c["b"].([]interface{}); ok {
			for _, n := range l {
				if s, ok := n.(string); ok && ops[s] != nil {
					bs = append(bs, ops[s])
				}
			}
		}
		if a != nil && len(bs) == 0 {
			bs = append(bs, ops["FloatingIPPlugin.Filter"], a)
		}
		if a == nil || len(bs) == 0 {
			return map[string]interface{}{"res": "unsupported"}
		}
		var wg, wa sync.WaitGroup
		wg.Add(3)
		wa.Add(2)
		for k := 0; k < 2; k++ {
			go func() {
				defer wg.Done()
				defer wa.Done()
				for i := 0; i < iters; i++ {
					a(i)
				}
			}()
		}
		aDone := make(chan struct{})
		go func() { wa.Wait(); close(aDone) }()
		go func() {
			defer wg.Done()
			// the partner thread keeps going for as long as the two threads of a run (some entry points wait on a poll timer)
			for i := 0; ; i++ {
				bs[i%len(bs)](i / len(bs))
				if i >= iters*4 {
					select {
					case <-aDone:
						return
					default:
					}
				}
			}
		}()
		wg.Wait()
		return map[string]interface{}{"res": "ok"}
	})
}
