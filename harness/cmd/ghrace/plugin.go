package main

// FloatingIPPlugin entry points for the race driver: one shared plugin over fake API servers, many pods and many
// nodes (every Bind goes to a node that is not yet in the node-subnet cache, as after a restart or a reload).

import (
	"bytes"
	"context"
	"fmt"
	"net/http"
	"net/http/httptest"
	"sync/atomic"

	restful "github.com/emicklei/go-restful"

	corev1 "k8s.io/api/core/v1"
	extensionfake "k8s.io/apiextensions-apiserver/pkg/client/clientset/clientset/fake"
	"k8s.io/apimachinery/pkg/api/resource"
	metav1 "k8s.io/apimachinery/pkg/apis/meta/v1"
	"k8s.io/apimachinery/pkg/runtime"
	"k8s.io/apimachinery/pkg/types"
	dynamicfake "k8s.io/client-go/dynamic/fake"
	kubefake "k8s.io/client-go/kubernetes/fake"
	appslister "k8s.io/client-go/listers/apps/v1"
	corelister "k8s.io/client-go/listers/core/v1"
	"k8s.io/client-go/tools/cache"
	"tkestack.io/galaxy/pkg/api/galaxy/constant"
	"tkestack.io/galaxy/pkg/api/k8s/schedulerapi"
	ipamapi "tkestack.io/galaxy/pkg/ipam/api"
	galaxyv1 "tkestack.io/galaxy/pkg/ipam/apis/galaxy/v1alpha1"
	fakeGalaxyCli "tkestack.io/galaxy/pkg/ipam/client/clientset/versioned/fake"
	galaxylister "tkestack.io/galaxy/pkg/ipam/client/listers/galaxy/v1alpha1"
	ipamcontext "tkestack.io/galaxy/pkg/ipam/context"
	"tkestack.io/galaxy/pkg/ipam/schedulerplugin"
)

const raceConf = `[{"nodeSubnets":["10.49.0.0/16"],"ips":["10.173.13.2~10.173.14.250"],"subnet":"10.173.12.0/22","gateway":"10.173.12.1","vlan":2}]`

func pluginOps(n int) (map[string]func(i int), error) {
	kube := kubefake.NewSimpleClientset()
	gcli := fakeGalaxyCli.NewSimpleClientset()
	idx := func() cache.Indexer {
		return cache.NewIndexer(cache.MetaNamespaceKeyFunc, cache.Indexers{cache.NamespaceIndex: cache.MetaNamespaceIndexFunc})
	}
	podIdx := idx()
	var nodes []corev1.Node
	pods := make([]*corev1.Pod, n)
	for i := 0; i < n; i++ {
		node := corev1.Node{ObjectMeta: metav1.ObjectMeta{Name: fmt.Sprintf("n-%d", i)},
			Status: corev1.NodeStatus{Addresses: []corev1.NodeAddress{{Type: corev1.NodeInternalIP, Address: fmt.Sprintf("10.49.%d.%d", i/250, 2+i%250)}}}}
		_, _ = kube.CoreV1().Nodes().Create(context.TODO(), &node, metav1.CreateOptions{})
		nodes = append(nodes, node)
		p := &corev1.Pod{ObjectMeta: metav1.ObjectMeta{Namespace: "ns1", Name: fmt.Sprintf("web-%d", i), UID: types.UID(fmt.Sprintf("u%d", i)),
			OwnerReferences: []metav1.OwnerReference{{Kind: "StatefulSet", Name: "web"}}},
			Spec: corev1.PodSpec{Containers: []corev1.Container{{Name: "c", Resources: corev1.ResourceRequirements{
				Requests: corev1.ResourceList{corev1.ResourceName(constant.ResourceName): resource.MustParse("1")}}}}}}
		_, _ = kube.CoreV1().Pods("ns1").Create(context.TODO(), p, metav1.CreateOptions{})
		_ = podIdx.Add(p)
		pods[i] = p
	}
	_, _ = kube.CoreV1().ConfigMaps("kube-system").Create(context.TODO(), &corev1.ConfigMap{
		ObjectMeta: metav1.ObjectMeta{Name: "floatingip-config", Namespace: "kube-system"},
		Data:       map[string]string{"floatingips": raceConf}}, metav1.CreateOptions{})
	ctx := ipamcontext.NewIPAMContext(kube, gcli, extensionfake.NewSimpleClientset(), dynamicfake.NewSimpleDynamicClient(runtime.NewScheme()))
	ctx.PodLister = corelister.NewPodLister(podIdx)
	ctx.StatefulSetLister = appslister.NewStatefulSetLister(idx())
	ctx.DeploymentLister = appslister.NewDeploymentLister(idx())
	// the named pool p1 exists at the API server and - the very same object, as an informer holds it - in the lister's cache
	poolIdx := idx()
	pool := &galaxyv1.Pool{ObjectMeta: metav1.ObjectMeta{Name: "p1", Namespace: "kube-system"}, Size: 3}
	if created, err := gcli.GalaxyV1alpha1().Pools("kube-system").Create(context.TODO(), pool, metav1.CreateOptions{}); err == nil {
		_ = poolIdx.Add(created.DeepCopy())
	}
	ctx.PoolLister = galaxylister.NewPoolLister(poolIdx)
	// deployment pods of the pool: Filter reads the pool's size through the lister
	poolPods := make([]*corev1.Pod, 8)
	for i := range poolPods {
		poolPods[i] = &corev1.Pod{ObjectMeta: metav1.ObjectMeta{Namespace: "ns1", Name: fmt.Sprintf("api-5f6c7d-x%d", i), UID: types.UID(fmt.Sprintf("pp%d", i)),
			Annotations:     map[string]string{constant.IPPoolAnnotation: "p1"},
			OwnerReferences: []metav1.OwnerReference{{Kind: "ReplicaSet", Name: "api-5f6c7d"}}},
			Spec: corev1.PodSpec{Containers: []corev1.Container{{Name: "c", Resources: corev1.ResourceRequirements{
				Requests: corev1.ResourceList{corev1.ResourceName(constant.ResourceName): resource.MustParse("1")}}}}}}
		_, _ = kube.CoreV1().Pods("ns1").Create(context.TODO(), poolPods[i], metav1.CreateOptions{})
		_ = podIdx.Add(poolPods[i])
	}
	p, err := schedulerplugin.NewFloatingIPPlugin(schedulerplugin.Conf{}, ctx)
	if err != nil {
		return nil, err
	}
	if _, err := p.VerifUpdateConfigMap(); err != nil {
		return nil, err
	}
	var next int64
	bind := func(i int) {
		// every call binds ANOTHER pod to ANOTHER node: the pod lock does not serialise the callers and the node is not cached
		k := int(atomic.AddInt64(&next, 1)) % n
		_ = p.Bind(&schedulerapi.ExtenderBindingArgs{PodName: pods[k].Name, PodNamespace: "ns1", PodUID: pods[k].UID, Node: nodes[k].Name})
	}
	filter := func(i int) {
		k := (i*7 + 3) % n
		if i%3 == 2 {
			_, _, _ = p.Filter(poolPods[i%len(poolPods)], nodes[k:k+1])
			return
		}
		_, _, _ = p.Filter(pods[k], nodes[(k+1)%n:(k+1)%n+1])
	}
	pc := ipamapi.PoolController{PoolLister: ctx.PoolLister, Client: gcli, LockPoolFunc: p.LockDpPool, IPAM: p.GetIpam()}
	poolCall := func(method, body string, h func(*restful.Request, *restful.Response)) {
		hr := httptest.NewRequest(method, "/v1/pool/p1", bytes.NewReader([]byte(body)))
		hr.Header.Set("Content-Type", "application/json")
		req := restful.NewRequest(hr)
		req.PathParameters()["name"] = "p1"
		rec := httptest.NewRecorder()
		resp := restful.NewResponse(rec)
		resp.SetRequestAccepts("application/json")
		h(req, resp)
		_ = http.StatusOK
	}
	return map[string]func(i int){
		"PoolController.CreateOrUpdate": func(i int) {
			poolCall("POST", fmt.Sprintf(`{"name":"p1","size":%d}`, 2+i%3), pc.CreateOrUpdate)
		},
		"PoolController.Get":               func(i int) { poolCall("GET", "", pc.Get) },
		"FloatingIPPlugin.Bind":            bind,
		"FloatingIPPlugin.queryNodeSubnet": bind,
		"FloatingIPPlugin.allocateIP":      bind,
		"FloatingIPPlugin.Filter":          filter,
		"FloatingIPPlugin.getNodeSubnet":   filter,
		"FloatingIPPlugin.Preempt": func(i int) {
			k := i % n
			_ = p.Preempt(&schedulerapi.ExtenderPreemptionArgs{Pod: pods[k],
				NodeNameToVictims: map[string]*schedulerapi.Victims{nodes[k].Name: {Pods: []*corev1.Pod{pods[(k+1)%n]}}}})
		},
		"FloatingIPPlugin.updateConfigMap": func(i int) { _, _ = p.VerifUpdateConfigMap() },
		"FloatingIPPlugin.resyncPod":       func(i int) { _ = p.VerifResyncOnce() },
		"FloatingIPPlugin.unbind":          func(i int) { _ = p.VerifUnbind(pods[i%n]) },
		"FloatingIPPlugin.syncPodIP":       func(i int) { _ = p.VerifSyncPodIP(pods[i%n]) },
	}, nil
}
