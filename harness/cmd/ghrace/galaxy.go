package main

// galaxy daemon entry points for the race driver: CNI ADD requests resolve their networks concurrently on one Galaxy;
// half of the pods name a network that exists only as a file in the network configuration directory.

import (
	"fmt"
	"io/ioutil"
	"os"
	"path/filepath"

	"github.com/containernetworking/cni/pkg/skel"
	corev1 "k8s.io/api/core/v1"
	metav1 "k8s.io/apimachinery/pkg/apis/meta/v1"
	galaxyapi "tkestack.io/galaxy/pkg/api/galaxy"
	"tkestack.io/galaxy/pkg/galaxy"
)

func galaxyOps() map[string]func(i int) {
	dir, err := ioutil.TempDir("", "ghrace-netd")
	if err != nil {
		return nil
	}
	for _, n := range []string{"disk1", "disk2", "disk3"} {
		_ = ioutil.WriteFile(filepath.Join(dir, n+".conf"), []byte(fmt.Sprintf(`{"name":%q,"type":"galaxy-veth"}`, n)), 0644)
	}
	g := galaxy.NewGalaxy()
	g.NetworkConfDir = dir
	if err := g.VerifLoadConf([]byte(`{"NetworkConf":[{"name":"net1","type":"galaxy-veth"}],"DefaultNetworks":["net1"]}`)); err != nil {
		_ = os.RemoveAll(dir)
		return nil
	}
	f := func(i int) {
		net := []string{"net1", "disk1", "disk2", "disk3"}[i%4]
		pod := &corev1.Pod{ObjectMeta: metav1.ObjectMeta{Namespace: "ns", Name: fmt.Sprintf("p%d", i),
			Annotations: map[string]string{"k8s.v1.cni.cncf.io/networks": net}}}
		req := &galaxyapi.PodRequest{PodNamespace: "ns", PodName: pod.Name, CmdArgs: &skel.CmdArgs{ContainerID: "c", IfName: "eth0"}}
		_, _ = g.VerifResolveNetworks(req, pod)
	}
	return map[string]func(i int){"Galaxy.cni": f, "Galaxy.requestFunc": f}
}
