// gh: harness command for the IPAM side (nets, pool configuration, crdIpam, scheduler plugin).
package main

import "verifharness/ghlib"

func main() { ghlib.Main() }
