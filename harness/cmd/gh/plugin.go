package main

import (
	"bytes"
	"context"
	"encoding/json"
	"fmt"
	"net"
	"net/http/httptest"
	"sort"
	"sync"
	"time"

	"github.com/emicklei/go-restful"
	appsv1 "k8s.io/api/apps/v1"
	corev1 "k8s.io/api/core/v1"
	extensionfake "k8s.io/apiextensions-apiserver/pkg/client/clientset/clientset/fake"
	apierrors "k8s.io/apimachinery/pkg/api/errors"
	"k8s.io/apimachinery/pkg/api/resource"
	metav1 "k8s.io/apimachinery/pkg/apis/meta/v1"
	"k8s.io/apimachinery/pkg/runtime"
	"k8s.io/apimachinery/pkg/runtime/schema"
	"k8s.io/apimachinery/pkg/types"
	dynamicfake "k8s.io/client-go/dynamic/fake"
	kubefake "k8s.io/client-go/kubernetes/fake"
	appslister "k8s.io/client-go/listers/apps/v1"
	corelister "k8s.io/client-go/listers/core/v1"
	k8stesting "k8s.io/client-go/testing"
	"k8s.io/client-go/tools/cache"
	"tkestack.io/galaxy/pkg/api/galaxy/constant"
	"tkestack.io/galaxy/pkg/api/k8s/schedulerapi"
	ipamapi "tkestack.io/galaxy/pkg/ipam/api"
	"tkestack.io/galaxy/pkg/ipam/apis/galaxy/v1alpha1"
	fakeGalaxyCli "tkestack.io/galaxy/pkg/ipam/client/clientset/versioned/fake"
	galaxylister "tkestack.io/galaxy/pkg/ipam/client/listers/galaxy/v1alpha1"
	"tkestack.io/galaxy/pkg/ipam/cloudprovider/rpc"
	ipamcontext "tkestack.io/galaxy/pkg/ipam/context"
	"tkestack.io/galaxy/pkg/ipam/floatingip"
	"tkestack.io/galaxy/pkg/ipam/schedulerplugin"
	"tkestack.io/galaxy/pkg/ipam/schedulerplugin/util"
	"tkestack.io/galaxy/pkg/utils/nets"
	. "verifharness/ghlib"
)

func init() { Subcommands["plugin"] = pluginHistory }

// pausingIPAM lets the harness stop a pool request right after it has counted the IPs the pool holds (its first ByPrefix)
type pausingIPAM struct {
	floatingip.IPAM
	after func()
}

func (p *pausingIPAM) ByPrefix(prefix string) ([]*floatingip.FloatingIPInfo, error) {
	r, err := p.IPAM.ByPrefix(prefix)
	if p.after != nil {
		f := p.after
		p.after = nil
		f()
	}
	return r, err
}

// gateIPAM stops the FIRST allocating call (AllocateInSubnet / AllocateInSubnetWithKey) made through it at its entry - before
// crdIpam takes its own lock - until the harness lets it go; every other call passes through
type gateIPAM struct {
	floatingip.IPAM
	mu     sync.Mutex
	armed  bool
	paused chan struct{}
	resume chan struct{}
	// onRelease: the gate is at the first call that gives IPs back (Release / ReleaseIPs / ReserveIP) instead of the first
	// allocation - i.e. after an unbind has counted the app's IPs and decided
	onRelease bool
}

func (g *gateIPAM) Release(key string, ip net.IP) error {
	if g.onRelease {
		g.gate()
	}
	return g.IPAM.Release(key, ip)
}

func (g *gateIPAM) ReleaseIPs(m map[string]string) (map[string]string, map[string]string, error) {
	if g.onRelease {
		g.gate()
	}
	return g.IPAM.ReleaseIPs(m)
}

func (g *gateIPAM) ReserveIP(oldK, newK string, attr floatingip.Attr) (bool, error) {
	if g.onRelease {
		g.gate()
	}
	return g.IPAM.ReserveIP(oldK, newK, attr)
}

func (g *gateIPAM) gate() {
	g.mu.Lock()
	if !g.armed {
		g.mu.Unlock()
		return
	}
	g.armed = false
	g.mu.Unlock()
	close(g.paused)
	<-g.resume
}

func (g *gateIPAM) AllocateInSubnet(key string, subnet *net.IPNet, attr floatingip.Attr) (net.IP, error) {
	if !g.onRelease {
		g.gate()
	}
	return g.IPAM.AllocateInSubnet(key, subnet, attr)
}

func (g *gateIPAM) AllocateInSubnetWithKey(oldK, newK, subnet string, attr floatingip.Attr) error {
	if !g.onRelease {
		g.gate()
	}
	return g.IPAM.AllocateInSubnetWithKey(oldK, newK, subnet, attr)
}

// ---- recording cloud provider with one scripted clean failure per section
type fakeCloud struct {
	sync.Mutex
	state map[string]string // ip -> node
	n     int
	fault int
	calls [][]interface{} // (assign?, ip, node, ok)
}

func (c *fakeCloud) begin(fault int) { c.Lock(); c.n, c.fault, c.calls = 0, fault, nil; c.Unlock() }
func (c *fakeCloud) AssignIP(in *rpc.AssignIPRequest) (*rpc.AssignIPReply, error) {
	c.Lock()
	defer c.Unlock()
	idx := c.n
	c.n++
	if idx == c.fault {
		c.calls = append(c.calls, []interface{}{true, in.IPAddress, in.NodeName, false})
		return &rpc.AssignIPReply{Success: false, Msg: "injected"}, nil
	}
	c.state[in.IPAddress] = in.NodeName
	c.calls = append(c.calls, []interface{}{true, in.IPAddress, in.NodeName, true})
	return &rpc.AssignIPReply{Success: true}, nil
}
func (c *fakeCloud) UnAssignIP(in *rpc.UnAssignIPRequest) (*rpc.UnAssignIPReply, error) {
	c.Lock()
	defer c.Unlock()
	idx := c.n
	c.n++
	if idx == c.fault {
		c.calls = append(c.calls, []interface{}{false, in.IPAddress, in.NodeName, false})
		return &rpc.UnAssignIPReply{Success: false, Msg: "injected"}, nil
	}
	delete(c.state, in.IPAddress)
	c.calls = append(c.calls, []interface{}{false, in.IPAddress, in.NodeName, true})
	return &rpc.UnAssignIPReply{Success: true}, nil
}

type podSpec struct {
	Ns, Name, Uid, Kind, App, Pool string
	Policy                         int
	Ranges                         [][]string
	Phase                          int
	Node                           string
	// PreIps: the pod is created with an arguments annotation that already holds common.ipinfos (a manifest copied from a
	// running floating-IP pod)
	PreIps []string
}

type plugWorld struct {
	kube  *kubefake.Clientset
	gcli  *fakeGalaxyCli.Clientset
	hgcli *hookedCli // gcli behind the stand-in for the API server's cached read path (yieldcli.go)
	// the last Running object the lister showed for a pod name before it was replaced, updated or removed: what a pod-IP
	// sync pass that listed the pods earlier (or a pod event handler that runs late) still holds in its hands
	grave     map[string]*corev1.Pod
	slog      *storeLog
	plugin    *schedulerplugin.FloatingIPPlugin
	cloud     *fakeCloud
	provider  bool
	podIdx    cache.Indexer
	stsIdx    cache.Indexer
	dpIdx     cache.Indexer
	poolIdx   cache.Indexer
	queue     []*corev1.Pod
	confText  string
	bindInj   bool
	bindLog   []string
	pending   map[string]pendingEv
	approved  map[string][]string             // ns/name -> nodes the last filter of that pod returned
	checklist *schedulerplugin.VerifChecklist // snapshot of the resync pass in progress
}

func phaseOf(n int) corev1.PodPhase {
	return []corev1.PodPhase{corev1.PodPending, corev1.PodRunning, corev1.PodSucceeded, corev1.PodFailed}[n%4]
}

func buildPod(s podSpec) *corev1.Pod {
	ann := map[string]string{}
	if s.Pool != "" {
		ann["tke.cloud.tencent.com/eni-ip-pool"] = s.Pool
	}
	if s.Policy == 1 {
		ann[constant.ReleasePolicyAnnotation] = constant.Immutable
	} else if s.Policy == 2 {
		ann[constant.ReleasePolicyAnnotation] = constant.Never
	}
	if len(s.Ranges) > 0 || len(s.PreIps) > 0 {
		args := map[string]interface{}{}
		if len(s.Ranges) > 0 {
			args["request_ip_range"] = s.Ranges
		}
		if len(s.PreIps) > 0 {
			var infos []map[string]interface{}
			for _, ip := range s.PreIps {
				infos = append(infos, map[string]interface{}{"ip": ip + "/24", "vlan": 0, "gateway": "10.100.0.1"})
			}
			args["common"] = map[string]interface{}{"ipinfos": infos}
		}
		b, _ := json.Marshal(args)
		ann[constant.ExtendedCNIArgsAnnotation] = string(b)
	}
	p := &corev1.Pod{
		ObjectMeta: metav1.ObjectMeta{Namespace: s.Ns, Name: s.Name, UID: types.UID(s.Uid), Annotations: ann},
		Spec: corev1.PodSpec{NodeName: s.Node, Containers: []corev1.Container{{Name: "c", Resources: corev1.ResourceRequirements{
			Requests: corev1.ResourceList{corev1.ResourceName(constant.ResourceName): resource.MustParse("1")}}}}},
		Status: corev1.PodStatus{Phase: phaseOf(s.Phase)},
	}
	switch s.Kind {
	case "sts":
		p.OwnerReferences = []metav1.OwnerReference{{Kind: "StatefulSet", Name: s.App}}
	case "dp":
		p.OwnerReferences = []metav1.OwnerReference{{Kind: "ReplicaSet", Name: s.App + "-7f9c6d"}}
	}
	return p
}

func specOf(c map[string]interface{}) podSpec {
	var s podSpec
	b, _ := json.Marshal(c["pod"])
	_ = json.Unmarshal(b, &s)
	return s
}

func newPlugWorld(provider bool, nodes map[string]string, confText string) (*plugWorld, error) {
	w := &plugWorld{provider: provider, confText: confText, slog: &storeLog{fault: -1, crash: -1}, pending: map[string]pendingEv{}}
	w.kube = kubefake.NewSimpleClientset()
	w.gcli = fakeGalaxyCli.NewSimpleClientset()
	w.gcli.PrependReactor("*", "floatingips", w.slog.react)
	w.hgcli = &hookedCli{Interface: w.gcli}
	for name, ip := range nodes {
		_, _ = w.kube.CoreV1().Nodes().Create(context.TODO(), &corev1.Node{ObjectMeta: metav1.ObjectMeta{Name: name},
			Status: corev1.NodeStatus{Addresses: []corev1.NodeAddress{{Type: corev1.NodeInternalIP, Address: ip}}}}, metav1.CreateOptions{})
	}
	_, _ = w.kube.CoreV1().ConfigMaps("kube-system").Create(context.TODO(), &corev1.ConfigMap{
		ObjectMeta: metav1.ObjectMeta{Name: "floatingip-config", Namespace: "kube-system"},
		Data:       map[string]string{"floatingips": confText}}, metav1.CreateOptions{})
	// the API server's pods/binding semantics (the fake clientset has none)
	w.kube.PrependReactor("create", "pods", func(action k8stesting.Action) (bool, runtime.Object, error) {
		ca, ok := action.(k8stesting.CreateAction)
		if !ok || action.GetSubresource() != "binding" {
			return false, nil, nil
		}
		b := ca.GetObject().(*corev1.Binding)
		gvr := schema.GroupVersionResource{Version: "v1", Resource: "pods"}
		if w.bindInj {
			w.bindLog = append(w.bindLog, "injected")
			return true, nil, fmt.Errorf("injected binding failure")
		}
		obj, err := w.kube.Tracker().Get(gvr, b.Namespace, b.Name)
		if err != nil {
			w.bindLog = append(w.bindLog, "notfound")
			return true, nil, apierrors.NewNotFound(schema.GroupResource{Resource: "pods"}, b.Name)
		}
		pod := obj.(*corev1.Pod).DeepCopy()
		if b.UID != "" && b.UID != pod.UID {
			w.bindLog = append(w.bindLog, "conflict")
			return true, nil, apierrors.NewConflict(schema.GroupResource{Resource: "pods"}, b.Name, fmt.Errorf("uid mismatch"))
		}
		if pod.Spec.NodeName != "" {
			// registry/core/pod/storage BindingREST.setPodHostAndAnnotations
			w.bindLog = append(w.bindLog, "assigned")
			return true, nil, apierrors.NewConflict(schema.GroupResource{Resource: "pods"}, b.Name,
				fmt.Errorf("pod %s is already assigned to node %q", b.Name, pod.Spec.NodeName))
		}
		pod.Spec.NodeName = b.Target.Name
		if pod.Annotations == nil {
			pod.Annotations = map[string]string{}
		}
		for k, v := range b.Annotations {
			pod.Annotations[k] = v
		}
		_ = w.kube.Tracker().Update(gvr, pod, b.Namespace)
		w.bindLog = append(w.bindLog, "ok")
		return true, b, nil
	})
	w.podIdx = cache.NewIndexer(cache.MetaNamespaceKeyFunc, cache.Indexers{cache.NamespaceIndex: cache.MetaNamespaceIndexFunc})
	w.stsIdx = cache.NewIndexer(cache.MetaNamespaceKeyFunc, cache.Indexers{cache.NamespaceIndex: cache.MetaNamespaceIndexFunc})
	w.dpIdx = cache.NewIndexer(cache.MetaNamespaceKeyFunc, cache.Indexers{cache.NamespaceIndex: cache.MetaNamespaceIndexFunc})
	w.poolIdx = cache.NewIndexer(cache.MetaNamespaceKeyFunc, cache.Indexers{cache.NamespaceIndex: cache.MetaNamespaceIndexFunc})
	w.cloud = &fakeCloud{state: map[string]string{}, fault: -1}
	return w, w.startPlugin()
}

// startPlugin builds a NEW FloatingIPPlugin over the same fake API servers (a process start)
func (w *plugWorld) startPlugin() error {
	ctx := ipamcontext.NewIPAMContext(w.kube, w.hgcli, extensionfake.NewSimpleClientset(),
		dynamicfake.NewSimpleDynamicClient(runtime.NewScheme()))
	ctx.PodLister = corelister.NewPodLister(w.podIdx)
	ctx.StatefulSetLister = appslister.NewStatefulSetLister(w.stsIdx)
	ctx.DeploymentLister = appslister.NewDeploymentLister(w.dpIdx)
	ctx.PoolLister = galaxylister.NewPoolLister(w.poolIdx)
	p, err := schedulerplugin.NewFloatingIPPlugin(schedulerplugin.Conf{}, ctx)
	if err != nil {
		return err
	}
	if w.provider {
		p.VerifSetCloudProvider(w.cloud)
	}
	w.plugin = p
	w.checklist = nil
	w.queue = nil
	w.pending = map[string]pendingEv{}
	_, err = p.VerifUpdateConfigMap()
	return err
}

func (w *plugWorld) drain() {
	w.queue = append(w.queue, w.plugin.VerifDrainEvents()...)
}

func podIPs(p *corev1.Pod) []uint32 {
	out := []uint32{}
	args, err := constant.UnmarshalCniArgs(p.Annotations[constant.ExtendedCNIArgsAnnotation])
	if err != nil || args == nil {
		return out
	}
	for _, info := range args.Common.IPInfos {
		if info.IP != nil {
			out = append(out, nets.IPToInt(info.IP.IP))
		}
	}
	return out
}

func podInfos(p *corev1.Pod) []interface{} {
	out := []interface{}{}
	args, err := constant.UnmarshalCniArgs(p.Annotations[constant.ExtendedCNIArgsAnnotation])
	if err != nil || args == nil {
		return out
	}
	for _, info := range args.Common.IPInfos {
		if info.IP != nil {
			ones, _ := info.IP.Mask.Size()
			out = append(out, []interface{}{nets.IPToInt(info.IP.IP), ones, nets.IPToInt(info.Gateway), info.Vlan})
		}
	}
	return out
}

func (w *plugWorld) dump() map[string]interface{} {
	iw := &ipamWorld{cli: w.gcli, ipam: w.plugin.GetIpam(), pending: w.pending}
	d := iw.dump()
	pods := [][]interface{}{}
	list, _ := w.kube.CoreV1().Pods("").List(context.TODO(), metav1.ListOptions{})
	if list != nil {
		for i := range list.Items {
			p := &list.Items[i]
			pods = append(pods, []interface{}{p.Namespace, p.Name, string(p.UID), int(phaseIdx(p.Status.Phase)), p.Spec.NodeName, podIPs(p), podInfos(p)})
		}
	}
	sort.Slice(pods, func(i, j int) bool {
		return pods[i][0].(string)+"/"+pods[i][1].(string) < pods[j][0].(string)+"/"+pods[j][1].(string)
	})
	d["pods"] = pods
	lister := [][]interface{}{}
	for _, o := range w.podIdx.List() {
		p := o.(*corev1.Pod)
		lister = append(lister, []interface{}{p.Namespace, p.Name, string(p.UID), int(phaseIdx(p.Status.Phase)), p.Spec.NodeName, podIPs(p)})
	}
	sort.Slice(lister, func(i, j int) bool {
		return lister[i][0].(string)+"/"+lister[i][1].(string) < lister[j][0].(string)+"/"+lister[j][1].(string)
	})
	d["lister"] = lister
	q := [][]interface{}{}
	for _, p := range w.queue {
		q = append(q, []interface{}{p.Namespace, p.Name, string(p.UID)})
	}
	d["queue"] = q
	cl := [][]interface{}{}
	w.cloud.Lock()
	for ip, node := range w.cloud.state {
		cl = append(cl, []interface{}{nets.IPToInt(net.ParseIP(ip)), node})
	}
	w.cloud.Unlock()
	sort.Slice(cl, func(i, j int) bool { return cl[i][0].(uint32) < cl[j][0].(uint32) })
	d["cloud"] = cl
	return d
}

func phaseIdx(p corev1.PodPhase) int {
	switch p {
	case corev1.PodRunning:
		return 1
	case corev1.PodSucceeded:
		return 2
	case corev1.PodFailed:
		return 3
	}
	return 0
}

func (w *plugWorld) nodeList(names []interface{}) []corev1.Node {
	var out []corev1.Node
	for _, n := range names {
		node, err := w.kube.CoreV1().Nodes().Get(context.TODO(), n.(string), metav1.GetOptions{})
		if err == nil {
			out = append(out, *node)
		} else {
			out = append(out, corev1.Node{ObjectMeta: metav1.ObjectMeta{Name: n.(string)}})
		}
	}
	return out
}

func faultOf(c map[string]interface{}, k string) int {
	if _, ok := c[k]; ok {
		return int(Num(c, k))
	}
	return -1
}

func (w *plugWorld) runOp(c map[string]interface{}) map[string]interface{} {
	o := map[string]interface{}{"res": "ok"}
	// symbolic references are resolved against the live tables BEFORE the call counters start
	if op := Str(c, "op"); op == "resync" || op == "api_release" || op == "resync_item" {
		iw := &ipamWorld{cli: w.gcli, ipam: w.plugin.GetIpam(), pending: w.pending}
		c = iw.resolve(c)
	}
	w.slog.begin(faultOf(c, "fstore"))
	if k := faultOf(c, "fcrash"); k >= 0 {
		w.slog.beginCrash(k) // the process dies right before its k-th store call; the scenario restarts it next
	}
	w.cloud.begin(faultOf(c, "fcloud"))
	w.bindInj = faultOf(c, "fbind") == 1
	w.bindLog = nil
	defer func() {
		o["calls"] = w.slog.end()
		w.cloud.Lock()
		o["cloudcalls"] = w.cloud.calls
		w.cloud.Unlock()
		o["bindlog"] = w.bindLog
		w.bindInj = false
	}()
	setErr := func(err error) {
		if err != nil {
			o["res"] = "err"
			o["err"] = err.Error()
		}
	}
	switch Str(c, "op") {
	// ---------------- environment
	case "pod_put":
		p := buildPod(specOf(c))
		if _, err := w.kube.CoreV1().Pods(p.Namespace).Get(context.TODO(), p.Name, metav1.GetOptions{}); err == nil {
			_ = w.kube.CoreV1().Pods(p.Namespace).Delete(context.TODO(), p.Name, metav1.DeleteOptions{})
		}
		_, err := w.kube.CoreV1().Pods(p.Namespace).Create(context.TODO(), p, metav1.CreateOptions{})
		setErr(err)
	case "pod_delete":
		_ = w.kube.CoreV1().Pods(Str(c, "ns")).Delete(context.TODO(), Str(c, "name"), metav1.DeleteOptions{})
	case "pod_phase":
		p, err := w.kube.CoreV1().Pods(Str(c, "ns")).Get(context.TODO(), Str(c, "name"), metav1.GetOptions{})
		if err == nil {
			p = p.DeepCopy()
			p.Status.Phase = phaseOf(int(Num(c, "phase")))
			_, err = w.kube.CoreV1().Pods(Str(c, "ns")).Update(context.TODO(), p, metav1.UpdateOptions{})
		}
	case "pod_terminating":
		// graceful deletion has begun: the object stays, with a deletion timestamp, until the kubelet is done
		p, err := w.kube.CoreV1().Pods(Str(c, "ns")).Get(context.TODO(), Str(c, "name"), metav1.GetOptions{})
		if err == nil {
			p = p.DeepCopy()
			now := metav1.Now()
			grace := int64(30)
			p.DeletionTimestamp, p.DeletionGracePeriodSeconds = &now, &grace
			_, err = w.kube.CoreV1().Pods(Str(c, "ns")).Update(context.TODO(), p, metav1.UpdateOptions{})
		}
		if err != nil {
			o["res"] = "skipped"
		}
	case "informer":
		// the informer catches up for one pod: the handlers galaxy-ipam registers are called as client-go would
		ns, name := Str(c, "ns"), Str(c, "name")
		truth, err := w.kube.CoreV1().Pods(ns).Get(context.TODO(), name, metav1.GetOptions{})
		oldObj, exists, _ := w.podIdx.GetByKey(ns + "/" + name)
		var old *corev1.Pod
		if exists {
			old = oldObj.(*corev1.Pod)
		}
		if old != nil && old.Status.Phase == corev1.PodRunning {
			if w.grave == nil {
				w.grave = map[string]*corev1.Pod{}
			}
			w.grave[ns+"/"+name] = old.DeepCopy()
		}
		switch {
		case err != nil && old == nil:
		case err != nil && old != nil:
			_ = w.podIdx.Delete(old)
			_ = w.plugin.DeletePod(old)
		case old == nil:
			_ = w.podIdx.Add(truth.DeepCopy())
			_ = w.plugin.AddPod(truth)
		case old.UID != truth.UID:
			_ = w.podIdx.Delete(old)
			_ = w.plugin.DeletePod(old)
			_ = w.podIdx.Add(truth.DeepCopy())
			_ = w.plugin.AddPod(truth)
		default:
			_ = w.podIdx.Update(truth.DeepCopy())
			_ = w.plugin.UpdatePod(old, truth)
		}
	case "sts_set", "dp_set":
		ns, name := Str(c, "ns"), Str(c, "name")
		idx := w.stsIdx
		if Str(c, "op") == "dp_set" {
			idx = w.dpIdx
		}
		if _, ok := c["replicas"]; !ok || c["replicas"] == nil {
			if obj, exists, _ := idx.GetByKey(ns + "/" + name); exists {
				_ = idx.Delete(obj)
			}
		} else {
			r := int32(Num(c, "replicas"))
			if Str(c, "op") == "dp_set" {
				_ = idx.Add(&appsv1.Deployment{ObjectMeta: metav1.ObjectMeta{Namespace: ns, Name: name}, Spec: appsv1.DeploymentSpec{Replicas: &r}})
			} else {
				_ = idx.Add(&appsv1.StatefulSet{ObjectMeta: metav1.ObjectMeta{Namespace: ns, Name: name}, Spec: appsv1.StatefulSetSpec{Replicas: &r}})
			}
		}
	case "pool_set":
		name := Str(c, "name")
		if _, ok := c["size"]; !ok || c["size"] == nil {
			if obj, exists, _ := w.poolIdx.GetByKey("kube-system/" + name); exists {
				_ = w.poolIdx.Delete(obj)
			}
		} else {
			_ = w.poolIdx.Add(&v1alpha1.Pool{ObjectMeta: metav1.ObjectMeta{Namespace: "kube-system", Name: name}, Size: int(Num(c, "size"))})
		}
	case "drop_event":
		n := int(Num(c, "n"))
		if n < len(w.queue) {
			w.queue = append(w.queue[:n:n], w.queue[n+1:]...)
		} else {
			o["res"] = "skipped"
		}
	// ---------------- sections
	case "filter":
		p, err := w.kube.CoreV1().Pods(Str(c, "ns")).Get(context.TODO(), Str(c, "name"), metav1.GetOptions{})
		if err != nil {
			o["res"] = "skipped"
			break
		}
		nodes, _, ferr := w.plugin.Filter(p, w.nodeList(c["nodes"].([]interface{})))
		names := []string{}
		for _, n := range nodes {
			names = append(names, n.Name)
		}
		o["nodes"] = names
		if w.approved == nil {
			w.approved = map[string][]string{}
		}
		w.approved[Str(c, "ns")+"/"+Str(c, "name")] = names
		setErr(ferr)
	case "bind":
		uid := Str(c, "uid")
		if uid == "@truth" {
			if p, err := w.kube.CoreV1().Pods(Str(c, "ns")).Get(context.TODO(), Str(c, "name"), metav1.GetOptions{}); err == nil {
				uid = string(p.UID)
			} else {
				uid = "uid-gone"
			}
		}
		o["uid"] = uid
		node := Str(c, "node")
		if len(node) > 10 && node[:10] == "@approved:" {
			// the scheduler binds on one of the nodes the last filter of this pod approved
			k := 0
			fmt.Sscanf(node[10:], "%d", &k)
			ap := w.approved[Str(c, "ns")+"/"+Str(c, "name")]
			if len(ap) == 0 {
				o["res"] = "skipped"
				break
			}
			node = ap[k%len(ap)]
		}
		o["node"] = node
		err := w.plugin.Bind(&schedulerapi.ExtenderBindingArgs{PodName: Str(c, "name"), PodNamespace: Str(c, "ns"),
			PodUID: types.UID(uid), Node: node})
		setErr(err)
		if err == nil {
			if p, gerr := w.kube.CoreV1().Pods(Str(c, "ns")).Get(context.TODO(), Str(c, "name"), metav1.GetOptions{}); gerr == nil {
				o["ips"] = podIPs(p)
				o["infos"] = podInfos(p)
			}
		}
	case "event":
		n := int(Num(c, "n"))
		if n >= len(w.queue) {
			o["res"] = "skipped"
			break
		}
		ev := w.queue[n]
		o["event_pod"] = []interface{}{ev.Namespace, ev.Name, string(ev.UID)}
		err := w.plugin.VerifUnbind(ev)
		if err == nil {
			w.queue = append(w.queue[:n:n], w.queue[n+1:]...)
		}
		setErr(err)
	case "resync":
		ip := Str(c, "ip")
		o["ip"] = ip
		setErr(w.plugin.VerifResyncIP(net.ParseIP(ip)))
	case "resync_fetch":
		// a resync pass takes its snapshot; its items are handled later (resync_item), other requests in between
		cl, err := w.plugin.VerifResyncFetch()
		setErr(err)
		w.checklist = cl
	case "resync_item":
		ip := Str(c, "ip")
		o["ip"] = ip
		if w.checklist == nil {
			o["res"] = "skipped"
			break
		}
		key, in := w.checklist.Key(net.ParseIP(ip))
		o["in_snapshot"], o["snapshot_key"] = in, key
		w.plugin.VerifResyncItem(w.checklist, net.ParseIP(ip))
	case "api_release":
		ip := Str(c, "ip")
		key := Str(c, "key")
		o["ip"], o["key"] = ip, key
		ko := util.ParseKey(key)
		setErr(w.plugin.Release(&schedulerplugin.ReleaseRequest{IP: net.ParseIP(ip), KeyObj: ko}))
	case "api_pool":
		// POST /v1/pool through the real PoolController (pool object written to the API server; pre-allocation under the pool lock)
		pc := &ipamapi.PoolController{Client: w.gcli, PoolLister: galaxylister.NewPoolLister(w.poolIdx), LockPoolFunc: w.plugin.LockDpPool,
			IPAM: w.plugin.GetIpam()}
		pre, _ := c["prealloc"].(bool)
		var otherDone chan struct{}
		otherCode := 0
		if mw, ok := c["meanwhile"].(map[string]interface{}); ok {
			// something else writes the Pool object while this request is between two of its API calls.  kind "request": right
			// AFTER this request's Create / Update ("at") was answered a second POST /v1/pool runs (a goroutine; it is given 300 ms
			// - when the requests exclude each other it can only complete afterwards).  kind "object": right BEFORE this request's
			// Create / Update reaches the API server someone else (kubectl, another replica) writes the object.
			otherDone = make(chan struct{})
			hc := &poolHookCli{Interface: w.gcli, verb: Str(mw, "at")}
			if Str(mw, "kind") == "object" {
				hc.before = func() {
					obj := &v1alpha1.Pool{ObjectMeta: metav1.ObjectMeta{Namespace: "kube-system", Name: Str(c, "name")}, Size: int(Num(mw, "size"))}
					if _, err := w.gcli.GalaxyV1alpha1().Pools("kube-system").Create(context.TODO(), obj, metav1.CreateOptions{}); err != nil {
						if cur, gerr := w.gcli.GalaxyV1alpha1().Pools("kube-system").Get(context.TODO(), Str(c, "name"), metav1.GetOptions{}); gerr == nil {
							cur.Size = int(Num(mw, "size"))
							_, err = w.gcli.GalaxyV1alpha1().Pools("kube-system").Update(context.TODO(), cur, metav1.UpdateOptions{})
						}
						if err != nil {
							o["meanwhile_err"] = err.Error()
						}
					}
					o["meanwhile_during"] = true
					close(otherDone)
				}
			} else {
				mpre, _ := mw["prealloc"].(bool)
				other := &ipamapi.PoolController{Client: w.gcli, PoolLister: pc.PoolLister, LockPoolFunc: pc.LockPoolFunc, IPAM: pc.IPAM}
				hc.after = func() {
					go func() {
						otherCode, _ = postWith(other, Str(c, "name"), int(Num(mw, "size")), mpre)
						close(otherDone)
					}()
					select {
					case <-otherDone:
						o["meanwhile_during"] = true
					case <-time.After(300 * time.Millisecond):
						o["meanwhile_during"] = false
					}
				}
			}
			pc.Client = hc
		}
		code, errBody := postWith(pc, Str(c, "name"), int(Num(c, "size")), pre)
		if errBody != "" {
			o["err"] = errBody
		}
		if otherDone != nil {
			select {
			case <-otherDone:
				if otherCode != 0 {
					o["meanwhile_code"] = otherCode
				}
			case <-time.After(5 * time.Second):
				o["meanwhile_err"] = "the concurrent request did not return"
			}
		}
		if pobj, err := w.gcli.GalaxyV1alpha1().Pools("kube-system").Get(context.TODO(), Str(c, "name"), metav1.GetOptions{}); err == nil {
			o["api_size"] = pobj.Size
		}
		rec := struct{ Code int }{code}
		o["code"] = rec.Code
		switch rec.Code {
		case 200:
		case 202:
			o["res"] = "notenough"
		default:
			o["res"] = "err"
		}
	case "pool_race":
		// POST /v1/pool with pre-allocation, stopped right after it has counted the pool's IPs; the scheduler's Filter of a pod of
		// that pool arrives meanwhile.  Both hold the pool mutex in galaxy-ipam, so Filter can only complete after the request.
		paused, resume, doneA, doneB := make(chan struct{}), make(chan struct{}), make(chan struct{}), make(chan struct{})
		pc := &ipamapi.PoolController{Client: w.gcli, PoolLister: galaxylister.NewPoolLister(w.poolIdx), LockPoolFunc: w.plugin.LockDpPool,
			IPAM: &pausingIPAM{IPAM: w.plugin.GetIpam(), after: func() { close(paused); <-resume }}}
		body, _ := json.Marshal(map[string]interface{}{"name": Str(c, "name"), "size": int(Num(c, "size")), "preAllocateIP": true})
		code := 0
		go func() {
			req := httptest.NewRequest("POST", "/v1/pool", bytes.NewReader(body))
			req.Header.Set("Content-Type", "application/json")
			rec := httptest.NewRecorder()
			resp := restful.NewResponse(rec)
			resp.SetRequestAccepts("application/json")
			pc.CreateOrUpdate(restful.NewRequest(req), resp)
			code = rec.Code
			close(doneA)
		}()
		select {
		case <-paused:
		case <-doneA:
		case <-time.After(2 * time.Second):
		}
		var fnodes []string
		var ferr error
		pod, gerr := w.kube.CoreV1().Pods(Str(c, "ns")).Get(context.TODO(), Str(c, "pod"), metav1.GetOptions{})
		go func() {
			if gerr == nil {
				nodes, _, err := w.plugin.Filter(pod, w.nodeList(c["nodes"].([]interface{})))
				for _, n := range nodes {
					fnodes = append(fnodes, n.Name)
				}
				ferr = err
			}
			close(doneB)
		}()
		during := false
		select {
		case <-doneB:
			during = gerr == nil
		case <-time.After(300 * time.Millisecond):
		}
		close(resume)
		<-doneA
		<-doneB
		o["code"], o["filter_during_request"], o["nodes"] = code, during, fnodes
		if ferr != nil {
			o["filter_err"] = ferr.Error()
		}
		if code == 202 {
			o["res"] = "notenough"
		} else if code != 200 {
			o["res"] = "err"
		}
	case "filter_race":
		// two Filter requests of the scheduler for pods that share a sized pool (or an app's reserve): the first is stopped
		// between having counted the pool's IPs and allocating; the second arrives meanwhile.  Counting and allocating are one
		// critical section under the pool mutex, so the second can only complete after the first.
		g := &gateIPAM{armed: true, paused: make(chan struct{}), resume: make(chan struct{})}
		w.plugin.VerifWrapIpam(func(i floatingip.IPAM) floatingip.IPAM { g.IPAM = i; return g })
		defer w.plugin.VerifWrapIpam(func(floatingip.IPAM) floatingip.IPAM { return g.IPAM })
		names, _ := c["pods"].([]interface{})
		type fres struct {
			nodes []string
			err   error
		}
		run := func(name string, done chan fres) {
			pod, gerr := w.kube.CoreV1().Pods(Str(c, "ns")).Get(context.TODO(), name, metav1.GetOptions{})
			if gerr != nil {
				done <- fres{nil, gerr}
				return
			}
			nodes, _, err := w.plugin.Filter(pod, w.nodeList(c["nodes"].([]interface{})))
			var ns []string
			for _, n := range nodes {
				ns = append(ns, n.Name)
			}
			done <- fres{ns, err}
		}
		doneA, doneB := make(chan fres, 1), make(chan fres, 1)
		n0, _ := names[0].(string)
		n1, _ := names[1].(string)
		go run(n0, doneA)
		var ra, rb fres
		aDone := false
		select {
		case <-g.paused:
		case ra = <-doneA:
			aDone = true // the first request never allocated
		case <-time.After(2 * time.Second):
		}
		go run(n1, doneB)
		during, gotB := false, false
		select {
		case rb = <-doneB:
			during, gotB = !aDone, true
		case <-time.After(300 * time.Millisecond):
		}
		g.mu.Lock()
		g.armed = false
		g.mu.Unlock()
		select {
		case <-g.paused:
			close(g.resume)
		default:
			close(g.resume)
		}
		if !aDone {
			ra = <-doneA
		}
		if !gotB {
			rb = <-doneB
		}
		o["second_during_first"] = during
		o["nodes_a"], o["nodes_b"] = ra.nodes, rb.nodes
		if ra.err != nil {
			o["err_a"] = ra.err.Error()
		}
		if rb.err != nil {
			o["err_b"] = rb.err.Error()
		}
	case "event_loop":
		// the release event at queue position n is handed to the REAL event loop (one attempt): when the attempt fails the
		// loop's goroutine backs off and queues the event again - with whatever it queues; that event takes the position back
		n := int(Num(c, "n"))
		if n >= len(w.queue) {
			o["res"] = "skipped"
			break
		}
		ev := w.queue[n]
		o["event_pod"] = []interface{}{ev.Namespace, ev.Name, string(ev.UID)}
		w.queue = append(w.queue[:n:n], w.queue[n+1:]...)
		w.plugin.VerifLoopAttempt(ev, 0)
		var back []*corev1.Pod
		for i := 0; i < 80 && len(back) == 0; i++ { // back-off of the first retry: 100 ms
			time.Sleep(10 * time.Millisecond)
			back = w.plugin.VerifDrainEvents()
		}
		if len(back) > 0 {
			o["res"] = "err"
			o["requeued"] = []interface{}{back[0].Namespace, back[0].Name, string(back[0].UID)}
			rest := append([]*corev1.Pod{}, w.queue[n:]...)
			w.queue = append(append(w.queue[:n:n], back...), rest...)
		}
	case "event_race":
		// the release events of two pods (queue positions 0 and 1) are handled by two goroutines: the first is stopped after it
		// has counted the app's IPs and decided, right before it gives its IPs back; the second arrives meanwhile.  Counting,
		// deciding and releasing / reserving are one critical section under the app's (pool's) mutex, so the second can only
		// complete after the first.
		if len(w.queue) < 2 {
			o["res"] = "skipped"
			break
		}
		evA, evB := w.queue[0], w.queue[1]
		o["event_pod"] = []interface{}{evA.Namespace, evA.Name, string(evA.UID)}
		o["event_pod_b"] = []interface{}{evB.Namespace, evB.Name, string(evB.UID)}
		g := &gateIPAM{armed: true, onRelease: true, paused: make(chan struct{}), resume: make(chan struct{})}
		w.plugin.VerifWrapIpam(func(i floatingip.IPAM) floatingip.IPAM { g.IPAM = i; return g })
		defer w.plugin.VerifWrapIpam(func(floatingip.IPAM) floatingip.IPAM { return g.IPAM })
		doneA, doneB := make(chan error, 1), make(chan error, 1)
		go func() { doneA <- w.plugin.VerifUnbind(evA) }()
		var ea, eb error
		aDone := false
		select {
		case <-g.paused:
		case ea = <-doneA:
			aDone = true
		case <-time.After(2 * time.Second):
		}
		go func() { doneB <- w.plugin.VerifUnbind(evB) }()
		during, gotB := false, false
		select {
		case eb = <-doneB:
			during, gotB = !aDone, true
		case <-time.After(300 * time.Millisecond):
		}
		g.mu.Lock()
		g.armed = false
		g.mu.Unlock()
		close(g.resume)
		if !aDone {
			ea = <-doneA
		}
		if !gotB {
			eb = <-doneB
		}
		o["second_during_first"] = during
		var rest []*corev1.Pod
		if ea != nil {
			o["err_a"] = ea.Error()
			rest = append(rest, evA)
		}
		if eb != nil {
			o["err_b"] = eb.Error()
			rest = append(rest, evB)
		}
		w.queue = append(rest, w.queue[2:]...)
	case "sync_pod":
		if b, _ := c["stale"].(bool); b {
			// the pod-IP sync reaches this pod with the object it listed earlier
			g := w.grave[Str(c, "ns")+"/"+Str(c, "name")]
			if g == nil {
				o["res"] = "skipped"
				break
			}
			o["stale_uid"] = string(g.UID)
			o["obj"] = []interface{}{g.Namespace, g.Name, string(g.UID), int(phaseIdx(g.Status.Phase)), g.Spec.NodeName, podIPs(g)}
			_ = w.plugin.VerifSyncPodIP(g.DeepCopy())
			break
		}
		obj, exists, _ := w.podIdx.GetByKey(Str(c, "ns") + "/" + Str(c, "name"))
		if !exists {
			o["res"] = "skipped"
			break
		}
		cur := obj.(*corev1.Pod)
		o["obj"] = []interface{}{cur.Namespace, cur.Name, string(cur.UID), int(phaseIdx(cur.Status.Phase)), cur.Spec.NodeName, podIPs(cur)}
		_ = w.plugin.VerifSyncPodIP(cur)
	case "reload":
		w.confText = Str(c, "conf")
		cm, _ := w.kube.CoreV1().ConfigMaps("kube-system").Get(context.TODO(), "floatingip-config", metav1.GetOptions{})
		cm = cm.DeepCopy()
		cm.Data["floatingips"] = w.confText
		_, _ = w.kube.CoreV1().ConfigMaps("kube-system").Update(context.TODO(), cm, metav1.UpdateOptions{})
		_, err := w.plugin.VerifUpdateConfigMap()
		setErr(err)
	case "restart":
		// a new process: its informers list the API server afresh (no events for what they find)
		for _, o := range w.podIdx.List() {
			_ = w.podIdx.Delete(o)
		}
		if list, err := w.kube.CoreV1().Pods("").List(context.TODO(), metav1.ListOptions{}); err == nil {
			for i := range list.Items {
				_ = w.podIdx.Add(list.Items[i].DeepCopy())
			}
		}
		setErr(w.startPlugin())
	default:
		o["res"] = "harness-error"
	}
	w.drain()
	return o
}

// pluginHistory: {"provider":bool,"nodes":{name:ip},"conf":text,"ops":[...]} -> {"steps":[...]}
func pluginHistory(c map[string]interface{}) map[string]interface{} {
	nodes := map[string]string{}
	if m, ok := c["nodes"].(map[string]interface{}); ok {
		for k, v := range m {
			nodes[k] = v.(string)
		}
	}
	prov, _ := c["provider"].(bool)
	w, err := newPlugWorld(prov, nodes, Str(c, "conf"))
	if err != nil {
		return map[string]interface{}{"res": "err", "err": err.Error()}
	}
	steps := []interface{}{}
	ops, _ := c["ops"].([]interface{})
	for _, op := range ops {
		opm := op.(map[string]interface{})
		o := Guarded(20*time.Second, func() map[string]interface{} {
			w.hgcli.tick()
			r := w.runOp(opm)
			r["dump"] = w.dump()
			return r
		})
		steps = append(steps, o)
		if o["res"] == "panic" || o["res"] == "timeout" {
			break
		}
	}
	return map[string]interface{}{"res": "ok", "steps": steps, "init_dump": nil}
}

// postWith sends POST /v1/pool to the real handler
func postWith(pc *ipamapi.PoolController, name string, size int, prealloc bool) (int, string) {
	body, _ := json.Marshal(map[string]interface{}{"name": name, "size": size, "preAllocateIP": prealloc})
	req := httptest.NewRequest("POST", "/v1/pool", bytes.NewReader(body))
	req.Header.Set("Content-Type", "application/json")
	rec := httptest.NewRecorder()
	resp := restful.NewResponse(rec)
	resp.SetRequestAccepts("application/json")
	pc.CreateOrUpdate(restful.NewRequest(req), resp)
	if rec.Code != 200 && rec.Code != 202 {
		return rec.Code, rec.Body.String()
	}
	return rec.Code, ""
}
