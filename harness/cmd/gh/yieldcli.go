package main

import (
	"context"

	metav1 "k8s.io/apimachinery/pkg/apis/meta/v1"
	"tkestack.io/galaxy/pkg/ipam/apis/galaxy/v1alpha1"
	crd_clientset "tkestack.io/galaxy/pkg/ipam/client/clientset/versioned"
	typed "tkestack.io/galaxy/pkg/ipam/client/clientset/versioned/typed/galaxy/v1alpha1"
)

// hookedCli wraps the FloatingIP clientset so that the harness can run something at the moment a
// List call is made (a yield point OUTSIDE the fake clientset's own mutex).
type hookedCli struct {
	crd_clientset.Interface
	onList func()
}

func (h *hookedCli) GalaxyV1alpha1() typed.GalaxyV1alpha1Interface {
	return &hookedV1{h.Interface.GalaxyV1alpha1(), h}
}

type hookedV1 struct {
	typed.GalaxyV1alpha1Interface
	h *hookedCli
}

func (v *hookedV1) FloatingIPs() typed.FloatingIPInterface {
	return &hookedFIP{v.GalaxyV1alpha1Interface.FloatingIPs(), v.h}
}

type hookedFIP struct {
	typed.FloatingIPInterface
	h *hookedCli
}

func (f *hookedFIP) List(ctx context.Context, opts metav1.ListOptions) (*v1alpha1.FloatingIPList, error) {
	// the yield point is AFTER the API server answered and BEFORE the caller sees the answer: whatever the
	// hook does is not in the listed snapshot
	res, err := f.FloatingIPInterface.List(ctx, opts)
	if f.h.onList != nil {
		cb := f.h.onList
		f.h.onList = nil
		cb()
	}
	return res, err
}
