package main

import (
	"context"

	metav1 "k8s.io/apimachinery/pkg/apis/meta/v1"
	"tkestack.io/galaxy/pkg/ipam/apis/galaxy/v1alpha1"
	crd_clientset "tkestack.io/galaxy/pkg/ipam/client/clientset/versioned"
	typed "tkestack.io/galaxy/pkg/ipam/client/clientset/versioned/typed/galaxy/v1alpha1"
)

// hookedCli wraps the FloatingIP clientset so that the harness can run something at the moment a
// List call is made (a yield point OUTSIDE the fake clientset's own mutex).
//
// It also stands in for the API server's two read paths: a List or Get with resourceVersion "0" may be answered from
// the server's watch cache, which lags behind the store.  The fake clientset drops the option, so the wrapper
// answers such reads itself from watchCache - the store as it was at the start of the PREVIOUS history step.
type hookedCli struct {
	crd_clientset.Interface
	onList func()
	// watch cache of the stand-in API server and the snapshot that becomes the cache at the next step
	watchCache, nextCache *v1alpha1.FloatingIPList
	cacheReads            int
}

// tick: a history step starts - the watch cache advances to the store of one step ago
func (h *hookedCli) tick() {
	h.watchCache = h.nextCache
	if l, err := h.Interface.GalaxyV1alpha1().FloatingIPs().List(context.TODO(), metav1.ListOptions{}); err == nil {
		h.nextCache = l.DeepCopy()
	}
}

func (h *hookedCli) GalaxyV1alpha1() typed.GalaxyV1alpha1Interface {
	return &hookedV1{h.Interface.GalaxyV1alpha1(), h}
}

type hookedV1 struct {
	typed.GalaxyV1alpha1Interface
	h *hookedCli
}

func (v *hookedV1) FloatingIPs() typed.FloatingIPInterface {
	return &hookedFIP{v.GalaxyV1alpha1Interface.FloatingIPs(), v.h}
}

type hookedFIP struct {
	typed.FloatingIPInterface
	h *hookedCli
}

func (f *hookedFIP) List(ctx context.Context, opts metav1.ListOptions) (*v1alpha1.FloatingIPList, error) {
	// the yield point is AFTER the API server answered and BEFORE the caller sees the answer: whatever the
	// hook does is not in the listed snapshot
	res, err := f.FloatingIPInterface.List(ctx, opts)
	if opts.ResourceVersion == "0" && err == nil {
		f.h.cacheReads++
		res = &v1alpha1.FloatingIPList{}
		if f.h.watchCache != nil {
			res = f.h.watchCache.DeepCopy()
		}
	}
	if f.h.onList != nil {
		cb := f.h.onList
		f.h.onList = nil
		cb()
	}
	return res, err
}

func (f *hookedFIP) Get(ctx context.Context, name string, opts metav1.GetOptions) (*v1alpha1.FloatingIP, error) {
	res, err := f.FloatingIPInterface.Get(ctx, name, opts)
	if opts.ResourceVersion == "0" && f.h.watchCache != nil {
		f.h.cacheReads++
		for i := range f.h.watchCache.Items {
			if f.h.watchCache.Items[i].Name == name {
				return f.h.watchCache.Items[i].DeepCopy(), nil
			}
		}
	}
	return res, err
}
