package main

import (
	"context"
	"encoding/json"
	"fmt"
	"net"
	"sort"
	"sync"
	"time"

	metav1 "k8s.io/apimachinery/pkg/apis/meta/v1"
	"k8s.io/apimachinery/pkg/runtime"
	k8stesting "k8s.io/client-go/testing"
	"tkestack.io/galaxy/pkg/api/galaxy/constant"
	"tkestack.io/galaxy/pkg/ipam/apis/galaxy/v1alpha1"
	fakeGalaxyCli "tkestack.io/galaxy/pkg/ipam/client/clientset/versioned/fake"
	"tkestack.io/galaxy/pkg/ipam/floatingip"
	"tkestack.io/galaxy/pkg/utils/nets"
	. "verifharness/ghlib"
)

func init() { Subcommands["ipam"] = ipamHistory }

// storeLog counts FloatingIP API calls of the current op, injects one clean failure, records calls.
type storeLog struct {
	sync.Mutex
	on    bool
	n     int
	fault int
	crash int
	calls [][]interface{}
}

func (l *storeLog) begin(fault int) {
	l.Lock()
	l.on, l.n, l.fault, l.crash, l.calls = true, 0, fault, -1, nil
	l.Unlock()
}

// beginCrash: the process dies right before its k-th store call - that call and every later one (rollbacks included) has no effect
func (l *storeLog) beginCrash(k int) {
	l.Lock()
	l.on, l.n, l.fault, l.crash, l.calls = true, 0, -1, k, nil
	l.Unlock()
}
func (l *storeLog) end() [][]interface{} {
	l.Lock()
	defer l.Unlock()
	l.on = false
	return l.calls
}

func (l *storeLog) react(action k8stesting.Action) (bool, runtime.Object, error) {
	l.Lock()
	defer l.Unlock()
	if !l.on {
		return false, nil, nil
	}
	name := ""
	switch a := action.(type) {
	case k8stesting.CreateAction:
		if o, ok := a.GetObject().(*v1alpha1.FloatingIP); ok {
			name = o.Name
		}
	case k8stesting.UpdateAction:
		if o, ok := a.GetObject().(*v1alpha1.FloatingIP); ok {
			name = o.Name
		}
	case k8stesting.DeleteAction:
		name = a.GetName()
	case k8stesting.GetAction:
		name = a.GetName()
	}
	idx := l.n
	l.n++
	inj := idx == l.fault || (l.crash >= 0 && idx >= l.crash)
	l.calls = append(l.calls, []interface{}{action.GetVerb(), name, inj})
	if inj {
		return true, nil, fmt.Errorf("injected failure of store call %d", idx)
	}
	return false, nil, nil
}

type ipamWorld struct {
	hcli  *hookedCli
	cli   *fakeGalaxyCli.Clientset
	log   *storeLog
	ipam  floatingip.IPAM
	pools []string // JSON texts of the current configuration
	// administrator's changes whose informer event has not been delivered: ip -> (object, isDelete)
	pending map[string]pendingEv
}

type pendingEv struct {
	obj *v1alpha1.FloatingIP
	del bool
}

func newIpamWorld() *ipamWorld {
	w := &ipamWorld{cli: fakeGalaxyCli.NewSimpleClientset(), log: &storeLog{fault: -1, crash: -1}, pending: map[string]pendingEv{}}
	w.cli.PrependReactor("*", "floatingips", w.log.react)
	w.hcli = &hookedCli{Interface: w.cli}
	w.ipam = floatingip.NewCrdIPAM(w.hcli, nil)
	return w
}

func parsePools(texts []string) ([]*floatingip.FloatingIPPool, error) {
	var pools []*floatingip.FloatingIPPool
	for _, t := range texts {
		p := &floatingip.FloatingIPPool{}
		if err := json.Unmarshal([]byte(t), p); err != nil {
			return nil, err
		}
		pools = append(pools, p)
	}
	return pools, nil
}

func attrOf(c map[string]interface{}) floatingip.Attr {
	a, _ := c["attr"].(map[string]interface{})
	if a == nil {
		return floatingip.Attr{}
	}
	return floatingip.Attr{Policy: constant.ReleasePolicy(Num(a, "policy")), NodeName: Str(a, "node"), Uid: Str(a, "uid")}
}

func ipOf(s string) net.IP { return net.ParseIP(s) }

func subnetOf(s string) *net.IPNet {
	_, n, err := net.ParseCIDR(s)
	if err != nil {
		return nil
	}
	return n
}

func rangesOf(v interface{}) [][]nets.IPRange {
	var out [][]nets.IPRange
	l, _ := v.([]interface{})
	for _, e := range l {
		var rs []nets.IPRange
		el, _ := e.([]interface{})
		for _, r := range el {
			if s, ok := r.(string); ok {
				if pr := nets.ParseIPRange(s); pr != nil {
					rs = append(rs, *pr)
				}
			}
		}
		out = append(out, rs)
	}
	return out
}

func errClass(err error) string {
	if err == nil {
		return "ok"
	}
	if err == floatingip.ErrNoEnoughIP {
		return "noip"
	}
	return "err"
}

// dump: canonical view of the two tables (through the public ByPrefix("")) and of the store
func (w *ipamWorld) dump() map[string]interface{} {
	alloc := [][]interface{}{}
	unalloc := []uint32{}
	infos, _ := w.ipam.ByPrefix("")
	for _, inf := range infos {
		ip := nets.IPToInt(inf.IPInfo.IP.IP)
		ones, _ := inf.IPInfo.IP.Mask.Size()
		sns := inf.NodeSubnets.List()
		_, res := inf.Labels[constant.ReserveFIPLabel]
		if inf.Key == "" && !res {
			// free entries: ByPrefix("") lists both tables.  An ALLOCATED entry with an empty key exists only as an
			// administrator's label-only reservation, which carries the reserved label in memory too
			unalloc = append(unalloc, ip)
			continue
		}
		alloc = append(alloc, []interface{}{ip, inf.Key, inf.Policy, inf.NodeName, inf.PodUid, res,
			[]interface{}{ones, nets.IPToInt(inf.IPInfo.Gateway), inf.IPInfo.Vlan, sns}})
	}
	sort.Slice(alloc, func(i, j int) bool { return alloc[i][0].(uint32) < alloc[j][0].(uint32) })
	sort.Slice(unalloc, func(i, j int) bool { return unalloc[i] < unalloc[j] })
	store := [][]interface{}{}
	list, err := w.cli.GalaxyV1alpha1().FloatingIPs().List(context.TODO(), metav1.ListOptions{})
	if err == nil {
		for _, it := range list.Items {
			var a floatingip.Attr
			if it.Spec.Attribute != "" {
				_ = json.Unmarshal([]byte(it.Spec.Attribute), &a)
			}
			_, res := it.Labels[constant.ReserveFIPLabel]
			store = append(store, []interface{}{nets.IPToInt(net.ParseIP(it.Name)), it.Spec.Key, uint16(it.Spec.Policy),
				a.NodeName, a.Uid, res})
		}
	}
	sort.Slice(store, func(i, j int) bool { return store[i][0].(uint32) < store[j][0].(uint32) })
	pend := []uint32{}
	for n := range w.pending {
		pend = append(pend, nets.IPToInt(net.ParseIP(n)))
	}
	sort.Slice(pend, func(i, j int) bool { return pend[i] < pend[j] })
	return map[string]interface{}{"alloc": alloc, "unalloc": unalloc, "store": store, "pending": pend}
}

func (w *ipamWorld) runOp(c map[string]interface{}) map[string]interface{} {
	fault := -1
	if _, ok := c["fault"]; ok {
		fault = int(Num(c, "fault"))
	}
	o := map[string]interface{}{}
	switch Str(c, "op") {
	case "configure", "restart":
		if Str(c, "op") == "restart" {
			w.ipam = floatingip.NewCrdIPAM(w.hcli, nil)
			w.pending = map[string]pendingEv{}
		} else {
			w.pools = nil
			for _, t := range c["pools"].([]interface{}) {
				w.pools = append(w.pools, t.(string))
			}
		}
		pools, err := parsePools(w.pools)
		if err != nil {
			o["res"] = "err"
			o["decode_err"] = err.Error()
			return o
		}
		// "during_list": another request arrives while ConfigurePool is listing the store.  It runs in its own
		// goroutine; if ConfigurePool holds the cache lock across the list it can only complete afterwards.
		var nestedDone chan struct{}
		var nestedRes map[string]interface{}
		during := false
		if nested, ok := c["during_list"].(map[string]interface{}); ok {
			nestedDone = make(chan struct{})
			w.hcli.onList = func() {
				go func() {
					ex := w.resolve(nested)
					nestedRes = w.runOpNoLog(ex)
					nestedRes["exec"] = ex
					close(nestedDone)
				}()
				select {
				case <-nestedDone:
					during = true
				case <-time.After(250 * time.Millisecond):
				}
			}
		}
		w.log.begin(fault)
		err = w.ipam.ConfigurePool(pools)
		o["calls"] = w.log.end()
		o["res"] = errClass(err)
		if nestedDone != nil {
			select {
			case <-nestedDone:
				nestedRes["during"] = during
				o["nested"] = nestedRes
			case <-time.After(5 * time.Second):
				o["nested"] = map[string]interface{}{"res": "timeout"}
			}
		}
	case "alloc_specific":
		w.log.begin(fault)
		err := w.ipam.AllocateSpecificIP(Str(c, "key"), ipOf(Str(c, "ip")), attrOf(c))
		o["calls"] = w.log.end()
		o["res"] = errClass(err)
	case "alloc_in_subnet":
		w.log.begin(fault)
		ip, err := w.ipam.AllocateInSubnet(Str(c, "key"), subnetOf(Str(c, "subnet")), attrOf(c))
		o["calls"] = w.log.end()
		o["res"] = errClass(err)
		if err == nil {
			o["ip"] = nets.IPToInt(ip)
		}
	case "alloc_with_key":
		w.log.begin(fault)
		err := w.ipam.AllocateInSubnetWithKey(Str(c, "old"), Str(c, "new"), Str(c, "subnet"), attrOf(c))
		o["calls"] = w.log.end()
		o["res"] = errClass(err)
	case "reserve":
		w.log.begin(fault)
		reserved, err := w.ipam.ReserveIP(Str(c, "old"), Str(c, "new"), attrOf(c))
		o["calls"] = w.log.end()
		o["res"] = errClass(err)
		o["reserved"] = reserved
	case "update_attr":
		w.log.begin(fault)
		err := w.ipam.UpdateAttr(Str(c, "key"), ipOf(Str(c, "ip")), attrOf(c))
		o["calls"] = w.log.end()
		o["res"] = errClass(err)
	case "release":
		w.log.begin(fault)
		err := w.ipam.Release(Str(c, "key"), ipOf(Str(c, "ip")))
		o["calls"] = w.log.end()
		o["res"] = errClass(err)
	case "release_ips":
		m := map[string]string{}
		for k, v := range c["m"].(map[string]interface{}) {
			m[k] = v.(string)
		}
		w.log.begin(fault)
		deleted, undeleted, err := w.ipam.ReleaseIPs(m)
		o["calls"] = w.log.end()
		o["res"] = errClass(err)
		o["deleted"], o["undeleted"] = deleted, undeleted
	case "alloc_ranges":
		w.log.begin(fault)
		ips, err := w.ipam.AllocateInSubnetsAndIPRange(Str(c, "key"), subnetOf(Str(c, "subnet")), rangesOf(c["ranges"]), attrOf(c))
		o["calls"] = w.log.end()
		o["res"] = errClass(err)
		l := []uint32{}
		for _, ip := range ips {
			l = append(l, nets.IPToInt(ip))
		}
		o["ips"] = l
	case "admin_reserve":
		ip := Str(c, "ip")
		obj := &v1alpha1.FloatingIP{
			TypeMeta:   metav1.TypeMeta{Kind: constant.ResourceKind, APIVersion: constant.ApiVersion},
			ObjectMeta: metav1.ObjectMeta{Name: ip, Labels: map[string]string{constant.ReserveFIPLabel: ""}},
			Spec: v1alpha1.FloatingIPSpec{Key: Str(c, "key"), Policy: constant.ReleasePolicy(Num(c, "policy")),
				UpdateTime: metav1.NewTime(time.Now())},
		}
		if _, pend := w.pending[ip]; pend {
			o["res"] = "skipped"
		} else if _, err := w.cli.GalaxyV1alpha1().FloatingIPs().Create(context.TODO(), obj, metav1.CreateOptions{}); err != nil {
			o["res"] = "err"
		} else {
			w.pending[ip] = pendingEv{obj: obj}
			o["res"] = "ok"
		}
	case "admin_unreserve":
		ip := Str(c, "ip")
		if _, pend := w.pending[ip]; pend {
			o["res"] = "skipped"
		} else if obj, err := w.cli.GalaxyV1alpha1().FloatingIPs().Get(context.TODO(), ip, metav1.GetOptions{}); err != nil {
			o["res"] = "err"
		} else if _, res := obj.Labels[constant.ReserveFIPLabel]; !res {
			o["res"] = "err"
		} else {
			_ = w.cli.GalaxyV1alpha1().FloatingIPs().Delete(context.TODO(), ip, metav1.DeleteOptions{})
			w.pending[ip] = pendingEv{obj: obj, del: true}
			o["res"] = "ok"
		}
	case "watch_deliver":
		ip := Str(c, "ip")
		ev, pend := w.pending[ip]
		if !pend {
			o["res"] = "skipped"
			break
		}
		delete(w.pending, ip)
		var err error
		if ev.del {
			err = floatingip.VerifHandleFIPUnassign(w.ipam, ev.obj)
		} else {
			err = floatingip.VerifHandleFIPAssign(w.ipam, ev.obj)
			if _, gerr := w.cli.GalaxyV1alpha1().FloatingIPs().Get(context.TODO(), ip, metav1.GetOptions{}); gerr != nil {
				// the object was deleted since (by galaxy-ipam itself: a reload dropped its range): the informer delivers
				// the delete event right after the add event
				err = floatingip.VerifHandleFIPUnassign(w.ipam, ev.obj)
			}
		}
		// the handlers' errors are only logged by galaxy-ipam: the result class is not an observable
		_ = err
		o["res"] = "ok"
	case "by_key_ranges":
		infos, err := w.ipam.ByKeyAndIPRanges(Str(c, "key"), rangesOf(c["ranges"]))
		o["res"] = errClass(err)
		l := []interface{}{}
		for _, inf := range infos {
			if inf == nil {
				l = append(l, nil)
			} else {
				l = append(l, nets.IPToInt(inf.IPInfo.IP.IP))
			}
		}
		o["slots"] = l
	case "subnets_by_ranges":
		set, err := w.ipam.NodeSubnetsByIPRanges(rangesOf(c["ranges"]))
		o["res"] = errClass(err)
		o["subnets"] = set.List()
	case "node_subnet":
		n := w.ipam.NodeSubnet(ipOf(Str(c, "ip")))
		o["res"] = "ok"
		if n != nil {
			o["subnet"] = n.String()
		}
	default:
		o["res"] = "harness-error"
	}
	return o
}

// runOpNoLog runs a deterministic operation (no oracle needed) without touching the call log of the enclosing one
func (w *ipamWorld) runOpNoLog(c map[string]interface{}) map[string]interface{} {
	o := map[string]interface{}{}
	switch Str(c, "op") {
	case "alloc_specific":
		o["res"] = errClass(w.ipam.AllocateSpecificIP(Str(c, "key"), ipOf(Str(c, "ip")), attrOf(c)))
	case "alloc_ranges":
		ips, err := w.ipam.AllocateInSubnetsAndIPRange(Str(c, "key"), subnetOf(Str(c, "subnet")), rangesOf(c["ranges"]), attrOf(c))
		o["res"] = errClass(err)
		l := []uint32{}
		for _, ip := range ips {
			l = append(l, nets.IPToInt(ip))
		}
		o["ips"] = l
	case "release":
		o["res"] = errClass(w.ipam.Release(Str(c, "key"), ipOf(Str(c, "ip"))))
	default:
		o["res"] = "harness-error"
	}
	return o
}

// resolve replaces symbolic references by concrete values taken from the CURRENT tables, so that a
// state-free generator still produces mostly meaningful operations:
//   "@a<k>" / "@u<k>" as ip  -> the k-th (mod n) allocated / free address (ascending)
//   "@ka<k>" as key/old/new  -> the key of the k-th allocated entry
// The concrete operation that was executed is returned as "exec".
func (w *ipamWorld) resolve(c map[string]interface{}) map[string]interface{} {
	d := w.dump()
	alloc := d["alloc"].([][]interface{})
	unalloc := d["unalloc"].([]uint32)
	out := map[string]interface{}{}
	for k, v := range c {
		out[k] = v
	}
	pick := func(s string) (string, bool) {
		var k int
		if s == "@pending" {
			names := []string{}
			for n := range w.pending {
				names = append(names, n)
			}
			sort.Strings(names)
			if len(names) == 0 {
				return "0.0.0.9", true
			}
			return names[0], true
		}
		if n, _ := fmt.Sscanf(s, "@a%d", &k); n == 1 {
			if len(alloc) == 0 {
				return "0.0.0.9", true
			}
			return nets.IntToIP(alloc[k%len(alloc)][0].(uint32)).String(), true
		}
		if n, _ := fmt.Sscanf(s, "@u%d", &k); n == 1 {
			if len(unalloc) == 0 {
				return "0.0.0.9", true
			}
			return nets.IntToIP(unalloc[k%len(unalloc)]).String(), true
		}
		if n, _ := fmt.Sscanf(s, "@ka%d", &k); n == 1 {
			if len(alloc) == 0 {
				return "nokey", true
			}
			return alloc[k%len(alloc)][1].(string), true
		}
		return s, false
	}
	for _, f := range []string{"ip", "key", "old", "new"} {
		if s, ok := out[f].(string); ok {
			if r, ok := pick(s); ok {
				out[f] = r
			}
		}
	}
	if m, ok := out["m"].(map[string]interface{}); ok {
		nm := map[string]interface{}{}
		for k, v := range m {
			rk, _ := pick(k)
			rv, _ := pick(v.(string))
			nm[rk] = rv
		}
		out["m"] = nm
	}
	return out
}

// ipamHistory: {"ops":[...]} -> {"steps":[{res, calls, ..., dump}]}
func ipamHistory(c map[string]interface{}) map[string]interface{} {
	w := newIpamWorld()
	steps := []interface{}{}
	ops, _ := c["ops"].([]interface{})
	for _, op := range ops {
		opm := op.(map[string]interface{})
		o := Guarded(10*time.Second, func() map[string]interface{} {
			w.hcli.tick()
			ex := w.resolve(opm)
			r := w.runOp(ex)
			if Str(ex, "op") == "restart" {
				ps := []interface{}{}
				for _, t := range w.pools {
					ps = append(ps, t)
				}
				ex["pools"] = ps
			}
			r["exec"] = ex
			r["dump"] = w.dump()
			return r
		})
		steps = append(steps, o)
		if o["res"] == "panic" || o["res"] == "timeout" {
			break
		}
	}
	return map[string]interface{}{"res": "ok", "steps": steps, "cache_reads": w.hcli.cacheReads}
}
