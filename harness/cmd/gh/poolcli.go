package main

import (
	"context"

	metav1 "k8s.io/apimachinery/pkg/apis/meta/v1"
	"tkestack.io/galaxy/pkg/ipam/apis/galaxy/v1alpha1"
	crd_clientset "tkestack.io/galaxy/pkg/ipam/client/clientset/versioned"
	typed "tkestack.io/galaxy/pkg/ipam/client/clientset/versioned/typed/galaxy/v1alpha1"
)

// poolHookCli wraps the clientset a PoolController is given so that the harness can act at the moment the request writes the
// Pool object - OUTSIDE the fake clientset's own mutex: before (right before the write reaches the API server) and after
// (the write was answered, the request has not looked at the answer yet).  Each hook fires once, at the first write of the
// verb it is set for ("create" / "update").
type poolHookCli struct {
	crd_clientset.Interface
	verb          string
	before, after func()
}

func (h *poolHookCli) GalaxyV1alpha1() typed.GalaxyV1alpha1Interface {
	return &poolHookV1{h.Interface.GalaxyV1alpha1(), h}
}

type poolHookV1 struct {
	typed.GalaxyV1alpha1Interface
	h *poolHookCli
}

func (v *poolHookV1) Pools(ns string) typed.PoolInterface {
	return &poolHook{v.GalaxyV1alpha1Interface.Pools(ns), v.h}
}

type poolHook struct {
	typed.PoolInterface
	h *poolHookCli
}

func (p *poolHook) fire(verb string, f *func()) {
	if p.h.verb == verb && *f != nil {
		cb := *f
		*f = nil
		cb()
	}
}

func (p *poolHook) Create(ctx context.Context, pool *v1alpha1.Pool, opts metav1.CreateOptions) (*v1alpha1.Pool, error) {
	p.fire("create", &p.h.before)
	r, err := p.PoolInterface.Create(ctx, pool, opts)
	p.fire("create", &p.h.after)
	return r, err
}

func (p *poolHook) Update(ctx context.Context, pool *v1alpha1.Pool, opts metav1.UpdateOptions) (*v1alpha1.Pool, error) {
	p.fire("update", &p.h.before)
	r, err := p.PoolInterface.Update(ctx, pool, opts)
	p.fire("update", &p.h.after)
	return r, err
}
