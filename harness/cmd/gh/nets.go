package main

import (
	. "verifharness/ghlib"
	"encoding/json"
	"net"
	"sort"
	"time"

	fakeGalaxyCli "tkestack.io/galaxy/pkg/ipam/client/clientset/versioned/fake"
	"tkestack.io/galaxy/pkg/ipam/floatingip"
	"tkestack.io/galaxy/pkg/utils/nets"
)

func init() { Subcommands["nets"] = netsCase }

func ipnetPair(n *net.IPNet) []interface{} {
	ones, _ := n.Mask.Size()
	return []interface{}{nets.IPToInt(n.IP), ones}
}

func poolObs(p *floatingip.FloatingIPPool) map[string]interface{} {
	ns := []interface{}{}
	for _, n := range p.NodeSubnets {
		ns = append(ns, ipnetPair(n))
	}
	rs := []interface{}{}
	for _, r := range p.IPRanges {
		rs = append(rs, []interface{}{nets.IPToInt(r.First), nets.IPToInt(r.Last)})
	}
	ones, _ := p.Mask.Size()
	return map[string]interface{}{"nodesubnets": ns, "gateway": nets.IPToInt(p.Gateway), "masklen": ones,
		"vlan": p.Vlan, "ranges": rs}
}

func netsCase(c map[string]interface{}) map[string]interface{} {
	switch Str(c, "op") {
	case "parse_range":
		return Guarded(5*time.Second, func() map[string]interface{} {
			r := nets.ParseIPRange(Str(c, "s"))
			if r == nil {
				return map[string]interface{}{"res": "ok", "some": false}
			}
			o := map[string]interface{}{"res": "ok", "some": true, "first": nets.IPToInt(r.First),
				"last": nets.IPToInt(r.Last), "str": r.String(), "size": r.Size(),
				"v4": r.First.To4() != nil && r.Last.To4() != nil}
			// JSON round trip through the type's own Marshal/Unmarshal
			if b, err := json.Marshal(r); err == nil {
				var r2 nets.IPRange
				if err := json.Unmarshal(b, &r2); err == nil {
					o["rt"] = r2.First.Equal(r.First) && r2.Last.Equal(r.Last)
				} else {
					o["rt"] = false
				}
			}
			return o
		})
	case "pool":
		// text: JSON text of ONE pool object; probes: addresses for Contains; enum: bool
		return Guarded(8*time.Second, func() map[string]interface{} {
			var p floatingip.FloatingIPPool
			if err := json.Unmarshal([]byte(Str(c, "text")), &p); err != nil {
				return map[string]interface{}{"res": "err", "err": err.Error()}
			}
			o := map[string]interface{}{"res": "ok", "pool": poolObs(&p), "size": p.Size()}
			if b, err := p.MarshalJSON(); err == nil {
				o["marshal"] = string(b)
				var p2 floatingip.FloatingIPPool
				if err := json.Unmarshal(b, &p2); err == nil {
					b1, _ := json.Marshal(poolObs(&p))
					b2, _ := json.Marshal(poolObs(&p2))
					o["rt"] = string(b1) == string(b2)
				} else {
					o["rt"] = false
					o["rt_err"] = err.Error()
				}
			} else {
				o["marshal_err"] = err.Error()
			}
			if probes, ok := c["probes"].([]interface{}); ok {
				res := []interface{}{}
				for _, pr := range probes {
					n, _ := pr.(json.Number).Int64()
					res = append(res, p.Contains(nets.IntToIP(uint32(n))))
				}
				o["contains"] = res
			}
			if b, _ := c["enum"].(bool); b {
				// enumeration as galaxy-ipam does it: ConfigurePool walks the ranges into its tables.
				// Own watchdog: a walk that never returns must not hide the decoded pool.
				e := Guarded(3*time.Second, func() map[string]interface{} {
					var pe floatingip.FloatingIPPool
					if err := json.Unmarshal([]byte(Str(c, "text")), &pe); err != nil {
						return map[string]interface{}{"res": "err"}
					}
					cli := fakeGalaxyCli.NewSimpleClientset()
					ipam := floatingip.NewCrdIPAM(cli, nil)
					if err := ipam.ConfigurePool([]*floatingip.FloatingIPPool{&pe}); err != nil {
						return map[string]interface{}{"res": "err", "err": err.Error()}
					}
					infos, _ := ipam.ByPrefix("")
					ips := []uint32{}
					for _, inf := range infos {
						ips = append(ips, nets.IPToInt(inf.IPInfo.IP.IP))
					}
					sort.Slice(ips, func(i, j int) bool { return ips[i] < ips[j] })
					return map[string]interface{}{"res": "ok", "enum": ips}
				})
				switch e["res"] {
				case "ok":
					o["enum"] = e["enum"]
				case "timeout":
					o["enum_timeout"] = true
				case "panic":
					o["enum_panic"] = e["panic"]
				default:
					o["enum_err"] = e["err"]
				}
			}
			return o
		})
	case "conf":
		// text: a whole floatingips array as the ConfigMap carries it; result class only (C18 surface)
		return Guarded(8*time.Second, func() map[string]interface{} {
			var pools []*floatingip.FloatingIPPool
			if err := json.Unmarshal([]byte(Str(c, "text")), &pools); err != nil {
				return map[string]interface{}{"res": "err", "err": err.Error()}
			}
			return map[string]interface{}{"res": "ok", "n": len(pools)}
		})
	}
	return map[string]interface{}{"res": "harness-error", "err": "unknown op"}
}
