package main

import (
	"k8s.io/apimachinery/pkg/api/resource"
	"tkestack.io/galaxy/pkg/api/galaxy/constant"
	"tkestack.io/galaxy/pkg/ipam/floatingip"
)

func resourceOne() resource.Quantity { return resource.MustParse("1") }

func (w *ipamWorld) attr() floatingip.Attr {
	return floatingip.Attr{Policy: constant.ReleasePolicyPodDelete}
}
