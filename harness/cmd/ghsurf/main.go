// ghsurf: typed-surface differential testing for C18.  Every case is run on the REAL galaxy code under a
// watchdog; only the RESULT CLASS is observed: answer / error / panic / timeout, followed by a second, benign
// call on the same instance ("follow") that needs every lock the first call could have kept.
package main

import (
	"bytes"
	"encoding/json"
	"net/http/httptest"
	"time"

	restful "github.com/emicklei/go-restful"
	corev1 "k8s.io/api/core/v1"
	networkv1 "k8s.io/api/networking/v1"
	metav1 "k8s.io/apimachinery/pkg/apis/meta/v1"
	"k8s.io/apimachinery/pkg/runtime"
	"k8s.io/apimachinery/pkg/watch"
	"k8s.io/client-go/kubernetes/fake"
	networkingv1Lister "k8s.io/client-go/listers/networking/v1"
	k8stesting "k8s.io/client-go/testing"
	"k8s.io/client-go/tools/cache"
	"tkestack.io/galaxy/pkg/api/cniutil"
	galaxyapi "tkestack.io/galaxy/pkg/api/galaxy"
	"tkestack.io/galaxy/pkg/api/k8s"
	"tkestack.io/galaxy/pkg/api/k8s/schedulerapi"
	"tkestack.io/galaxy/pkg/galaxy"
	"tkestack.io/galaxy/pkg/ipam/api"
	ipamctx "tkestack.io/galaxy/pkg/ipam/context"
	"tkestack.io/galaxy/pkg/ipam/schedulerplugin"
	"tkestack.io/galaxy/pkg/ipam/server"
	"tkestack.io/galaxy/pkg/policy"
	"tkestack.io/galaxy/pkg/utils/page"
	. "verifharness/ghlib"
	"verifharness/nfake"
)

func init() { Subcommands["surf"] = surfCase }

func main() { Main() }

type jm = map[string]interface{}

const pluginConf = `{"floatingips":[{"nodeSubnets":["10.1.0.0/16"],"ips":["10.0.0.2~10.0.0.60"],"subnet":"10.0.0.0/24","gateway":"10.0.0.1","vlan":2},
 {"nodeSubnets":["10.2.0.0/16"],"ips":["255.255.255.250~255.255.255.255"],"subnet":"255.255.255.0/24","gateway":"255.255.255.1"}]}`

// ------------------------------------------------------------------ the ipam side: plugin + HTTP handlers
type ipamWorld struct {
	p    *schedulerplugin.FloatingIPPlugin
	ctx  *ipamctx.IPAMContext
	srv  *server.Server
	ctl  *api.Controller
	pool *api.PoolController
	stop chan struct{}
}

var iw *ipamWorld

func node(name, ip string) *corev1.Node {
	return &corev1.Node{ObjectMeta: metav1.ObjectMeta{Name: name},
		Status: corev1.NodeStatus{Addresses: []corev1.NodeAddress{{Type: corev1.NodeInternalIP, Address: ip}}}}
}

func getIpamWorld() (*ipamWorld, error) {
	if iw != nil {
		return iw, nil
	}
	var conf schedulerplugin.Conf
	if err := json.Unmarshal([]byte(pluginConf), &conf); err != nil {
		return nil, err
	}
	objs := []runtime.Object{node("n1", "10.1.0.5"), node("n2", "10.2.0.5"), node("n3", "10.9.0.5"),
		&corev1.Pod{ObjectMeta: metav1.ObjectMeta{Namespace: "ns1", Name: "known-0", UID: "u0"},
			Status: corev1.PodStatus{Phase: corev1.PodRunning}}}
	ctx, stop := ipamctx.CreateTestIPAMContext(objs, nil, nil)
	p, err := schedulerplugin.NewFloatingIPPlugin(conf, ctx)
	if err != nil {
		return nil, err
	}
	if err := p.Init(); err != nil {
		return nil, err
	}
	// let the informers see the objects
	deadline := time.Now().Add(5 * time.Second)
	for time.Now().Before(deadline) {
		if _, err := ctx.NodeLister.Get("n1"); err == nil {
			break
		}
		time.Sleep(10 * time.Millisecond)
	}
	w := &ipamWorld{p: p, ctx: ctx, stop: stop}
	w.srv = server.NewServerForVerif(p, ctx)
	w.ctl = api.NewController(p.GetIpam(), ctx.PodLister, p.Release)
	w.pool = &api.PoolController{PoolLister: ctx.PoolLister, Client: ctx.GalaxyClient, LockPoolFunc: p.LockDpPool, IPAM: p.GetIpam()}
	iw = w
	return w, nil
}

func dropIpamWorld() {
	if iw != nil {
		close(iw.stop)
		iw = nil
	}
}

func httpCall(method, target string, body []byte, pathParams map[string]string, h func(*restful.Request, *restful.Response)) int {
	req := httptest.NewRequest(method, target, bytes.NewReader(body))
	req.Header.Set("Content-Type", "application/json")
	rec := httptest.NewRecorder()
	resp := restful.NewResponse(rec)
	resp.SetRequestAccepts("application/json")
	rr := restful.NewRequest(req)
	for k, v := range pathParams {
		rr.PathParameters()[k] = v
	}
	h(rr, resp)
	return rec.Code
}

func classHTTP(code int) string {
	if code >= 200 && code < 300 {
		return "ok"
	}
	return "err"
}

// follow-up on the ipam world: needs the cache lock exclusively, the node-subnet lock and the pod/pool key locks
func (w *ipamWorld) follow() string {
	o := Guarded(4*time.Second, func() jm {
		pod := &corev1.Pod{ObjectMeta: metav1.ObjectMeta{Namespace: "ns1", Name: "follow-0", UID: "uf",
			Annotations: map[string]string{"k8s.v1.cni.cncf.io/networks": "galaxy-k8s-vlan"}},
			Spec: corev1.PodSpec{Containers: []corev1.Container{{Name: "c", Resources: corev1.ResourceRequirements{
				Requests: corev1.ResourceList{"tke.cloud.tencent.com/eni-ip": resourceOne()}}}}}}
		n1, _ := w.ctx.NodeLister.Get("n1")
		if n1 != nil {
			_, _, _ = w.p.Filter(pod, []corev1.Node{*n1})
		}
		_, _, _ = w.p.GetIpam().ReleaseIPs(map[string]string{"10.0.0.250": "nobody"})
		if err := w.p.GetIpam().UpdateAttr("nobody", nil, w.attr()); err == nil {
			return jm{"res": "ok"}
		}
		return jm{"res": "ok"}
	})
	return Str(o, "res")
}

func surfCase(c jm) jm {
	op := Str(c, "op")
	switch op {
	// ---------------- pure parsing surfaces
	case "netanno":
		return netAnno(c)
	case "cnireq":
		return Guarded(5*time.Second, func() jm {
			req, err := galaxyapi.CniRequestToPodRequest(bytesOf(c, "body"))
			if err != nil {
				return jm{"res": "err"}
			}
			_ = req.String()
			return jm{"res": "ok"}
		})
	case "cniargs":
		return Guarded(5*time.Second, func() jm {
			m, err := cniutil.ParseCNIArgs(Str(c, "s"))
			if err != nil {
				return jm{"res": "err"}
			}
			return jm{"res": "ok", "n": len(m)}
		})
	case "page":
		return Guarded(5*time.Second, func() jm {
			pg, sz := page.ParsePage(Str(c, "page")), page.ParseSize(Str(c, "size"))
			n := int(Num(c, "len"))
			s, e, _ := page.Pagination(pg, sz, n)
			arr := make([]int, n)
			_ = arr[s:e] // the slice expression the controllers evaluate
			return jm{"res": "ok", "start": s, "end": e}
		})
	// ---------------- galaxy-ipam: scheduler extender handlers, API controllers, plugin entry points
	case "ext_http", "api_http", "plugin":
		w, err := getIpamWorld()
		if err != nil {
			return jm{"res": "harness-error", "err": err.Error()}
		}
		o := Guarded(10*time.Second, func() jm { return w.run(op, c) })
		o["follow"] = w.follow()
		if o["res"] == "panic" || o["res"] == "timeout" || o["follow"] != "ok" {
			dropIpamWorld() // a wedged or half-updated instance must not influence the next case
		}
		return o
	case "policy":
		return policyCase(c)
	}
	return jm{"res": "harness-error", "err": "unknown op"}
}

func bytesOf(c jm, k string) []byte {
	if l, ok := c[k].([]interface{}); ok { // list of byte values
		b := make([]byte, 0, len(l))
		for _, x := range l {
			if n, ok := x.(json.Number); ok {
				v, _ := n.Int64()
				b = append(b, byte(v))
			}
		}
		return b
	}
	return []byte(Str(c, k))
}

func (w *ipamWorld) run(op string, c jm) jm {
	switch op {
	case "ext_http":
		h := map[string]func(*restful.Request, *restful.Response){"filter": w.srv.VerifFilter, "priority": w.srv.VerifPriority,
			"bind": w.srv.VerifBind, "preempt": w.srv.VerifPreempt}[Str(c, "route")]
		if h == nil {
			return jm{"res": "harness-error", "err": "unknown route"}
		}
		code := httpCall("POST", "/v1/"+Str(c, "route"), bytesOf(c, "body"), nil, h)
		return jm{"res": classHTTP(code), "code": code}
	case "api_http":
		var code int
		switch Str(c, "route") {
		case "list":
			code = httpCall("GET", "/v1/ip?"+Str(c, "query"), nil, nil, w.ctl.ListIPs)
		case "release":
			code = httpCall("POST", "/v1/ip", bytesOf(c, "body"), nil, w.ctl.ReleaseIPs)
		case "pool_get":
			code = httpCall("GET", "/v1/pool/x", nil, map[string]string{"name": Str(c, "name")}, w.pool.Get)
		case "pool_put":
			code = httpCall("POST", "/v1/pool", bytesOf(c, "body"), nil, w.pool.CreateOrUpdate)
		case "pool_del":
			code = httpCall("DELETE", "/v1/pool/x", nil, map[string]string{"name": Str(c, "name")}, w.pool.Delete)
		default:
			return jm{"res": "harness-error", "err": "unknown route"}
		}
		return jm{"res": classHTTP(code), "code": code}
	case "plugin":
		// typed surface: the objects are decoded from JSON exactly as the API machinery would hand them over
		switch Str(c, "fn") {
		case "filter":
			var pod corev1.Pod
			if err := json.Unmarshal(bytesOf(c, "pod"), &pod); err != nil {
				return jm{"res": "harness-error", "err": "pod json: " + err.Error()}
			}
			var nodes []corev1.Node
			for _, n := range []string{"n1", "n2", "n3"} {
				if nd, err := w.ctx.NodeLister.Get(n); err == nil {
					nodes = append(nodes, *nd)
				}
			}
			_, _, err := w.p.Filter(&pod, nodes)
			if err != nil {
				return jm{"res": "err"}
			}
			return jm{"res": "ok"}
		case "bind":
			var args schedulerapi.ExtenderBindingArgs
			if err := json.Unmarshal(bytesOf(c, "args"), &args); err != nil {
				return jm{"res": "harness-error", "err": "args json: " + err.Error()}
			}
			if err := w.p.Bind(&args); err != nil {
				return jm{"res": "err"}
			}
			return jm{"res": "ok"}
		case "preempt":
			var args schedulerapi.ExtenderPreemptionArgs
			if err := json.Unmarshal(bytesOf(c, "args"), &args); err != nil {
				return jm{"res": "harness-error", "err": "args json: " + err.Error()}
			}
			_ = w.p.Preempt(&args)
			return jm{"res": "ok"}
		case "podevent":
			var pod corev1.Pod
			if err := json.Unmarshal(bytesOf(c, "pod"), &pod); err != nil {
				return jm{"res": "harness-error", "err": "pod json: " + err.Error()}
			}
			_ = w.p.AddPod(&pod)
			_ = w.p.UpdatePod(&pod, &pod)
			_ = w.p.DeletePod(&pod)
			return jm{"res": "ok"}
		}
	}
	return jm{"res": "harness-error", "err": "unknown case"}
}

// ------------------------------------------------------------------ galaxy: networks annotation through the real resolveNetworks
var gx *galaxy.Galaxy

const galaxyConf = `{"NetworkConf":[{"name":"tke-route-eni","type":"tke-route-eni","eni":"eth1","routeTable":1},
 {"name":"galaxy-flannel","type":"galaxy-flannel","delegate":{"type":"galaxy-veth"},"subnetFile":"/run/flannel/subnet.env"},
 {"name":"galaxy-k8s-vlan","type":"galaxy-k8s-vlan","device":"eth1","default_bridge_name":"br0"}],
 "DefaultNetworks":["galaxy-flannel"],"ENIIPNetwork":"galaxy-k8s-vlan"}`

func netAnno(c jm) jm {
	s := Str(c, "s")
	o := Guarded(5*time.Second, func() jm {
		nets, err := k8s.ParsePodNetworkAnnotation(s)
		if err != nil {
			return jm{"res": "err", "stage": "parse"}
		}
		if gx == nil {
			g := galaxy.NewGalaxy()
			g.NetworkConfDir = "/nonexistent-cni-conf-dir"
			if err := g.VerifLoadConf([]byte(galaxyConf)); err != nil {
				return jm{"res": "harness-error", "err": err.Error()}
			}
			gx = g
		}
		pod := &corev1.Pod{ObjectMeta: metav1.ObjectMeta{Namespace: "ns1", Name: "p", Annotations: map[string]string{
			"k8s.v1.cni.cncf.io/networks": s}}}
		if ext := Str(c, "extargs"); ext != "" {
			pod.Annotations["k8s.v1.cni.galaxy.io/args"] = ext
		}
		req, err := galaxyapi.CniRequestToPodRequest([]byte(`{"env":{"CNI_COMMAND":"ADD","CNI_CONTAINERID":"c1","CNI_NETNS":"/proc/1/ns/net",
		 "CNI_IFNAME":"eth0","CNI_PATH":"/opt/cni/bin","CNI_ARGS":"K8S_POD_NAMESPACE=ns1;K8S_POD_NAME=p;K8S_POD_INFRA_CONTAINER_ID=c1"}}`))
		if err != nil {
			return jm{"res": "harness-error", "err": err.Error()}
		}
		n, err := gx.VerifResolveNetworks(req, pod)
		if err != nil {
			return jm{"res": "err", "stage": "resolve", "parsed": len(nets)}
		}
		return jm{"res": "ok", "parsed": len(nets), "resolved": n}
	})
	return o
}

// ------------------------------------------------------------------ policy: a NetworkPolicy object and pod events on the real manager
func policyCase(c jm) jm {
	var np networkv1.NetworkPolicy
	if err := json.Unmarshal(bytesOf(c, "np"), &np); err != nil {
		return jm{"res": "harness-error", "err": "np json: " + err.Error()}
	}
	if np.Namespace == "" {
		np.Namespace = "ns1"
	}
	if np.Name == "" {
		np.Name = "np1"
	}
	pods := []*corev1.Pod{
		{ObjectMeta: metav1.ObjectMeta{Namespace: "ns1", Name: "a", Labels: map[string]string{"app": "a"}},
			Spec: corev1.PodSpec{NodeName: "node1"}, Status: corev1.PodStatus{PodIP: "10.0.0.2", Phase: corev1.PodRunning}},
		{ObjectMeta: metav1.ObjectMeta{Namespace: "ns1", Name: "b", Labels: map[string]string{"app": "b"}},
			Spec: corev1.PodSpec{NodeName: "node2"}, Status: corev1.PodStatus{PodIP: "10.0.0.3", Phase: corev1.PodRunning}},
		{ObjectMeta: metav1.ObjectMeta{Namespace: "ns2", Name: "c", Labels: map[string]string{"app": "a"}},
			Spec: corev1.PodSpec{NodeName: "node1"}, Status: corev1.PodStatus{PodIP: "10.0.1.2", Phase: corev1.PodRunning}},
	}
	objs := []runtime.Object{&corev1.Namespace{ObjectMeta: metav1.ObjectMeta{Name: "ns1", Labels: map[string]string{"team": "x"}}},
		&corev1.Namespace{ObjectMeta: metav1.ObjectMeta{Name: "ns2", Labels: map[string]string{"team": "y"}}}}
	for _, p := range pods {
		objs = append(objs, p)
	}
	client := fake.NewSimpleClientset(objs...)
	client.PrependWatchReactor("*", func(action k8stesting.Action) (bool, watch.Interface, error) {
		return true, watch.NewFake(), nil
	})
	k := nfake.NewKernel()
	quit := make(chan struct{})
	defer close(quit)
	pm := policy.NewForVerif(client, k.IPSet(), k.IPTables(), "node1", quit)
	idx := cache.NewIndexer(cache.MetaNamespaceKeyFunc, cache.Indexers{cache.NamespaceIndex: cache.MetaNamespaceIndexFunc})
	_ = idx.Add(&np)
	pm.VerifSetPolicyLister(networkingv1Lister.NewNetworkPolicyLister(idx))
	for _, o := range objs {
		if ns, ok := o.(*corev1.Namespace); ok {
			_ = pm.VerifNamespaceStore().Add(ns)
		}
	}
	for _, p := range pods {
		_ = pm.VerifPodStore().Add(p)
	}
	o := Guarded(20*time.Second, func() jm {
		_ = pm.AddPolicy(&np)
		for _, p := range pods {
			_ = pm.UpdatePod(p, p)
		}
		_ = pm.UpdatePolicy(&np, &np)
		_ = pm.DeletePod(pods[0])
		return jm{"res": "ok"}
	})
	// follow-up: needs the manager's mutex
	f := Guarded(10*time.Second, func() jm {
		_ = idx.Delete(&np)
		_ = pm.DeletePolicy(&np)
		pm.SyncPodIPInIPSet(pods[1], true)
		return jm{"res": "ok"}
	})
	o["follow"] = Str(f, "res")
	return o
}
