// ghkeyscni: the CNI plugin binary of the C13 correspondence check.  galaxy's cniutil.CmdAdd really
// executes it (found on the CNI path by its type name); it decodes CNI_ARGS with the plugins' own
// decoder, tkestack.io/galaxy/cni/ipam.Allocate, and writes what it saw to <obs_dir>/<cid>-<network>.json.
package main

import (
	"encoding/json"
	"fmt"
	"io/ioutil"
	"os"
	"path/filepath"

	"github.com/containernetworking/cni/pkg/skel"
	t020 "github.com/containernetworking/cni/pkg/types/020"
	"tkestack.io/galaxy/cni/ipam"
	"tkestack.io/galaxy/pkg/utils/nets"
)

// Decode runs the real Allocate on an argument string; shared shape with the harness' in-process op.
func decode(args string, stdin []byte) (o map[string]interface{}) {
	o = map[string]interface{}{"args": args}
	defer func() {
		if r := recover(); r != nil {
			o["res"] = "panic"
			o["panic"] = fmt.Sprint(r)
		}
	}()
	// as the galaxy plugins do (galaxy-k8s-vlan, galaxy-underlay-veth, ...): the ipam type of the network configuration is the
	// fallback for pods without ipinfos in their arguments
	var nc struct {
		IPAM struct {
			Type string `json:"type"`
		} `json:"ipam"`
	}
	_ = json.Unmarshal(stdin, &nc)
	o["ipam_type"] = nc.IPAM.Type
	vlans, results, err := ipam.Allocate(nc.IPAM.Type, &skel.CmdArgs{Args: args, StdinData: stdin})
	if err != nil {
		o["res"] = "err"
		o["err"] = err.Error()
		return o
	}
	o["res"] = "ok"
	o["vlans"] = vlans
	rs := []interface{}{}
	for _, r := range results {
		r020, err := t020.GetResult(r)
		if err != nil || r020.IP4 == nil {
			rs = append(rs, nil)
			continue
		}
		ones, bits := r020.IP4.IP.Mask.Size()
		var gw interface{}
		if r020.IP4.Gateway != nil {
			gw = nets.IPToInt(r020.IP4.Gateway)
		}
		rs = append(rs, []interface{}{nets.IPToInt(r020.IP4.IP.IP), ones, gw, bits})
	}
	o["results"] = rs
	return o
}

func main() {
	cmd := os.Getenv("CNI_COMMAND")
	stdin, _ := ioutil.ReadAll(os.Stdin)
	if cmd == "VERSION" {
		fmt.Print(`{"cniVersion":"0.4.0","supportedVersions":["0.1.0","0.2.0","0.3.0","0.3.1","0.4.0"]}`)
		return
	}
	var conf map[string]interface{}
	_ = json.Unmarshal(stdin, &conf)
	dir, _ := conf["obs_dir"].(string)
	name, _ := conf["name"].(string)
	if cmd == "ADD" {
		o := decode(os.Getenv("CNI_ARGS"), stdin)
		o["ifname"] = os.Getenv("CNI_IFNAME")
		data, _ := json.Marshal(o)
		_ = ioutil.WriteFile(filepath.Join(dir, os.Getenv("CNI_CONTAINERID")+"-"+name+".json"), data, 0644)
		fmt.Print(`{"cniVersion":"0.2.0","ip4":{"ip":"10.9.0.2/24","gateway":"10.9.0.1"}}`)
	}
}
