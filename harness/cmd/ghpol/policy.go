package main

import (
	"context"
	"encoding/json"
	"fmt"
	"os"
	"sort"
	"time"

	corev1 "k8s.io/api/core/v1"
	networkv1 "k8s.io/api/networking/v1"
	metav1 "k8s.io/apimachinery/pkg/apis/meta/v1"
	"k8s.io/apimachinery/pkg/fields"
	"k8s.io/apimachinery/pkg/runtime"
	"k8s.io/apimachinery/pkg/util/intstr"
	"k8s.io/apimachinery/pkg/watch"
	"k8s.io/client-go/kubernetes/fake"
	networkingv1Lister "k8s.io/client-go/listers/networking/v1"
	k8stesting "k8s.io/client-go/testing"
	"k8s.io/client-go/tools/cache"
	"tkestack.io/galaxy/pkg/policy"
	"verifharness/ghlib"
	"verifharness/nfake"
)

func init() {
	ghlib.Subcommands["policy"] = policyCase
	os.Setenv("MY_NODE_NAME", "node1")
}

type jNs struct {
	Name   string            `json:"name"`
	Labels map[string]string `json:"labels"`
}
type jPod struct {
	Ns     string            `json:"ns"`
	Name   string            `json:"name"`
	Labels map[string]string `json:"labels"`
	IP     string            `json:"ip"`
	Node   string            `json:"node"`
}
type jPeer struct {
	Pod    *map[string]string `json:"pod"`
	Ns     *map[string]string `json:"ns"`
	Cidr   string             `json:"cidr"`
	Except []string           `json:"except"`
}
type jRule struct {
	Ports [][]interface{} `json:"ports"` // [proto or "", port]
	Peers []jPeer         `json:"peers"`
}
type jPolicy struct {
	Ns      string            `json:"ns"`
	Name    string            `json:"name"`
	Sel     map[string]string `json:"sel"`
	Types   []string          `json:"types"`
	Ingress []jRule           `json:"ingress"`
	Egress  []jRule           `json:"egress"`
}
type jCluster struct {
	Namespaces []jNs     `json:"namespaces"`
	Pods       []jPod    `json:"pods"`
	Policies   []jPolicy `json:"policies"`
}
type jSet struct {
	Name  string          `json:"name"`
	Type  string          `json:"type"`
	Elems [][]interface{} `json:"elems"`
}
type jPrior struct {
	Filter []pmChain `json:"filter"`
	Sets   []jSet    `json:"sets"`
}
type polStep struct {
	Op     string   `json:"op"`
	Policy *jPolicy `json:"policy"`
	Pod    *jPod    `json:"pod"`
	NsObj  *jNs     `json:"nsobj"`
	Ns     string   `json:"ns"`
	Name   string   `json:"name"`
}
type polCase struct {
	Prior   jPrior    `json:"prior"`
	Cluster jCluster  `json:"cluster"`
	Steps   []polStep `json:"steps"`
}

func mkNs(n jNs) *corev1.Namespace {
	return &corev1.Namespace{ObjectMeta: metav1.ObjectMeta{Name: n.Name, Labels: n.Labels}}
}

func mkPod(p jPod) *corev1.Pod {
	return &corev1.Pod{ObjectMeta: metav1.ObjectMeta{Name: p.Name, Namespace: p.Ns, Labels: p.Labels},
		Spec: corev1.PodSpec{NodeName: p.Node}, Status: corev1.PodStatus{PodIP: p.IP}}
}

func mkRules(rs []jRule) ([]networkv1.NetworkPolicyPort, []networkv1.NetworkPolicyPeer) { return nil, nil }

func mkPorts(ps [][]interface{}) []networkv1.NetworkPolicyPort {
	var out []networkv1.NetworkPolicyPort
	for _, p := range ps {
		var npp networkv1.NetworkPolicyPort
		if s, _ := p[0].(string); s != "" {
			pr := corev1.Protocol(s)
			npp.Protocol = &pr
		}
		if len(p) > 1 && p[1] != nil {
			f, _ := p[1].(float64)
			v := intstr.FromInt(int(f))
			npp.Port = &v
		}
		out = append(out, npp)
	}
	return out
}

func mkPeers(ps []jPeer) []networkv1.NetworkPolicyPeer {
	var out []networkv1.NetworkPolicyPeer
	for _, p := range ps {
		var x networkv1.NetworkPolicyPeer
		if p.Pod != nil {
			x.PodSelector = &metav1.LabelSelector{MatchLabels: *p.Pod}
		}
		if p.Ns != nil {
			x.NamespaceSelector = &metav1.LabelSelector{MatchLabels: *p.Ns}
		}
		if p.Cidr != "" {
			x.IPBlock = &networkv1.IPBlock{CIDR: p.Cidr, Except: p.Except}
		}
		out = append(out, x)
	}
	return out
}

func mkPolicy(p jPolicy) *networkv1.NetworkPolicy {
	np := &networkv1.NetworkPolicy{ObjectMeta: metav1.ObjectMeta{Name: p.Name, Namespace: p.Ns},
		Spec: networkv1.NetworkPolicySpec{PodSelector: metav1.LabelSelector{MatchLabels: p.Sel}}}
	for _, t := range p.Types {
		np.Spec.PolicyTypes = append(np.Spec.PolicyTypes, networkv1.PolicyType(t))
	}
	for _, r := range p.Ingress {
		np.Spec.Ingress = append(np.Spec.Ingress, networkv1.NetworkPolicyIngressRule{Ports: mkPorts(r.Ports), From: mkPeers(r.Peers)})
	}
	for _, r := range p.Egress {
		np.Spec.Egress = append(np.Spec.Egress, networkv1.NetworkPolicyEgressRule{Ports: mkPorts(r.Ports), To: mkPeers(r.Peers)})
	}
	return np
}

// world is the harness-owned API state.
type world struct {
	ns   map[string]jNs
	pods map[string]jPod
	pols map[string]jPolicy
}

type manager struct {
	pm     *policy.PolicyManager
	quit   chan struct{}
	client *fake.Clientset
	polIdx cache.Indexer
}

func (w *world) objects() []runtime.Object {
	var objs []runtime.Object
	for _, n := range w.ns {
		objs = append(objs, mkNs(n))
	}
	for _, p := range w.pods {
		objs = append(objs, mkPod(p))
	}
	return objs
}

func startManager(w *world, k *nfake.Kernel) *manager {
	client := fake.NewSimpleClientset(w.objects()...)
	// informers only ever LIST: their caches are fed by the harness, which also calls the handlers itself
	client.PrependWatchReactor("*", func(action k8stesting.Action) (bool, watch.Interface, error) {
		return true, watch.NewFake(), nil
	})
	// the fake API ignores field selectors; syncPods relies on spec.nodeName when the pod informer is not running
	client.PrependReactor("list", "pods", func(action k8stesting.Action) (bool, runtime.Object, error) {
		la, ok := action.(k8stesting.ListAction)
		if !ok {
			return false, nil, nil
		}
		fs := la.GetListRestrictions().Fields
		if fs == nil || fs.Empty() {
			return false, nil, nil
		}
		obj, err := client.Tracker().List(action.GetResource(), corev1.SchemeGroupVersion.WithKind("Pod"), action.GetNamespace())
		if err != nil {
			return true, nil, err
		}
		pl := obj.(*corev1.PodList)
		out := &corev1.PodList{}
		for _, p := range pl.Items {
			if fs.Matches(fields.Set{"spec.nodeName": p.Spec.NodeName, "metadata.name": p.Name, "metadata.namespace": p.Namespace}) {
				out.Items = append(out.Items, p)
			}
		}
		return true, out, nil
	})
	m := &manager{quit: make(chan struct{}), client: client}
	m.pm = policy.NewForVerif(client, k.IPSet(), k.IPTables(), "node1", m.quit)
	m.polIdx = cache.NewIndexer(cache.MetaNamespaceKeyFunc, cache.Indexers{cache.NamespaceIndex: cache.MetaNamespaceIndexFunc})
	for _, p := range w.pols {
		_ = m.polIdx.Add(mkPolicy(p))
	}
	m.pm.VerifSetPolicyLister(networkingv1Lister.NewNetworkPolicyLister(m.polIdx))
	return m
}

func policyCase(c map[string]interface{}) map[string]interface{} {
	raw, _ := json.Marshal(c)
	var pc polCase
	if err := json.Unmarshal(raw, &pc); err != nil {
		return map[string]interface{}{"res": "harness-error", "err": err.Error()}
	}
	return ghlib.Guarded(120*time.Second, func() map[string]interface{} {
		k := nfake.NewKernel()
		for _, s := range pc.Prior.Sets {
			var es []nfake.Elem
			for _, e := range s.Elems {
				key, _ := e[0].(string)
				nm, _ := e[1].(bool)
				es = append(es, nfake.Elem{Key: key, NoMatch: nm})
			}
			k.LoadSet(s.Name, s.Type, es)
		}
		for _, ch := range pc.Prior.Filter {
			var rs []nfake.Rule
			for _, tok := range ch.Rules {
				r, err := nfake.ParseRule(tok)
				if err != nil {
					return map[string]interface{}{"res": "harness-error", "err": err.Error()}
				}
				rs = append(rs, r)
			}
			k.LoadChain("filter", ch.Name, rs)
		}
		w := &world{ns: map[string]jNs{}, pods: map[string]jPod{}, pols: map[string]jPolicy{}}
		hashes := map[string]string{}
		note := func(name, ns string) { hashes[name+"_"+ns] = policy.VerifNameHash(name + "_" + ns) }
		for _, n := range pc.Cluster.Namespaces {
			w.ns[n.Name] = n
		}
		for _, p := range pc.Cluster.Pods {
			w.pods[p.Ns+"/"+p.Name] = p
			note(p.Name, p.Ns)
		}
		for _, p := range pc.Cluster.Policies {
			w.pols[p.Ns+"/"+p.Name] = p
			note(p.Name, p.Ns)
		}
		for _, st := range pc.Steps {
			if st.Pod != nil {
				note(st.Pod.Name, st.Pod.Ns)
			}
			if st.Policy != nil {
				note(st.Policy.Name, st.Policy.Ns)
			}
		}
		var m *manager
		ctx := context.TODO()
		var steps []map[string]interface{}
		for _, st := range pc.Steps {
			o := map[string]interface{}{"op": st.Op}
			switch st.Op {
			case "start":
				if m != nil {
					close(m.quit)
				}
				m = startManager(w, k)
			case "stop":
				if m != nil {
					close(m.quit)
					m = nil
				}
			case "run":
				if m != nil {
					m.pm.Run()
				}
			case "set_policy":
				key := st.Policy.Ns + "/" + st.Policy.Name
				old, had := w.pols[key]
				w.pols[key] = *st.Policy
				if m != nil {
					np := mkPolicy(*st.Policy)
					if had {
						_ = m.polIdx.Update(np)
						_ = m.pm.UpdatePolicy(mkPolicy(old), np)
					} else {
						_ = m.polIdx.Add(np)
						_ = m.pm.AddPolicy(np)
					}
				}
			case "del_policy":
				key := st.Ns + "/" + st.Name
				old, had := w.pols[key]
				delete(w.pols, key)
				if m != nil && had {
					np := mkPolicy(old)
					_ = m.polIdx.Delete(np)
					_ = m.pm.DeletePolicy(np)
				}
			case "set_pod":
				key := st.Pod.Ns + "/" + st.Pod.Name
				old, had := w.pods[key]
				w.pods[key] = *st.Pod
				if m != nil {
					pod := mkPod(*st.Pod)
					if had {
						_, _ = m.client.CoreV1().Pods(pod.Namespace).Update(ctx, pod, metav1.UpdateOptions{})
					} else {
						_, _ = m.client.CoreV1().Pods(pod.Namespace).Create(ctx, pod, metav1.CreateOptions{})
					}
					if m.pm.VerifPodsSynced() { // the pod informer runs: cache follows, event is delivered
						if had {
							_ = m.pm.VerifPodStore().Update(pod)
							_ = m.pm.UpdatePod(mkPod(old), pod)
						} else {
							_ = m.pm.VerifPodStore().Add(pod)
							_ = m.pm.AddPod(pod)
							_ = m.pm.UpdatePod(pod, pod) // a new pod is seen as Add, then Update (status)
						}
					}
				}
			case "del_pod":
				key := st.Ns + "/" + st.Name
				old, had := w.pods[key]
				delete(w.pods, key)
				if m != nil && had {
					pod := mkPod(old)
					_ = m.client.CoreV1().Pods(pod.Namespace).Delete(ctx, pod.Name, metav1.DeleteOptions{})
					if m.pm.VerifPodsSynced() {
						_ = m.pm.VerifPodStore().Delete(pod)
						_ = m.pm.DeletePod(pod)
					}
				}
			case "set_ns":
				_, had := w.ns[st.NsObj.Name]
				w.ns[st.NsObj.Name] = *st.NsObj
				if m != nil {
					n := mkNs(*st.NsObj)
					if had {
						_, _ = m.client.CoreV1().Namespaces().Update(ctx, n, metav1.UpdateOptions{})
					} else {
						_, _ = m.client.CoreV1().Namespaces().Create(ctx, n, metav1.CreateOptions{})
					}
					if m.pm.VerifPodsSynced() {
						if had {
							_ = m.pm.VerifNamespaceStore().Update(n)
						} else {
							_ = m.pm.VerifNamespaceStore().Add(n)
						}
					}
				}
			default:
				return map[string]interface{}{"res": "harness-error", "err": "unknown op " + st.Op}
			}
			o["filter"] = k.DumpTable("filter")
			o["sets"] = k.DumpSets()
			var rej []nfake.Op
			for _, l := range k.TakeLog() {
				if !l.OK {
					rej = append(rej, l)
				}
			}
			if rej == nil {
				rej = []nfake.Op{}
			}
			o["rejected"] = rej
			o["synced"] = m != nil && m.pm.VerifPodsSynced()
			steps = append(steps, o)
		}
		if m != nil {
			close(m.quit)
		}
		var hs [][]string
		for key, h := range hashes {
			hs = append(hs, []string{key, h})
		}
		sort.Slice(hs, func(i, j int) bool { return hs[i][0] < hs[j][0] })
		_ = fmt.Sprint
		return map[string]interface{}{"res": "ok", "steps": steps, "hashes": hs}
	})
}
