// ghpol: harness command for the netfilter side (C14 port mappings, C15/C16 network policy).
package main

import (
	"os"
	"os/exec"
	"syscall"

	"verifharness/ghlib"
)

// The portmap sub-command opens real sockets; it re-executes itself in a private network namespace so that
// the port space it observes is its own (no interference between shards or with other processes).
func main() {
	if len(os.Args) >= 2 && os.Args[1] == "portmap" && os.Getenv("GHPOL_NETNS") == "" {
		cmd := exec.Command("/proc/self/exe", os.Args[1:]...)
		cmd.Stdin, cmd.Stdout, cmd.Stderr = os.Stdin, os.Stdout, os.Stderr
		cmd.Env = append(os.Environ(), "GHPOL_NETNS=1")
		cmd.SysProcAttr = &syscall.SysProcAttr{Unshareflags: syscall.CLONE_NEWNET}
		if err := cmd.Start(); err == nil {
			if err := cmd.Wait(); err != nil {
				if ee, ok := err.(*exec.ExitError); ok {
					os.Exit(ee.ExitCode())
				}
				os.Exit(1)
			}
			return
		}
		// no permission to unshare: run in place
		os.Setenv("GHPOL_NETNS", "shared")
	}
	ghlib.Main()
}
