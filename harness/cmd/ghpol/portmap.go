package main

import (
	"encoding/json"
	"fmt"
	"net"
	"os"
	"sort"
	"strings"
	"time"

	"tkestack.io/galaxy/pkg/api/k8s"
	"tkestack.io/galaxy/pkg/network/portmapping"
	"verifharness/ghlib"
	"verifharness/nfake"
)

func init() { ghlib.Subcommands["portmap"] = portmapCase }

type pmChain struct {
	Name  string     `json:"name"`
	Rules [][]string `json:"rules"`
}

type pmStep struct {
	Op     string     `json:"op"`
	Ports  []k8s.Port `json:"ports"`
	Pod    string     `json:"pod"`
	Random bool       `json:"random"`
	Proto  string     `json:"proto"`
	Port   int        `json:"port"`
	// SaveFault: the iptables-save of this step fails (the xtables lock is held by someone else)
	SaveFault bool `json:"save_fault"`
}

type pmCase struct {
	Prior []pmChain `json:"prior"`
	Steps []pmStep  `json:"steps"`
}

type hp struct {
	proto string
	port  int
}

func tryBind(proto string, port int) (func(), bool) {
	switch proto {
	case "tcp":
		l, err := net.Listen("tcp", fmt.Sprintf(":%d", port))
		if err != nil {
			return nil, false
		}
		return func() { l.Close() }, true
	case "udp":
		a, err := net.ResolveUDPAddr("udp", fmt.Sprintf(":%d", port))
		if err != nil {
			return nil, false
		}
		c, err := net.ListenUDP("udp", a)
		if err != nil {
			return nil, false
		}
		return func() { c.Close() }, true
	}
	return nil, false
}

// chainNameOf asks the REAL code for the chain name of a port: SetupPortMapping on a scratch table, then the
// target of the jump it added to KUBE-HOSTPORTS.
func chainNameOf(p k8s.Port) string {
	if p.HostPort <= 0 {
		p.HostPort = 1
	}
	k := nfake.NewKernel()
	h := portmapping.New("")
	h.Interface = k.IPTables()
	_, _ = h.EnsureChain("nat", "KUBE-HOSTPORTS")
	if err := h.SetupPortMapping([]k8s.Port{p}); err != nil {
		return ""
	}
	for _, ch := range k.DumpTable("nat") {
		if ch.Name == "KUBE-HOSTPORTS" && len(ch.Rules) == 1 {
			return ch.Rules[0].Target
		}
	}
	return ""
}

func portmapCase(c map[string]interface{}) map[string]interface{} {
	raw, _ := json.Marshal(c)
	var pc pmCase
	if err := json.Unmarshal(raw, &pc); err != nil {
		return map[string]interface{}{"res": "harness-error", "err": err.Error()}
	}
	return ghlib.Guarded(60*time.Second, func() map[string]interface{} {
		k := nfake.NewKernel()
		for _, ch := range pc.Prior {
			var rs []nfake.Rule
			for _, tok := range ch.Rules {
				r, err := nfake.ParseRule(tok)
				if err != nil {
					return map[string]interface{}{"res": "harness-error", "err": err.Error()}
				}
				rs = append(rs, r)
			}
			k.LoadChain("nat", ch.Name, rs)
		}
		h := portmapping.New("")
		h.Interface = k.IPTables()
		names := [][]interface{}{}
		namesSeen := map[string]bool{}
		for _, st := range pc.Steps {
			if st.Op == "open" {
				continue
			}
			for _, p := range st.Ports {
				key := fmt.Sprintf("%d/%s/%d/%s", p.HostPort, p.Protocol, p.ContainerPort, p.PodName)
				if !namesSeen[key] {
					namesSeen[key] = true
					names = append(names, []interface{}{p.HostPort, p.Protocol, p.ContainerPort, p.PodName, chainNameOf(p)})
				}
			}
		}
		foreign := map[hp]func(){}
		seen := map[hp]bool{}
		var steps []map[string]interface{}
		for _, st := range pc.Steps {
			o := map[string]interface{}{"op": st.Op}
			var err error
			switch st.Op {
			case "ensure_basic":
				err = h.EnsureBasicRule()
			case "setup":
				err = h.SetupPortMapping(st.Ports)
			case "clean":
				err = h.CleanPortMapping(st.Ports)
			case "setup_all":
				k.ArmSaveFault(st.SaveFault)
				err = h.SetupPortMappingForAllPods(st.Ports)
				k.ArmSaveFault(false)
			case "open":
				for _, p := range st.Ports {
					if pr := strings.ToLower(p.Protocol); p.HostPort > 0 && (pr == "tcp" || pr == "udp") {
						seen[hp{pr, int(p.HostPort)}] = true
					}
				}
				err = h.OpenHostports(st.Pod, st.Random, st.Ports)
				var got []int
				for _, p := range st.Ports {
					got = append(got, int(p.HostPort))
					if pr := strings.ToLower(p.Protocol); err == nil && p.HostPort > 0 && (pr == "tcp" || pr == "udp") {
						seen[hp{pr, int(p.HostPort)}] = true
					}
				}
				o["hostports"] = got
			case "close":
				h.CloseHostports(st.Pod)
			case "foreign_bind":
				x := hp{st.Proto, st.Port}
				seen[x] = true
				if _, ok := foreign[x]; !ok {
					if cl, ok := tryBind(st.Proto, st.Port); ok {
						foreign[x] = cl
						o["bound"] = true
					} else {
						o["bound"] = false
					}
				}
			case "foreign_release":
				x := hp{st.Proto, st.Port}
				if cl, ok := foreign[x]; ok {
					cl()
					delete(foreign, x)
				}
			default:
				return map[string]interface{}{"res": "harness-error", "err": "unknown op " + st.Op}
			}
			o["err"] = err != nil
			if err != nil && os.Getenv("GH_VERBOSE") != "" {
				o["errtext"] = err.Error()
			}
			o["nat"] = k.DumpTable("nat")
			var rej []nfake.Op
			for _, l := range k.TakeLog() {
				if !l.OK {
					rej = append(rej, l)
				}
			}
			if rej == nil {
				rej = []nfake.Op{}
			}
			o["rejected"] = rej
			// probe every port seen so far: free <=> the harness can bind it now
			var keys []hp
			for x := range seen {
				keys = append(keys, x)
			}
			sort.Slice(keys, func(i, j int) bool {
				if keys[i].proto != keys[j].proto {
					return keys[i].proto < keys[j].proto
				}
				return keys[i].port < keys[j].port
			})
			probes := [][]interface{}{}
			for _, x := range keys {
				if _, mine := foreign[x]; mine {
					probes = append(probes, []interface{}{x.proto, x.port, false})
					continue
				}
				cl, ok := tryBind(x.proto, x.port)
				if ok {
					cl()
				}
				probes = append(probes, []interface{}{x.proto, x.port, ok})
			}
			o["probes"] = probes
			steps = append(steps, o)
		}
		for _, cl := range foreign {
			cl()
		}
		// release what the handler still holds (sockets of this case must not leak into the next one)
		for _, st := range pc.Steps {
			if st.Op == "open" {
				h.CloseHostports(st.Pod)
			}
		}
		return map[string]interface{}{"res": "ok", "steps": steps, "names": names, "netns": os.Getenv("GHPOL_NETNS")}
	})
}
