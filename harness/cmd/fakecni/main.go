// fakecni: the CNI plugin binary of the C12 correspondence check.  It is what galaxy's cniutil
// really executes (found on CNI_PATH by its type name).  It appends one JSON line per invocation
// to $FAKECNI_DIR/log (environment and stdin as received) and fails on script:
// $FAKECNI_DIR/script-<cid>.json = {"fail_add":[..],"fail_del":[..]} indexed by the ordinal of the
// ADD / DEL invocation for that container since the harness last reset cnt-<cid>-<CMD>.
package main

import (
	"encoding/json"
	"fmt"
	"io/ioutil"
	"os"
	"path/filepath"
	"strings"
)

func main() {
	dir := os.Getenv("FAKECNI_DIR")
	cmd, cid, ifn := os.Getenv("CNI_COMMAND"), os.Getenv("CNI_CONTAINERID"), os.Getenv("CNI_IFNAME")
	stdin, _ := ioutil.ReadAll(os.Stdin)
	if cmd == "VERSION" {
		fmt.Print(`{"cniVersion":"0.4.0","supportedVersions":["0.1.0","0.2.0","0.3.0","0.3.1","0.4.0"]}`)
		return
	}
	// ordinal of this invocation
	cntFile := filepath.Join(dir, "cnt-"+cid+"-"+cmd)
	old, _ := ioutil.ReadFile(cntFile)
	ord := len(old)
	if f, err := os.OpenFile(cntFile, os.O_APPEND|os.O_CREATE|os.O_WRONLY, 0644); err == nil {
		f.Write([]byte{'x'})
		f.Close()
	}
	var conf map[string]interface{}
	var raw interface{} = string(stdin)
	if json.Unmarshal(stdin, &conf) == nil {
		raw = json.RawMessage(stdin)
	}
	var script struct {
		FailAdd []bool `json:"fail_add"`
		FailDel []bool `json:"fail_del"`
	}
	if b, err := ioutil.ReadFile(filepath.Join(dir, "script-"+cid+".json")); err == nil {
		_ = json.Unmarshal(b, &script)
	}
	fail := false
	if cmd == "ADD" && ord < len(script.FailAdd) {
		fail = script.FailAdd[ord]
	}
	if cmd == "DEL" && ord < len(script.FailDel) {
		fail = script.FailDel[ord]
	}
	rec := map[string]interface{}{"cmd": cmd, "cid": cid, "if": ifn, "args": os.Getenv("CNI_ARGS"),
		"netns": os.Getenv("CNI_NETNS"), "path": os.Getenv("CNI_PATH"), "stdin": raw, "ord": ord, "fail": fail}
	data, _ := json.Marshal(rec)
	if f, err := os.OpenFile(filepath.Join(dir, "log"), os.O_APPEND|os.O_CREATE|os.O_WRONLY, 0644); err == nil {
		f.Write(append(data, '\n'))
		f.Close()
	}
	if fail {
		fmt.Print(`{"cniVersion":"0.2.0","code":100,"msg":"scripted failure"}`)
		os.Exit(1)
	}
	if cmd == "ADD" {
		tag := ""
		if t, ok := conf["tag"].(string); ok {
			tag = t
		}
		origin := fmt.Sprintf("%s|%d|%s|%s", cid, ord, ifn, tag)
		ver, _ := conf["cniVersion"].(string)
		if strings.HasPrefix(ver, "0.3") || strings.HasPrefix(ver, "0.4") {
			fmt.Printf(`{"cniVersion":%q,"ips":[{"version":"4","address":"10.9.%d.2/24","gateway":"10.9.%d.1"}],"dns":{"domain":%q}}`,
				ver, ord, ord, origin)
		} else {
			fmt.Printf(`{"cniVersion":"0.2.0","ip4":{"ip":"10.9.%d.2/24","gateway":"10.9.%d.1"},"dns":{"domain":%q}}`, ord, ord, origin)
		}
	}
}
