// Package ghlib: shared main loop of the gh* commands, the Go side of the correspondence checks.  Each sub-command reads JSON lines (cases) on
// stdin, runs the REAL galaxy code on them and writes one JSON line of canonical observations
// per case on stdout.
package ghlib

import (
	"bufio"
	"encoding/json"
	"flag"
	"fmt"
	"os"
	"runtime/debug"
	"time"

	glog "k8s.io/klog"
)

// Handler runs one case on the real code and returns its canonical observation.
type Handler func(c map[string]interface{}) map[string]interface{}

// Subcommands is filled by init() functions of the command's files.
var Subcommands = map[string]Handler{}

// guarded runs f under recover and a watchdog; a hang leaves the goroutine behind (the process
// is short lived) and is reported as res=timeout.
func Guarded(timeout time.Duration, f func() map[string]interface{}) map[string]interface{} {
	ch := make(chan map[string]interface{}, 1)
	go func() {
		defer func() {
			if r := recover(); r != nil {
				ch <- map[string]interface{}{"res": "panic", "panic": fmt.Sprint(r), "stack": string(debug.Stack())}
			}
		}()
		ch <- f()
	}()
	select {
	case o := <-ch:
		return o
	case <-time.After(timeout):
		return map[string]interface{}{"res": "timeout"}
	}
}

func Main() {
	if len(os.Args) < 2 {
		fmt.Fprintln(os.Stderr, "usage: gh <sub-command> < cases.jsonl > obs.jsonl")
		os.Exit(2)
	}
	sub := os.Args[1]
	h, ok := Subcommands[sub]
	if !ok {
		fmt.Fprintf(os.Stderr, "unknown sub-command %s\n", sub)
		os.Exit(2)
	}
	// silence klog
	fs := flag.NewFlagSet("klog", flag.ContinueOnError)
	glog.InitFlags(fs)
	_ = fs.Set("logtostderr", "false")
	_ = fs.Set("alsologtostderr", "false")
	_ = fs.Set("stderrthreshold", "FATAL")
	_ = fs.Set("log_file", "/dev/null") // no log files under the temporary directory
	if os.Getenv("GH_VERBOSE") != "" {
		_ = fs.Set("logtostderr", "true")
		_ = fs.Set("v", "5")
	}
	in := bufio.NewReaderSize(os.Stdin, 1<<20)
	out := bufio.NewWriter(os.Stdout)
	defer out.Flush()
	dec := json.NewDecoder(in)
	dec.UseNumber()
	for {
		var c map[string]interface{}
		if err := dec.Decode(&c); err != nil {
			break
		}
		o := h(c)
		b, err := json.Marshal(o)
		if err != nil {
			b, _ = json.Marshal(map[string]interface{}{"res": "harness-error", "err": err.Error()})
		}
		out.Write(b)
		out.WriteByte('\n')
	}
}

func Str(c map[string]interface{}, k string) string {
	if v, ok := c[k].(string); ok {
		return v
	}
	return ""
}

func Num(c map[string]interface{}, k string) int64 {
	if v, ok := c[k].(json.Number); ok {
		n, _ := v.Int64()
		return n
	}
	return 0
}
