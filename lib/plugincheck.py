"""Shared driver of the scheduler-plugin checks (C01, C02, C03, C04, C06, C07, C10): histories of sections and
environment operations on the real FloatingIPPlugin (harness `gh plugin`) vs Model/Plugin.v, plus the property
monitors (Corr/Pluginc.v) evaluated on the implementation's own dumps."""
import copy, json
import vf, ipamgen, plugingen
from vf import cN, cbool, cstr, clist, cpair
from plugingen import IMPORTS, NODES, pod_key, cwdump, cnodes, conf_trees, conf_text

DEPS = ["Strs", "Nets", "Pool", "NetsP", "PoolP", "Ipam", "IpamP", "Keys", "KeysP", "Plugin", "CorrBase", "Ipamc", "Pluginc",
        "PluginInv", "PluginInvL", "PluginKeyFacts", "PluginIpamFacts", "PluginEnvP", "PluginUnbindP", "PluginBindP", "PluginP",
        "PluginPool", "PluginC10Spec", "PluginC10P", "PluginWitness", "PluginPolicyP", "PluginPoolP", "PluginInfo", "PluginStickyP",
        "PluginStaleP", "PluginLiveP", "PluginAnswerP", "PluginReplicasP", "PluginRoundsP"]

RULE_COMMON = ("well-formed histories of plugin sections and environment operations: regression scenarios of the repaired "
               "defects, 'old versus new incarnation' races (kind x policy x requested ranges none/same/changed/multi x provider x "
               "how the old pod ended x random interleavings of its event / resync items / API release / pod-IP sync with create / "
               "filter / bind / run of the new pod, followed by late events, resync, reload, restart) and random histories (clean "
               "faults at random call indices; one in five outside the well-formed domain, used for the correspondence only); each "
               "history runs on the REAL FloatingIPPlugin and on Model/Plugin.v, comparing result, returned nodes / IPs, allocation "
               "tables, store, pods, event queue and provider state after every step")
S = ipamgen.s2ip
POOL_A = {"nodeSubnets": ["10.1.0.0/24", "10.2.0.0/24"], "subnet": "10.100.0.0/24", "gateway": "10.100.0.1", "vlan": 2,
          "ranges": [[S("10.100.0.2"), S("10.100.0.9")]]}
POOL_B = {"nodeSubnets": ["10.3.0.0/24"], "subnet": "10.101.0.0/24", "gateway": "10.101.0.1", "vlan": 0,
          "ranges": [[S("10.101.0.2"), S("10.101.0.4")]]}


def mkpod(name, uid, kind="sts", app="web", policy=0, ranges=None, pool="", ns="ns1"):
    return {"Ns": ns, "Name": name, "Uid": uid, "Kind": kind, "App": app, "Pool": pool, "Policy": policy,
            "Ranges": ranges or [], "Phase": 0, "Node": ""}


def put(p):
    return {"op": "pod_put", "pod": p}


def inf(p):
    return {"op": "informer", "ns": p["Ns"], "name": p["Name"]}


def flt(p, nodes=("node1", "node2", "node3")):
    return {"op": "filter", "ns": p["Ns"], "name": p["Name"], "nodes": list(nodes)}


def bnd(p, node="node1", **f):
    return dict({"op": "bind", "ns": p["Ns"], "name": p["Name"], "uid": p["Uid"], "node": node}, **f)


def phase(p, ph):
    return {"op": "pod_phase", "ns": p["Ns"], "name": p["Name"], "phase": ph}


def dele(p):
    return {"op": "pod_delete", "ns": p["Ns"], "name": p["Name"]}


def interleavings(rng, a, b, k):
    """k random order-preserving merges of the op lists a and b"""
    out = []
    for _ in range(k):
        i = j = 0
        m = []
        while i < len(a) or j < len(b):
            if j >= len(b) or (i < len(a) and rng.random() < 0.5):
                m.append(a[i]); i += 1
            else:
                m.append(b[j]); j += 1
        out.append(m)
    return out


def incarnation_scenarios(rng, ctx, per_config):
    """'old versus new incarnation': pod A is bound, ends (deleted / finished / both); its events, resync items, API
    release and pod-IP sync race with create / filter / bind / run of a same-named pod B, with and without a cloud
    provider, for every policy, with unchanged and with changed requested ranges.  wf histories (Proofs/PluginInv.v)."""
    hs = []
    for kind in ("sts", "bare"):
        for policy in (0, 1, 2):
            if kind == "bare" and policy == 1:
                continue
            for rmode in ("none", "same", "changed", "multi", "grow-front"):
                for provider in (False, True):
                    # grow-front: the new incarnation asks for one more range IN FRONT of the one its key may still own
                    ra = {"none": [], "same": [["10.100.0.3~10.100.0.4"]], "changed": [["10.100.0.3"]],
                          "multi": [["10.100.0.3"], ["10.100.0.6~10.100.0.7"]], "grow-front": [["10.100.0.6~10.100.0.7"]]}[rmode]
                    rb = {"none": [], "same": ra, "changed": [["10.100.0.5~10.100.0.6"]],
                          "multi": [["10.100.0.3"], ["10.100.0.8"]], "grow-front": [["10.100.0.3"], ["10.100.0.6~10.100.0.7"]]}[rmode]
                    name = "web-0" if kind == "sts" else "solo-1"
                    A = mkpod(name, "uA", kind, "web", policy, ra)
                    B = mkpod(name, "uB", kind, "web", policy, rb)
                    pre = [{"op": "sts_set", "ns": "ns1", "name": "web", "replicas": 2}, put(A), inf(A), flt(A), bnd(A, "node1"), inf(A),
                           phase(A, 1), inf(A)]
                    for end in ("delete", "finish", "finish-delete"):
                        a_ops = []
                        if end in ("finish", "finish-delete"):
                            a_ops += [phase(A, rng.choice([2, 3])), inf(A)]
                        if end in ("delete", "finish-delete"):
                            if end == "delete" and rng.random() < 0.5:
                                # graceful deletion: the object stays for a while with a deletion timestamp - the pod is still alive
                                a_ops += [{"op": "pod_terminating", "ns": "ns1", "name": name}, inf(A), {"op": "event", "n": 0},
                                          {"op": "resync", "ip": "@a0"}, {"op": "sync_pod", "ns": "ns1", "name": name}]
                            a_ops += [dele(A)]
                        a_tail = [{"op": "event", "n": 0}, {"op": "resync", "ip": "@a0"}, {"op": "resync", "ip": "@a1"},
                                  {"op": "resync_item", "ip": "@a0"}, {"op": "resync_item", "ip": "@a1"},
                                  {"op": "api_release", "ip": "@a0", "key": "@ka0"}, {"op": "sync_pod", "ns": "ns1", "name": name},
                                  {"op": "sync_pod", "ns": "ns1", "name": name, "stale": True},
                                  {"op": "event", "n": 0}]
                        rng.shuffle(a_tail)
                        b_ops = [put(B), inf(B), flt(B), bnd(B, rng.choice(["node1", "node2"])), inf(B), phase(B, 1), inf(B)]
                        if rng.random() < 0.3:
                            # the informer lags behind the new incarnation: it is filtered and bound (or refused) and a resync item
                            # is handled before the lister has seen it
                            b_ops = [put(B), flt(B), bnd(B, "node1"), {"op": "resync", "ip": "@a0"}, {"op": "resync_item", "ip": "@a0"},
                                     inf(B), flt(B), bnd(B, "node1"), inf(B), phase(B, 1), inf(B)]
                        if end == "finish":
                            b_ops = [dele(A)] + b_ops
                        # a resync pass took its snapshot right after the old pod ended; its items are handled later
                        a_ops = a_ops + [{"op": "resync_fetch"}]
                        for m in interleavings(rng, a_tail, b_ops, per_config):
                            # contenders: other pods ask for the very addresses the new incarnation holds
                            rc = {"none": [], "same": [["10.100.0.3~10.100.0.4"]], "changed": [["10.100.0.5~10.100.0.6"]],
                                  "multi": [["10.100.0.3"]], "grow-front": [["10.100.0.3"]]}[rmode]
                            cont = []
                            for ci in range(2):
                                C = mkpod("other-%d" % ci, "uC%d" % ci, "bare", "", 0, rc)
                                cont += [put(C), inf(C), flt(C), bnd(C, "node1"), inf(C)]
                            tail = [{"op": "event", "n": 0}, {"op": "resync", "ip": "@a0"}, {"op": "resync", "ip": "@a1"},
                                    {"op": "resync_item", "ip": "@a0"}, {"op": "resync_item", "ip": "@a1"}] + cont + [
                                    {"op": "resync", "ip": "@a2"}, {"op": "reload", "conf": conf_text([POOL_A, POOL_B])}, {"op": "restart"},
                                    {"op": "resync", "ip": "@a0"}, {"op": "resync", "ip": "@a1"}, {"op": "sync_pod", "ns": "ns1", "name": name},
                                    {"op": "sync_pod", "ns": "ns1", "name": name, "stale": True}, {"op": "resync", "ip": "@a0"},
                                    {"op": "resync", "ip": "@a1"}, {"op": "resync", "ip": "@a2"}]
                            hs.append(("incarnation:%s:p%d:%s:%s:%s" % (kind, policy, rmode, "cloud" if provider else "nocloud", end),
                                       {"provider": provider, "nodes": NODES, "conf": conf_text([POOL_A, POOL_B]),
                                        "ops": pre + a_ops + m + tail}))
                            ctx.dist("scenario:incarnation")
    return hs


def fixed_scenarios():
    """regression histories of the repaired defects F1, F2, F13 and of the known findings"""
    hs = []
    A = mkpod("web-0", "uA", ranges=[["10.100.0.2"]])
    B = mkpod("web-0", "uB", ranges=[["10.100.0.5"]])
    base = [{"op": "sts_set", "ns": "ns1", "name": "web", "replicas": 1}]
    # F13: changed ranges, B bound before A's event; resync of A's stale IP must not release B's
    hs.append(("F13-mixed-uid-key", {"provider": False, "nodes": NODES, "conf": conf_text([POOL_A]), "ops": base + [
        put(A), inf(A), flt(A, ["node1"]), bnd(A), dele(A), put(B), inf(B), flt(B, ["node1"]), bnd(B), inf(B), phase(B, 1),
        {"op": "event", "n": 0}, {"op": "resync", "ip": "10.100.0.2"}, bnd(B), inf(B), {"op": "resync", "ip": "@a0"}, {"op": "resync", "ip": "@a1"}]}))
    # two pools on ONE floating-IP subnet (same subnet and gateway, disjoint ranges, different node subnets - utils.TestConfig has
    # such a pair): a pod holds an IP of the SECOND of them across a restart / a reload; the next pods must not be given it
    PA1 = {"nodeSubnets": ["10.1.0.0/24"], "subnet": "10.100.0.0/24", "gateway": "10.100.0.1", "vlan": 2, "ranges": [[S("10.100.0.2"), S("10.100.0.3")]]}
    PA2 = {"nodeSubnets": ["10.2.0.0/24"], "subnet": "10.100.0.0/24", "gateway": "10.100.0.1", "vlan": 2, "ranges": [[S("10.100.0.6"), S("10.100.0.7")]]}
    for how in ("restart", "reload"):
        for ranges in ([["10.100.0.6"]], []):
            T = mkpod("web-0", "uT", policy=2, ranges=ranges)
            U, V = mkpod("web-1", "uU"), mkpod("web-2", "uV")
            again = {"op": "restart"} if how == "restart" else {"op": "reload", "conf": conf_text([PA2, PA1])}
            hs.append(("two-pools-one-subnet-%s-%d" % (how, len(ranges)), {"provider": False, "nodes": NODES, "conf": conf_text([PA1, PA2]), "ops": [
                {"op": "sts_set", "ns": "ns1", "name": "web", "replicas": 3}, put(T), inf(T), flt(T, ["node2"]), bnd(T, "node2"), inf(T), phase(T, 1),
                inf(T), again, {"op": "resync", "ip": "@a0"}, put(U), inf(U), flt(U, ["node2"]), bnd(U, "node2"), inf(U), put(V), inf(V),
                flt(V, ["node2"]), bnd(V, "node2"), inf(V), {"op": "resync", "ip": "@a0"}, {"op": "resync", "ip": "@a1"}]}))
            # ... and a RESERVED address of the second pool (its pod is gone, policy never) across the same restart / reload: the
            # identity's next incarnation is bound with it
            T1, T2 = mkpod("web-0", "uT1", policy=2, ranges=ranges), mkpod("web-0", "uT2", policy=2, ranges=ranges)
            hs.append(("two-pools-one-subnet-reserved-%s-%d" % (how, len(ranges)), {"provider": False, "nodes": NODES, "conf": conf_text([PA1, PA2]), "ops": [
                {"op": "sts_set", "ns": "ns1", "name": "web", "replicas": 3}, put(T1), inf(T1), flt(T1, ["node2"]), bnd(T1, "node2"), inf(T1), phase(T1, 1),
                inf(T1), dele(T1), inf(T1), {"op": "event", "n": 0}, again, {"op": "resync", "ip": "@a0"}, put(T2), inf(T2), flt(T2, ["node2"]),
                bnd(T2, "@approved:0"), inf(T2)]}))
    # a pool annotation that contains '_' (K4: such a key does not parse back to its pod - resync passes it by): the pod keeps
    # its IP through resync passes for as long as it lives, and the next pods are given other IPs
    for pol in (0, 2):
        W = mkpod("api-7f9c6d-w1", "uW%d" % pol, "dp", "api", pol, pool="team_a")
        X, Y = mkpod("web-1", "uX%d" % pol), mkpod("web-2", "uY%d" % pol)
        hs.append(("pool-name-with-underscore-p%d" % pol, {"provider": False, "nodes": NODES, "conf": conf_text([PA1, PA2]), "ops": [
            {"op": "sts_set", "ns": "ns1", "name": "web", "replicas": 3}, {"op": "dp_set", "ns": "ns1", "name": "api", "replicas": 2},
            put(W), inf(W), flt(W, ["node1"]), bnd(W, "node1"), inf(W), phase(W, 1), inf(W),
            {"op": "resync", "ip": "@a0"}, {"op": "resync_fetch"}, {"op": "resync_item", "ip": "@a0"},
            put(X), inf(X), flt(X, ["node1"]), bnd(X, "node1"), inf(X), put(Y), inf(Y), flt(Y, ["node1"]), bnd(Y, "node1"), inf(Y),
            {"op": "resync", "ip": "@a0"}, {"op": "resync", "ip": "@a1"}]}))
    # the first attempt of a release event fails (the provider's UnAssignIP) and the event loop queues it again; meanwhile the
    # pod's replacement of the same name is known to the informer, a resync pass deals with the old IP and the replacement is
    # bound; then the retried event is handled: it is still the OLD pod's event
    for policy in (0, 2):
        A2, B2 = mkpod("web-0", "uA", policy=policy), mkpod("web-0", "uB", policy=policy)
        hs.append(("retried-event-after-replacement-p%d" % policy, {"provider": True, "nodes": NODES, "conf": conf_text([POOL_A]), "ops": base + [
            put(A2), inf(A2), flt(A2, ["node1"]), bnd(A2), inf(A2), phase(A2, 1), inf(A2), dele(A2), put(B2), inf(B2),
            dict({"op": "event_loop", "n": 0}, fcloud=0), {"op": "resync", "ip": "@a0"}, flt(B2, ["node2"]), bnd(B2, "node2"), inf(B2),
            phase(B2, 1), inf(B2), {"op": "event", "n": 0}, {"op": "event", "n": 0}, {"op": "resync", "ip": "@a0"}]}))
    # F1: late delete event of A after B is bound (same ranges / no ranges), all policies, with provider
    for policy in (0, 1, 2):
        A1, B1 = mkpod("web-0", "uA", policy=policy), mkpod("web-0", "uB", policy=policy)
        hs.append(("F1-late-event-p%d" % policy, {"provider": True, "nodes": NODES, "conf": conf_text([POOL_A]), "ops": base + [
            put(A1), inf(A1), flt(A1, ["node1"]), bnd(A1), phase(A1, 2), inf(A1), {"op": "event", "n": 0}, dele(A1), put(B1), inf(B1),
            flt(B1, ["node2"]), bnd(B1, "node2"), inf(B1), phase(B1, 1), {"op": "event", "n": 0}, {"op": "event", "n": 0},
            {"op": "resync", "ip": "@a0"}]}))
    # a provider call fails cleanly during Bind and the scheduler retries: on the same node, on another node
    for k, ranges in ((0, []), (0, [["10.100.0.3"]]), (1, [["10.100.0.3"], ["10.100.0.6~10.100.0.7"]])):
        R = mkpod("web-0", "uR", policy=1, ranges=ranges)
        hs.append(("assign-fails-then-retry-%d-%d" % (k, len(ranges)), {"provider": True, "nodes": NODES, "conf": conf_text([POOL_A]), "ops": base + [
            put(R), inf(R), flt(R, ["node1", "node2"]), dict(bnd(R, "node1"), fcloud=k), bnd(R, "node1"), inf(R), phase(R, 1), inf(R),
            {"op": "resync", "ip": "@a0"}, dele(R), inf(R), dict({"op": "event", "n": 0}, fcloud=0), {"op": "event", "n": 0},
            {"op": "resync", "ip": "@a0"}]}))
    # the pods/binding call fails after the IPs were stored; the scheduler binds the SAME incarnation again (same node, other node)
    for ri, ranges in enumerate(([], [["10.100.0.3"]], [["10.100.0.3"], ["10.100.0.6~10.100.0.7"]])):
        for policy in (0, 1):
            Q = mkpod("web-0", "uQ", policy=policy, ranges=ranges)
            hs.append(("binding-fails-then-retry-%d-p%d" % (ri, policy), {"provider": False, "nodes": NODES, "conf": conf_text([POOL_A]), "ops": base + [
                put(Q), inf(Q), flt(Q, ["node1", "node2"]), dict(bnd(Q, "node1"), fbind=1), bnd(Q, "node1"), inf(Q), bnd(Q, "node1"),
                phase(Q, 1), inf(Q), {"op": "resync", "ip": "@a0"}]}))
    # a pod in graceful termination (deletion timestamp set, object still there) keeps its IP: events, resync, API release, a
    # contender asking for the very address
    for policy in (0, 1):
        T = mkpod("web-0", "uT", policy=policy, ranges=[["10.100.0.3"]])
        C1 = mkpod("other-0", "uO", "bare", "", 0, [["10.100.0.3"]])
        hs.append(("terminating-pod-keeps-its-ip-p%d" % policy, {"provider": policy == 1, "nodes": NODES, "conf": conf_text([POOL_A]), "ops": base + [
            put(T), inf(T), flt(T, ["node1"]), bnd(T), inf(T), phase(T, 1), inf(T), {"op": "pod_terminating", "ns": "ns1", "name": "web-0"}, inf(T),
            {"op": "event", "n": 0}, {"op": "resync", "ip": "@a0"}, {"op": "api_release", "ip": "@a0", "key": "@ka0"},
            put(C1), inf(C1), flt(C1, ["node1"]), bnd(C1, "node1"), dele(T), inf(T), {"op": "event", "n": 0}]}))
    # a pod created from the manifest of a running floating-IP pod: its arguments annotation already holds ipinfos
    W0 = mkpod("web-0", "uW0", ranges=[["10.100.0.3"]])
    W1 = dict(mkpod("web-1", "uW1"), PreIps=["10.100.0.3"])
    W2 = dict(mkpod("web-2", "uW2", ranges=[["10.100.0.6~10.100.0.7"]]), PreIps=["10.100.0.3", "10.100.0.4"])
    hs.append(("copied-manifest-with-ipinfos", {"provider": False, "nodes": NODES, "conf": conf_text([POOL_A]), "ops": [
        {"op": "sts_set", "ns": "ns1", "name": "web", "replicas": 3}, put(W0), inf(W0), flt(W0, ["node1"]), bnd(W0), inf(W0), phase(W0, 1), inf(W0),
        put(W1), inf(W1), flt(W1, ["node1"]), bnd(W1, "node1"), inf(W1), phase(W1, 1), inf(W1),
        put(W2), inf(W2), flt(W2, ["node1"]), bnd(W2, "node1"), inf(W2), {"op": "resync", "ip": "@a0"}, {"op": "sync_pod", "ns": "ns1", "name": "web-1"}]}))
    # F2: stale informer while B is bound
    A2, B2 = mkpod("web-0", "uA"), mkpod("web-0", "uB")
    hs.append(("F2-stale-lister-bind", {"provider": False, "nodes": NODES, "conf": conf_text([POOL_A]), "ops": base + [
        put(A2), inf(A2), flt(A2, ["node1"]), bnd(A2), dele(A2), put(B2), flt(B2, ["node1"]), bnd(B2), inf(B2), bnd(B2),
        {"op": "event", "n": 0}, bnd(B2), inf(B2), phase(B2, 1), {"op": "resync", "ip": "@a0"}]}))
    # F16: the pod-IP sync reaches the pod name with the object of the EARLIER incarnation (listed before it was deleted)
    A4, B4 = mkpod("web-0", "uA", ranges=[["10.100.0.3"]]), mkpod("web-0", "uB", ranges=[["10.100.0.5"]])
    for policy in (0, 1):
        A4, B4 = dict(A4, Policy=policy), dict(B4, Policy=policy)
        hs.append(("F16-stale-pod-ip-sync-p%d" % policy, {"provider": policy == 1, "nodes": NODES, "conf": conf_text([POOL_A]), "ops": base + [
            put(A4), inf(A4), flt(A4, ["node1"]), bnd(A4), inf(A4), phase(A4, 1), inf(A4), dele(A4), inf(A4), {"op": "event", "n": 0},
            {"op": "sync_pod", "ns": "ns1", "name": "web-0", "stale": True}, {"op": "resync", "ip": "10.100.0.3"},
            put(B4), inf(B4), flt(B4, ["node1"]), bnd(B4), inf(B4), phase(B4, 1), inf(B4),
            {"op": "sync_pod", "ns": "ns1", "name": "web-0", "stale": True}, {"op": "resync", "ip": "10.100.0.3"},
            {"op": "resync", "ip": "10.100.0.5"}, {"op": "sync_pod", "ns": "ns1", "name": "web-0"}]}))
    # F18: deployment pods with immutable policy; the name of a deleted pod is used again; the new pod is handed the reserved IP
    # at Filter time; the pod-IP sync arrives with the OLD object; then the resync item of the old IP
    DA = mkpod("dp-7f9c6d-aaa", "uA", "dp", "dp", 1)
    DC = mkpod("dp-7f9c6d-bbb", "uC", "dp", "dp", 1)
    DB = mkpod("dp-7f9c6d-aaa", "uB", "dp", "dp", 1)
    hs.append(("F18-mixed-uid-key", {"provider": False, "nodes": NODES, "conf": conf_text([POOL_A]), "ops": [
        {"op": "dp_set", "ns": "ns1", "name": "dp", "replicas": 2}, put(DA), put(DC), inf(DA), inf(DC), flt(DA, ["node1"]), bnd(DA),
        flt(DC, ["node1"]), bnd(DC), inf(DA), phase(DA, 1), inf(DA), dele(DC), inf(DC), {"op": "event", "n": 0},
        {"op": "dp_set", "ns": "ns1", "name": "dp", "replicas": 1}, dele(DA), inf(DA), {"op": "event", "n": 0},
        put(DB), flt(DB, ["node1"]), {"op": "sync_pod", "ns": "ns1", "name": "dp-7f9c6d-aaa", "stale": True},
        {"op": "resync", "ip": "@a0"}, {"op": "resync", "ip": "@a1"}, inf(DB), bnd(DB, "node1")]}))
    # the same with a resync pass before the informer has caught up (a Bind that went through on the API pod alone would
    # now lose its IP: the lister still shows the old incarnation)
    A3, B3 = mkpod("web-0", "uA"), mkpod("web-0", "uB")
    hs.append(("F2-stale-lister-bind-resync", {"provider": False, "nodes": NODES, "conf": conf_text([POOL_A]), "ops": base + [
        put(A3), inf(A3), flt(A3, ["node1"]), bnd(A3), inf(A3), phase(A3, 2), inf(A3), dele(A3), put(B3), flt(B3, ["node1"]), bnd(B3),
        {"op": "resync", "ip": "@a0"}, {"op": "event", "n": 0}, {"op": "resync", "ip": "@a0"}, bnd(B3), {"op": "resync", "ip": "@a0"},
        inf(B3), bnd(B3), phase(B3, 1), inf(B3), {"op": "resync", "ip": "@a0"}]}))
    # a provider call fails while a pod with several IPs is unbound, every policy: nothing may be released or reserved
    for policy in (0, 1, 2):
        for k in (0, 1):
            U = mkpod("web-0", "uU", policy=policy, ranges=[["10.100.0.3"], ["10.100.0.6~10.100.0.7"]])
            hs.append(("unassign-fails-p%d-%d" % (policy, k), {"provider": True, "nodes": NODES, "conf": conf_text([POOL_A]), "ops": base + [
                put(U), inf(U), flt(U, ["node1"]), bnd(U, "node1"), inf(U), phase(U, 1), inf(U), dele(U), inf(U),
                dict({"op": "event", "n": 0}, fcloud=k), dict({"op": "resync", "ip": "@a%d" % k}, fcloud=k),
                {"op": "event", "n": 0}, {"op": "resync", "ip": "@a0"}, {"op": "resync", "ip": "@a1"}]}))
    return hs


def live_kept(h, o, nwf, label):
    """an event / resync step never releases or re-keys the IP of a pod that is alive at the API server under the stored
    UID (resync.go podRunning double-checks with the API server; event handlers compare the UID)"""
    out = []
    byuid = {s["Uid"]: s for s in plugingen.all_specs(h)}
    steps = (o.get("steps") or [])[:nwf]
    prev = None
    for si, (op, st) in enumerate(zip(h["ops"], steps)):
        d = st.get("dump")
        if d is None:
            break
        if prev is not None and op["op"] in ("event", "resync", "resync_item"):
            alive = {(p[0], p[1], p[2]) for p in prev["pods"] if p[3] not in (2, 3)}
            after = {e[0]: e for e in d["alloc"]}
            for e in prev["alloc"]:
                sp = byuid.get(e[4]) if e[4] else None
                if sp is None or pod_key(sp) != e[1] or (sp["Ns"], sp["Name"], sp["Uid"]) not in alive:
                    continue
                if e[0] not in after or after[e[0]][1] != e[1]:
                    out.append(("false", si, label, []))
        prev = d
    return out


def keys_term(hist):
    return clist(cpair(cstr(s["Uid"]), cstr(pod_key(s))) for s in plugingen.all_specs(hist))


def wf_prefix(hist, obs):
    """number of leading steps that lie inside the histories the L2 theorems quantify over (wf_op of
    Proofs/PluginInv.v, decided on the OBSERVED run): non-empty bind uid, monotone phases, fresh uids, no admin ops"""
    n = 0
    finished, seen_uids = set(), set()
    steps = obs.get("steps") or []
    for op, st in zip(hist["ops"], steps):
        k = op["op"]
        if k == "bind" and st.get("uid", "x") == "":
            break
        if k == "pod_put":
            u = op["pod"]["Uid"]
            if u in seen_uids or not u or op["pod"].get("PreIps"):
                break              # (wf_env: a created pod carries no ipinfos yet)
            seen_uids.add(u)
        d = st.get("dump")
        if not d:
            break
        bad = False
        for p in d["pods"]:
            key = (p[0], p[1], p[2])
            if key in finished and p[3] not in (2, 3):
                bad = True
            if p[3] in (2, 3):
                finished.add(key)
        if bad:
            break
        n += 1
    return n


def run(ctx, focus, theorems, refuted, monitors, nrandom=(150, 1500), per_config=(1, 4), extra_scenarios=(), wf_only=False,
        gen_kw=None, ext=False, incarnations=True, fixed=True, all_steps=False, module=None):
    """monitors(hist, obs, nwf, keys) -> list of (coq bool expr, step index, kind, tags)"""
    ctx.cov["trusted_base"] = vf.TRUSTED_COMMON + [
        "harness fakes: client-go fake clientsets as the API server (pods/binding: NotFound if the pod is gone, conflict on another "
        "UID or an already assigned pod; FloatingIP reads with resourceVersion 0 answered from a watch cache one step behind), harness-owned listers as the informer caches (updated only by explicit informer steps, so "
        "every lag is explored), recording cloud provider with scripted clean failures, verif-tag hooks for unbind / one resync "
        "item / pod-IP sync / event queue / reload (repo commit fe2ed3a)",
        "section atomicity (DESIGN.md section 5): one history item = one region under the pod lock; interleavings of real "
        "goroutines inside a section are not explored by this check",
        "Go map iteration order enters the model as an oracle taken from the observed store / provider calls; the model validates it"]
    ctx.assumptions += [
        "histories are those of Proofs/PluginInv.v wf_op: fresh non-empty pod UIDs, '_'-free names, finished pods stay finished, the "
        "scheduler sends the pod UID with bind, reloads keep the IPs of live pods and their deletions succeed, no administrator "
        "reservations (crdIpam-level, C09)"]
    if theorems or refuted:
        ctx.theorems(module or focus, theorems, refuted, deps=DEPS + [module or focus])
    rng = ctx.rng
    hists, labels = [], []
    for name, h in (fixed_scenarios() if fixed else []) + list(extra_scenarios):
        hists.append(h); labels.append("scenario:" + name); ctx.dist("scenario:fixed")
    for name, h in (incarnation_scenarios(rng, ctx, per_config[0] if ctx.quick else per_config[1]) if incarnations else []):
        hists.append(h); labels.append(name)
    n = nrandom[0] if ctx.quick else nrandom[1]
    for i in range(n):
        wf = wf_only or i % 5 != 0
        hists.append(plugingen.gen_history(rng, ctx, wf=wf, **(gen_kw or {})))
        labels.append("random-wf" if wf else "random-any")
        ctx.dist("history:" + labels[-1])
    obs = ctx.harness("plugin", hists, shards=16)
    if obs is None:
        return
    corr, mons, monmeta = [], [], []
    for hi, (h, o) in enumerate(zip(hists, obs)):
        ctx.count({"ops": h["ops"], "provider": h["provider"]})
        if o is None or o.get("res") != "ok":
            ctx.violation("correspondence", "the harness failed on a history: %s" % str(o)[:300], {"history": h}, found=False,
                          theorem="plugin harness")
            continue
        for st in o.get("steps") or []:
            if st.get("res") in ("panic", "timeout"):
                ctx.violation("monitor", "the plugin %s during a section" % st.get("res"), {"history": h, "step": {k: v for k, v in st.items() if k != "dump"}},
                              found=True)
        o["_allspecs"] = plugingen.all_specs(h)
        term, nsteps, trunc, meta = plugingen.translate(h, o, ext=ext)
        if trunc:
            ctx.dist("history-truncated:" + trunc)
        ctx.dist("modelled-steps", nsteps)
        corr.append("(%s %s %s %s %s)" % ({3: "chk_phist3", True: "chk_phist2", False: "chk_phist"}[ext], cbool(h["provider"]), cnodes(h["nodes"]),
                                          conf_trees(h["conf"]), term))
        # (all_steps: the monitors state the property itself, not a theorem over wf histories - evaluate them on every step)
        nwf = len(o.get("steps") or []) if all_steps else wf_prefix(h, o)
        for e, si, kind, tags in monitors(h, o, nwf, keys_term(h)):
            mons.append(e); monmeta.append((hi, si, kind, tags))
        if len(ctx.cov["samples"]) < 3 and labels[hi].startswith("random"):
            ctx.sample({"history_head": h["ops"][:6], "observed_head": [{k: v for k, v in s.items() if k != "dump"} for s in (o.get("steps") or [])[:3]]})
    ctx.cov["traces_validated_against_impl"] = len(corr)
    rc = ctx.coq_bools("pcorr", IMPORTS, corr, shard=12)
    rm = ctx.coq_bools("pmon", IMPORTS, mons, shard=120) if mons else []
    if rc is None or rm is None:
        ctx.violation("correspondence", "the Coq evaluation of the plugin histories failed", {}, found=False,
                      theorem="plugin correspondence (Corr/Pluginc.v chk_phist)")
        return
    ctx.cov["monitor_evaluations"] = len(mons)
    seen = set()
    bad = [k for k, b in enumerate(rm) if not b]
    nbad = len(bad)
    # failures that carry no known-finding tag first: the report is capped and a recorded finding must never crowd out a new one
    bad.sort(key=lambda k: (1 if monmeta[k][3] else 0, k))
    ntagged = 0
    for k in bad:
        hi, si, kind, tags = monmeta[k]
        if (hi, kind) in seen:
            continue
        if tags:
            ntagged += 1
            if ntagged > 4:
                continue
        elif len(seen) - min(ntagged, 4) >= 12:
            continue
        seen.add((hi, kind))
        st = obs[hi]["steps"]
        ctx.violation("monitor", "%s: predicate '%s' is false on the implementation's state after step %d (%s) [%s]" % (
            focus, kind, si, hists[hi]["ops"][si]["op"], labels[hi]),
            {"history": {"provider": hists[hi]["provider"], "nodes": hists[hi]["nodes"], "conf": hists[hi]["conf"], "ops": hists[hi]["ops"][:si + 1]},
             "failing_step": si, "observed_last_steps": st[max(0, si - 1):si + 1], "how": "bin/check %s --replay <this file>" % focus},
            found=True, tags=tags)
    ctx.cov["monitor_failures"] = nbad
    bad_c = [k for k, b in enumerate(rc) if not b]
    ctx.cov["disagreements"] = len(bad_c)
    if bad_c:
        ex = []
        for k in bad_c[:3]:
            h, o = hists[k], obs[k]
            term, _, _, _ = plugingen.translate(h, o, ext=ext)
            where = ctx.coq_print("dbg", IMPORTS, "%s (world_init %s %s %s) 0 %s" % ({3: "preplay3", True: "preplay2", False: "preplay"}[ext],
                cbool(h["provider"]), cnodes(h["nodes"]), conf_trees(h["conf"]), term))
            ex.append({"history": h, "label": labels[k], "first_disagreeing_modelled_step": where[-80:],
                       "observed": [{kk: vv for kk, vv in s.items() if kk != "dump"} for s in o["steps"]]})
        ctx.violation("correspondence", "plugin model and implementation disagree on %d histories" % len(bad_c),
                      {"disagreements": ex, "theorems_no_longer_about_the_code": theorems}, found=False,
                      theorem="plugin correspondence (Corr/Pluginc.v chk_phist over Model/Plugin.v pstep)")


def replay(ctx, path):
    r = json.load(open(path))
    rp = r["replay"]
    hs = [rp["history"]] if "history" in rp else [d["history"] for d in rp.get("disagreements", [])]
    obs = ctx.harness("plugin", hs)
    for h, o in zip(hs, obs):
        for op, st in zip(h["ops"], o.get("steps") or []):
            d = st.get("dump") or {}
            print(json.dumps({"op": op, "res": st.get("res"), "err": st.get("err"), "alloc": d.get("alloc"), "pods": d.get("pods"),
                              "queue": d.get("queue"), "cloud": d.get("cloud")})[:1500])


# ------------------------------------------------------------------ monitors per property
def mon_c01(h, o, nwf, keys):
    out = []
    for si, st in enumerate((o.get("steps") or [])[:nwf]):
        if "dump" in st:
            out.append(("(mon_one_owner %s)" % cwdump(st["dump"]), si, "one_owner/live_pods_disjoint", []))
    return out + live_kept(h, o, nwf, "live_pod_keeps_ip_across_resync")


def mon_c04(h, o, nwf, keys):
    out = []
    for si, st in enumerate((o.get("steps") or [])[:nwf]):
        if "dump" in st:
            out.append(("(mon_owned %s %s)" % (keys, cwdump(st["dump"])), si, "live_bound_owned", []))
    return out + live_kept(h, o, nwf, "live_pod_keeps_ip_across_resync")


def cloud_log(steps, upto):
    """successful provider calls (assign?, ip, node) of the first upto+1 steps, in order"""
    log = []
    for st in steps[:upto + 1]:
        for c in st.get("cloudcalls") or []:
            if c[3]:
                log.append("(%s, %s, %s)" % (cbool(c[0]), cN(ipamgen.s2ip(c[1])), cstr(c[2])))
    return clist(log)


K3_TAG = "c10-bind-on-other-node-while-assigned"


def mon_c10(h, o, nwf, keys):
    """C10 monitors on the implementation's provider log and dumps.  Shapes of the two recorded findings are computed from
    the failing step itself: K3 = a bind on node n while an IP of the pod's key is still assigned to another node at the
    provider.  Once such a step has happened the provider holds a stale assignment, so later failures of the same history
    carry the tag as well.  (K3b - resync item / API release of a key holding several IPs - is repaired: 5359786.)"""
    out = []
    if not h["provider"]:
        return out
    steps = (o.get("steps") or [])[:nwf]
    prev = None
    tags = []
    specs = {(s["Ns"], s["Name"], s["Uid"]): s for s in plugingen.all_specs(h)}
    for si, (op, st) in enumerate(zip(h["ops"], steps)):
        if "dump" not in st:
            break
        d = st["dump"]
        k = op["op"]
        if k == "bind" and any(c[2] for c in st.get("calls") or []):
            break                     # a store call failing inside Bind is outside C10's fault quantifier (provider calls only)
        if prev is not None:
            cloud = {c[0]: c[1] for c in prev["cloud"]}
            if k == "bind":
                lp = [p for p in prev["lister"] if p[0] == op["ns"] and p[1] == op["name"]]
                sp = specs.get((op["ns"], op["name"], lp[0][2])) if lp else None
                if sp and any(e[1] == pod_key(sp) and cloud.get(e[0], op["node"]) != op["node"] for e in prev["alloc"]):
                    tags = sorted(set(tags + [K3_TAG]))
        out.append(("(mon_cloud_live %s)" % cwdump(d), si, "cloud_live", list(tags)))
        if prev is not None:
            out.append(("(mon_freed_unassigned %s %s)" % (cwdump(prev), cwdump(d)), si, "freed_unassigned", list(tags)))
        out.append(("(log_ok [] %s)" % cloud_log(steps, si), si, "assign_wellordered", list(tags)))
        al = {e[0]: e for e in d["alloc"]}
        out.append((lit(all(c[0] in al and al[c[0]][3] == c[1] and c[1] != "" for c in d["cloud"])), si, "cloud_alloc", list(tags)))
        prev = d
    return out


# ------------------------------------------------------------------ C07
K2_TAG = "c07-bind-allocates-without-cap"


def pool_scenarios(rng, ctx, n):
    """deployments sharing the sized pool p1: pods filtered before earlier ones are bound, Pool object created / resized /
    removed in between (informer view and API requests with pre-allocation), the K2 shape (pod filtered while no Pool object
    is visible, Pool created, bind)"""
    hs = []
    conf = conf_text([POOL_A, POOL_B])
    for i in range(n):
        ops = []
        ndp = rng.choice([1, 2, 3])
        apps = ["job", "api", "web"][:ndp]
        for a in apps:
            ops.append({"op": "dp_set", "ns": "ns1", "name": a, "replicas": rng.choice([1, 2, 3])})
        size = rng.choice([0, 1, 2, 3, 4])
        start_with_pool = rng.random() < 0.7
        if start_with_pool:
            ops.append({"op": "pool_set", "name": "p1", "size": size})
        pods = []
        uid = 0
        pending = []
        for step in range(rng.choice([6, 9, 12])):
            r = rng.random()
            if r < 0.4:
                uid += 1
                a = rng.choice(apps)
                p = mkpod("%s-7f9c6d-z%d" % (a, uid), "v%d" % uid, "dp", a, 0, pool="p1")
                pods.append(p)
                ops += [put(p), inf(p)]
                if rng.random() < 0.25:
                    # a store call of the hand-over of a reserved IP (or of the allocation) fails once; the scheduler filters again
                    ops.append(dict(flt(p), fstore=rng.choice([0, 1])))
                ops.append(flt(p))
                pending.append(p)
            elif r < 0.65 and pending:
                p = pending.pop(0 if rng.random() < 0.6 else -1)
                ops.append(bnd(p, rng.choice(["node1", "node2"])))
            elif r < 0.8:
                size = rng.choice([0, 1, 2, 3, 4])
                ops.append({"op": "api_pool", "name": "p1", "size": size, "prealloc": rng.random() < 0.7})
                if rng.random() < 0.8:
                    ops.append({"op": "pool_set", "name": "p1", "size": size})
            elif r < 0.9:
                ops.append({"op": "pool_set", "name": "p1", "size": rng.choice([None, 0, 1, 2, 3])})
            elif pods:
                p = rng.choice(pods)
                ops += [dele(p), inf(p), {"op": "event", "n": 0}]
        for p in pending:
            ops.append(bnd(p, "node1"))
        hs.append(("pool:%d" % i, {"provider": False, "nodes": NODES, "conf": conf, "ops": ops}))
        ctx.dist("scenario:pool")
    # a pool request with pre-allocation racing with the Filter of a pod of that pool (both hold the pool mutex)
    for size in (1, 2, 3):
        for held in (0, 1):
            q = mkpod("job-7f9c6d-race", "race%d%d" % (size, held), "dp", "job", 0, pool="p1")
            ops = [{"op": "dp_set", "ns": "ns1", "name": "job", "replicas": 3}, {"op": "pool_set", "name": "p1", "size": size}]
            if held:
                q0 = mkpod("job-7f9c6d-first", "first%d" % size, "dp", "job", 0, pool="p1")
                ops += [put(q0), inf(q0), flt(q0), bnd(q0, "node1")]
            ops += [put(q), inf(q), {"op": "pool_race", "name": "p1", "size": size, "ns": "ns1", "pod": q["Name"], "nodes": ["node1", "node2", "node3"]},
                    bnd(q, "node1")]
            hs.append(("pool-request-races-filter:%d:%d" % (size, held), {"provider": False, "nodes": NODES, "conf": conf, "ops": ops}))
    # a full, pre-allocated pool: the hand-over of a reserved IP fails once during Filter (every store call index), then retries
    for size in (1, 2):
        for k in (0, 1, 2):
            f1 = mkpod("job-7f9c6d-full", "full%d%d" % (size, k), "dp", "job", 0, pool="p1")
            f2 = mkpod("api-7f9c6d-full", "fullb%d%d" % (size, k), "dp", "api", 0, pool="p1")
            hs.append(("full-pool-handover-fault:%d:%d" % (size, k), {"provider": False, "nodes": NODES, "conf": conf, "ops": [
                {"op": "dp_set", "ns": "ns1", "name": "job", "replicas": 3}, {"op": "dp_set", "ns": "ns1", "name": "api", "replicas": 3},
                {"op": "api_pool", "name": "p1", "size": size, "prealloc": True}, {"op": "pool_set", "name": "p1", "size": size},
                put(f1), inf(f1), dict(flt(f1), fstore=k), flt(f1), put(f2), inf(f2), flt(f2), bnd(f1, "node1"), bnd(f2, "node1")]}))
    # two Filter requests for pods of DIFFERENT deployments sharing the sized pool, the first stopped between counting and
    # allocating: the pool is one below its size (or has room for both)
    for size in (1, 2, 3):
        for held in (0, 1, 2):
            if held > size:
                continue
            ops = [{"op": "dp_set", "ns": "ns1", "name": "job", "replicas": 3}, {"op": "dp_set", "ns": "ns1", "name": "api", "replicas": 3},
                   {"op": "pool_set", "name": "p1", "size": size}]
            for j in range(held):
                q0 = mkpod("job-7f9c6d-h%d" % j, "h%d%d%d" % (size, held, j), "dp", "job", 0, pool="p1")
                ops += [put(q0), inf(q0), flt(q0), bnd(q0, "node1")]
            qa = mkpod("job-7f9c6d-ra", "ra%d%d" % (size, held), "dp", "job", 0, pool="p1")
            qb = mkpod("api-7f9c6d-rb", "rb%d%d" % (size, held), "dp", "api", 0, pool="p1")
            ops += [put(qa), inf(qa), put(qb), inf(qb),
                    {"op": "filter_race", "ns": "ns1", "pods": [qa["Name"], qb["Name"]], "nodes": ["node1", "node2", "node3"]},
                    bnd(qa, "node1"), bnd(qb, "node1")]
            hs.append(("two-filters-race-for-the-pool:%d:%d" % (size, held), {"provider": False, "nodes": NODES, "conf": conf, "ops": ops}))
    # two writers of one Pool object: a second POST /v1/pool (or kubectl / another replica writing the object) gets in right after
    # (right before) the first request's Create / Update - while that request has not pre-allocated yet.  The request is ONE
    # section under the pool mutex (K8, repaired), so a second request can only run afterwards
    for at in ("create", "update"):
        for kind in ("request", "object"):
            for big, small, pre2 in ((5, 1, False), (3, 2, True), (2, 4, True), (4, 0, False)):
                ops = [{"op": "dp_set", "ns": "ns1", "name": "job", "replicas": 3}]
                if at == "update":
                    ops += [{"op": "api_pool", "name": "p1", "size": 1, "prealloc": False}]
                ops += [{"op": "api_pool", "name": "p1", "size": big, "prealloc": True,
                         "meanwhile": dict({"kind": kind, "at": at, "size": small}, **({"prealloc": pre2} if kind == "request" else {}))}]
                q = mkpod("job-7f9c6d-w", "w%s%s%d" % (at[0], kind[0], big), "dp", "job", 0, pool="p1")
                ops += [{"op": "pool_set", "name": "p1", "size": small}, put(q), inf(q), flt(q), bnd(q, "node1")]
                hs.append(("two-writers-of-the-pool:%s:%s:%d:%d" % (at, kind, big, small), {"provider": False, "nodes": NODES, "conf": conf, "ops": ops}))
    # K2, deterministic
    p1 = mkpod("job-7f9c6d-k1", "k1", "dp", "job", 0, pool="p1")
    p2 = mkpod("job-7f9c6d-k2", "k2", "dp", "job", 0, pool="p1")
    hs.append(("K2-late-pool-object", {"provider": False, "nodes": NODES, "conf": conf, "ops": [
        {"op": "dp_set", "ns": "ns1", "name": "job", "replicas": 2}, put(p1), inf(p1), flt(p1), put(p2), inf(p2), flt(p2),
        {"op": "pool_set", "name": "p1", "size": 1}, bnd(p1), bnd(p2)]}))
    return hs


def mon_c07(h, o, nwf, keys):
    out = []
    steps = (o.get("steps") or [])[:nwf]
    prev = None
    sizes = {}                   # the Pool objects galaxy-ipam's lister shows
    specs = {(s["Ns"], s["Name"], s["Uid"]): s for s in plugingen.all_specs(h)}
    for si, (op, st) in enumerate(zip(h["ops"], steps)):
        if "dump" not in st:
            break
        d = st["dump"]
        k = op["op"]
        if k == "pool_set":
            if op.get("size") is None:
                sizes.pop(op["name"], None)
            else:
                sizes[op["name"]] = op["size"]
        if prev is not None and k in ("filter", "filter_race", "bind", "api_pool", "pool_race", "event", "resync", "api_release"):
            for name in sorted(set(list(sizes) + ([op["name"]] if k in ("api_pool", "pool_race") else []))):
                size = op["size"] if (k in ("api_pool", "pool_race") and op["name"] == name) else sizes.get(name)
                if k == "pool_race" and sizes.get(name) is not None:
                    size = max(size, sizes[name])
                mw = op.get("meanwhile") if (k == "api_pool" and op["name"] == name) else None
                if mw:
                    # a second writer of the Pool object: when it got in between this request's API calls, the size in force while
                    # the request allocates is the one the object carries in the end; when it could only run afterwards the two
                    # requests ran in a row, each under the size it wrote
                    size = st.get("api_size") if st.get("meanwhile_during") else max(op["size"], mw["size"])
                    if size is None:
                        continue
                if size is None:
                    continue
                tags = []
                if k == "bind" and any(c[0] == "create" and not c[2] for c in st.get("calls") or []):
                    tags = [K2_TAG]          # Bind allocated a fresh IP for a pool pod: no cap is consulted there
                out.append(("(mon_pool_cap %s %s %s %s)" % (cstr(name), cN(size), cwdump(prev), cwdump(d)), si, "pool_cap", tags))
        prev = d
    return out


# ------------------------------------------------------------------ helpers for the python-side predicates
def parse_range_str(s):
    if "~" in s:
        a, b = s.split("~")
        return ipamgen.s2ip(a), ipamgen.s2ip(b)
    return ipamgen.s2ip(s), ipamgen.s2ip(s)


def in_range_list(rl, x):
    return any(a <= x <= b for a, b in (parse_range_str(r) for r in rl))


def eff_policy(s):
    return 2 if s.get("Pool") else s.get("Policy", 0)


def supports(s, policy):
    if s["Kind"] in ("sts", "dp"):
        return True
    last = s["Name"].split("-")[-1]
    return policy == 2 and last.isdigit()


def prefix_key(s):
    return ("pool__%s_" % s["Pool"]) if s.get("Pool") else "dp_%s_%s_" % (s["Ns"], s["App"])


def lit(b):
    return "true" if b else "false"


def spec_index(h):
    return {(s["Ns"], s["Name"], s["Uid"]): s for s in plugingen.all_specs(h)}


def lister_spec(prev, specs, ns, name):
    lp = [p for p in (prev or {"lister": []})["lister"] if p[0] == ns and p[1] == name]
    return specs.get((ns, name, lp[0][2])) if lp else None


# ------------------------------------------------------------------ C02
def mon_c02(h, o, nwf, keys):
    """sticky_bind / sticky_ranges / dp_takes_reserve on the implementation's dumps (python predicates, printed as literals)"""
    out = []
    dps = {}
    specs = spec_index(h)
    steps = (o.get("steps") or [])[:nwf]
    prev = None
    approved = {}             # (ns,name) -> nodes the last filter approved, valid while nothing but informer steps happen
    for si, (op, st) in enumerate(zip(h["ops"], steps)):
        d = st.get("dump")
        if d is None:
            break
        k = op["op"]
        if k == "filter":
            approved = {(op["ns"], op["name"]): (st.get("nodes") or [])} if st.get("res") == "ok" else {}
        elif k not in ("informer", "bind", "restart"):
            approved = {}            # (a restart of galaxy-ipam between the scheduler's filter and bind calls changes nothing for the pod)
        if prev is not None and k == "bind" and st.get("res") == "ok":
            sp = lister_spec(prev, specs, op["ns"], op["name"])
            if sp is not None and sp["Kind"] == "dp" and eff_policy(sp) != 0 and not sp.get("Ranges") and \
                    st.get("node", op["node"]) in approved.get((op["ns"], op["name"]), []):
                # bound on a node the filter approved a moment ago: a replacement pod of an immutable / never deployment (or
                # named pool) was either handed the reserved IP by that filter, or there was none - it is never given a fresh IP
                # while a reserved one of its app waits (then the filter would have made it wait)
                key, pkk = pod_key(sp), prefix_key(sp)
                if not any(e[1] == key for e in prev["alloc"]) and any(e[1] == pkk for e in prev["alloc"]):
                    out.append(("false", si, "dp_bound_fresh_while_reserve_waits", []))
            approved.pop((op["ns"], op["name"]), None)
            if sp is not None:
                key = pod_key(sp)
                mine = [e[0] for e in prev["alloc"] if e[1] == key]
                ips = st.get("ips") or []
                if not sp.get("Ranges"):
                    if mine:
                        ok = len(ips) == 1 and ips[0] in mine and sorted(e[0] for e in d["alloc"]) == sorted(e[0] for e in prev["alloc"])
                        out.append((lit(ok), si, "sticky_bind", []))
                else:
                    ok = len(ips) == len(sp["Ranges"])
                    for i, rl in enumerate(sp["Ranges"]):
                        held = sorted(x for x in mine if in_range_list(rl, x))
                        if held and ok:
                            ok = ips[i] in held
                    out.append((lit(ok), si, "sticky_ranges", []))
        if k == "dp_set":
            dps[(op["ns"], op["name"])] = op.get("replicas")
        if prev is not None and k == "filter" and st.get("res") == "ok":
            sp = next((s for (ns, name, uid), s in specs.items() if ns == op["ns"] and name == op["name"] and
                       any(p[0] == ns and p[1] == name and p[2] == uid for p in prev["pods"])), None)
            if sp is not None and sp["Kind"] == "dp" and eff_policy(sp) != 0 and not sp.get("Ranges") and \
                    not any(o2.get("op") == "pool_set" for o2 in h["ops"]) and not any(e[1] == pod_key(sp) for e in prev["alloc"]):
                # filter approves nodes for a new pod of an immutable / never deployment only while the app's pods hold fewer IPs
                # than it has replicas - otherwise the replacement waits for the IP of the pod it replaces (used >= replicas)
                pk_ = prefix_key(sp)
                app_pk = ("pool__%s_dp_%s_%s_" % (sp["Pool"], sp["Ns"], sp["App"])) if sp.get("Pool") else pk_
                used = len([e for e in prev["alloc"] if e[1].startswith(app_pk) and e[1] != pk_])
                r = dps.get((sp["Ns"], sp["App"]))
                out.append((lit(r is not None and used < r), si, "dp_waits_for_its_ip", []))
            if sp is not None and sp["Kind"] == "dp" and eff_policy(sp) != 0 and not sp.get("Ranges"):
                key, pk = pod_key(sp), prefix_key(sp)
                if not any(e[1] == key for e in prev["alloc"]) and any(e[1] == pk for e in prev["alloc"]):
                    ok = sorted(e[0] for e in d["alloc"]) == sorted(e[0] for e in prev["alloc"])
                    out.append((lit(ok), si, "dp_takes_reserve", []))
        prev = d
    # "for as long as the reservation exists": an event or a resync item never drops the IPs of a never-policy key, or of an
    # immutable statefulset pod whose index is below the replicas (the monitor of C03's never_kept / immutable_kept_sts)
    kept = [(e, si, "sticky_reservation_kept" + kind[len("release_only_when_licensed"):], tags) for e, si, kind, tags in mon_c03(h, o, nwf, keys)
            if kind.startswith("release_only_when_licensed(") and "pod_alive" not in kind]
    # ... nor does a restart, or a reload of a configuration that still contains the address, drop or re-key a stored IP
    cpools, prev = conf_pools(h["conf"]), None
    for si, (op, st) in enumerate(zip(h["ops"], steps)):
        d = st.get("dump")
        if d is None:
            break
        if op["op"] == "reload" and st.get("res") == "ok" and not any(c[2] for c in st.get("calls") or []):
            cpools = conf_pools(op["conf"])
        if op["op"] in ("restart", "reload") and st.get("res") == "ok" and prev is not None and cpools is not None and \
                not any(c[2] for c in st.get("calls") or []):
            now = {e[0]: e[1] for e in d["alloc"]}
            ok = all(now.get(e[0]) == e[1] for e in prev["alloc"] if conf_pool_of(cpools, e[0]) is not None)
            kept.append((lit(ok), si, "sticky_reservation_survives_reload", []))
        prev = d
    return out + kept + live_kept(h, o, nwf, "sticky_across_resync")


def sticky_scenarios(rng, ctx, n):
    """reschedule / rolling update: pods with immutable or never policy (statefulset, indexed bare pod, deployment, named pool)
    are bound, deleted / evicted / lose their node, their events handled or dropped, and are scheduled again (same name for
    statefulsets, new names for deployment replacement pods, surge = new pod before the old one is gone)"""
    hs = []
    conf = conf_text([POOL_A, POOL_B])
    for i in range(n):
        kind = rng.choice(["sts", "sts", "dp", "dppool", "bare"])
        policy = rng.choice([1, 2]) if kind != "bare" else 2
        provider = rng.random() < 0.3
        ops = [{"op": "sts_set", "ns": "ns1", "name": "web", "replicas": 2}, {"op": "dp_set", "ns": "ns1", "name": "api", "replicas": 2}]
        ranges = rng.choice([[], [], [["10.100.0.3~10.100.0.5"]], [["10.100.0.2"], ["10.100.0.6~10.100.0.7"]]]) if kind in ("sts", "bare") else []
        uid = [0]

        def newpod(j):
            uid[0] += 1
            if kind == "sts":
                return mkpod("web-%d" % j, "s%d" % uid[0], "sts", "web", policy, ranges)
            if kind == "bare":
                return mkpod("solo-%d" % j, "s%d" % uid[0], "bare", "", policy, ranges)
            return mkpod("api-7f9c6d-r%d" % uid[0], "s%d" % uid[0], "dp", "api", policy if kind == "dp" else rng.choice([0, 1, 2]), pool="p1" if kind == "dppool" else "")
        live = {}
        for step in range(rng.choice([3, 4, 6])):
            j = rng.choice([0, 1])
            old = live.get(j)
            surge = kind in ("dp", "dppool") and rng.random() < 0.4
            if old is not None and not surge:
                how = rng.choice(["delete", "evict", "nodeloss"])
                if how == "evict":
                    ops += [phase(old, 3), inf(old)]
                ops += [dele(old), inf(old)]
                late = False
                r = rng.random()
                if r < 0.55:
                    ops.append({"op": "event", "n": 0})
                    if how == "evict":
                        ops.append({"op": "event", "n": 0})
                elif r < 0.8:
                    late = True            # the replacement is scheduled before the old pod's event is handled
                else:
                    ops.append({"op": "drop_event", "n": 0})
                    if rng.random() < 0.5:
                        # galaxy-ipam was down when the pod went away and restarts: its tables - the stored policies included -
                        # come back from the store, and the resync pass is what meets the pod's IPs
                        ops.append({"op": "restart"})
                        ops += [{"op": "resync", "ip": "@a%d" % a} for a in range(3)]
                    ops.append({"op": "resync", "ip": "@a%d" % rng.randrange(3)})
            p = newpod(j)
            # the scheduler's candidate list: all nodes, or what its other predicates left (node loss, cordon) - possibly no node
            # of the subnets the held / reserved IP is routable from
            cand = ("node1", "node2", "node3") if rng.random() < 0.6 else tuple(rng.sample(["node1", "node2", "node3", "node4"], rng.choice([1, 2])))
            if rng.random() < 0.3:
                # the scheduler filters the new pod before the plugin's informer has seen it; a resync pass runs in between
                ops += [put(p), flt(p, cand)] + [{"op": "resync", "ip": "@a%d" % a} for a in range(3)] + [inf(p), bnd(p, "@approved:%d" % rng.randrange(3))]
            elif rng.random() < 0.25:
                # a store call of the Filter (the hand-over of the reserved IP) fails once: the pod is bound only if that Filter
                # approved a node all the same - then with the IP it was promised; the scheduler filters and binds again
                ops += [put(p), inf(p), dict(flt(p, cand), fstore=rng.choice([0, 1])), bnd(p, "@approved:0"), flt(p, cand),
                        bnd(p, "@approved:%d" % rng.randrange(3))]
            elif rng.random() < 0.2:
                # galaxy-ipam restarts between the scheduler's filter and bind calls: what Filter handed over is in the store
                ops += [put(p), inf(p), flt(p, cand), {"op": "restart"}, bnd(p, "@approved:%d" % rng.randrange(3))]
            else:
                ops += [put(p), inf(p), flt(p, cand), bnd(p, "@approved:%d" % rng.randrange(3))]
            if old is not None and not surge and late:
                ops += [{"op": "event", "n": 0}, {"op": "event", "n": 0}, flt(p), bnd(p, "@approved:%d" % rng.randrange(3))]
            ops += [inf(p), phase(p, 1), inf(p)]
            if old is not None and surge:
                ops += [dele(old), inf(old), {"op": "event", "n": 0}]
            live[j] = p
        hs.append(("sticky:%s:p%d:%d" % (kind, policy, i), {"provider": provider, "nodes": NODES, "conf": conf, "ops": ops}))
        ctx.dist("scenario:sticky")
    return hs


# ------------------------------------------------------------------ C03
K1_TAG = "c03-dp-reserve-of-deleted-deployment"


def policy_scenarios(rng, ctx, n):
    """policies x kinds x scale down / up, app deleted before / after its pods, events handled or dropped; every history ends
    with a quiescence phase: the informer catches up for every pod, every queued event is handled, one resync pass runs"""
    hs = []
    conf = conf_text([POOL_A, POOL_B])
    for i in range(n):
        ops = []
        pods = []
        apps = []
        for kind in rng.sample(["sts", "dp", "dppool", "bare"], rng.choice([1, 2, 3])):
            policy = rng.choice([0, 1, 2])
            if kind == "sts":
                ops.append({"op": "sts_set", "ns": "ns1", "name": "web", "replicas": 3})
                apps.append(("sts_set", "web"))
                for j in range(rng.choice([1, 2, 3])):
                    pods.append(mkpod("web-%d" % j, "w%d_%d" % (i, j), "sts", "web", policy))
            elif kind in ("dp", "dppool"):
                app = "api" if kind == "dp" else "job"
                ops.append({"op": "dp_set", "ns": "ns1", "name": app, "replicas": rng.choice([1, 2, 3])})
                apps.append(("dp_set", app))
                for j in range(rng.choice([1, 2, 3])):
                    pods.append(mkpod("%s-7f9c6d-q%d" % (app, j), "d%d_%s%d" % (i, app, j), "dp", app, policy,      # a pool pod may carry an explicit policy annotation too: the pool wins (never)
                                      pool="p1" if kind == "dppool" else ""))
            else:
                for nm in ("solo-1", "lonely"):
                    pods.append(mkpod(nm, "b%d_%s" % (i, nm), "bare", "", rng.choice([0, 2])))
        rng.shuffle(pods)
        for p in pods:
            ops += [put(p), inf(p), flt(p), bnd(p, "@approved:%d" % rng.randrange(3)), inf(p)]
            if rng.random() < 0.7:
                ops += [phase(p, 1), inf(p)]
        # the life after: scale, delete apps, delete / finish pods, in random order; events handled, delayed or dropped
        acts = []
        for p in pods:
            if rng.random() < 0.7:
                acts.append([dele(p)] if rng.random() < 0.7 else [phase(p, rng.choice([2, 3]))])
        for verb, app in apps:
            r = rng.random()
            if r < 0.35:
                acts.append([{"op": verb, "ns": "ns1", "name": app, "replicas": rng.choice([0, 1, 2])}])
            elif r < 0.6:
                acts.append([{"op": verb, "ns": "ns1", "name": app, "replicas": None}])
        rng.shuffle(acts)
        for a in acts:
            ops += a
            if rng.random() < 0.5:
                ops += [inf(rng.choice(pods))]
            if rng.random() < 0.3:
                ops.append({"op": rng.choice(["event", "event", "drop_event"]), "n": 0})
            if rng.random() < 0.25:
                q = rng.choice(pods)
                ops.append({"op": "sync_pod", "ns": q["Ns"], "name": q["Name"]})
        if i % 10 == 0:
            # K1 shape: an immutable deployment pod is deleted, its event parks the IP under the app prefix, the deployment goes
            k1 = mkpod("api-7f9c6d-leak", "k1_%d" % i, "dp", "api", 1)
            ops += [{"op": "dp_set", "ns": "ns1", "name": "api", "replicas": 2}, put(k1), inf(k1), flt(k1), bnd(k1, "@approved:0"), inf(k1),
                    dele(k1), inf(k1), {"op": "event", "n": 0}, {"op": "event", "n": 0}, {"op": "event", "n": 0},
                    {"op": "dp_set", "ns": "ns1", "name": "api", "replicas": None}]
            pods.append(k1)
        # sometimes a new process starts between the events and the pass: the tables are rebuilt from the store
        mid = [{"op": "restart"}] if rng.random() < 0.5 else []
        # (a Run cycle = the resync pass, then the pod-IP sync pass over the informer's pods, then - next cycle - resync again)
        # (the first pass is ONE pass over ONE snapshot - fetched once, its items handled in a random order - in half of the histories)
        order = list(range(8))
        rng.shuffle(order)
        pass1 = [{"op": "resync_fetch"}] + [{"op": "resync_item", "ip": "@a%d" % j} for j in order] if rng.random() < 0.5 else \
                [{"op": "resync", "ip": "@a%d" % j} for j in range(8)]
        quiesce = [inf(p) for p in pods] + [{"op": "event", "n": 0}] * (2 * len(pods)) + mid + pass1 + \
                  [{"op": "sync_pod", "ns": p["Ns"], "name": p["Name"]} for p in pods] + [{"op": "resync", "ip": "@a%d" % j} for j in range(8)] + \
                  [{"op": "sync_pod", "ns": p["Ns"], "name": p["Name"]} for p in pods]
        hs.append(("policy:%d" % i, {"provider": rng.random() < 0.25, "nodes": NODES, "conf": conf, "ops": ops + quiesce, "_quiesce_from": len(ops)}))
        ctx.dist("scenario:policy")
    # the release events of TWO pods of one immutable deployment handled at the same time: the app holds `held` IPs, has `repl`
    # replicas; the first handler is stopped after it has counted the app's IPs and decided.  Counting, deciding and giving the
    # IPs back are one section under the app's mutex: handled in a row, exactly max(0, held - repl) of the IPs are released
    for held in (2, 3):
        for repl in (1, 2, 3):
            ps = [mkpod("api-7f9c6d-e%d" % j, "e%d%d%d" % (held, repl, j), "dp", "api", 1) for j in range(held)]
            ops = [{"op": "dp_set", "ns": "ns1", "name": "api", "replicas": 3}]
            for p in ps:
                ops += [put(p), inf(p), flt(p), bnd(p, "node1"), inf(p), phase(p, 1), inf(p)]
            ops += [{"op": "dp_set", "ns": "ns1", "name": "api", "replicas": repl}]
            for p in ps[:2]:
                ops += [dele(p), inf(p)]
            ops += [{"op": "event_race"}]
            hs.append(("two-events-of-one-immutable-deployment:%d:%d" % (held, repl), {"provider": False, "nodes": NODES, "conf": conf, "ops": ops}))
            ctx.dist("scenario:two-events-race")
    # workloads of the same kind and name in TWO namespaces (prod/web, staging/web), immutable policy; the pods of both are gone and
    # their events were lost; one of the workloads is deleted / scaled to zero; ONE resync pass meets both (either order): each IP is
    # judged by its own namespace's workload
    for first in (0, 1):
        for gone in (None, 0):
            for kind in ("sts", "sts2"):
                A = mkpod("web-0", "tA%d%s%s" % (first, gone, kind), "sts", "web", 1, ns="ns1")
                B = mkpod("web-0", "tB%d%s%s" % (first, gone, kind), "sts", "web", 1, ns="ns2")
                ops = [{"op": "sts_set", "ns": "ns1", "name": "web", "replicas": 2}, {"op": "sts_set", "ns": "ns2", "name": "web", "replicas": 2}]
                for p in (A, B):
                    ops += [put(p), inf(p), flt(p), bnd(p, "node1"), inf(p), phase(p, 1), inf(p)]
                for p in (A, B):
                    ops += [dele(p), inf(p), {"op": "drop_event", "n": 0}]
                ops += [{"op": "sts_set", "ns": "ns2" if kind == "sts" else "ns1", "name": "web", "replicas": gone}]
                q = len(ops)
                ops += [{"op": "resync_fetch"}, {"op": "resync_item", "ip": "@a%d" % first}, {"op": "resync_item", "ip": "@a%d" % (1 - first)},
                        {"op": "resync_fetch"}, {"op": "resync_item", "ip": "@a0"}, {"op": "resync_item", "ip": "@a1"}]
                hs.append(("namesake-workloads:%d:%s:%s" % (first, gone, kind), {"provider": False, "nodes": NODES, "conf": conf, "ops": ops, "_quiesce_from": q}))
                ctx.dist("scenario:namesake-workloads")
    return hs


def mon_c03(h, o, nwf, keys):
    """release_only_when_licensed (never_kept, immutable_kept_sts), default_released_by_event and, at the end of a history
    that ends with a quiescence phase, resync_pass_no_orphans - python predicates on the implementation's dumps"""
    out = []
    specs = spec_index(h)
    byuid = {s["Uid"]: s for s in plugingen.all_specs(h)}
    bykey = {}
    for s in plugingen.all_specs(h):
        bykey.setdefault(pod_key(s), s)
    steps = (o.get("steps") or [])[:nwf]
    prev = None
    sts, dps = {}, {}
    for si, (op, st) in enumerate(zip(h["ops"], steps)):
        d = st.get("dump")
        if d is None:
            break
        k = op["op"]
        if k == "sts_set":
            sts[(op["ns"], op["name"])] = op.get("replicas")
        if k == "dp_set":
            dps[(op["ns"], op["name"])] = op.get("replicas")
        if prev is not None and k in ("event", "event_loop", "event_race", "resync", "resync_item") and st.get("res") == "ok":
            after = {e[0]: e for e in d["alloc"]}
            ev_uid = (st.get("event_pod") or [None, None, None])[2]
            for e in prev["alloc"]:
                sp = bykey.get(e[1])
                if sp is None:
                    continue
                # the policy in force is the one the pod was created with (the scenario and random generators keep it fixed per
                # key); the STORED policy is what the code consults on resync - a release licensed only by a corrupted stored
                # policy is a violation
                pol = eff_policy(byuid[ev_uid]) if (k in ("event", "event_loop") and ev_uid in byuid) else eff_policy(sp)
                if k in ("event", "event_loop") and (ev_uid not in byuid or pod_key(byuid[ev_uid]) != e[1]):
                    continue
                if k in ("resync", "resync_item") and ipamgen.s2ip(st.get("ip", "0.0.0.0")) != e[0] and not any(
                        x[0] == ipamgen.s2ip(st.get("ip", "0.0.0.0")) and x[1] == e[1] for x in prev["alloc"]):
                    continue
                gone = e[0] not in after
                if not gone:
                    continue
                keep = False
                if pol == 2 and supports(sp, 2):
                    keep = True
                if pol == 1 and sp["Kind"] == "sts":
                    r = sts.get((sp["Ns"], sp["App"]))
                    idx = sp["Name"].split("-")[-1]
                    keep = r is not None and idx.isdigit() and int(idx) < r
                if keep:
                    out.append(("false", si, "release_only_when_licensed(%s)" % ("never_kept" if pol == 2 else "immutable_kept_sts"), []))
            if k == "event" and ev_uid in byuid and byuid[ev_uid]["Kind"] == "dp" and eff_policy(byuid[ev_uid]) == 1 and \
                    not byuid[ev_uid].get("Pool") and not any(c[2] for c in st.get("calls") or []) and \
                    all(c[3] for c in st.get("cloudcalls") or []):
                # an immutable deployment keeps at most as many IPs as it has replicas: when a pod's event is handled while the app
                # holds MORE (its pods' IPs plus the reserved ones), that pod's IP is released, not added to the reserve
                spd = byuid[ev_uid]
                key, pfx = pod_key(spd), "dp_%s_%s_" % (spd["Ns"], spd["App"])
                mine = [e for e in prev["alloc"] if e[1] == key and e[4] in ("", ev_uid)]
                holds = len([e for e in prev["alloc"] if e[1].startswith(pfx)])
                r = dps.get((spd["Ns"], spd["App"]))
                if mine and r is not None and holds > r and len([e for e in prev["alloc"] if e[1] == key]) == len(mine):
                    out.append((lit(all(e[0] not in after for e in mine)), si, "immutable_dp_over_replicas_releases", []))
            if k == "event_race" and ev_uid in byuid and byuid[ev_uid]["Kind"] == "dp" and eff_policy(byuid[ev_uid]) == 1 and \
                    not byuid[ev_uid].get("Pool") and not st.get("err_a") and not st.get("err_b"):
                # two events of pods of one immutable deployment, handled at the same time: together they release exactly the
                # IPs the app holds beyond its replicas (at most the two pods' own) - never more
                spd = byuid[ev_uid]
                pfx = "dp_%s_%s_" % (spd["Ns"], spd["App"])
                before = len([e for e in prev["alloc"] if e[1].startswith(pfx)])
                now = len([e for e in d["alloc"] if e[1].startswith(pfx)])
                r = dps.get((spd["Ns"], spd["App"]))
                if r is not None and r > 0:
                    out.append((lit(now == before - min(2, max(0, before - r))), si, "immutable_dp_concurrent_events_release_the_surplus", []))
            if k == "event" and ev_uid in byuid and eff_policy(byuid[ev_uid]) == 0:
                key = pod_key(byuid[ev_uid])
                mine = [e for e in prev["alloc"] if e[1] == key]
                if mine and all(e[4] in ("", ev_uid) for e in mine) and not any(c[2] for c in st.get("calls") or []) and \
                        all(c[3] for c in st.get("cloudcalls") or []):
                    out.append((lit(not any(e[0] in after for e in mine)), si, "default_released_by_event", []))
        prev = d
    qf = h.get("_quiesce_from")
    if qf is not None and nwf >= len(h["ops"]) and steps and len(steps) == len(h["ops"]) and \
            not any(c[2] for st in steps[qf:] for c in (st.get("calls") or [])) and \
            all(c[3] for st in steps[qf:] for c in (st.get("cloudcalls") or [])):
        d = steps[-1]["dump"]
        live = {(p[0], p[1]) for p in d["pods"] if p[3] not in (2, 3)}
        for e in d["alloc"]:
            sp = bykey.get(e[1])
            if sp is not None:
                if (sp["Ns"], sp["Name"]) in live:
                    continue
                pol = eff_policy(sp)
                must_free = pol == 0 or not supports(sp, pol) or \
                    (pol == 1 and sp["Kind"] == "sts" and (sts.get((sp["Ns"], sp["App"])) is None or
                                                          not sp["Name"].split("-")[-1].isdigit() or
                                                          int(sp["Name"].split("-")[-1]) >= sts[(sp["Ns"], sp["App"])])) or \
                    sp["Kind"] == "dp"
                if must_free:
                    out.append(("false", len(steps) - 1, "resync_pass_no_orphans", []))
            elif e[1].startswith("dp_") and e[1].endswith("_") and e[1].count("_") == 3:
                ns, app = e[1].split("_")[1:3]
                if dps.get((ns, app)) is None and e[2] == 1:
                    out.append(("false", len(steps) - 1, "dp_reserve_released_with_its_deployment", [K1_TAG]))
    return out + live_kept(h, o, nwf, "release_only_when_licensed(pod_alive)")


# ------------------------------------------------------------------ C06


def routing_scenarios(rng, ctx, n):
    """random topologies (shared pod subnets, node subnets shared by several pools, nodes outside every subnet), fresh pods with
    0-3 pairwise disjoint requested range lists (boundary addresses, ranges straddling pools and unconfigured addresses,
    partially pre-owned after a first incarnation), filter followed by bind on a node the filter approved"""
    hs = []
    for i in range(n):
        pools = plugingen.plugin_topology(rng)
        ips = ipamgen.topo_ips(pools)
        ops = [{"op": "sts_set", "ns": "ns1", "name": "web", "replicas": 3}, {"op": "dp_set", "ns": "ns1", "name": "api", "replicas": 3}]
        for j in range(rng.choice([2, 3, 4])):
            kind = rng.choice(["sts", "sts", "dp", "bare"])
            nr = rng.choice([0, 0, 1, 2, 3]) if kind != "dp" else 0
            ranges = []
            pool = list(ips)
            rng.shuffle(pool)
            used = set()
            for _ in range(nr):
                if not pool:
                    break
                a = pool.pop()
                b = a + rng.choice([0, 0, 1, 2])
                if any(x in used for x in range(a - 0, b + 1)):
                    continue
                used.update(range(a, b + 1))
                ranges.append([ipamgen.ip2s(a) if a == b else "%s~%s" % (ipamgen.ip2s(a), ipamgen.ip2s(b))])
            name = {"sts": "web-%d" % j, "dp": "api-7f9c6d-c%d" % j, "bare": "solo-%d" % j}[kind]
            policy = rng.choice([0, 0, 1, 2]) if kind != "bare" else rng.choice([0, 2])
            p = mkpod(name, "c%d_%d" % (i, j), kind, "web" if kind == "sts" else "api", policy, ranges)
            nodes = rng.sample(sorted(NODES), rng.choice([2, 3, 4])) + (["ghost"] if rng.random() < 0.1 else [])
            ops += [put(p), inf(p), flt(p, nodes)]
            if rng.random() < 0.35:
                # a store call of the first attempt fails cleanly; the scheduler filters and binds again, this time without a fault
                ops += [dict(bnd(p, "@approved:%d" % rng.randrange(4)), fstore=rng.choice([0, 1, 1, 2])), flt(p, nodes)]
            ops += [bnd(p, "@approved:%d" % rng.randrange(4))]
            if rng.random() < 0.4 and policy != 0:
                # second incarnation with partially different ranges: pre-owned slots
                ops += [inf(p), dele(p), inf(p), {"op": "event", "n": 0}]
                if rng.random() < 0.5:
                    # a new process, or a reload of the unchanged configuration, rebuilds the tables from the store: every stored IP
                    # must come back with the attributes of ITS pool (pools may share a pod subnet)
                    ops.append(rng.choice([{"op": "restart"}, {"op": "reload", "conf": conf_text(pools)}]))
                p2 = dict(p, Uid=p["Uid"] + "x")
                if ranges and rng.random() < 0.5 and pool:
                    a = pool.pop()
                    if a not in used:
                        p2["Ranges"] = ranges[:1] + [[ipamgen.ip2s(a)]]
                ops += [put(p2), inf(p2), flt(p2, nodes), bnd(p2, "@approved:%d" % rng.randrange(4))]
        if rng.random() < 0.3:
            # an immutable / never deployment leaves reserved IPs behind in several pools; its next pod is filtered with candidate
            # nodes of all subnets and bound on ANY node that filter approved
            pol = rng.choice([1, 2])
            olds = [mkpod("api-7f9c6d-r%d" % j, "r%d_%d" % (i, j), "dp", "api", pol) for j in range(rng.choice([2, 3]))]
            for q in olds:
                ops += [put(q), inf(q), flt(q, [rng.choice(sorted(NODES))]), bnd(q, "@approved:0"), inf(q)]
            for q in olds:
                ops += [dele(q), inf(q), {"op": "event", "n": 0}]
            for j in range(2):
                q = mkpod("api-7f9c6d-n%d" % j, "n%d_%d" % (i, j), "dp", "api", pol)
                ops += [put(q), inf(q), flt(q, sorted(NODES)), bnd(q, "@approved:%d" % rng.randrange(6))]
            # ... and what the pools tell about their node subnets is what the configuration says, also afterwards: fresh pods
            # of another app are offered every node and bound on any node Filter approved, until pools run dry
            for j in range(rng.choice([3, 5])):
                q = mkpod("fresh-%d" % j, "f%d_%d" % (i, j), "sts", "fresh", 0)
                ops += [put(q), inf(q), flt(q, sorted(NODES)), bnd(q, "@approved:%d" % rng.randrange(6))]
            ctx.dist("scenario:routing-reserves-in-several-pools")
        if rng.random() < 0.35:
            # the node subnets are split by a reload after the plugin has looked up (and cached) the nodes' subnets: every pool
            # keeps one half of each of its /24s; fresh pods are then filtered and bound, nothing else changes
            pools2 = json.loads(json.dumps(pools))
            for p_ in pools2:
                p_["nodeSubnets"] = [sn.replace(".0.0/24", rng.choice([".0.0/25", ".0.128/25"])) for sn in p_["nodeSubnets"]]
            if rng.random() < 0.5:
                # the poll that first sees the new text fails at its List call; the next poll applies it (nothing is remembered
                # of a text that was not applied)
                ops.append(dict({"op": "reload", "conf": conf_text(pools2)}, fstore=0))
            ops.append({"op": "reload", "conf": conf_text(pools2)})
            for j in range(rng.choice([1, 2, 3])):
                p = mkpod("late-%d" % j, "l%d_%d" % (i, j), "bare", "", 0, [])
                nodes = rng.sample(sorted(NODES), rng.choice([2, 3, 4]))
                ops += [put(p), inf(p), flt(p, nodes), bnd(p, "@approved:%d" % rng.randrange(4))]
            ctx.dist("scenario:routing-node-subnets-split-by-reload")
        hs.append(("routing:%d" % i, {"provider": False, "nodes": NODES, "conf": conf_text(pools), "ops": ops}))
        ctx.dist("scenario:routing")
    # K7, deterministic shape (the outcome depends on Go's map order): a key holding two IPs of different pools, pod without ranges
    PA = {"nodeSubnets": ["10.1.0.0/24", "10.2.0.0/24"], "subnet": "10.100.0.0/24", "gateway": "10.100.0.1", "vlan": 2, "ranges": [[S("10.100.0.2"), S("10.100.0.4")]]}
    PB = {"nodeSubnets": ["10.1.0.0/24", "10.3.0.0/24"], "subnet": "10.101.0.0/24", "gateway": "10.101.0.1", "vlan": 0, "ranges": [[S("10.101.0.2"), S("10.101.0.3")]]}
    for t in range(6):
        A = mkpod("web-0", "uA", policy=2, ranges=[["10.100.0.3"], ["10.101.0.2"]])
        B = mkpod("web-0", "uB", policy=2)
        hs.append(("K7-plain-key-two-ips:%d" % t, {"provider": False, "nodes": NODES, "conf": conf_text([PA, PB]), "ops": [
            {"op": "sts_set", "ns": "ns1", "name": "web", "replicas": 1}, put(A), inf(A), flt(A), bnd(A, "node1"), dele(A), inf(A), {"op": "event", "n": 0},
            put(B), inf(B), flt(B, ["node2", "node3"]), bnd(B, "@approved:%d" % t)]}))
    # F14 regression: three range lists in three pools without a common node subnet
    P1 = {"nodeSubnets": ["10.1.0.0/24"], "subnet": "10.100.0.0/24", "gateway": "10.100.0.1", "vlan": 2, "ranges": [[S("10.100.0.2"), S("10.100.0.4")]]}
    P2 = {"nodeSubnets": ["10.2.0.0/24"], "subnet": "10.101.0.0/24", "gateway": "10.101.0.1", "vlan": 0, "ranges": [[S("10.101.0.2"), S("10.101.0.3")]]}
    P3 = {"nodeSubnets": ["10.3.0.0/24"], "subnet": "10.102.0.0/24", "gateway": "10.102.0.1", "vlan": 0, "ranges": [[S("10.102.0.2"), S("10.102.0.3")]]}
    C = mkpod("web-0", "uC", ranges=[["10.100.0.2"], ["10.101.0.2"], ["10.102.0.2"]])
    hs.append(("F14-three-ranges-no-common-subnet", {"provider": False, "nodes": NODES, "conf": conf_text([P1, P2, P3]), "ops": [
        {"op": "sts_set", "ns": "ns1", "name": "web", "replicas": 1}, put(C), inf(C), flt(C), bnd(C, "@approved:0"), bnd(C, "node3")]}))
    # F15 regression: held IPs lose their common node subnet by a reload, pod re-created with one more range
    PAx = dict(PA, nodeSubnets=["10.2.0.0/24"])
    PBx = dict(PB, nodeSubnets=["10.3.0.0/24"])
    D1 = mkpod("web-0", "uD", policy=2, ranges=[["10.100.0.3"], ["10.101.0.2"]])
    D2 = mkpod("web-0", "uE", policy=2, ranges=[["10.100.0.3"], ["10.101.0.2"], ["10.100.0.4"]])
    hs.append(("F15-held-ips-without-common-subnet", {"provider": False, "nodes": NODES, "conf": conf_text([PA, PB]), "ops": [
        {"op": "sts_set", "ns": "ns1", "name": "web", "replicas": 1}, put(D1), inf(D1), flt(D1), bnd(D1, "node1"), dele(D1), inf(D1), {"op": "event", "n": 0},
        {"op": "reload", "conf": conf_text([PAx, PBx])}, put(D2), inf(D2), flt(D2), bnd(D2, "@approved:0")]}))
    return hs


def node_in_subnets(node_ip, subnets):
    x = ipamgen.s2ip(node_ip)
    for sn in subnets:
        a, l = ipamgen.parse_subnet(sn) if isinstance(sn, str) else (sn[0], sn[1])
        if l == 0 or (x >> (32 - l)) == (a >> (32 - l)):
            return True
    return False


def conf_pools(conf):
    """the pools of a configuration text as (ranges, masklen, gateway, vlan, node subnets); None if it is not a plain list of
    pool objects (then only the implementation's own attribution is checked)"""
    try:
        out = []
        for p in json.loads(conf):
            out.append(([parse_range_str(r) for r in p["ips"]], int(p["subnet"].split("/")[1]), ipamgen.s2ip(p["gateway"]),
                        int(p.get("vlan", 0)), list(p["nodeSubnets"])))
        return out
    except Exception:
        return None


def conf_pool_of(pools, x):
    for p in pools or []:
        if any(a <= x <= b for a, b in p[0]):
            return p
    return None


def mon_c06(h, o, nwf, keys):
    """bind right after filter on an approved node: succeeds or waits for the deletion event (filter_then_bind); every IP written
    is routable from the node (bind_routable) and carries its pool's mask / gateway / vlan (bind_info_configured)"""
    out = []
    specs = spec_index(h)
    steps = (o.get("steps") or [])[:nwf]
    prev = None
    last_filter = {}          # (ns,name) -> (step index, approved nodes)
    cpools = conf_pools(h["conf"])       # the configuration in force, as the administrator wrote it
    for si, (op, st) in enumerate(zip(h["ops"], steps)):
        d = st.get("dump")
        if d is None:
            break
        k = op["op"]
        if k == "reload" and st.get("res") == "ok":
            cpools = conf_pools(op["conf"])
        if k == "filter" and st.get("res") == "ok":
            last_filter[(op["ns"], op["name"])] = (si, st.get("nodes") or [])
        elif k == "bind" and prev is not None and st.get("res") != "skipped":
            lf = last_filter.get((op["ns"], op["name"]))
            node = st.get("node", op["node"])
            sp = lister_spec(prev, specs, op["ns"], op["name"])
            pending = any(p[0] == op["ns"] and p[1] == op["name"] and p[2] == st.get("uid") and p[4] == "" and p[3] not in (2, 3)
                          for p in prev["pods"])         # the property speaks about a pod the scheduler can still bind
            fresh = lf is not None and node in lf[1] and sp is not None and sp["Uid"] == st.get("uid") and pending
            if fresh:
                tags = []
                key = pod_key(sp)
                mine = [e for e in prev["alloc"] if e[1] == key]
                # (K7 - a plain key holding several IPs - is repaired: d08b5a9; no failure is attributed to it any more)
                injected = any(c[2] for c in st.get("calls") or []) or "injected" in (st.get("bindlog") or []) or \
                    not all(c[3] for c in st.get("cloudcalls") or [])
                if not injected:
                    ok = st.get("res") == "ok" or "waiting for delete event" in (st.get("err") or "")
                    out.append((lit(ok), si, "filter_then_bind", tags))
                if st.get("res") == "ok":
                    pools = {e[0]: e[6] for e in d["alloc"]}
                    nip = h["nodes"].get(node)
                    routable = nip is not None and all(x in pools and node_in_subnets(nip, pools[x][3]) for x in st.get("ips") or [])
                    if cpools is not None:
                        # ... and by the configuration itself: the pool whose ranges contain the IP lists the node's subnet
                        routable = routable and all(conf_pool_of(cpools, x) is not None and node_in_subnets(nip, conf_pool_of(cpools, x)[4])
                                                    for x in st.get("ips") or [])
                    out.append((lit(routable), si, "bind_routable", tags))
            if st.get("res") == "ok":
                pools = {e[0]: e[6] for e in d["alloc"]}
                ok = all(len(inf) == 4 and inf[0] in pools and [inf[1], inf[2], inf[3]] == list(pools[inf[0]][:3]) for inf in st.get("infos") or [])
                if cpools is not None:
                    ok = ok and all(conf_pool_of(cpools, inf[0]) is not None and [inf[1], inf[2], inf[3]] == list(conf_pool_of(cpools, inf[0])[1:4])
                                    for inf in st.get("infos") or [])
                out.append((lit(ok), si, "bind_info_configured", []))
            last_filter.pop((op["ns"], op["name"]), None)
        elif k != "informer":
            last_filter = {}      # something else changed: "if nothing else changes" no longer holds for earlier filter results
        prev = d
    return out


# ------------------------------------------------------------------ C05, plugin level: process death inside a section
def reload_scenarios(rng, ctx):
    """a reload that takes ranges away fails on its List call and is retried by the next tick; then pods ask for the
    de-configured addresses explicitly and implicitly"""
    hs = []
    PA2 = {"nodeSubnets": ["10.1.0.0/24", "10.2.0.0/24"], "subnet": "10.100.0.0/24", "gateway": "10.100.0.1", "vlan": 2,
           "ranges": [[S("10.100.0.2"), S("10.100.0.3")], [S("10.100.0.6"), S("10.100.0.7")]]}
    PA1 = dict(PA2, ranges=[[S("10.100.0.2"), S("10.100.0.3")]])
    for nfail in (0, 1, 2):
        for grow in (False, True):
            first, second = (PA1, PA2) if grow else (PA2, PA1)
            K = mkpod("web-0", "uK", ranges=[["10.100.0.2"]])
            ops = [{"op": "sts_set", "ns": "ns1", "name": "web", "replicas": 3}, put(K), inf(K), flt(K, ["node1"]), bnd(K, "node1"), inf(K)]
            ops += [dict({"op": "reload", "conf": conf_text([second])}, fstore=0)] * nfail + [{"op": "reload", "conf": conf_text([second])}]
            for j, rr in enumerate(([["10.100.0.6"]], [["10.100.0.7"]], [], [], [])):
                p = mkpod("web-%d" % (j + 1), "uL%d" % j, ranges=rr)
                ops += [put(p), inf(p), flt(p, ["node1", "node2"]), bnd(p, "@approved:0")]
            hs.append(("reload-%s-after-%d-failed-lists" % ("adds-ranges" if grow else "removes-ranges", nfail),
                       {"provider": False, "nodes": NODES, "conf": conf_text([first]), "ops": ops}))
            ctx.dist("scenario:reload-retry")
    return hs


def rejected_reload_scenarios(rng, ctx):
    """a valid configuration is in force and pods hold IPs; a reload arrives whose FIRST pool is valid but different (other node
    subnets, gateway, vlan) and whose second pool is rejected (ranges out of order / outside the subnet / overlapping): it must be
    rejected as a whole and change nothing - then pods are bound and the configmap is put back"""
    hs = []
    PA = {"nodeSubnets": ["10.1.0.0/24", "10.2.0.0/24"], "subnet": "10.100.0.0/24", "gateway": "10.100.0.1", "vlan": 2,
          "ranges": [[S("10.100.0.2"), S("10.100.0.4")], [S("10.100.0.6"), S("10.100.0.7")]]}
    PB = {"nodeSubnets": ["10.3.0.0/24"], "subnet": "10.101.0.0/24", "gateway": "10.101.0.1", "vlan": 0, "ranges": [[S("10.101.0.2"), S("10.101.0.3")]]}
    PAx = dict(PA, nodeSubnets=["10.3.0.0/24"], vlan=7, ranges=[[S("10.100.0.6"), S("10.100.0.7")], [S("10.100.0.9"), S("10.100.0.9")]])
    bad_second = [dict(PB, ranges=[[S("10.101.0.3"), S("10.101.0.3")], [S("10.101.0.2"), S("10.101.0.2")]]),       # out of order
                  dict(PB, ranges=[[S("10.102.0.2"), S("10.102.0.3")]]),                                              # outside the subnet
                  dict(PB, ranges=[[S("10.101.0.2"), S("10.101.0.3")], [S("10.101.0.3"), S("10.101.0.4")]])]          # overlapping
    good = conf_text([PA, PB])
    other = conf_text([PAx, PB])
    # ... or the text is a valid, different configuration FOLLOWED by more text (a stray bracket, a second document, a dangling
    # token): not a JSON configuration at all
    bad_texts = [conf_text([PAx, pb]) for pb in bad_second] + [other + "]", other + good, other + " x", other + "\n[]", "[]" + other]
    for bi, badconf in enumerate(bad_texts):
        K = mkpod("web-0", "uK", ranges=[["10.100.0.2"]])
        ops = [{"op": "sts_set", "ns": "ns1", "name": "web", "replicas": 3}, put(K), inf(K), flt(K, ["node1"]), bnd(K, "node1"), inf(K),
               {"op": "reload", "conf": badconf}]
        for j in range(2):
            p = mkpod("web-%d" % (j + 1), "uM%d" % j)
            ops += [put(p), inf(p), flt(p, ["node1", "node2", "node3"]), bnd(p, "@approved:0")]
        ops += [{"op": "reload", "conf": good}, {"op": "resync", "ip": "@a0"}]
        p = mkpod("web-3", "uM9")
        ops += [put(p), inf(p), flt(p, ["node1", "node2", "node3"]), bnd(p, "@approved:0"), {"op": "restart"}]
        hs.append(("rejected-reload-%d" % bi, {"provider": False, "nodes": NODES, "conf": good, "ops": ops}))
        ctx.dist("scenario:rejected-reload")
    return hs


def attr_reload_scenarios(rng, ctx):
    """an ACCEPTED reload changes what a pool says about its addresses (prefix length and gateway, vlan) while IPs of the pool
    have been handed out before: whatever Bind writes afterwards - for an IP that was handed out before (a sticky pod bound
    again, an address asked for again) or for a fresh one - carries the attributes of the configuration in force"""
    hs = []
    PA = {"nodeSubnets": ["10.1.0.0/24", "10.2.0.0/24"], "subnet": "10.100.0.0/24", "gateway": "10.100.0.1", "vlan": 2,
          "ranges": [[S("10.100.0.2"), S("10.100.0.5")]]}
    variants = [dict(PA, vlan=7), dict(PA, gateway="10.100.0.254"), dict(PA, subnet="10.100.0.0/23", gateway="10.100.1.254", vlan=9)]
    for vi, PV in enumerate(variants):
        for policy in (0, 2):
            K1 = mkpod("web-0", "uK1", policy=policy, ranges=[["10.100.0.3"]])
            K2 = mkpod("web-0", "uK2", policy=policy, ranges=[["10.100.0.3"]])
            L = mkpod("web-1", "uL1")
            ops = [{"op": "sts_set", "ns": "ns1", "name": "web", "replicas": 3}, put(K1), inf(K1), flt(K1, ["node1"]), bnd(K1, "node1"), inf(K1),
                   phase(K1, 1), inf(K1), dele(K1), inf(K1), {"op": "event", "n": 0}, {"op": "reload", "conf": conf_text([PV])},
                   put(K2), inf(K2), flt(K2, ["node1"]), bnd(K2, "node1"), inf(K2), put(L), inf(L), flt(L, ["node1", "node2"]), bnd(L, "@approved:0"),
                   {"op": "reload", "conf": conf_text([PA])}, bnd(K2, "node1")]
            hs.append(("pool-attributes-change-by-reload:%d:p%d" % (vi, policy), {"provider": False, "nodes": NODES, "conf": conf_text([PA]), "ops": ops}))
            ctx.dist("scenario:attr-reload")
    return hs


def mon_c20_plugin(h, o, nwf, keys):
    """a reload that is rejected changes nothing: the allocation table with the pool attributes of every IP, and the free
    table, are what they were; what Bind writes afterwards carries the attributes of the configuration in force"""
    out = []
    steps = (o.get("steps") or [])[:nwf]
    prev = None
    cpools = conf_pools(h["conf"])
    for si, (op, st) in enumerate(zip(h["ops"], steps)):
        d = st.get("dump")
        if d is None:
            break
        if op["op"] == "reload":
            try:
                json.loads(op["conf"])
                isjson = True
            except ValueError:
                isjson = False
            if not isjson:
                out.append((lit(st.get("res") != "ok"), si, "text_that_is_not_json_is_rejected", []))
            if st.get("res") == "ok":
                cpools = conf_pools(op["conf"]) if isjson else None
            elif prev is not None:
                out.append((lit(d["alloc"] == prev["alloc"] and d["unalloc"] == prev["unalloc"]), si, "rejected_reload_changes_nothing", []))
        if op["op"] == "bind" and st.get("res") == "ok" and cpools is not None:
            ok = all(len(inf) == 4 and conf_pool_of(cpools, inf[0]) is not None and [inf[1], inf[2], inf[3]] == list(conf_pool_of(cpools, inf[0])[1:4])
                     for inf in st.get("infos") or [])
            out.append((lit(ok), si, "bind_info_of_configuration_in_force", []))
        prev = d
    return out


def mon_c09_plugin(h, o, nwf, keys):
    """every IP a pod is bound with is configured by the configuration in force (the last one a reload reported as applied);
    an IP whose range a reload took away is not handed out afterwards"""
    out = []
    steps = (o.get("steps") or [])[:nwf]
    cpools = conf_pools(h["conf"])
    for si, (op, st) in enumerate(zip(h["ops"], steps)):
        if st.get("dump") is None:
            break
        if op["op"] == "reload" and st.get("res") == "ok":
            cpools = conf_pools(op["conf"])
        if op["op"] == "bind" and st.get("res") == "ok" and cpools is not None:
            out.append((lit(all(conf_pool_of(cpools, x) is not None for x in st.get("ips") or [])), si, "bound_ip_is_configured", []))
        if op["op"] == "reload" and st.get("res") == "ok" and cpools is not None:
            d = st["dump"]
            out.append((lit(all(conf_pool_of(cpools, x) is not None for x in d["unalloc"])), si, "free_table_is_the_configuration", []))
    return out


def crash_scenarios(rng, ctx, n):
    """a pod requesting 2-3 range lists is bound; the process dies right before the j-th object creation of the multi-IP
    allocation (for EVERY j: no rollback happens, unlike a failed creation); a new process starts (restart), resyncs, the
    scheduler binds again; later the pod is deleted and everything is cleaned up.  Other sections: a clean fault at a random
    call followed by a restart (for what the new process sees that equals a death at that call)."""
    hs = []
    conf = conf_text([POOL_A, POOL_B])
    for i in range(n):
        nr = rng.choice([2, 3])
        ranges = [["10.100.0.%d" % (2 + 2 * j)] if rng.random() < 0.5 else ["10.100.0.%d~10.100.0.%d" % (2 + 2 * j, 3 + 2 * j)] for j in range(nr)]
        policy = rng.choice([0, 1, 2])
        P = mkpod("web-0", "z%d" % i, "sts", "web", policy, ranges)
        pre = [{"op": "sts_set", "ns": "ns1", "name": "web", "replicas": 1}]
        if rng.random() < 0.4:
            # one of the ranges is already owned by an earlier incarnation's reservation
            P0 = mkpod("web-0", "y%d" % i, "sts", "web", 2, ranges[:1])
            pre += [put(P0), inf(P0), flt(P0), bnd(P0, "node1"), dele(P0), inf(P0), {"op": "event", "n": 0}]
        for j in range(nr + 1):
            ops = pre + [put(P), inf(P), flt(P), dict(bnd(P, "node1"), fcrash=j), {"op": "restart"},
                         {"op": "resync", "ip": "@a0"}, {"op": "resync", "ip": "@a1"}, {"op": "resync", "ip": "@a2"}, inf(P),
                         bnd(P, "node1"), inf(P), phase(P, 1), inf(P), {"op": "resync", "ip": "@a0"}, {"op": "restart"},
                         dele(P), inf(P), {"op": "event", "n": 0}, {"op": "resync", "ip": "@a0"}, {"op": "resync", "ip": "@a1"},
                         {"op": "resync", "ip": "@a2"}]
            hs.append(("crash:bind-create-%d-of-%d:p%d" % (j, nr, policy),
                       {"provider": False, "nodes": NODES, "conf": conf, "ops": ops, "_final_free": policy == 0}))
            ctx.dist("scenario:crash")
    return hs


def mon_crash(h, o, nwf, keys):
    out = []
    steps = (o.get("steps") or [])[:nwf]
    crashed = False
    for si, (op, st) in enumerate(zip(h["ops"], steps)):
        if "dump" not in st:
            break
        if "fcrash" in op:
            crashed = True             # the dead process's memory is not a state anybody sees; the next step is the restart
            continue
        out.append(("(mon_owned %s %s)" % (keys, cwdump(st["dump"])), si, "live_bound_owned after crash + restart", []))
        out.append(("(mon_one_owner %s)" % cwdump(st["dump"]), si, "one_owner after crash + restart", []))
    if h.get("_final_free") and steps and len(steps) == len(h["ops"]):
        d = steps[-1]["dump"]
        out.append((lit(not d["alloc"] and not d["store"]), len(steps) - 1, "no leaked IP after crash + restart + resync", []))
    return out
