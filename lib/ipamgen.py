"""Generators and Coq printers for crdIpam histories (shared by C05, C08, C09)."""
import json
import vf
from vf import cN, cZ, cbool, cstr, clist, copt, cpair, cnat
from props.C20 import O, cjson, render, ip2s

IMPORTS = ("From Coq Require Import String.\nFrom stdpp Require Import gmap.\nFrom Galaxy.Base Require Import Strs.\n"
           "From Galaxy.Model Require Import Nets Pool Ipam.\nFrom Galaxy.Corr Require Import CorrBase Ipamc.\n")

KEYS = ["sts_ns1_web_web-0", "sts_ns1_web_web-1", "sts_ns2_db_db-0", "dp_ns1_api_api-7f9c-x1", "dp_ns1_api_api-7f9c-x2",
        "dp_ns1_api_", "pool__p1_dp_ns1_api_api-7f9c-x1", "pool__p1_dp_ns1_job_job-1-ab", "pool__p1_", "_ns1_bare_bare",
        "tapps_ns1_t_t-3", "sts_ns1_web_web-10"]
NODES = ["", "node1", "node2", "node3"]
UIDS = ["", "uid-a", "uid-b", "uid-c"]


def s2ip(s):
    a, b, c, d = [int(x) for x in s.split(".")]
    return a << 24 | b << 16 | c << 8 | d


def parse_subnet(s):
    a, l = s.split("/")
    return s2ip(a), int(l)


# ------------------------------------------------------------------ topologies
def gen_topology(rng, ctx=None, small=True):
    """1-3 pools; node subnets may be shared by pools; pools may share a pod subnet (same gateway) with disjoint
    ranges; returns list of dicts {nodeSubnets:[cidr], subnet, gateway, vlan, ranges:[[a,b]]}"""
    npools = rng.choice([1, 2, 2, 3])
    node_subnets = ["10.%d.0.0/24" % k for k in range(1, 5)] + ["10.9.9.9/32", "10.8.0.0/16"]
    pools = []
    share_pod_subnet = rng.random() < 0.35
    for i in range(npools):
        base = (10 << 24) | ((100 + (0 if share_pod_subnet else i)) << 16)
        masklen = rng.choice([24, 24, 26])
        gw = base + 1
        ranges = []
        # disjoint across pools even when the pod subnet is shared: pool i uses offsets [16*i+2 .. 16*i+15]
        cur = base + 16 * i + 2
        for _ in range(rng.choice([1, 1, 2, 3])):
            ln = rng.choice([1, 1, 2, 3, 4])
            last = min(base + 16 * i + 15, cur + ln - 1)
            if cur > last:
                break
            ranges.append([cur, last])
            cur = last + rng.choice([2, 3])
        ns = rng.sample(node_subnets, rng.choice([1, 1, 2]))
        if pools and rng.random() < 0.4:
            ns[0] = pools[0]["nodeSubnets"][0]           # node subnet shared by several pools
        pools.append({"nodeSubnets": ns, "subnet": "%s/%d" % (ip2s(base), masklen), "gateway": ip2s(gw),
                      "vlan": rng.choice([0, 0, 2, 100]), "ranges": ranges})
    if ctx:
        ctx.dist("topology:%d-pools%s" % (npools, "-shared-pod-subnet" if share_pod_subnet else ""))
    return pools


def mutate_topology(rng, pools):
    """a new configuration derived from the old one: drop / add a pool, shrink / grow / move ranges"""
    pools = json.loads(json.dumps(pools))
    which = rng.choice(["drop", "shrink", "grow", "move", "same", "fresh", "subnets"])
    if which == "drop" and len(pools) > 1:
        del pools[rng.randrange(len(pools))]
    elif which == "shrink":
        p = rng.choice(pools)
        if p["ranges"]:
            r = rng.choice(p["ranges"])
            if r[0] < r[1]:
                if rng.random() < 0.5:
                    r[0] += 1
                else:
                    r[1] -= 1
            else:
                p["ranges"].remove(r)
    elif which == "grow":
        p = rng.choice(pools)
        if p["ranges"]:
            r = p["ranges"][-1]
            base = s2ip(p["subnet"].split("/")[0])
            if (r[1] + 1 - base) % 16 not in (0, 1):     # stay inside the pool's private offset window
                r[1] += 1
    elif which == "move" and len(pools) > 1:
        a, b = rng.sample(range(len(pools)), 2)
        if pools[a]["ranges"] and pools[a]["subnet"] == pools[b]["subnet"]:
            r = pools[a]["ranges"].pop()
            pools[b]["ranges"].append(r)
            pools[b]["ranges"].sort()
            # keep the not-mergeable rule
            ok = all(pools[b]["ranges"][k][0] > pools[b]["ranges"][k - 1][1] + 1 for k in range(1, len(pools[b]["ranges"])))
            if not ok:
                return mutate_topology(rng, pools)
    elif which == "fresh":
        return gen_topology(rng)
    elif which == "subnets":
        p = rng.choice(pools)
        p["nodeSubnets"] = [rng.choice(["10.1.0.0/24", "10.2.0.0/24", "10.3.0.0/24", "10.7.0.0/24"])]
    return pools


def pool_tree(p):
    ips = [ip2s(a) if a == b else ip2s(a) + "~" + ip2s(b) for a, b in p["ranges"]]
    m = [("nodeSubnets", list(p["nodeSubnets"])), ("ips", ips), ("subnet", p["subnet"]), ("gateway", p["gateway"])]
    if p["vlan"]:
        m.append(("vlan", p["vlan"]))
    return O(m)


def topo_subnets(pools):
    out = []
    for p in pools:
        for s in p["nodeSubnets"]:
            a, l = parse_subnet(s)
            size = 1 << (32 - l)
            m = "%s/%d" % (ip2s(a & ~(size - 1) & 0xffffffff), l)
            if m not in out:
                out.append(m)
    return out


def topo_ips(pools):
    return [x for p in pools for a, b in p["ranges"] for x in range(a, b + 1)]


# ------------------------------------------------------------------ operations
def gen_attr(rng):
    return {"policy": rng.choice([0, 0, 1, 2]), "node": rng.choice(NODES), "uid": rng.choice(UIDS)}


def gen_ranges(rng, pools):
    ips = topo_ips(pools) or [s2ip("10.100.0.2")]
    rss = []
    used = set()
    for _ in range(rng.choice([1, 1, 2, 3])):
        rs = []
        for _ in range(rng.choice([1, 1, 2])):
            a = rng.choice(ips) + rng.choice([0, 0, 0, -1])
            b = a + rng.choice([0, 0, 1, 2, 3])
            if any(x in used for x in range(a, b + 1)):
                continue                                    # requested ranges are pairwise disjoint (property's quantifier)
            used.update(range(a, b + 1))
            rs.append(ip2s(a) if a == b and rng.random() < 0.6 else ip2s(a) + "~" + ip2s(b))
        if rs:
            rss.append(rs)
    return rss


def gen_op(rng, pools, ctx=None, faults=True, kinds=None):
    subnets = topo_subnets(pools) + ["10.77.0.0/24"]
    fault = rng.choice([-1] * 7 + [0, 0, 1, 2, 3]) if faults else -1
    kinds = kinds or ["alloc_in_subnet"] * 5 + ["alloc_ranges"] * 3 + ["release"] * 3 + ["reserve"] * 3 + \
        ["alloc_with_key"] * 2 + ["update_attr"] * 2 + ["release_ips"] * 2 + ["alloc_specific"] * 2 + \
        ["admin_reserve", "admin_unreserve", "watch_deliver", "watch_deliver", "configure", "restart"] + \
        ["by_key_ranges", "subnets_by_ranges", "node_subnet"]
    k = rng.choice(kinds)
    if ctx:
        ctx.dist("op:" + k + ("+fault" if fault >= 0 and k not in ("admin_reserve", "admin_unreserve", "watch_deliver",
                                                                     "by_key_ranges", "subnets_by_ranges", "node_subnet",
                                                                     "restart") else ""))
    pk = lambda: rng.choice(["@ka%d" % rng.randrange(6)] * 3 + [rng.choice(KEYS)] * 2)
    if k == "alloc_in_subnet":
        return {"op": k, "key": rng.choice(KEYS), "subnet": rng.choice(subnets), "attr": gen_attr(rng), "fault": fault}
    if k == "alloc_ranges":
        return {"op": k, "key": rng.choice(KEYS), "subnet": rng.choice(subnets), "ranges": gen_ranges(rng, pools),
                "attr": gen_attr(rng), "fault": fault}
    if k == "release":
        r = rng.randrange(6)
        return {"op": k, "key": rng.choice(["@ka%d" % r] * 4 + [rng.choice(KEYS)]), "ip": rng.choice(["@a%d" % r] * 4 + ["@u1"]),
                "fault": fault}
    if k == "reserve":
        old = pk()
        new = rng.choice([old, old, rng.choice(KEYS), "dp_ns1_api_", "pool__p1_"])
        return {"op": k, "old": old, "new": new, "attr": rng.choice([{"policy": 0, "node": "", "uid": ""}, gen_attr(rng)]),
                "fault": fault}
    if k == "alloc_with_key":
        return {"op": k, "old": pk(), "new": rng.choice(KEYS), "subnet": rng.choice(subnets), "attr": gen_attr(rng),
                "fault": fault}
    if k == "update_attr":
        r = rng.randrange(6)
        return {"op": k, "key": rng.choice(["@ka%d" % r] * 4 + [rng.choice(KEYS)]), "ip": "@a%d" % r, "attr": gen_attr(rng),
                "fault": fault}
    if k == "release_ips":
        m = {}
        for _ in range(rng.choice([1, 2, 3])):
            r = rng.randrange(6)
            m[rng.choice(["@a%d" % r] * 4 + ["@u%d" % r])] = rng.choice(["@ka%d" % r] * 4 + [rng.choice(KEYS)])
        return {"op": k, "m": m, "fault": fault}
    if k == "alloc_specific":
        return {"op": k, "key": rng.choice(KEYS), "ip": rng.choice(["@u%d" % rng.randrange(6)] * 4 + ["@a0", "10.55.0.1"]),
                "attr": gen_attr(rng), "fault": fault}
    if k == "admin_reserve":
        return {"op": k, "ip": rng.choice(["@u%d" % rng.randrange(6)] * 4 + ["@a0", "10.55.0.1"]),
                # (only the label makes an object a reservation: its key may be anything, also empty)
                "key": rng.choice(KEYS + ["reserved-by-admin", "", ""]), "policy": rng.choice([0, 2])}
    if k == "admin_unreserve":
        return {"op": k, "ip": "@a%d" % rng.randrange(6)}
    if k == "watch_deliver":
        return {"op": k, "ip": "@pending"}
    if k == "configure":
        return {"op": k, "pools": None, "fault": rng.choice([-1, -1, -1, 0, 1])}     # filled by gen_history
    if k == "restart":
        return {"op": k}
    if k == "by_key_ranges":
        return {"op": k, "key": pk(), "ranges": gen_ranges(rng, pools)}
    if k == "subnets_by_ranges":
        return {"op": k, "ranges": rng.choice([[], gen_ranges(rng, pools)])}
    if k == "node_subnet":
        return {"op": k, "ip": rng.choice(["10.1.0.7", "10.2.0.200", "10.9.9.9", "10.8.3.4", "192.168.0.1", "10.3.0.1"])}
    raise ValueError(k)


def gen_history(rng, ctx=None, length=None, faults=True, kinds=None, reconf=True):
    pools = gen_topology(rng, ctx)
    ops = [{"op": "configure", "pools": [render(pool_tree(p)) for p in pools], "_topo": pools}]
    n = length or rng.choice([6, 10, 14, 20])
    pending = []
    for _ in range(n):
        o = gen_op(rng, pools, ctx, faults, kinds)
        if o["op"] == "configure":
            if not reconf:
                continue
            pools = mutate_topology(rng, pools)
            o["pools"] = [render(pool_tree(p)) for p in pools]
            o["_topo"] = pools
        ops.append(o)
    return ops


# ------------------------------------------------------------------ observations -> Coq
def cattr(a):
    a = a or {}
    return "{| a_policy := %s; a_node := %s; a_uid := %s |}" % (cN(a.get("policy", 0)), cstr(a.get("node", "")),
                                                                  cstr(a.get("uid", "")))


def csubnet(s):
    try:
        a, l = parse_subnet(s)
    except Exception:
        return None
    size = 1 << (32 - l)
    return cpair(cN(a & ~(size - 1) & 0xffffffff), cN(l))


def crange(s):
    if "~" in s:
        a, b = s.split("~")
        return cpair(cN(s2ip(a)), cN(s2ip(b)))
    return cpair(cN(s2ip(s)), cN(s2ip(s)))


def cranges(rss):
    return clist(clist(crange(r) for r in rs) for rs in rss)


def cres(r):
    return {"ok": "AOk", "err": "AErr", "noip": "ANoIP"}.get(r, "AStuck")


def cent(e):
    return "(%s, %s, %s, %s, %s)" % (cstr(e[1]), cN(e[2]), cstr(e[3]), cstr(e[4]), cbool(e[5]))


def cdump(d):
    al = clist(cpair(cN(e[0]), cent(e)) for e in d["alloc"])
    pl = clist(cpair(cN(e[0]), "(%s, %s, %s, %s)" % (cN(e[6][0]), cN(e[6][1]), cN(e[6][2]),
                                                      clist(csubnet(s) for s in e[6][3]))) for e in d["alloc"])
    un = clist(cN(x) for x in d["unalloc"])
    st = clist(cpair(cN(e[0]), cent(e)) for e in d["store"])
    return "{| od_alloc := %s; od_pool := %s; od_unalloc := %s; od_store := %s |}" % (al, pl, un, st)


def injected(calls):
    return any(c[2] for c in calls or [])


def cop(ex, o):
    """the executed op + observed oracle choices as a Coq [op]; None if outside the modelled domain.
    returns (term, observed_ips)"""
    k = ex["op"]
    calls = o.get("calls") or []
    if k == "configure":
        if "decode_err" in o:
            trees = [json.loads(t, object_pairs_hook=lambda p: O(p)) for t in ex["pools"]]
            return "(OConfigure %s false [])" % clist(cjson(t) for t in trees), []
        trees = [json.loads(t, object_pairs_hook=lambda p: O(p)) for t in ex["pools"]]
        listfail = any(c[0] == "list" and c[2] for c in calls)
        delfail = [s2ip(c[1]) for c in calls if c[0] == "delete" and c[2]]
        return "(OConfigure %s %s %s)" % (clist(cjson(t) for t in trees), cbool(listfail), clist(cN(x) for x in delfail)), []
    if k == "restart":
        if injected(calls):
            return None, []
        trees = [json.loads(t, object_pairs_hook=lambda p: O(p)) for t in ex["pools"]]
        return "(ORestart %s)" % clist(cjson(t) for t in trees), []
    if k == "alloc_specific":
        try:
            ip = s2ip(ex["ip"])
        except Exception:
            return None, []
        return "(OAllocSpecific %s %s %s %s)" % (cstr(ex["key"]), cN(ip), cattr(ex.get("attr")), cbool(injected(calls))), []
    if k == "alloc_in_subnet":
        sn = csubnet(ex["subnet"])
        creates = [c for c in calls if c[0] == "create"]
        choice = copt(cN(s2ip(creates[0][1]))) if creates else "None"
        ips = [o["ip"]] if o.get("res") == "ok" else []
        return "(OAllocInSubnet %s %s %s %s %s)" % (cstr(ex["key"]), sn, cattr(ex.get("attr")), choice, cbool(injected(calls))), ips
    if k == "alloc_with_key":
        gets = [c for c in calls if c[0] == "get"]
        choice = copt(cN(s2ip(gets[0][1]))) if gets else "None"
        return "(OAllocWithKey %s %s %s %s %s %s)" % (cstr(ex["old"]), cstr(ex["new"]), csubnet(ex["subnet"]),
                                                      cattr(ex.get("attr")), choice, cbool(injected(calls))), []
    if k == "reserve":
        gets = [c for c in calls if c[0] == "get"]
        order = [s2ip(c[1]) for c in gets]
        nfail = "None"
        idx = -1
        for c in calls:
            if c[0] == "get":
                idx += 1
            if c[2]:
                nfail = "(Some %s)" % cnat(idx)
        return "(OReserve %s %s %s %s %s)" % (cstr(ex["old"]), cstr(ex["new"]), cattr(ex.get("attr")),
                                              clist(cN(x) for x in order), nfail), []
    if k == "update_attr":
        return "(OUpdateAttr %s %s %s %s)" % (cstr(ex["key"]), cN(s2ip(ex["ip"])), cattr(ex.get("attr")), cbool(injected(calls))), []
    if k == "release":
        return "(ORelease %s %s %s)" % (cstr(ex["key"]), cN(s2ip(ex["ip"])), cbool(injected(calls))), []
    if k == "release_ips":
        dels = [c for c in calls if c[0] == "delete"]
        nfail = "None"
        for i, c in enumerate(dels):
            if c[2]:
                nfail = "(Some %s)" % cnat(i)
        m = clist(cpair(cN(s2ip(a)), cstr(b)) for a, b in sorted(ex["m"].items()))
        return "(OReleaseIPs %s %s %s)" % (m, clist(cN(s2ip(c[1])) for c in dels), nfail), []
    if k == "alloc_ranges":
        rss = ex.get("ranges") or []
        if not rss:
            ex2 = dict(ex)
            ex2["op"] = "alloc_in_subnet"
            t, _ = cop(ex2, dict(o, ip=(o.get("ips") or [0])[0]))
            return t, (o.get("ips") or []) if o.get("res") == "ok" else []
        if any(c[0] == "delete" and c[2] for c in calls):
            return None, []                       # an injected failure of a ROLLBACK delete: two faults, outside the quantifier
        creates = [c for c in calls if c[0] == "create"]
        nfail = "None"
        for i, c in enumerate(creates):
            if c[2]:
                nfail = "(Some %s)" % cnat(i)
        return "(OAllocRanges %s %s %s %s %s)" % (cstr(ex["key"]), csubnet(ex["subnet"]), cranges(rss),
                                                  cattr(ex.get("attr")), nfail), (o.get("ips") or []) if o.get("res") == "ok" else []
    if k == "admin_reserve":
        try:
            ip = s2ip(ex["ip"])
        except Exception:
            return None, []
        return "(OAdminReserve %s %s %s)" % (cN(ip), cstr(ex["key"]), cN(ex.get("policy", 0))), []
    if k == "admin_unreserve":
        return "(OAdminUnreserve %s)" % cN(s2ip(ex["ip"])), []
    if k == "watch_deliver":
        if o.get("res") == "skipped":
            return "SKIP", []
        return "(OWatch %s)" % cN(s2ip(ex["ip"])), []
    return "SKIP", []


def history_term(steps):
    """steps: list of harness step observations -> Coq [list ostep] term, number of modelled steps, truncated?"""
    terms = []
    for o in steps:
        ex = o.get("exec") or {}
        if o.get("res") in ("panic", "timeout", "harness-error") or "dump" not in o:
            return clist(terms), len(terms), "impl-" + str(o.get("res"))
        t, ips = cop(ex, o)
        if t is None:
            return clist(terms), len(terms), "out-of-domain"
        if t == "SKIP":
            continue
        res = o.get("res")
        if ex["op"] in ("admin_reserve", "admin_unreserve"):
            res = "ok"
        def tup(t_, res_, ips_, dump_):
            return "(" + t_ + ", " + cres(res_) + ", " + clist(cN(x) for x in ips_) + ", " + dump_ + ")"
        nested = o.get("nested")
        if nested:
            if nested.get("res") in ("timeout", "harness-error", "panic") or "exec" not in nested:
                return clist(terms), len(terms), "impl-nested-" + str(nested.get("res"))
            nt, nips = cop(nested["exec"], dict(nested, calls=[]))
            full = "(Some " + cdump(o["dump"]) + ")"
            if nested.get("during"):
                # the request completed while ConfigurePool was listing: for an atomic ConfigurePool that is "before"
                terms.append(tup(nt, nested.get("res"), nips, "None"))
                terms.append(tup(t, res, ips, full))
            else:
                terms.append(tup(t, res, ips, "None"))
                terms.append(tup(nt, nested.get("res"), nips, full))
            continue
        terms.append(tup(t, res, ips, "(Some " + cdump(o["dump"]) + ")"))
    return clist(terms), len(terms), None
