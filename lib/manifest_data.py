BASELINE_OFF = ("cd /repo && GOFLAGS=-mod=mod GOPROXY=off GOSUMDB=off go test -json -vet=off -count=1 -timeout 25m ./...")
HOOK_COMMITS = []
NOTES = ("Every check: (1) re-checks the property's Coq theorems (full .vo build, Print Assumptions, forbidden-construct grep), "
         "(2) rebuilds the Go harness from /repo's working tree with -tags verif, (3) runs generated + corpus cases on the real code, "
         "(4) evaluates the Coq model and the Coq monitors on the same cases with vm_compute, (5) reports VIOLATION / KNOWN-FINDING. "
         "See DESIGN.md.")
CLAIMED = {}
NOT_CLAIMED = {}
