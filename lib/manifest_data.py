BASELINE_OFF = ("cd /repo && GOFLAGS=-mod=mod GOPROXY=off GOSUMDB=off go test -json -vet=off -count=1 -timeout 25m ./...")
HOOK_COMMITS = ["f20f58a", "e864c3e", "f50cc2d", "8d815e1", "ff14fd0", "7fed6f0", "fe2ed3a", "6b6d9ec", "557b035", "2ef44e6", "7cac5c7", "bc03792"]
NOTES = ("Every check: (1) re-checks the property's Coq theorems (full .vo build, Print Assumptions, forbidden-construct grep), "
         "(2) rebuilds the Go harness from /repo's working tree with -tags verif, (3) runs generated + corpus cases on the real code, "
         "(4) evaluates the Coq model and the Coq monitors on the same cases with vm_compute, (5) reports VIOLATION / KNOWN-FINDING. "
         "See DESIGN.md.")
CLAIMED = {}
NOT_CLAIMED = {}
