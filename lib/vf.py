"""Shared machinery of the galaxy verification checks.

bin/check <property> loads lib/props/<property>.py and calls its run(ctx).  A property module
  1. names the Coq theorems that decide the property (ctx.theorems) -- they are re-checked
     with Print Assumptions against the compiled development on every run,
  2. generates cases from ctx.rng (one PRNG, seeded by VERIF_SEED),
  3. runs them on the REAL code through the Go harness (rebuilt from /repo's working tree),
  4. evaluates the Coq model and the Coq monitors on the same cases (ctx.coq_bools),
  5. reports disagreements / monitor failures through ctx.violation(...),
  6. ctx.finish() matches known findings, writes evidence and sets the exit status.
"""
import fcntl, hashlib, json, os, random, re, subprocess, sys, time

ROOT = os.path.dirname(os.path.dirname(os.path.abspath(__file__)))
REPO = os.environ.get("VERIF_REPO", "/repo")
BUILD = os.path.join(ROOT, "build")
COQ = os.path.join(ROOT, "coq")
BIN = os.path.join(BUILD, "bin-" + hashlib.sha1(REPO.encode()).hexdigest()[:8])
FORBIDDEN = r"Admitted|admit\b|\bAxiom\b|\bParameter\b|\bConjecture\b|Unset Guard|bypass_check|Admit Obligations|-type-in-type|impredicative-set|native_compute"
ALLOWED_AXIOMS = set()   # no axioms are expected anywhere; stdlib axioms would have to be named here

GOENV = dict(GOFLAGS="-mod=mod", GOPROXY="off", GOSUMDB="off", GOTOOLCHAIN="local")


def log(*a):
    print(*a, file=sys.stderr, flush=True)


class Lock:
    def __init__(self, name):
        os.makedirs(BUILD, exist_ok=True)
        self.path = os.path.join(BUILD, name + ".lock")

    def __enter__(self):
        self.f = open(self.path, "w")
        fcntl.flock(self.f, fcntl.LOCK_EX)
        return self

    def __exit__(self, *a):
        fcntl.flock(self.f, fcntl.LOCK_UN)
        self.f.close()


# ------------------------------------------------------------------ Coq terms
def cN(n):
    return "%d" % int(n)


def cZ(z):
    z = int(z)
    return "(%d)%%Z" % z if z < 0 else "%d%%Z" % z


def cbool(b):
    return "true" if b else "false"


def cstr(s):
    """a Go string (bytes) as a Coq [str]; printable text stays readable"""
    if isinstance(s, str):
        b = s.encode("utf-8", "surrogateescape")
    else:
        b = bytes(s)
    if all(32 <= c < 127 and c != 34 for c in b):
        return '(L "%s"%%string)' % b.decode("ascii")
    return "(B [%s])" % ";".join(str(c) for c in b)


def clist(items):
    return "[" + "; ".join(items) + "]"


def copt(x):
    return "None" if x is None else "(Some %s)" % x


def cpair(a, b):
    return "(%s, %s)" % (a, b)


def cnat(n):
    n = int(n)
    return "%d%%nat" % n if n < 5000 else "(N.to_nat %d)" % n


# ------------------------------------------------------------------ build steps
def sh(cmd, **kw):
    return subprocess.run(cmd, shell=isinstance(cmd, str), stdout=subprocess.PIPE, stderr=subprocess.STDOUT,
                          universal_newlines=True, **kw)


def coq_build(deps=None):
    """full .vo build of the development (no -vos); returns (ok, logtext).  With deps (a list of
    file base names) a failure in a file outside deps is tolerated (make -k): several properties
    share the tree and one broken file must not take the others down."""
    with Lock("coq"):
        os.makedirs(BUILD, exist_ok=True)
        r = sh([os.path.join(ROOT, "bin", "coqmake"), "-k"])
        with open(os.path.join(BUILD, "coq.log"), "a") as f:
            f.write(r.stdout)
        if r.returncode != 0 and deps:
            failed = set(re.findall(r"theories/\S*?/(\w+)\.vo\b.*Error", r.stdout)) | \
                set(re.findall(r'File "\./theories/\S*?/(\w+)\.v"', r.stdout))
            if failed and not (failed & set(deps)):
                log("coq: ignoring build failures outside this property's files:", sorted(failed))
                return True, r.stdout
        return r.returncode == 0, r.stdout


def coqchk_module(module):
    """thorough tier: re-check the compiled property file and everything it depends on with the independent checker
    coqchk, and collect the axioms it reports.  The result is cached per state of the compiled tree (one run per tree
    and module, shared between checks through a lock).  Returns (ok, axioms(list) or None, text)."""
    h = hashlib.sha1()
    for d, _, fs in sorted(os.walk(os.path.join(COQ, "theories"))):
        for fn in sorted(fs):
            if fn.endswith(".vo"):
                st = os.stat(os.path.join(d, fn))
                h.update(("%s %d %d\n" % (fn, st.st_size, int(st.st_mtime))).encode())
    cdir = os.path.join(BUILD, "coqchk")
    os.makedirs(cdir, exist_ok=True)
    cache = os.path.join(cdir, "%s-%s.txt" % (module, h.hexdigest()[:16]))
    with Lock("coqchk-" + module):
        if os.path.exists(cache):
            out = open(cache).read()
        else:
            r = sh(["timeout", "5400", "coqchk", "-silent", "-o", "-Q", "theories", "Galaxy", "Galaxy.Props." + module], cwd=COQ)
            out = "EXIT %d\n" % r.returncode + r.stdout
            with open(cache, "w") as f:
                f.write(out)
    ok = out.startswith("EXIT 0")
    axioms = None
    m = re.search(r"\* Axioms:\s*(.*?)\n\s*\n|\* Axioms:\s*(.*?)\Z", out, re.S)
    if m:
        body = (m.group(1) or m.group(2) or "").strip()
        axioms = [] if body.startswith("<none>") else [l.strip() for l in body.split("\n") if l.strip() and not l.strip().startswith("*")]
    return ok, axioms, out[-3000:]


def strip_coq_comments(text):
    """remove (* ... *) comments (nested, multi-line), keeping line structure"""
    out, depth, i, n = [], 0, 0, len(text)
    while i < n:
        if text.startswith("(*", i):
            depth += 1
            i += 2
        elif depth and text.startswith("*)", i):
            depth -= 1
            i += 2
        else:
            if depth == 0 or text[i] == "\n":
                out.append(text[i])
            i += 1
    return "".join(out)


def forbidden_hits():
    hits = []
    for d, _, fs in os.walk(os.path.join(COQ, "theories")):
        for fn in fs:
            if fn.endswith(".v"):
                p = os.path.join(d, fn)
                code = strip_coq_comments(open(p, errors="replace").read())
                for i, line in enumerate(code.split("\n"), 1):
                    if re.search(FORBIDDEN, line):
                        hits.append("%s:%d: %s" % (os.path.relpath(p, ROOT), i, line.strip()))
    return hits


def harness_build(cmd):
    """rebuild one harness command from the repository's CURRENT working tree; returns (ok, log)"""
    with Lock("harness"):
        env = dict(os.environ)
        env.update(GOENV)
        env["VERIF_REPO"] = REPO
        r = sh([os.path.join(ROOT, "harness", "build.sh"), BIN, cmd], env=env)
        return r.returncode == 0, r.stdout


def _big_stack():
    import resource
    try:
        soft, hard = resource.getrlimit(resource.RLIMIT_STACK)
        want = hard if hard != resource.RLIM_INFINITY else resource.RLIM_INFINITY
        resource.setrlimit(resource.RLIMIT_STACK, (want, hard))
    except (ValueError, OSError):
        pass


def coqc_run(name, text, timeout=1200):
    """compile a generated file against the development; returns (rc, output)"""
    d = os.path.join(BUILD, "tmp")
    os.makedirs(d, exist_ok=True)
    name = "%s_p%d" % (name, os.getpid())          # two checks running at the same time never share a file
    path = os.path.join(d, name + ".v")
    with open(path, "w") as f:
        f.write(text)
    # (vm_compute on a few thousand flows / histories recurses deeply: the evaluation gets the largest stack the system allows
    #  instead of the default 8 MB)
    r = sh(["timeout", str(timeout), "coqc", "-Q", os.path.join(COQ, "theories"), "Galaxy",
            "-w", "-notation-overridden,-deprecated-hint-without-locality,-ambiguous-paths", path], cwd=d, preexec_fn=_big_stack)
    for ext in (".vo", ".vok", ".vos", ".glob"):
        try:
            os.remove(os.path.join(d, name + ext))
        except OSError:
            pass
    try:
        os.remove(os.path.join(d, "." + name + ".aux"))
    except OSError:
        pass
    return r.returncode, r.stdout


def parse_bools(out, marker):
    """bools printed by `Eval vm_compute in (<marker>, [...])`-style output after a marker line"""
    m = re.search(re.escape(marker) + r"(.*?)(?:\n\S*END_" + re.escape(marker) + r"|\Z)", out, re.S)
    if not m:
        return None
    return [t == "true" for t in re.findall(r"\b(true|false)\b", m.group(1))]


class Ctx:
    def __init__(self, pid, tier, seed):
        self.pid, self.tier, self.seed = pid, tier, seed
        self.rng = random.Random(seed * 1000003 + int(hashlib.sha1(pid.encode()).hexdigest()[:8], 16))
        self.t0 = time.time()
        self.violations = []          # dicts: kind, what, replay(dict), found(bool)
        self.known_printed = []
        self.cov = dict(evaluations=0, distinct_nontrivial=0, rule="", samples=[], obligations=0, discharged=0,
                        checker_cmd="", trusted_base=[], traces_validated_against_impl=0,
                        input_distribution={})
        self.assumptions = []
        self.theorem_report = {}
        self._distinct = set()
        self.harness_ok = None
        self.findings = [f for f in json.load(open(os.path.join(ROOT, "known_findings.json")))["findings"]
                         if f.get("property") == pid]

    @property
    def quick(self):
        return self.tier == "quick"

    # -------------------------------------------------------------- proofs
    def theorems(self, module, names, refuted=(), extra_modules=(), deps=None):
        """Re-check, against the compiled development, that every named theorem exists and what
        it assumes.  `names` are the theorems that decide the property; `refuted` are witnesses
        kept for documentation."""
        ok, out = coq_build(deps)
        self.cov["checker_cmd"] = ("make -C coq -f Makefile.coq (coqc 8.16.1, full .vo build) + "
                                   "coqc Print Assumptions on %s; thorough tier adds coqchk -silent -o" % module)
        hits = forbidden_hits()
        allnames = list(names) + list(refuted)
        self.cov["obligations"] += len(allnames) + 1
        if not ok:
            self.violation("proof", "the Coq development does not build", {"log": out[-4000:]}, found=False,
                           theorem=module)
            return False
        if hits:
            self.violation("proof", "forbidden construct in the development", {"hits": hits}, found=False,
                           theorem=module)
            return False
        self.cov["discharged"] += 1
        text = "From Galaxy.Props Require Import %s.\n" % module
        for m in extra_modules:
            text += "From Galaxy Require Import %s.\n" % m
        for n in allnames:
            text += 'Goal True. idtac "THM %s". Abort.\nCheck %s.\nPrint Assumptions %s.\n' % (n, n, n)
        rc, out = coqc_run("pa_" + self.pid, text, timeout=600)
        parts = re.split(r"THM (\S+)\n", out)
        seen = {}
        for i in range(1, len(parts) - 1, 2):
            seen[parts[i]] = parts[i + 1]
        good = True
        for n in allnames:
            body = seen.get(n)
            if rc != 0 or body is None or "Error" in body:
                self.violation("proof", "theorem %s is missing or does not check" % n,
                               {"theorem": n, "output": out[-3000:]}, found=False, theorem=n)
                good = False
                continue
            if "Closed under the global context" in body:
                ax = []
            else:
                ax = re.findall(r"^(\S+)\s*:", body.split("Axioms:")[-1], re.M) if "Axioms:" in body else ["?"]
            bad = [a for a in ax if a not in ALLOWED_AXIOMS]
            stmt = body.split("\n", 1)[0:1]
            self.theorem_report[n] = {"axioms": ax}
            if bad:
                self.violation("proof", "theorem %s depends on axioms %s" % (n, bad), {"theorem": n}, found=False,
                               theorem=n)
                good = False
            else:
                self.cov["discharged"] += 1
        if good and not self.quick:
            ok, axioms, text = coqchk_module(module)
            self.cov["obligations"] += 1
            self.cov["coqchk"] = {"module": "Galaxy.Props." + module, "ok": ok, "axioms": axioms}
            bad = [a for a in (axioms or []) if a not in ALLOWED_AXIOMS]
            if not ok or axioms is None or bad:
                self.violation("proof", "coqchk does not accept Props/%s.v (or reports axioms %s)" % (module, bad),
                               {"output": text}, found=False, theorem="coqchk " + module)
                good = False
            else:
                self.cov["discharged"] += 1
        return good

    # -------------------------------------------------------------- implementation
    def build_harness(self, cmd="gh"):
        if self.harness_ok is None:
            self.harness_ok = {}
        if cmd not in self.harness_ok:
            ok, out = harness_build(cmd)
            self.harness_ok[cmd] = ok
            if not ok:
                self.violation("correspondence", "the harness (%s) no longer builds against the working tree" % cmd,
                               {"log": out[-4000:]}, found=False, theorem="harness build")
        return self.harness_ok[cmd]

    def harness(self, sub, cases, shards=None, timeout=1800, env=None, cmd="gh"):
        """run cases (list of dicts) on the real code; returns list of observation dicts"""
        if not self.build_harness(cmd):
            return None
        if shards is None:
            shards = 1 if len(cases) < 200 else 16
        chunks = [cases[i::shards] for i in range(shards)]
        procs = []
        e = dict(os.environ)
        if env:
            e.update(env)
        for ch in chunks:
            p = subprocess.Popen([os.path.join(BIN, cmd), sub], stdin=subprocess.PIPE, stdout=subprocess.PIPE,
                                 stderr=subprocess.PIPE, env=e)
            procs.append(p)
        outs = []
        import threading
        results = [None] * shards

        def feed(i, p, ch):
            data = "".join(json.dumps(c) + "\n" for c in ch).encode()
            try:
                o, er = p.communicate(data, timeout=timeout)
            except subprocess.TimeoutExpired:
                p.kill()
                o, er = p.communicate()
            results[i] = (o, er)

        ths = [threading.Thread(target=feed, args=(i, p, ch)) for i, (p, ch) in enumerate(zip(procs, chunks))]
        [t.start() for t in ths]
        [t.join() for t in ths]
        obs = [None] * len(cases)
        for i, ch in enumerate(chunks):
            o, er = results[i]
            lines = [l for l in o.decode(errors="replace").split("\n") if l.strip()]
            for j in range(len(ch)):
                if j < len(lines):
                    try:
                        obs[i + j * shards] = json.loads(lines[j])
                    except ValueError:
                        obs[i + j * shards] = {"res": "harness-error", "err": "bad json from harness"}
                else:
                    # the process died (fatal error such as concurrent map write, or os.Exit) at this case
                    obs[i + j * shards] = {"res": "crash" if j == len(lines) else "not-run",
                                           "stderr": er.decode(errors="replace")[-2000:] if j == len(lines) else ""}
        return obs

    # -------------------------------------------------------------- model
    def coq_bools(self, name, imports, exprs, shard=400):
        """evaluate boolean Coq expressions with vm_compute; returns list of bools (None on failure)"""
        res = []
        jobs = []
        for k in range(0, len(exprs), shard):
            part = exprs[k:k + shard]
            text = imports + "\nImport ListNotations.\nOpen Scope N_scope.\n"
            text += "Definition cases : list bool := [\n  " + ";\n  ".join(part) + "\n].\n"
            text += 'Definition R := Eval vm_compute in cases.\nGoal True. idtac "BOOLS". Abort.\nPrint R.\n'
            jobs.append(("%s_%s_%d" % (name, self.pid, k), text, len(part)))
        from concurrent.futures import ThreadPoolExecutor
        with ThreadPoolExecutor(max_workers=16) as ex:
            outs = list(ex.map(lambda j: coqc_run(j[0], j[1]), jobs))
        for (nm, text, n), (rc, out) in zip(jobs, outs):
            bs = parse_bools(out, "BOOLS") if rc == 0 else None
            if bs is None or len(bs) != n:
                # once more, alone (the machine may have been short of memory with 16 evaluations in flight)
                log("coq evaluation failed for", nm, "- retrying once:", out[-1500:])
                time.sleep(2)
                rc, out = coqc_run(nm, text)
                bs = parse_bools(out, "BOOLS") if rc == 0 else None
            if bs is None or len(bs) != n:
                log("coq evaluation failed for", nm, out[-3000:])
                return None
            res.extend(bs)
        return res

    def coq_print(self, name, imports, expr):
        text = imports + "\nImport ListNotations.\nOpen Scope N_scope.\nEval vm_compute in (%s).\n" % expr
        rc, out = coqc_run("%s_%s" % (name, self.pid), text)
        return out.strip()

    # -------------------------------------------------------------- bookkeeping
    def count(self, case_key, nontrivial=True):
        self.cov["evaluations"] += 1
        if nontrivial:
            h = hashlib.sha1(json.dumps(case_key, sort_keys=True, default=str).encode()).hexdigest()
            self._distinct.add(h)

    def dist(self, key, n=1):
        d = self.cov["input_distribution"]
        d[key] = d.get(key, 0) + n

    def sample(self, s, limit=6):
        if len(self.cov["samples"]) < limit:
            self.cov["samples"].append(s)

    def violation(self, kind, what, replay, found=True, theorem=None, tags=()):
        """kind: proof | correspondence | monitor.  found=False: no failing input was found."""
        self.violations.append(dict(kind=kind, what=what, replay=replay, found=found, theorem=theorem,
                                    tags=list(tags)))

    def finish(self):
        os.makedirs(os.path.join(ROOT, "replays"), exist_ok=True)
        os.makedirs(os.path.join(ROOT, "evidence"), exist_ok=True)
        unlisted = []
        known_hit = {}
        for v in self.violations:
            kf = None
            for f in self.findings:
                if f.get("status", "open") != "open":
                    continue          # fixed entries suppress nothing
                if f["tag"] in v["tags"]:
                    kf = f
                    break
            if kf:
                known_hit.setdefault(kf["id"], (kf, v))
            else:
                unlisted.append(v)
        for fid, (kf, v) in sorted(known_hit.items()):
            print("KNOWN-FINDING: property=%s %s [%s]" % (self.pid, kf["what"], fid))
        # a listed finding that did not show up is only a note (the generators may not have reached it)
        for f in self.findings:
            if f.get("status", "open") == "open" and f["id"] not in known_hit and f.get("always_reported"):
                print("KNOWN-FINDING: property=%s %s [%s] (not re-observed in this run)" % (self.pid, f["what"], f["id"]))
        # report: failing inputs first; one VIOLATION line per distinct (kind, what)
        seen = set()
        lines = 0
        unlisted.sort(key=lambda v: (not v["found"],))
        any_found = any(v["found"] for v in unlisted)
        for v in unlisted:
            if not v["found"] and any_found and v["kind"] == "correspondence":
                continue      # the broken correspondence is explained by a failing input reported above
            key = (v["kind"], v["what"])
            if key in seen:
                continue
            seen.add(key)
            h = hashlib.sha1(json.dumps(v, sort_keys=True, default=str).encode()).hexdigest()[:10]
            path = os.path.join(ROOT, "replays", "%s-%s.json" % (self.pid, h))
            with open(path, "w") as f:
                json.dump(dict(property=self.pid, kind=v["kind"], what=v["what"], theorem_or_correspondence=v["theorem"],
                               failing_input_found=v["found"], seed=self.seed, tier=self.tier, replay=v["replay"]),
                          f, indent=1, default=str)
            tail = "" if v["found"] else " no-failing-input-found"
            print("VIOLATION property=%s replay=%s%s" % (self.pid, path, tail))
            log("  ", v["kind"], ":", v["what"])
            lines += 1
            if lines >= 5:
                break
        self.cov["distinct_nontrivial"] = len(self._distinct)
        self.cov["theorems"] = self.theorem_report
        self.cov["known_findings_reported"] = sorted(known_hit)
        ev = dict(property_id=self.pid, tier=self.tier, seed=self.seed, level="proof", coverage=self.cov,
                  assumptions=self.assumptions, wall_s=round(time.time() - self.t0, 2), violations=len(unlisted))
        with open(os.path.join(ROOT, "evidence", self.pid + ".json"), "w") as f:
            json.dump(ev, f, indent=1, default=str)
        log("%s %s: %d evaluations, %d distinct, %d/%d obligations, %d violation(s), %.1fs" % (
            self.pid, self.tier, self.cov["evaluations"], len(self._distinct), self.cov["discharged"],
            self.cov["obligations"], len(unlisted), time.time() - self.t0))
        return 1 if unlisted else 0


TRUSTED_COMMON = [
    "Coq 8.16.1 kernel (coqc; vm_compute used, native_compute not used); coqchk re-check in the thorough tier",
    "axioms: none (every property theorem prints 'Closed under the global context')",
    "hand-written Gallina model tied to /repo by this correspondence check: Go harness (rebuilt from the working "
    "tree, real galaxy code, harness-owned fakes), python driver/printers, vm_compute evaluation of the model",
]
