#!/usr/bin/env python3
"""Regenerates MANIFEST.json from lib/manifest_data.py (kept valid at all times)."""
import json, os, sys
sys.path.insert(0, os.path.dirname(os.path.abspath(__file__)))
import manifest_data as md
ROOT = os.path.dirname(os.path.dirname(os.path.abspath(__file__)))
checks = []
for pid in sorted(md.CLAIMED):
    c = md.CLAIMED[pid]
    checks.append({
        "property_id": pid,
        "quick_cmd": "bin/check %s --tier quick" % pid,
        "thorough_cmd": "bin/check %s --tier thorough" % pid,
        "evidence_file": "/verif/evidence/%s.json" % pid,
        "replay_cmd_template": "bin/check %s --replay {path}" % pid,
        "engine": "coq-model+correspondence",
        "level_claimed": {"category": "proof", "text": c["text"], "design_ref": c.get("design_ref", "DESIGN.md section 7")},
        "level_note": c["note"],
        "technique": c.get("technique", "Coq theorems over an executable Gallina model, tied to the code by a differential correspondence check"),
    })
allp = [json.loads(l)["id"] for l in open(os.path.join(ROOT, "properties.jsonl"))]
na = [{"property_id": p, "reason": md.NOT_CLAIMED.get(p, "model and harness for this property are not built yet; not claimed rather than claimed at a weaker technique")}
      for p in allp if p not in md.CLAIMED]
m = {
    "version": 1,
    "setup_cmd": "bin/setup",
    "hooks": {"guard": "verif (Go build tag)", "enable": "go build -tags verif (harness/build.sh; the harness module replaces tkestack.io/galaxy by /repo)",
              "baseline_off_cmd": md.BASELINE_OFF, "source_commits": md.HOOK_COMMITS, "add_only": True},
    "engines": [{"name": "coq-model+correspondence", "path": "coq/ lib/ harness/ bin/check",
                 "serves_properties": sorted(md.CLAIMED),
                 "kind_free_text": "Coq 8.16.1 development (models, proofs, property theorems) + Go harness driving the real code + python driver evaluating model and monitors with vm_compute"}],
    "checks": checks,
    "notes": md.NOTES,
    "not_applicable": na,
}
json.dump(m, open(os.path.join(ROOT, "MANIFEST.json"), "w"), indent=1)
print("MANIFEST.json: %d checks, %d not claimed" % (len(checks), len(na)))
