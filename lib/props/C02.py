"""C02 - Float IP is sticky across reschedule and rolling update."""
import plugincheck

THEOREMS = ["sticky_filter", "sticky_bind", "sticky_ranges", "dp_takes_reserve", "dp_takes_reserve_reachable",
            "pools_routable_reachable", "routable_loaded", "dp_waits_for_its_ip", "dp_offered_only_below_replicas",
            "dp_filter_then_bind_uses_reserve", "dp_waits_nonvacuous", "dp_filter_then_bind_nonvacuous",
            "restart_keeps_configured_allocations", "reload_keeps_configured_allocations", "restart_keeps_configured_nonvacuous"]
REFUTED = ["sticky_ranges_overlap_refuted", "restart_keeps_exact_entry_refuted"]
KNOWN_FINDINGS = []

MANIFEST = {
    "text": "Coq theorems over the scheduler-plugin model for EVERY world satisfying the invariant WInv (all reachable worlds do: "
            "C04's winv_reachable), every oracle and every fault record: sticky_filter (a pod whose key holds an IP is offered "
            "exactly the nodes from which one of its IPs is routable and filter changes nothing), sticky_bind (a successful bind "
            "of a pod without requested ranges writes exactly ONE of the IPs its key already holds, allocates nothing fresh, and "
            "whatever the outcome every IP of the key stays keyed by it), sticky_ranges (with k pairwise-disjoint requested range "
            "lists every list that already has an IP of the key keeps that IP in the same position; disjointness is necessary: "
            "sticky_ranges_overlap_refuted), dp_takes_reserve / dp_takes_reserve_reachable (a deployment / pool pod with "
            "immutable or never policy re-keys ONE of the IPs its app holds in reserve and allocates nothing fresh, or fails "
            "without changing anything). 'For as long as the reservation exists' is C03's never_kept / immutable_kept_sts and "
            "C04's live_bound_owned. Tied to the code by reschedule / eviction / node-loss / rolling-update scenario histories "
            "(+ incarnation races + random histories) on the real FloatingIPPlugin vs the model step by step, and by the sticky "
            "predicates evaluated on the implementation's dumps at every bind and filter. Replica test of Filter (Proofs/PluginReplicasP.v): dp_waits_for_its_ip / dp_offered_only_below_replicas - a replacement pod of an immutable/never deployment or pool is offered a node exactly while the app uses fewer IPs than it has replicas (pool size); dp_filter_then_bind_uses_reserve - filter followed by bind binds the pod with an IP that waited in the app's reserve, never a fresh one.",
    "note": "trusted: Coq kernel (no axioms); harness fakes; section atomicity (DESIGN.md section 5); when a key holds several IPs "
            "and the pod requests no range, WHICH of them is taken is Go's map order (an oracle in the model): the theorem says it "
            "is one of the key's IPs",
}


def run(ctx):
    ctx.cov["rule"] = plugincheck.RULE_COMMON + ("; plus sticky scenarios (statefulset / indexed bare pod / deployment / named pool with "
                      "immutable or never policy: delete, evict, node loss, events handled or dropped + resync, re-creation with the "
                      "same name, replacement pods with and without surge, bind on a filter-approved node); monitors sticky_bind / "
                      "sticky_ranges at every successful bind and dp_takes_reserve at every filter of the well-formed prefix")
    plugincheck.run(ctx, "C02", THEOREMS, REFUTED, plugincheck.mon_c02, nrandom=(100, 1000),
                    extra_scenarios=plugincheck.sticky_scenarios(ctx.rng, ctx, 120 if ctx.quick else 1200))


def replay(ctx, path):
    plugincheck.replay(ctx, path)
