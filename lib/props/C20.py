"""C20 - Floating-IP configuration and IP ranges decode, validate and round-trip."""
import json, re
import vf
from vf import cN, cZ, cbool, cstr, clist, copt, cpair

IMPORTS = ("From Coq Require Import List Ascii String NArith ZArith Bool.\n"
           "From Galaxy.Base Require Import Strs.\nFrom Galaxy.Model Require Import Nets Pool.\n"
           "From Galaxy.Corr Require Import CorrBase C20c.\n")

THEOREMS = ["range_roundtrip", "ipv4_roundtrip", "cidr_roundtrip", "accepted_valid", "size_card",
            "contains_enumerate", "enumerate_terminates", "pool_roundtrip"]
REFUTED = ["accepted_valid_refuted_wrap", "walk_refuted_wrap"]
# plugin level: a rejected reload changes nothing (Props/C09p.v, proofs in Proofs/PluginAnswerP.v)
PLUGIN_THEOREMS = ["rejected_reload_changes_nothing", "failed_list_changes_nothing"]

DEPS = ["Strs", "Nets", "Pool", "NetsP", "PoolP", "CorrBase", "C20c", "C20"]
MANIFEST = {
    "text": "Coq theorems over an executable model of nets/ip.go and floatingip.go (range/CIDR/IPv4 print-parse round trips, "
            "accepted_valid, size_card, contains_enumerate, enumerate_terminates, pool_roundtrip) hold for ALL JSON trees, "
            "addresses and ranges; the model is tied to the working tree by running ~2400 (quick) generated + corpus cases "
            "through the real decoder/encoder/Contains/Size/ConfigurePool and through the model, and the theorems' predicates "
            "are also evaluated as monitors on the implementation's own outputs Plugin level (Props/C09p.v): rejected_reload_changes_nothing / failed_list_changes_nothing - a reload whose text is rejected, or whose List call fails, leaves the whole plugin world as it was.",
    "note": "trusted: Coq kernel (no axioms), Go harness + python printers, encoding/json's lexer (the model starts at the JSON "
            "tree), IPv4/ASCII/escape-free/duplicate-free domain; IPv6 text is only checked for no panic / no hang",
}
KNOWN_FINDINGS = [
    {"id": "F9", "status": "fixed", "commit": "a344d99", "tag": "c20-order-check-wraps",
     "what": "fixed: property=C20 a344d99 fipCheck accepted unsorted/duplicate ranges after a range ending at 255.255.255.255 "
             "(Last+1 wrapped in uint32); witness accepted_valid_refuted_wrap, corpus pool 1"},
    {"id": "F4", "status": "fixed", "commit": "7cee827", "tag": "c20-walk-never-returns",
     "what": "fixed: property=C20 7cee827 walkIPRanges never returned for a range ending at 255.255.255.255 (uint32 loop "
             "variable wrapped), cache lock held; witness walk_refuted_wrap, corpus pool 2"},
    {"id": "F8a", "status": "fixed", "commit": "701da2e", "tag": "c20-null-node-subnet-panic",
     "what": "fixed: property=C20 701da2e \"nodeSubnets\":[null] made FloatingIPPool.UnmarshalJSON dereference nil; corpus pool 4"},
]
KEY_ORDER = ["nodeSubnets", "ips", "subnet", "gateway", "vlan"]


class O(list):
    """a JSON object as an ordered list of (key, value) pairs (duplicates allowed)"""


def ip2n(s):
    a, b, c, d = (int(x) for x in s.split("."))
    return (a << 24) | (b << 16) | (c << 8) | d


def ip2s(n):
    return "%d.%d.%d.%d" % (n >> 24 & 255, n >> 16 & 255, n >> 8 & 255, n & 255)


def render(t):
    if isinstance(t, O):
        return "{" + ",".join(json.dumps(k) + ":" + render(v) for k, v in t) + "}"
    if isinstance(t, list):
        return "[" + ",".join(render(v) for v in t) + "]"
    if isinstance(t, float):
        return repr(t)
    return json.dumps(t)


def cjson(t):
    if t is None:
        return "JNull"
    if isinstance(t, bool):
        return "(JBool %s)" % cbool(t)
    if isinstance(t, int):
        return "(JNum %s)" % cZ(t)
    if isinstance(t, float):
        return "JNumOther"
    if isinstance(t, str):
        return "(JStr %s)" % cstr(t)
    if isinstance(t, O):
        return "(JObj %s)" % clist(cpair(cstr(k), cjson(v)) for k, v in t)
    if isinstance(t, list):
        return "(JArr %s)" % clist(cjson(v) for v in t)
    raise ValueError(t)


def cpool(p):
    return ("{| p_nodesubnets := %s; p_gateway := %s; p_masklen := %s; p_vlan := %s; p_ranges := %s |}" % (
        clist(cpair(cN(a), cN(l)) for a, l in p["nodesubnets"]), cN(p["gateway"]), cN(p["masklen"]), cN(p["vlan"]),
        clist(cpair(cN(a), cN(b)) for a, b in p["ranges"])))


def in_domain_text(s):
    return ":" not in s and all(ord(c) < 128 for c in s)


# ---------------------------------------------------------------------------- generators
BOUNDARY = [0, 1, 2, 255, 256, 0x7fffffff, 0x80000000, 0xfffffffe, 0xffffffff, 0xffffff00, 0xfffffeff,
            0x0a000000, 0x0a0000ff, 0xc0a80001]


def gen_ip(rng):
    r = rng.random()
    if r < 0.25:
        return rng.choice(BOUNDARY)
    if r < 0.5:
        return (rng.choice([10, 172, 192, 255, 0]) << 24) | rng.randrange(1 << 24)
    return rng.randrange(1 << 32)


def mutate_text(rng, s):
    ops = ["lead0", "space", "drop", "dup", "char", "octet", "dot", "tilde", "empty", "colon", "pct"]
    op = rng.choice(ops)
    i = rng.randrange(len(s) + 1)
    if op == "lead0":
        parts = s.split(".")
        k = rng.randrange(len(parts))
        parts[k] = "0" + parts[k]
        return ".".join(parts)
    if op == "space":
        return s[:i] + " " + s[i:]
    if op == "drop" and s:
        i = rng.randrange(len(s))
        return s[:i] + s[i + 1:]
    if op == "dup" and s:
        i = rng.randrange(len(s))
        return s[:i] + s[i] + s[i:]
    if op == "char":
        return s[:i] + rng.choice("aZ-+/~.,x\t\"\\") .replace('"', "q").replace("\\", "b") + s[i:]
    if op == "octet":
        parts = s.split(".")
        k = rng.randrange(len(parts))
        parts[k] = str(rng.choice([256, 300, 999, 1000, 25500]))
        return ".".join(parts)
    if op == "dot":
        return s[:i] + "." + s[i:]
    if op == "tilde":
        return s[:i] + "~" + s[i:]
    if op == "empty":
        return ""
    if op == "colon":
        return s[:i] + ":" + s[i:]
    if op == "pct":
        return s[:i] + "%" + s[i:]
    return s


def gen_range_text(rng, ctx):
    a = gen_ip(rng)
    r = rng.random()
    if r < 0.3:
        s, kind = ip2s(a), "single"
    elif r < 0.75:
        b = min(0xffffffff, a + rng.choice([0, 1, 2, 5, 255, 256, 70000]))
        s, kind = ip2s(a) + "~" + ip2s(b), "range"
    elif r < 0.85:
        b = gen_ip(rng)
        s, kind = ip2s(a) + "~" + ip2s(b), "range-any-order"
    else:
        s, kind = ip2s(a) + "~" + ip2s(a), "range-equal"
    if rng.random() < 0.35:
        s = mutate_text(rng, s)
        kind += "+mutated"
        if rng.random() < 0.3:
            s = mutate_text(rng, s)
    ctx.dist("range:" + kind)
    return s


def cidr(a, l):
    return "%s/%d" % (ip2s(a), l)


def gen_pool(rng, ctx):
    """a mostly valid pool object; returns (tree, probes, enum?)"""
    masklen = rng.choice([8, 16, 20, 24, 24, 24, 25, 28, 30, 31, 32])
    kind = rng.random()
    if kind < 0.15:
        base = rng.choice([0xffffff00, 0xfffffff0, 0xffff0000, 0x00000000, 0xfffffffe])   # boundary subnets
        ctx.dist("pool:boundary-subnet")
    else:
        base = gen_ip(rng)
        ctx.dist("pool:random-subnet")
    size = 1 << (32 - masklen)
    net = base & ~(size - 1) & 0xffffffff
    gw = net + rng.randrange(size)
    # ranges: sorted, gaps >= 2 (valid), then perturb
    ranges = []
    n = rng.choice([0, 1, 1, 2, 3, 4])
    cur = net + rng.randrange(min(size, 8))
    for _ in range(n):
        if cur >= net + size:
            break
        ln = rng.choice([1, 1, 2, 3, 8, 20])
        last = min(net + size - 1, cur + ln - 1)
        ranges.append([cur, last])
        cur = last + rng.choice([2, 2, 3, 10])
    if rng.random() < 0.12 and ranges:      # end exactly at the subnet's (and maybe the address space's) last address
        ranges[-1][1] = net + size - 1
        if ranges[-1][0] > ranges[-1][1]:
            ranges[-1][0] = ranges[-1][1]
        if rng.random() < 0.5:
            ranges.append([net + size - 1, net + size - 1] if rng.random() < 0.5 else
                          [max(net, net + size - 3), net + size - 1])
            ctx.dist("pool:range-after-last-address")
    pert = rng.random()
    if ranges and pert < 0.30:
        k = rng.randrange(len(ranges))
        which = rng.choice(["adjacent", "overlap", "unsorted", "outside", "reversed", "wrap"])
        ctx.dist("pool:perturbed-" + which)
        if which == "adjacent" and k > 0:
            ranges[k][0] = ranges[k - 1][1] + 1
            ranges[k][1] = max(ranges[k][1], ranges[k][0])
        elif which == "overlap" and k > 0:
            ranges[k][0] = ranges[k - 1][1]
            ranges[k][1] = max(ranges[k][1], ranges[k][0])
        elif which == "unsorted":
            rng.shuffle(ranges)
        elif which == "outside":
            ranges[k][1] = min(0xffffffff, net + size + rng.randrange(3))
        elif which == "reversed":
            ranges[k] = [ranges[k][1] + 1 if ranges[k][1] < 0xffffffff else ranges[k][1], ranges[k][0]]
        elif which == "wrap":
            ranges.append([rng.choice([0, 1, net]), rng.choice([1, 2, net + 1])])
    else:
        ctx.dist("pool:ranges-as-generated")
    ips = []
    for a, b in ranges:
        a &= 0xffffffff
        b &= 0xffffffff
        if a == b and rng.random() < 0.7:
            ips.append(ip2s(a))
        else:
            ips.append(ip2s(a) + "~" + ip2s(b))
    if rng.random() < 0.06 and ips:
        k = rng.randrange(len(ips))
        ips[k] = mutate_text(rng, ips[k])
        ctx.dist("pool:range-text-mutated")
    elif rng.random() < 0.05 and ranges:
        # an IPv6 literal whose LOW 32 bits lie inside the pool's IPv4 subnet (not the v4-mapped ::ffff: form): not an address
        # of the subnet - the configuration must be rejected like any other range outside the subnet
        k = rng.randrange(len(ips))
        a, b = ranges[k][0] & 0xffffffff, ranges[k][1] & 0xffffffff
        v6 = lambda x: "fe80::%x:%x" % (x >> 16, x & 0xffff)
        ips[k] = rng.choice([v6(a), v6(a) + "~" + ip2s(b), ip2s(a) + "~" + v6(b)])
        ctx.dist("pool:ipv6-literal-with-low-bits-in-subnet")
    nsn = rng.choice([1, 1, 2, 3])
    nodesubnets = []
    for _ in range(nsn):
        l = rng.choice([16, 24, 24, 26, 32])
        a = gen_ip(rng)
        nodesubnets.append(cidr(a, l))          # deliberately NOT masked: decoding must mask
    if rng.random() < 0.2 and nodesubnets:
        a, l = nodesubnets[0].split("/")
        nodesubnets.append(nodesubnets[0])       # duplicate: decoding must de-duplicate
        ctx.dist("pool:duplicate-node-subnet")
    members = [("nodeSubnets", nodesubnets), ("ips", ips), ("subnet", cidr(rng.choice([net, gw]), masklen)),
               ("gateway", ip2s(gw))]
    if rng.random() < 0.5:
        members.append(("vlan", rng.choice([0, 1, 2, 100, 4094, 4095, 65535])))
    r = rng.random()
    if r < 0.12:
        members.append(("routableSubnet", cidr(gen_ip(rng), rng.choice([16, 24, 32]))))
        ctx.dist("pool:routableSubnet-present")
        if rng.random() < 0.5:
            members = [m for m in members if m[0] != "nodeSubnets"]
    # structural perturbations of the object (still inside the modelled domain)
    r = rng.random()
    if r < 0.25:
        which = rng.choice(["drop", "null", "wrongtype", "case", "unknown", "nullelem", "emptylist", "vlanbad",
                            "emptygw", "badcidr"])
        ctx.dist("pool:member-" + which)
        k = rng.randrange(len(members))
        if which == "drop":
            del members[k]
        elif which == "null":
            members[k] = (members[k][0], None)
        elif which == "wrongtype":
            members[k] = (members[k][0], rng.choice([5, True, "x", [1], O([("a", 1)]), 1.5]))
        elif which == "case":
            members[k] = (rng.choice([str.upper, str.lower, str.title])(members[k][0]), members[k][1])
        elif which == "unknown":
            members.insert(k, ("comment", rng.choice(["x", 1, None, [1, 2], O([("ips", ["1.1.1.1"])])])))
        elif which == "nullelem":
            for i, (kk, vv) in enumerate(members):
                if kk in ("nodeSubnets", "ips") and isinstance(vv, list) and rng.random() < 0.6:
                    vv = list(vv)
                    vv.insert(rng.randrange(len(vv) + 1), None)
                    members[i] = (kk, vv)
        elif which == "emptylist":
            members = [(kk, [] if kk in ("nodeSubnets", "ips") and rng.random() < 0.6 else vv) for kk, vv in members]
        elif which == "vlanbad":
            members = [m for m in members if m[0] != "vlan"] + [("vlan", rng.choice([-1, 65536, 1.5, "7", 10 ** 12]))]
        elif which == "emptygw":
            members = [(kk, "" if kk == "gateway" else vv) for kk, vv in members]
        elif which == "badcidr":
            members = [(kk, rng.choice(["10.0.0.0", "10.0.0.0/33", "10.0.0.0/", "/24", "10.0.0.0/024", "10.0.0.0/+4",
                                        "10.0.0.0/16777215", "010.0.0.0/8", "10.0.0.0/8 "])
                        if kk == "subnet" else vv) for kk, vv in members]
    else:
        ctx.dist("pool:members-as-generated")
    rng.shuffle(members)
    tree = O(members)
    probes = []
    for a, b in ranges[:4]:
        for x in (a - 1, a, b, b + 1):
            if 0 <= x <= 0xffffffff:
                probes.append(x)
    probes += [gw, net, (net + size - 1) & 0xffffffff, gen_ip(rng)]
    total = sum(max(0, b - a + 1) for a, b in ranges)
    return tree, sorted(set(probes)), total <= 600


def canon_marshal(text):
    """observed MarshalJSON text -> tree with the members in the model's order"""
    try:
        pairs = json.loads(text, object_pairs_hook=lambda p: O(p))
    except ValueError:
        return None
    if not isinstance(pairs, O):
        return pairs
    known = [(k, v) for ko in KEY_ORDER for k, v in pairs if k == ko]
    rest = [(k, v) for k, v in pairs if k not in KEY_ORDER]
    return O(known + rest)


def obs_pool_term(o):
    if o["res"] == "ok":
        return "(OOk %s)" % cpool(o["pool"])
    return {"err": "OErr", "panic": "OPanic", "timeout": "OTimeout"}.get(o["res"], "OTimeout")


def pool_exprs(flags, tree, probes, want_enum, o):
    """(correspondence expr, monitor expr or None)"""
    if o["res"] == "ok":
        m = canon_marshal(o.get("marshal", "null"))
        pr = clist(cpair(cN(x), cbool(b)) for x, b in zip(probes, o.get("contains", [])))
        if want_enum:
            if "enum" in o:
                en = "(Some (Some %s))" % clist(cN(x) for x in o["enum"])
            elif o.get("enum_timeout"):
                en = "(Some None)"
            else:
                en = "(Some (Some []))"      # enumeration panicked or failed: compares unequal unless empty
        else:
            en = "None"
        corr = "(chk_pool %s %s %s %s %s %s %s)" % (flags, cjson(tree), obs_pool_term(o), cjson(m), cN(o["size"]), pr, en)
        mon = "(mon_pool %s %s %s %s %s)" % (cpool(o["pool"]), cbool(o.get("rt", False)), cN(o["size"]), pr, en)
        return corr, mon
    corr = "(chk_pool %s %s %s JNull 0 [] None)" % (flags, cjson(tree), obs_pool_term(o))
    return corr, None


def run(ctx):
    n_ranges = 1200 if ctx.quick else 12000
    n_pools = 1200 if ctx.quick else 12000
    ctx.cov["rule"] = ("range strings and pool objects generated from one PRNG (structured valid stream + boundary "
                       "addresses + textual/structural mutations); a case is non-trivial when it is a distinct input; "
                       "each is run on the real nets.ParseIPRange / FloatingIPPool.UnmarshalJSON/MarshalJSON/Contains/Size "
                       "and crdIpam.ConfigurePool+ByPrefix (enumeration) and on the Coq model, and the Coq monitors "
                       "(pool_valid, size=cardinality, membership=enumeration, re-decode) are evaluated on the "
                       "implementation's own output")
    ctx.cov["trusted_base"] = vf.TRUSTED_COMMON + [
        "encoding/json's lexer and Go's net.ParseIP/ParseCIDR are modelled for escape-free ASCII and IPv4 text only; "
        "IPv6 text (':'), non-ASCII, escapes and duplicate member names are outside the modelled domain and only "
        "checked for 'no panic, no hang'"]
    ctx.assumptions += ["the pool JSON reaches the model as a tree: Go's encoding/json lexer is not modelled",
                        "uint32 arithmetic of IPRange.Size/fipCheck/walkIPRanges is written into the model explicitly"]
    ctx.theorems("C20", THEOREMS, REFUTED, deps=DEPS)
    flags = "cur_flags"
    # ---- corpus first
    corpus = json.load(open(vf.ROOT + "/corpus/C20.json"))
    cases, meta = [], []
    for c in corpus["ranges"]:
        cases.append({"op": "parse_range", "s": c})
        meta.append(("range", c))
        ctx.dist("range:corpus")
    for c in corpus["pools"]:
        tree = json.loads(c["text"], object_pairs_hook=lambda p: O(p))
        cases.append({"op": "pool", "text": c["text"], "probes": c.get("probes", []), "enum": c.get("enum", True)})
        meta.append(("pool", tree, c.get("probes", []), c.get("enum", True)))
        ctx.dist("pool:corpus")
    for _ in range(n_ranges):
        s = gen_range_text(ctx.rng, ctx)
        cases.append({"op": "parse_range", "s": s})
        meta.append(("range", s))
    for _ in range(n_pools):
        tree, probes, en = gen_pool(ctx.rng, ctx)
        cases.append({"op": "pool", "text": render(tree), "probes": probes, "enum": en})
        meta.append(("pool", tree, probes, en))
    obs = ctx.harness("nets", cases)
    if obs is None:
        return
    corr, mons, idx_corr, idx_mon = [], [], [], []
    for i, (m, c, o) in enumerate(zip(meta, cases, obs)):
        ctx.count(c)
        if o["res"] in ("crash", "not-run", "harness-error"):
            ctx.violation("monitor", "the harness process died on a C20 case", {"case": c, "obs": o}, found=True)
            continue
        if m[0] == "range":
            s = m[1]
            if o["res"] in ("panic", "timeout"):
                ctx.violation("monitor", "ParseIPRange %s" % o["res"], {"case": c, "obs": o}, found=True)
                continue
            if not in_domain_text(s):
                ctx.dist("range:out-of-domain(no-panic only)")
                continue
            ob = copt(cpair(cN(o["first"]), cN(o["last"]))) if o["some"] else "None"
            corr.append("(chk_range %s %s %s)" % (cstr(s), ob, cstr(o.get("str", ""))))
            idx_corr.append(i)
            if o["some"]:
                # monitor: an accepted range string is "<ip>" or "<ip>~<ip>" - anything else is rejected - and names its own bounds
                parts = s.split("~")
                plain = [p_ for p_ in parts if re.fullmatch(r"\d{1,3}(\.\d{1,3}){3}", p_) and all(int(x) < 256 and (x == "0" or not x.startswith("0")) for x in p_.split("."))]
                wrong_bounds = len(parts) in (1, 2) and len(plain) == len(parts) and \
                    (ip2n(parts[0]) != o["first"] or ip2n(parts[-1]) != o["last"])
                if len(parts) > 2 or any(p_ == "" for p_ in parts) or wrong_bounds:
                    ctx.violation("monitor", "ParseIPRange ACCEPTED %r as %s: not a range string (anything else is rejected) or other bounds "
                                  "than it names" % (s, o.get("str")), {"case": c, "obs": o}, found=True, theorem="range_roundtrip")
                # monitor: print/parse round trip observed on the implementation itself
                if not o.get("rt", False) or o["first"] > o["last"]:
                    ctx.violation("monitor", "range does not round-trip or is reversed on the implementation",
                                  {"case": c, "obs": o}, found=True)
        else:
            _, tree, probes, en = m
            if len(ctx.cov["samples"]) < 4 and o["res"] == "ok" and len(o["pool"]["ranges"]) > 1:
                ctx.sample({"case": c, "observed": o})
            # accepted_valid, textual half: an accepted configuration only names IPv4 addresses of its subnet - an IPv6 literal
            # (other than the v4-mapped form) is not one, whatever its low 32 bits are
            if o["res"] == "ok" and isinstance(tree, list):
                ipsv = [v for k_, v in tree if isinstance(k_, str) and k_.lower() == "ips"]
                texts = [t for t in (ipsv[-1] if ipsv and isinstance(ipsv[-1], list) else []) if isinstance(t, str)]
                if any(":" in t and "::ffff:" not in t.lower() for t in texts):
                    ctx.violation("monitor", "a configuration whose ips hold an IPv6 literal was ACCEPTED: the range is not inside the "
                                  "pool's (IPv4) subnet (accepted_valid)", {"case": c, "obs": o}, found=True, theorem="accepted_valid")
            ce, me = pool_exprs(flags, tree, probes, en, o)
            corr.append(ce)
            idx_corr.append(i)
            if me is not None:
                mons.append(me)
                idx_mon.append(i)
            ctx.dist("poolres:" + o["res"])
    ctx.cov["traces_validated_against_impl"] = len(corr)
    rc = ctx.coq_bools("corr", IMPORTS, corr)
    rm = ctx.coq_bools("mon", IMPORTS, mons)
    if rc is None or rm is None:
        ctx.violation("correspondence", "the Coq evaluation of the C20 cases failed", {}, found=False,
                      theorem="C20 correspondence (Corr/C20c.v chk_range/chk_pool)")
        return
    bad_mon = [idx_mon[k] for k, b in enumerate(rm) if not b]
    bad_corr = [idx_corr[k] for k, b in enumerate(rc) if not b]
    for i in bad_mon[:20]:
        o, c = obs[i], cases[i]
        tags = []
        ctx.violation("monitor", describe_monitor_failure(o), {"case": c, "obs": o, "how": "bin/check C20 --replay <this file>"},
                      found=True, tags=tags)
    if bad_corr:
        # the model no longer describes the code; the failing-input search is the monitor run above
        # plus a targeted neighbourhood search around the disagreeing inputs
        found = bool(bad_mon)
        ex = [{"case": cases[i], "obs": obs[i]} for i in bad_corr[:5]]
        ctx.violation("correspondence", "model and implementation disagree on %d C20 case(s)" % len(bad_corr),
                      {"disagreements": ex, "theorems_no_longer_about_the_code": THEOREMS}, found=False,
                      theorem="C20 correspondence (Corr/C20c.v chk_range/chk_pool)")
    ctx.cov["disagreements"] = len(bad_corr)
    ctx.cov["monitor_failures"] = len(bad_mon)
    # "anything else is rejected with an error and changes nothing" where configurations are actually loaded: the scheduler
    # plugin's reload path (configmap -> ensureIPAMConf -> decode -> ConfigurePool) with a configuration in force and pods
    # holding IPs; real FloatingIPPlugin vs Model/Plugin.v + monitors
    import plugincheck
    plugincheck.run(ctx, "C20", PLUGIN_THEOREMS, [], plugincheck.mon_c20_plugin, module="C09p", nrandom=(0, 0), incarnations=False, fixed=False,
                    extra_scenarios=plugincheck.rejected_reload_scenarios(ctx.rng, ctx) + plugincheck.reload_scenarios(ctx.rng, ctx) +
                    plugincheck.attr_reload_scenarios(ctx.rng, ctx))


def describe_monitor_failure(o):
    p = o.get("pool", {})
    rs = p.get("ranges", [])
    why = []
    for k in range(1, len(rs)):
        if rs[k][0] <= rs[k - 1][1] + 1:
            why.append("accepted ranges %s and %s are unsorted, overlapping or mergeable" % (rs[k - 1], rs[k]))
    if o.get("enum_timeout"):
        why.append("enumeration of the accepted pool did not return")
    if "enum" in o and o.get("size") != len(o["enum"]) and p.get("masklen") != 0:
        why.append("Size()=%s but %d distinct addresses enumerated" % (o.get("size"), len(o["enum"])))
    if not o.get("rt", True):
        why.append("re-decoding the encoded pool gives a different pool")
    return "accepted pool violates C20: " + ("; ".join(why) if why else "monitor mon_pool is false")


def replay(ctx, path):
    r = json.load(open(path))
    rp = r["replay"]
    cs = [rp["case"]] if "case" in rp else [d["case"] for d in rp.get("disagreements", [])]
    obs = ctx.harness("nets", cs)
    for c, o in zip(cs, obs):
        print(json.dumps({"case": c, "observed_now": o}))
