"""C09 - Reserved and de-configured IPs are never allocated; reload is lossless."""
import ipamcheck

THEOREMS = ["never_hand_reserved", "tables_are_configured", "reload_lossless", "reject_changes_nothing",
            "requests_keep_store_objects", "reservations_survive_requests", "reservations_survive_requests_nonvacuous"]
REFUTED = []
# plugin level (Props/C09p.v, proofs in Proofs/PluginAnswerP.v)
PLUGIN_THEOREMS = ["bound_ip_is_configured", "plugin_tables_are_configured", "rejected_reload_changes_nothing", "failed_list_changes_nothing"]

KNOWN_FINDINGS = [
    {"id": "K9", "status": "open", "tag": "c05-rollback-delete-fails",
     "what": "when a multi-IP request is rolled back (a creation failed, e.g. on an administrator's reservation not yet seen) and "
             "the DELETION of an object it had created fails too, the failure is only logged: the object stays in the store while "
             "memory forgets the IP - store and memory disagree, a new process loads the IP as allocated to a key that never got "
             "it; attributed only to histories in which a roll-back's deletion failed and only when taking exactly those objects "
             "out makes the predicate true (found by the thorough tier, history random, step alloc_ranges fault=3)"},
]

MANIFEST = {
    "text": "Coq theorems over all reachable crdIpam states: never_hand_reserved (every IP handed out by a fresh allocation had NO "
            "object in the store - so no reservation, seen or unseen - and lies in the loaded configuration), tables_are_configured, "
            "reload_lossless (a reload keeps exactly the persisted allocations still configured and drops exactly the others), "
            "reject_changes_nothing. Tied to the code by histories mixing administrator reservations, watch-event timing, reload "
            "sequences and requests arriving while ConfigurePool lists the store (second goroutine at the List call), real crdIpam "
            "vs model step by step, plus monitors mon_fresh / mon_reload / allocation-during-reload-kept on the implementation. requests_keep_store_objects / reservations_survive_requests: an allocation request - successful, failed at any store call, rolled back - never rewrites or removes an object the store held before it, and never names its IP. Plugin level (Props/C09p.v): bound_ip_is_configured, plugin_tables_are_configured (every reachable world), rejected_reload_changes_nothing, failed_list_changes_nothing.",
    "note": "trusted: Coq kernel (no axioms); fake API server; informer events delivered on request through a verif hook; "
            "ConfigurePool atomic (fix cdfc2c2) - the interleaving part of the quantifier is discharged by atomicity in the model and "
            "exercised on the code by the list-time yield point; the scheduler plugin's reload path (configmap tick -> ensureIPAMConf "
            "-> ConfigurePool, a failed reload retried by the next tick) is exercised by plugin-level reload scenarios with the "
            "monitor bound_ip_is_configured",
}

def run(ctx):
    ctx.cov["rule"] = ("histories mixing administrator reservations (watch event delivered before, between and after competing "
                       "allocations), reload sequences (grow, shrink, move an IP to another pool, drop a pool) and requests that "
                       "arrive WHILE ConfigurePool is listing the store (a second goroutine started at the List call); compared step by "
                       "step with Model/Ipam.v; monitors on the implementation's dumps: mon_fresh (a handed-out IP had no object in "
                       "the store and is configured), mon_reload (kept = persisted allocations still configured, dropped = exactly the "
                       "others), allocation acknowledged during a reload is still there afterwards")
    kinds = ["alloc_in_subnet"] * 4 + ["alloc_ranges"] * 2 + ["alloc_specific"] * 2 + ["admin_reserve"] * 3 + \
        ["admin_unreserve"] * 2 + ["watch_deliver"] * 3 + ["configure"] * 3 + ["restart", "release", "release_ips", "reserve"]
    ipamcheck.run(ctx, "C09", "C09", THEOREMS, REFUTED, kinds=kinds)
    # plugin level: the reload path of the scheduler plugin (ensureIPAMConf: a reload whose List failed is retried by the next
    # tick; ranges taken away are not handed out afterwards), real FloatingIPPlugin vs Model/Plugin.v
    import plugincheck
    plugincheck.run(ctx, "C09", PLUGIN_THEOREMS, [], plugincheck.mon_c09_plugin, module="C09p", nrandom=(20, 200), incarnations=False, fixed=False,
                    extra_scenarios=plugincheck.reload_scenarios(ctx.rng, ctx))


def replay(ctx, path):
    ipamcheck.replay(ctx, path)
