"""C14 - Host-port mappings are set up, held and removed completely."""
import json
import vf
from vf import cN, cbool, cstr, clist, cpair

IMPORTS = ("From Coq Require Import List Ascii String NArith Bool.\n"
           "From Galaxy.Base Require Import Strs.\nFrom Galaxy.Model Require Import Netfilter PortMap PortDaemon.\n"
           "From Galaxy.Corr Require Import CorrBase C14c.\n")

THEOREMS = ["setup_clean_inverse", "setup_all_exact", "setup_all_idem", "ports_distinct_held",
            "ports_held_until_close", "failed_open_leaves_nothing",
            "clean_total", "clean_total_unreferenced", "cleanup_retry_completes", "teardown_success_is_complete",
            "failed_teardown_keeps_state_file", "teardown_retry_completes", "setup_then_teardown_with_retry",
            "failed_setup_leaves_nothing"]
REFUTED = []
DEPS = ["Strs", "Netfilter", "PortMap", "PortDaemon", "NetfilterP", "PortMapP", "PortDaemonP", "CorrBase", "C14c", "C14"]

MANIFEST = {
    "text": "Coq theorems over an executable model of portmapping/iptables.go + portmapping.go on a strict netfilter model "
            "(setup_clean_inverse, setup_all_exact, setup_all_idem for ALL prior NAT tables and port sets with distinct fresh chain "
            "names; ports_distinct_held, ports_held_until_close, failed_open_leaves_nothing for ALL open/close histories); the "
            "model is tied to the working tree by running ~460 (quick) cases on the real PortMappingHandler over a strict "
            "iptables fake and with real sockets in a private network namespace, comparing the dumped table and a bind probe "
            "of every port after every step, and the theorems' predicates are evaluated on the implementation's own output",
    "note": "trusted: Coq kernel (no axioms), strict iptables fake (hand-checked against iptables v1.8.9), Go harness + python "
            "printers; chain-name hash not modelled (theorems assume distinct KUBE-HP- names, names are read from the "
            "implementation); server.go's call sequences are replayed as op templates, not through the CNI server",
}
KNOWN_FINDINGS = [
    {"id": "F17", "status": "fixed", "commit": "418fae1", "tag": "c14-teardown-missing-chain",
     "what": "fixed: property=C14 418fae1 CleanPortMapping deleted the jump rules first; checking a rule whose target chain does not "
             "exist is an iptables ERROR, so tearing down a container whose KUBE-HP chains were gone (set-up batch failed, or removed "
             "by the start-up synchronisation) failed for ever - the state file stayed and every CNI DEL / GC round failed again "
             "(Example teardown_refuted_missing_chain_old on Model/PortMap.v clean_old; harness: setup P; setup_all []; clean P)"},
]

NAT_BUILTIN = ["PREROUTING", "INPUT", "OUTPUT", "POSTROUTING"]
B32 = "ABCDEFGHIJKLMNOPQRSTUVWXYZ234567"


# ---------------------------------------------------------------------------- Coq printers
def crule(r):
    return "(mkRule %s %s %s %s %s %s %s)" % (cstr(r["src"]), cstr(r["dst"]), cstr(r["proto"]), cstr(r["comment"]),
                                              clist(cstr(x) for x in r["match"]), cstr(r["target"]),
                                              clist(cstr(x) for x in r["topts"]))


def ctable(chains):
    return clist(cpair(cstr(c["name"]), clist(crule(r) for r in c["rules"])) for c in chains)


def cport(p):
    return "(mkPort %s %s %s %s %s %s)" % (cN(p["hostPort"]), cN(p["containerPort"]), cstr(p["protocol"]),
                                           cstr(p.get("hostIP", "")), cstr(p["podName"]), cstr(p["podIP"]))


def cnames(names):
    return clist("(%s, %s, %s, %s, %s)" % (cN(h), cstr(pr), cN(c), cstr(pod), cstr(n)) for h, pr, c, pod, n in names)


def canon_rule(tok):
    """python twin of nfake.ParseRule for the prior tables the generator writes (simple vocabulary only)"""
    r = dict(src="", dst="", proto="", comment="", match=[], target="", topts=[])
    i = 0
    while i < len(tok):
        t = tok[i]
        if t == "-s":
            r["src"] = tok[i + 1]; i += 2
        elif t == "-d":
            r["dst"] = tok[i + 1]; i += 2
        elif t == "-p":
            r["proto"] = tok[i + 1].lower(); i += 2
        elif t == "-m" and tok[i + 1] == "comment":
            i += 2
        elif t == "-m":
            r["match"] += ["-m", tok[i + 1]]; i += 2
        elif t == "--comment":
            r["comment"] = tok[i + 1]; i += 2
        elif t == "-j":
            r["target"] = tok[i + 1]; r["topts"] = list(tok[i + 2:]); i = len(tok)
        else:
            r["match"].append(t); i += 1
    return r


# ---------------------------------------------------------------------------- generators
def rand_name(rng):
    return "KUBE-HP-" + "".join(rng.choice(B32) for _ in range(16))


PODS = ["web-0", "a", "0a", "db-1", "x", "nginx-7d9c"]
PROTOS = ["TCP", "UDP", "tcp", "udp", "Tcp"]


def gen_port(rng, ctx, pod, podip, used, lo=1, hi=65535):
    for _ in range(20):
        hp = rng.randrange(lo, hi + 1)
        pr = rng.choice(PROTOS)
        if (hp, pr.lower()) not in used:
            break
    used.add((hp, pr.lower()))
    p = dict(hostPort=hp, containerPort=rng.choice([80, 8, 8080, 53, hp]), protocol=pr, podName=pod, podIP=podip)
    if rng.random() < 0.3:
        # incl. the unspecified addresses (legal in a pod spec: "all addresses")
        p["hostIP"] = rng.choice(["127.0.0.1", "10.1.2.3", "192.168.0.9", "0.0.0.0", "0.0.0.0", "::"])
    return p


def gen_prior(rng, ctx):
    """a NAT table: built-ins, maybe KUBE-HOSTPORTS with other pods' chains, stale chains, foreign chains"""
    chains = {n: [] for n in NAT_BUILTIN}
    kinds = []
    if rng.random() < 0.85:
        chains["KUBE-HOSTPORTS"] = []
        kinds.append("hostports")
        if rng.random() < 0.7:
            portal = ["-m", "comment", "--comment", "kube hostport portals", "-m", "addrtype", "--dst-type", "LOCAL",
                      "-j", "KUBE-HOSTPORTS"]
            chains["OUTPUT"].append(portal)
            if rng.random() < 0.8:
                chains["PREROUTING"].append(portal)
            kinds.append("portal")
    if rng.random() < 0.5:
        chains["KUBE-MARK-MASQ"] = [["-j", "MARK", "--set-xmark", "0x4000/0x4000"]]
        if rng.random() < 0.3:
            chains["KUBE-MARK-MASQ"].append(["-j", "RETURN"])
        kinds.append("markmasq")
    # other pods' consistent chains
    for _ in range(rng.choice([0, 0, 1, 2, 3])):
        if "KUBE-HOSTPORTS" not in chains or "KUBE-MARK-MASQ" not in chains:
            break
        n = rand_name(rng)
        hp = rng.randrange(1, 65536)
        pr = rng.choice(["tcp", "udp"])
        cm = "other-%d hostport %d" % (hp % 7, hp)
        chains["KUBE-HOSTPORTS"].append(["-m", "comment", "--comment", cm, "-m", pr, "-p", pr, "--dport", str(hp), "-j", n])
        chains[n] = [["-m", "comment", "--comment", cm, "-s", "10.9.0.%d" % (hp % 250 + 1), "-j", "KUBE-MARK-MASQ"],
                     ["-m", "comment", "--comment", cm, "-m", pr, "-p", pr, "-j", "DNAT",
                      "--to-destination=10.9.0.%d:80" % (hp % 250 + 1)]]
        kinds.append("other-pod-chain")
    # stale chains
    for _ in range(rng.choice([0, 0, 1, 1, 2])):
        n = rand_name(rng)
        k = rng.choice(["empty", "rules", "rules", "hooked", "cross", "foreign-ref"])
        if k == "empty":
            chains[n] = []
        else:
            chains[n] = [["-p", "tcp", "-j", "DNAT", "--to-destination=10.8.0.1:1"]]
        if k == "hooked" and "KUBE-HOSTPORTS" in chains:
            chains["KUBE-HOSTPORTS"].append(["-p", "tcp", "-m", "tcp", "--dport", "99", "-j", n])
        if k == "cross":
            m = rand_name(rng)
            chains[m] = [["-j", n]]
        if k == "foreign-ref":
            chains.setdefault("CUSTOM-FWD", []).append(["-s", "1.2.3.4", "-j", n])
        kinds.append("stale-" + k)
    # foreign chains and rules
    if rng.random() < 0.6:
        chains.setdefault("DOCKER", []).append(["-i", "docker0", "-j", "RETURN"])
        chains["PREROUTING"].append(["-m", "addrtype", "--dst-type", "LOCAL", "-j", "DOCKER"])
        kinds.append("foreign-docker")
    if rng.random() < 0.4:
        chains["POSTROUTING"].append(["-s", "172.17.0.0/16", "!", "-o", "docker0", "-j", "MASQUERADE"])
        kinds.append("foreign-postrouting")
    if rng.random() < 0.25:
        chains.setdefault("KUBE-SERVICES", []).append(["-d", "10.96.0.1", "-p", "tcp", "-m", "tcp", "--dport", "443", "-j",
                                                       "KUBE-MARK-MASQ"] if "KUBE-MARK-MASQ" in chains else ["-j", "RETURN"])
        kinds.append("foreign-kube-services")
    for k in kinds:
        ctx.dist("prior:" + k)
    if not kinds:
        ctx.dist("prior:bare")
    return [dict(name=n, rules=rs) for n, rs in chains.items()]


def gen_nat_case(rng, ctx):
    prior = gen_prior(rng, ctx)
    used = set()
    pods = rng.sample(PODS, 3)
    sets_ = []
    for i, pod in enumerate(pods):
        n = rng.choice([1, 1, 2, 3])
        sets_.append([gen_port(rng, ctx, pod, "10.0.%d.%d" % (i, rng.randrange(2, 250)), used) for _ in range(n)])
    if rng.random() < 0.08:   # the non-injective pre-image: 80,TCP,80,"a" vs 80,TCP,8,"0a" differ in host port here
        sets_[0] = [dict(hostPort=80, containerPort=80, protocol="TCP", podName="a", podIP="10.0.0.2")]
        sets_[1] = [dict(hostPort=8080, containerPort=8, protocol="TCP", podName="0a", podIP="10.0.0.3")]
        ctx.dist("ports:hash-preimage-neighbours")
    steps = []
    tmpl = rng.choice(["inverse", "inverse", "inverse2", "sync", "sync", "sync-save-fails", "sync-idem", "mixed", "mixed", "clean-absent",
                       "setup-twice", "daemon", "sync-same-name", "sync-same-name"])
    ctx.dist("nat-template:" + tmpl)
    if tmpl != "sync" and rng.random() < 0.7:
        steps.append(dict(op="ensure_basic"))
    A, B, C = sets_
    if tmpl == "inverse":
        steps += [dict(op="setup", ports=A), dict(op="clean", ports=A)]
    elif tmpl == "inverse2":
        steps += [dict(op="setup", ports=A), dict(op="setup", ports=B), dict(op="clean", ports=B), dict(op="clean", ports=A)]
    elif tmpl == "sync":
        steps += [dict(op="setup_all", ports=A + B)]
    elif tmpl == "sync-save-fails":
        # the start-up synchronisation cannot read the table (iptables-save fails: the xtables lock is held): it must not report
        # success - what it cannot see it cannot have cleaned up; the retry does the whole job
        ps = rng.choice([A + B, A, []])
        steps += [dict(op="setup_all", ports=ps, save_fault=True), dict(op="setup_all", ports=ps)]
    elif tmpl == "sync-idem":
        ps = rng.choice([A + B, A, [], A + B + C])
        steps += [dict(op="setup_all", ports=ps), dict(op="setup_all", ports=ps)]
    elif tmpl == "mixed":
        steps += [dict(op="setup", ports=A), dict(op="setup_all", ports=rng.choice([A, B, A + C])), dict(op="setup", ports=C),
                  dict(op="clean", ports=C), dict(op="clean", ports=A)]
    elif tmpl == "clean-absent":
        steps += [dict(op="clean", ports=A), dict(op="setup", ports=A), dict(op="clean", ports=A), dict(op="clean", ports=A)]
    elif tmpl == "setup-twice":
        steps += [dict(op="setup", ports=A), dict(op="setup", ports=A), dict(op="clean", ports=A)]
    elif tmpl == "sync-same-name":
        # a stale chain with the SAME name as an active port but other content: the pod was re-created under the same name with
        # another IP (the chain name hashes host port, protocol, container port and pod name only) while galaxy was down
        A2 = [dict(p, podIP="10.9.%d.%d" % (rng.randrange(1, 200), rng.randrange(2, 250))) for p in A]
        steps += [dict(op="setup_all", ports=A + B), dict(op="setup_all", ports=A2 + rng.choice([B, [], C]))]
        if rng.random() < 0.5:
            steps += [dict(op="setup", ports=C), dict(op="setup_all", ports=A + C)]
    elif tmpl == "daemon":
        steps += [dict(op="setup_all", ports=A + B), dict(op="setup", ports=C), dict(op="clean", ports=A),
                  dict(op="setup_all", ports=B + C), dict(op="setup_all", ports=B + C), dict(op="clean", ports=C)]
    return dict(prior=prior, steps=steps)


def gen_sock_case(rng, ctx, idx):
    base = 2000 + (idx % 3500) * 16
    steps = []
    pods = ["p%d_ns" % i for i in range(3)]
    opened = set()
    mine = []          # fixed ports used so far
    n = rng.choice([3, 4, 5, 6, 8])
    for _ in range(n):
        r = rng.random()
        if r < 0.5:
            pod = rng.choice(pods)
            random_on = rng.random() < 0.5
            ps = []
            for _ in range(rng.choice([1, 1, 2, 3])):
                k = rng.random()
                if k < 0.35:
                    hp = 0
                elif k < 0.8 or not mine:
                    hp = base + rng.randrange(16)
                else:
                    hp = rng.choice(mine)      # likely conflict
                pr = rng.choice(PROTOS if rng.random() < 0.93 else ["SCTP", ""])
                if hp:
                    mine.append(hp)
                # a host IP on the mapping does not change which sockets galaxy holds: the port is held on every address
                hip = rng.choice(["", "", "", "127.0.0.1", "127.0.0.2"])
                ps.append(dict(hostPort=hp, containerPort=80, protocol=pr, podName=pod.split("_")[0], podIP="10.0.0.9", **({"hostIP": hip} if hip else {})))
                if hp and rng.random() < 0.15:
                    # the same port once more, on another host IP (one pod, one port number, two addresses)
                    ps.append(dict(hostPort=hp, containerPort=81, protocol=pr, podName=pod.split("_")[0], podIP="10.0.0.9",
                                   hostIP="127.0.0.2" if hip != "127.0.0.2" else "127.0.0.1"))
                    ctx.dist("sock:same-port-two-host-ips")
            steps.append(dict(op="open", pod=pod, random=random_on, ports=ps))
            ctx.dist("sock:open" + ("-random" if random_on else "") + ("-reopen" if pod in opened else ""))
            opened.add(pod)
        elif r < 0.8:
            pod = rng.choice(pods)
            steps.append(dict(op="close", pod=pod))
            opened.discard(pod)
            ctx.dist("sock:close")
        elif r < 0.93:
            hp = base + rng.randrange(16)
            mine.append(hp)
            steps.append(dict(op="foreign_bind", proto=rng.choice(["tcp", "udp"]), port=hp))
            ctx.dist("sock:foreign-bind")
        else:
            if mine:
                steps.append(dict(op="foreign_release", proto=rng.choice(["tcp", "udp"]), port=rng.choice(mine)))
                ctx.dist("sock:foreign-release")
    return dict(prior=[], steps=steps)


# ---------------------------------------------------------------------------- expressions
NAT_OPS = {"ensure_basic", "setup", "clean", "setup_all"}


def cnstep(st):
    if st["op"] == "ensure_basic":
        return "SEnsureBasic"
    return "(%s %s)" % ({"setup": "SSetup", "clean": "SClean", "setup_all": "SSetupAll"}[st["op"]],
                        clist(cport(p) for p in st["ports"]))


def nat_exprs(case, o):
    """correspondence expression + monitor expressions for the NAT steps of one case"""
    names = cnames(o["names"])
    prior = ctable([dict(name=c["name"], rules=[canon_rule(t) for t in c["rules"]]) for c in case["prior"]] +
                   [dict(name=n, rules=[]) for n in NAT_BUILTIN if n not in [c["name"] for c in case["prior"]]])
    seq = [(st, ob) for st, ob in zip(case["steps"], o["steps"]) if st["op"] in NAT_OPS]
    # a synchronisation whose iptables-save failed and which reported the failure without touching the table is a step that did
    # not happen (the model has no such step); one that reports SUCCESS is judged like any other synchronisation
    keep, prev_nat = [], None
    for st, ob in seq:
        if st.get("save_fault") and ob["err"] and (prev_nat is None or ob["nat"] == prev_nat):
            continue
        keep.append((st, ob))
        prev_nat = ob["nat"]
    seq = keep
    if not seq:
        return None, []
    steps = clist("(%s, %s, %s)" % (cnstep(st), cbool(ob["err"]), ctable(ob["nat"])) for st, ob in seq)
    corr = "(chk_nat %s %s %s)" % (names, prior, steps)
    mons = []
    before = prior
    for k, (st, ob) in enumerate(seq):
        after = ctable(ob["nat"])
        if st["op"] == "setup_all":
            ps = clist(cport(p) for p in st["ports"])
            mons.append(("setup_all_exact", k, "(mon_exact %s %s %s %s %s)" % (names, ps, before, cbool(ob["err"]), after)))
            if k > 0 and seq[k - 1][0]["op"] == "setup_all" and seq[k - 1][0]["ports"] == st["ports"] \
                    and not seq[k - 1][1]["err"]:
                mons.append(("setup_all_idem", k, "(mon_idem %s %s %s %s %s)" % (names, ps, before, cbool(ob["err"]), after)))
        if st["op"] == "clean" and k > 0 and seq[k - 1][0]["op"] == "setup" and seq[k - 1][0]["ports"] == st["ports"]:
            ps = clist(cport(p) for p in st["ports"])
            t0 = prior if k == 1 else ctable(seq[k - 2][1]["nat"])
            mons.append(("setup_clean_inverse", k, "(mon_inverse %s %s %s %s %s %s)" % (
                names, ps, t0, cbool(seq[k - 1][1]["err"]), cbool(ob["err"]), after)))
        before = after
    return corr, mons


def chport(proto, port):
    return "(%s, %s)" % (cstr(proto), cN(port))


def sock_exprs(case, o):
    seq = [(st, ob) for st, ob in zip(case["steps"], o["steps"]) if st["op"] not in NAT_OPS]
    if not seq:
        return None, None
    items = []
    for st, ob in seq:
        probes = clist("(%s, %s)" % (chport(pr, po), cbool(free)) for pr, po, free in ob["probes"])
        if st["op"] == "open":
            s = "(SOpen %s %s %s %s %s)" % (cstr(st["pod"]), cbool(st["random"]), clist(cport(p) for p in st["ports"]),
                                            cbool(ob["err"]), clist(cN(x) for x in ob["hostports"]))
        elif st["op"] == "close":
            s = "(SClose %s)" % cstr(st["pod"])
        elif st["op"] == "foreign_bind":
            s = "(SFBind %s)" % chport(st["proto"], st["port"])
        else:
            s = "(SFRelease %s)" % chport(st["proto"], st["port"])
        items.append("(%s, %s)" % (s, probes))
    return "(chk_sock %s)" % clist(items), "(mon_held %s)" % clist(items)


def run(ctx):
    n_nat = 260 if ctx.quick else 2600
    n_sock = 200 if ctx.quick else 2000
    ctx.cov["rule"] = ("cases = a prior NAT table (built-ins, KUBE-HOSTPORTS, other pods' chains, stale KUBE-HP-* chains - empty, "
                       "with rules, still hooked, cross-referenced, referenced from a foreign chain -, foreign chains/rules) + a "
                       "sequence of EnsureBasicRule / SetupPortMapping / CleanPortMapping / SetupPortMappingForAllPods calls on the "
                       "REAL PortMappingHandler over the strict iptables fake, and sequences of OpenHostports / CloseHostports with "
                       "REAL sockets in a private network namespace (fixed, kernel-chosen, conflicting, unknown-protocol ports, "
                       "re-opens, binds by other processes); after every step the dumped table / a bind probe of every port seen "
                       "is compared with the Coq model, and the theorems' predicates are evaluated on the implementation's tables")
    ctx.cov["trusted_base"] = vf.TRUSTED_COMMON + [
        "strict iptables fake harness/nfake (atomic restore, create-or-flush chain lines, -X/-A rejection rules, -C exit "
        "status 1 vs 2 as galaxy's runner reads them) - checked by hand against iptables v1.8.9 (nf_tables) in a private netns",
        "chain names are read from the implementation (hash not modelled): the theorems assume distinct KUBE-HP- names"]
    ctx.assumptions += ["netfilter assumptions of DESIGN.md section 6", "a held socket keeps its port bound (kernel)",
                        "negative HostPort (ignored by OpenHostports) is not generated"]
    ctx.theorems("C14", THEOREMS, REFUTED, deps=DEPS)
    cases, kinds = [], []
    corpus = json.load(open(vf.ROOT + "/corpus/C14.json"))
    for c in corpus["cases"]:
        cases.append(c)
        kinds.append("corpus")
        ctx.dist("corpus")
    for _ in range(n_nat):
        cases.append(gen_nat_case(ctx.rng, ctx))
        kinds.append("nat")
    for i in range(n_sock):
        cases.append(gen_sock_case(ctx.rng, ctx, i))
        kinds.append("sock")
    obs = ctx.harness("portmap", cases, cmd="ghpol", shards=16)
    if obs is None:
        return
    corr, corr_idx, mons, mon_meta = [], [], [], []
    for i, (c, o) in enumerate(zip(cases, obs)):
        ctx.count(c)
        if o.get("res") != "ok":
            ctx.violation("monitor", "PortMappingHandler %s on a C14 case" % o.get("res"), {"case": c, "obs": o}, found=True)
            continue
        if len(ctx.cov["samples"]) < 3 and len(c["steps"]) > 2:
            ctx.sample({"case": c, "observed_last_step": o["steps"][-1]})
        ce, ms = nat_exprs(c, o)
        if ce:
            corr.append(ce)
            corr_idx.append((i, "nat"))
            for thm, k, e in ms:
                mons.append(e)
                mon_meta.append((i, thm, k))
        se, sm = sock_exprs(c, o)
        if se:
            corr.append(se)
            corr_idx.append((i, "sock"))
            mons.append(sm)
            mon_meta.append((i, "ports_distinct_held", -1))
        for st, ob in zip(c["steps"], o["steps"]):
            ctx.dist("step:%s:%s" % (st["op"], "err" if ob["err"] else "ok"))
            for rj in ob["rejected"]:
                ctx.dist("rejected:%s:%s" % (rj["kind"], rj["why"]))
    ctx.cov["traces_validated_against_impl"] = len(corr)
    rc = ctx.coq_bools("corr", IMPORTS, corr, shard=40)
    rm = ctx.coq_bools("mon", IMPORTS, mons, shard=60)
    if rc is None or rm is None:
        ctx.violation("correspondence", "the Coq evaluation of the C14 cases failed", {}, found=False,
                      theorem="C14 correspondence (Corr/C14c.v)")
        return
    bad_mon = [mon_meta[k] for k, b in enumerate(rm) if not b]
    bad_corr = [corr_idx[k] for k, b in enumerate(rc) if not b]
    for i, thm, k in bad_mon[:10]:
        ctx.violation("monitor", "the predicate of %s is false on the implementation's own output (step %d)" % (thm, k),
                      {"case": cases[i], "obs": obs[i], "how": "bin/check C14 --replay <this file>"}, found=True, theorem=thm)
    if bad_corr:
        ex = [{"case": cases[i], "obs": obs[i], "part": part} for i, part in bad_corr[:3]]
        ctx.violation("correspondence", "model and implementation disagree on %d C14 case(s)" % len(bad_corr),
                      {"disagreements": ex, "theorems_no_longer_about_the_code": THEOREMS}, found=False,
                      theorem="C14 correspondence (Corr/C14c.v chk_nat/chk_sock)")
    ctx.cov["disagreements"] = len(bad_corr)
    ctx.cov["monitor_failures"] = len(bad_mon)
    ctx.cov["monitor_evaluations"] = len(mons)
    daemon_phase(ctx, 120 if ctx.quick else 1200)


# ---------------------------------------------------------------------------- the daemon's glue around the handler
def gen_daemon_case(rng, ctx):
    """1-3 containers with 1-3 host ports each are set up through the daemon's glue (state file + real PortMappingHandler),
    torn down by CNI DEL or by the garbage collector's callback with a transient failure of a random state-changing iptables
    call, torn down again (kubelet / the next GC round retry), sometimes set up again under the same pod name"""
    steps = [{"op": "basic"}]
    conts = []
    used = set()
    for i in range(rng.choice([1, 2, 2, 3])):
        ports = []
        for _ in range(rng.choice([1, 2, 2, 3])):
            while True:
                hp = rng.randrange(20000, 60000)
                pr = rng.choice(["TCP", "TCP", "UDP"])
                if (hp, pr) not in used:
                    used.add((hp, pr))
                    break
            ports.append([hp, rng.choice([80, 53, 8080, 443]), pr, rng.choice(["", "", "10.9.9.9"])])
        conts.append({"cid": "cid%d" % i, "ns": "ns1", "pod": "pod-%d" % i, "ip": "10.0.0.%d" % (5 + i), "ports": ports})
    live = []
    for c in conts:
        f = rng.choice([0, 0, 0, 1, 2, 3])       # 0 = no fault; n = the n-th state-changing iptables call of the step fails
        steps.append(dict({"op": "setup"}, **c, fault=f))
        if f == 0 or f > 1 + len(c["ports"]):
            live.append(c)
        ctx.dist("daemon:setup-%s" % ("fault" if f else "ok"))
    rng.shuffle(live)
    for c in live:
        how = rng.choice(["cleanup", "gc_clean"])
        f = rng.choice([0, 1, 1, 2, 2, 3, 4])
        st = {"op": how, "cid": c["cid"], "ns": c["ns"], "pod": c["pod"]}
        if f:
            steps.append(dict(st, fault=f))
            if rng.random() < 0.3:
                steps.append(dict(st, fault=rng.choice([1, 2, 3])))
        steps.append(dict(st, op=rng.choice(["cleanup", "gc_clean"])))          # fault-free retry
        ctx.dist("daemon:teardown-%s-fault-%d" % (how, f))
    return {"steps": steps}


def daemon_phase(ctx, n):
    """monitors (python, on the implementation's own tables and state files): a tear-down that reports success has left no state
    file, no chain and no jump rule of the container's ports; a failed tear-down keeps the state file; the fault-free retry
    succeeds; when everything is torn down the NAT table is the one after EnsureBasicRule (but for KUBE-MARK-MASQ)"""
    if not ctx.build_harness("ghcni"):
        return
    cases = [gen_daemon_case(ctx.rng, ctx) for _ in range(n)]
    obs = ctx.harness("ports", cases, cmd="ghcni", shards=16)
    if obs is None:
        return
    corr, corr_idx, mons, mon_meta = [], [], [], []
    for ci, (c, o) in enumerate(zip(cases, obs)):
        ctx.count(c)
        if o is None or o.get("res") != "ok":
            ctx.violation("monitor", "the daemon's port-mapping glue %s" % (o or {}).get("res"), {"case": c, "obs": o}, found=True)
            continue
        # the model (Model/PortDaemon.v d_setup / d_clean with the fault index of the step), from the OBSERVED state before
        # every step, and the theorems' predicates on the implementation's own states
        def cdstate(ob):
            files = clist(cpair(cstr(cid), clist(cport(p_) for p_ in ps)) for cid, ps in sorted(ob["files"].items()) if isinstance(ps, list))
            return "(mkD %s %s)" % (ctable(ob["nat"]), files)
        tbl = cnames([tuple(n_) for n_ in o.get("names") or []])
        dsteps = []
        for si, (st, ob) in enumerate(zip(c["steps"], o["steps"])):
            if si == 0:
                continue
            f = "None" if not st.get("fault") else "(Some %d%%nat)" % (st["fault"] - 1)
            if st["op"] == "setup":
                ps = clist(cport({"hostPort": p_[0], "containerPort": p_[1], "protocol": p_[2], "hostIP": p_[3], "podName": st["pod"],
                                  "podIP": st["ip"]}) for p_ in st["ports"])
                dsteps.append("(DSetup %s %s %s, %s, %s)" % (cstr(st["cid"]), ps, f, cbool(ob["err"]), cdstate(ob)))
            else:
                dsteps.append("(DClean %s %s, %s, %s)" % (cstr(st["cid"]), f, cbool(ob["err"]), cdstate(ob)))
                before = cdstate(o["steps"][si - 1])
                mons.append("(mon_teardown_ok %s %s %s %s %s)" % (tbl, cstr(st["cid"]), before, cdstate(ob), cbool(ob["err"])))
                mon_meta.append((ci, si, "teardown_success_is_complete"))
                mons.append("(mon_teardown_failed_keeps_file %s %s %s %s)" % (cstr(st["cid"]), before, cdstate(ob), cbool(ob["err"])))
                mon_meta.append((ci, si, "failed_teardown_keeps_state_file"))
        corr.append("(chk_daemon %s %s %s)" % (tbl, cdstate(o["steps"][0]), clist(dsteps)))
        corr_idx.append(ci)
        names = {(n_[0], n_[1], n_[2], n_[3]): n_[4] for n_ in o.get("names") or []}
        basic = None
        prev = None
        bad = None
        for si, (st, ob) in enumerate(zip(c["steps"], o["steps"])):
            nat = {ch["name"]: ch["rules"] for ch in ob["nat"]}
            # the sockets: after a set-up that succeeded the container's ports are held; after one that failed (and was rolled
            # back) and after a CNI DEL - whether or not its iptables calls succeeded - none of them is
            if st["op"] in ("setup", "cleanup") and ob.get("held") is not None:
                mine = {(p_[0], p_[2]) for s2 in c["steps"][:si + 1] if s2["op"] == "setup" and s2["pod"] == st["pod"] for p_ in s2["ports"]}
                held = {(h_[0], h_[1]) for h_ in ob["held"]}
                if st["op"] == "setup" and not ob["err"]:
                    want = {(p_[0], p_[2]) for p_ in st["ports"] if p_[2] in ("TCP", "UDP")}
                    if not want <= held:
                        bad = (si, "after a set-up that reported success these host ports are not held by a socket: %s" % sorted(want - held))
                elif mine & held:
                    bad = (si, "%s, yet these host ports of the pod are still held by a socket: %s" % (
                        "the set-up failed and was rolled back" if st["op"] == "setup" else "the pod was torn down (CNI DEL%s)" % (", failed" if ob["err"] else ""),
                        sorted(mine & held)))
                if bad:
                    break
            if st["op"] == "basic":
                basic = {k: v for k, v in nat.items() if k != "KUBE-MARK-MASQ"}
            if st["op"] in ("cleanup", "gc_clean") and prev is not None:
                held = prev["files"].get(st["cid"]) or []
                chains = [names.get((p_["hostPort"], p_["protocol"], p_["containerPort"], p_["podName"])) for p_ in held]
                if ob["err"]:
                    if ob["files"] != prev["files"]:
                        bad = (si, "a failed tear-down changed the state files (the retry no longer knows the ports)")
                    elif not ob["injected"]:
                        bad = (si, "a tear-down failed although no iptables call failed")
                else:
                    left = [ch for ch in chains if ch and (ch in nat or any(r.get("target") == ch for r in nat.get("KUBE-HOSTPORTS", [])))]
                    if st["cid"] in ob["files"] or left:
                        bad = (si, "a tear-down reported success but left the state file or chains / jump rules of the container's ports: %s" % left)
                    if "fault" not in st and st["cid"] not in prev["files"] and any(
                            s2.get("cid") == st["cid"] and s2["op"] == "setup" for s2 in c["steps"][:si]):
                        # the retry found no state file: then nothing of the container may be left either
                        all_ch = [names.get((p_[0], p_[2], p_[1], next(s2["pod"] for s2 in c["steps"] if s2.get("cid") == st["cid"] and s2["op"] == "setup")))
                                  for s2 in c["steps"][:si] if s2.get("cid") == st["cid"] and s2["op"] == "setup" for p_ in s2["ports"]]
                        left = [ch for ch in all_ch if ch and (ch in nat or any(r.get("target") == ch for r in nat.get("KUBE-HOSTPORTS", [])))]
                        if left:
                            bad = (si, "no state file is left for the container but its chains / jump rules are: %s" % left)
                if "fault" not in st and ob["err"]:
                    bad = (si, "a fault-free tear-down failed")
            if bad:
                break
            prev = ob
        if not bad and basic is not None:
            last = {ch["name"]: ch["rules"] for ch in o["steps"][-1]["nat"] if ch["name"] != "KUBE-MARK-MASQ"}
            if last != basic or o["steps"][-1]["files"]:
                bad = (len(c["steps"]) - 1, "everything was torn down, yet the NAT table is not the one after EnsureBasicRule or a state file is left")
        if bad:
            ctx.violation("monitor", "C14 daemon glue, step %d (%s): %s" % (bad[0], c["steps"][bad[0]]["op"], bad[1]),
                          {"case": c, "failing_step": bad[0], "observed": [{k: v for k, v in s_.items() if k != "nat"} for s_ in o["steps"]],
                           "how": "bin/check C14 --replay <this file>"}, found=True, theorem="teardown_retry_completes")
    ctx.cov["daemon_glue_cases"] = len(cases)
    rc = ctx.coq_bools("dcorr", IMPORTS, corr, shard=10)
    rm = ctx.coq_bools("dmon", IMPORTS, mons, shard=40)
    if rc is None or rm is None:
        ctx.violation("correspondence", "the Coq evaluation of the daemon-glue cases failed", {}, found=False,
                      theorem="C14 correspondence (Corr/C14c.v chk_daemon)")
        return
    for k, b in enumerate(rm):
        if not b:
            ci, si, thm = mon_meta[k]
            ctx.violation("monitor", "the predicate of %s is false on the daemon's own state after step %d (%s)" % (thm, si, cases[ci]["steps"][si]["op"]),
                          {"case": cases[ci], "failing_step": si, "how": "bin/check C14 --replay <this file>"}, found=True, theorem=thm)
    badc = [corr_idx[k] for k, b in enumerate(rc) if not b]
    if badc:
        ctx.violation("correspondence", "Model/PortDaemon.v and the daemon's port-mapping glue disagree on %d case(s)" % len(badc),
                      {"disagreements": [{"case": cases[i], "observed": [{k: v for k, v in s_.items() if k != "nat"} for s_ in obs[i]["steps"]]} for i in badc[:3]],
                       "theorems_no_longer_about_the_code": ["teardown_retry_completes", "setup_then_teardown_with_retry", "failed_setup_leaves_nothing"]},
                      found=False, theorem="C14 correspondence (Corr/C14c.v chk_daemon)")
    ctx.cov["traces_validated_against_impl"] = ctx.cov.get("traces_validated_against_impl", 0) + len(corr)


def replay(ctx, path):
    r = json.load(open(path))
    rp = r["replay"]
    cs = [rp["case"]] if "case" in rp else [d["case"] for d in rp.get("disagreements", [])]
    obs = ctx.harness("portmap", cs, cmd="ghpol", shards=1)
    for c, o in zip(cs, obs):
        print(json.dumps({"case": c, "observed_now": o}))
