"""C04 - A live pod's IP is never released, re-keyed or handed on."""
import plugincheck, ipamcheck

THEOREMS = ["live_bound_owned", "winv_preserved", "live_ip_survives_step", "late_event_ignored",
            "pod_sync_object_current", "pod_sync_object_earlier", "stale_sync_keeps_owners", "stale_sync_skipped",
            "stale_sync_repaired", "stale_sync_of_gone_pod"]
REFUTED = ["live_bound_owned_refuted_late_event_old", "live_bound_owned_refuted_stale_lister_old",
           "live_bound_owned_refuted_mixed_uid_old", "late_event_other_key", "stale_sync_refuted_old"]
KNOWN_FINDINGS = [
    {"id": "F16", "status": "fixed", "commit": "08c3290", "tag": "c04-stale-pod-ip-sync",
     "what": "fixed: property=C04 08c3290 the pod-IP sync (periodic pass walking an earlier list, or a pod update handler running "
             "late) used the pod OBJECT it was handed: an earlier incarnation of a re-created pod got its released IP back under the "
             "shared key with the OLD uid, and the next resync item for that IP unbound the key - releasing the running pod's IP "
             "(witness stale_sync_refuted_old; scenario F16-stale-pod-ip-sync; found through round-3 seeds C01c/C04c)"},
    {"id": "F1", "status": "fixed", "commit": "53acf3f", "tag": "c04-late-event",
     "what": "fixed: property=C04 53acf3f unbind never compared the event pod's UID with the UID the IP is stored for: a late "
             "delete/finish event of an earlier same-named pod released / wiped / cloud-unassigned the live pod's IP (witness "
             "live_bound_owned_refuted_late_event_old; scenarios F1-late-event-p0..p2)"},
    {"id": "F2", "status": "fixed", "commit": "a9e7617", "tag": "c04-stale-lister",
     "what": "fixed: property=C04 a9e7617 Bind stored the UID of the informer's stale pod object with the IP of the pod being bound, "
             "so the old pod's delete event then passed the UID test (witness live_bound_owned_refuted_stale_lister_old; scenario "
             "F2-stale-lister-bind)"},
    {"id": "F13", "status": "fixed", "commit": "b734a7c", "tag": "c04-mixed-uid-key",
     "what": "fixed: property=C04 b734a7c Bind checked the stored UID only of the IPs it was about to re-use: a pod re-created with "
             "other requested ranges was bound while the key still held the previous pod's IP, and the next resync item for that "
             "stale IP released EVERY IP of the key including the running pod's (found by the invariant proof; witness "
             "live_bound_owned_refuted_mixed_uid_old; scenario F13-mixed-uid-key)"},
]

MANIFEST = {
    "text": "Coq invariant proof over ALL well-formed histories of the scheduler-plugin model: live_bound_owned - in every "
            "reachable world every IP in the binding annotation of a live (existing, not finished) pod is allocated under that "
            "pod's key and stored for that pod's UID, and no IP of its key is stored for another incarnation; winv_preserved (the "
            "induction step for EVERY kind of operation: delete/finish events of earlier same-named pods in any order and "
            "multiplicity, resync items, API release requests, pod-IP sync, reloads and restarts that keep the IP, filter and bind "
            "with arbitrary informer lag and one clean fault anywhere); live_ip_survives_step; late_event_ignored (an event of an "
            "earlier pod of the same key changes neither the tables nor the provider state while a live bound pod of that key "
            "exists). The three defects the proof attempt exposed (F1, F2, F13) are repaired in /repo; their refutations are proved "
            "for the old flags. Tied to the code by replaying scenario + random histories on the real FloatingIPPlugin vs the model "
            "step by step and by evaluating mon_owned (the predicate `owned`) on the implementation's dumps after every step.",
    "note": "trusted: Coq kernel (no axioms); harness fakes (API server incl. pods/binding semantics, listers as informer caches "
            "updated only by explicit informer steps, recording provider); section atomicity (DESIGN.md section 5); histories are "
            "those of wf_op (Proofs/PluginInv.v); the cloud-provider half (never asked to unassign) is C10's cloud_live",
}


def run(ctx):
    ctx.cov["rule"] = plugincheck.RULE_COMMON + "; monitor: the predicate `owned` (every annotated IP of a live bound pod allocated under its key for its UID; no IP of the key stored for another UID) after every step of the well-formed prefix"
    plugincheck.run(ctx, "C04", THEOREMS, REFUTED, plugincheck.mon_c04)
    reload_window(ctx)


def reload_window(ctx):
    """the plugin model treats ConfigurePool as one atomic step (the lock is held across the list since fix cdfc2c2): requests
    of every kind arriving while the real ConfigurePool lists the store must be serialised after it, memory = store afterwards"""
    ipamcheck.run(ctx, "C05", "C05", [], [], only="request-during-reload-list")


def replay(ctx, path):
    plugincheck.replay(ctx, path)
