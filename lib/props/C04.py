"""C04 - A live pod's IP is never released, re-keyed or handed on."""
import plugincheck

THEOREMS = []
REFUTED = []
KNOWN_FINDINGS = []


def run(ctx):
    ctx.cov["rule"] = "wip"
    plugincheck.run(ctx, "C04", THEOREMS, REFUTED, plugincheck.mon_c04)


def replay(ctx, path):
    plugincheck.replay(ctx, path)
