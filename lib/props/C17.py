"""C17 - GC removes only dead containers' state, and eventually all of it."""
import json
import vf
from vf import cbool, cstr, clist, copt, cpair

IMPORTS = ("From Coq Require Import List Ascii String NArith ZArith Bool.\n"
           "From Galaxy.Base Require Import Strs.\nFrom Galaxy.Model Require Import Nets Gc.\n"
           "From Galaxy.Corr Require Import CorrBase C17c.\n")

THEOREMS = ["should_cleanup_exact", "should_cleanup_never", "gc_safe", "gc_safe_keeps", "gc_live"]
REFUTED = []
DEPS = ["Strs", "Nets", "Gc", "GcP", "CorrBase", "C17c", "C17"]
MANIFEST = {
    "text": "Coq theorems over an executable model of flannelGC.cleanupIP / cleanupGCDirs / shouldCleanup for the docker and the "
            "CRI path (should_cleanup_exact, should_cleanup_never, gc_safe and gc_safe_keeps for ALL directory contents, oracles "
            "and histories; gc_live: at most k non-gone inspect answers for a container => none of its files left after k+1 "
            "rounds, by a counting argument over the inspect-call counter); tied to the working tree by running ~800 cases (quick) "
            "of 1-5 real NewFlannelGC rounds (verif hook VerifRound) with the real docker.NewDockerInterface against a fake Docker "
            "daemon (unix socket) or a fake CRI gRPC RuntimeService + fake clientset, comparing directory listings, port-clean "
            "callbacks and inspect counts per round, and evaluating gc_safe / gc_live as monitors on the implementation's listings",
    "note": "trusted: Coq kernel (no axioms), Go harness fakes (Docker HTTP, CRI gRPC, clientset, temp dirs), python printers; "
            "os.Remove succeeds, directories readable, only the GC writes them; one round = cleanupIP then cleanupGCDirs (Run()'s "
            "timers not exercised); cleanupVeth (netlink), IPv6-named files and the real callback Galaxy.cleanIPtables not modelled",
}
KNOWN_FINDINGS = []

# (errors whose TEXT resembles a not-found answer are still errors: the runtime could not be asked)
DOCKER_ERR = ["err500", "badjson", "drop", "err500nosuchfile", "err500notfoundtext"]
DOCKER_GONE = ["notfound", "exited", "dead"]
DOCKER_ALIVE = ["running", "created", "paused", "restarting", "removing", "Exited", "nostate", ""]
CRI_ERR = ["unavailable", "unknown", "unknown_nosuch"]


def cnat(n):
    return "%d%%nat" % n


# ---------------------------------------------------------------------------- answers
def canswer(mode, a, pods):
    if mode == "docker":
        if a == "notfound":
            return "(Docker DNotFound)"
        if a in DOCKER_ERR:
            return "(Docker DErr)"
        if a == "nostate":
            return "(Docker (DOk None))"
        return "(Docker (DOk (Some %s)))" % cstr(a)
    kind = a if isinstance(a, str) else a["kind"]
    if kind == "notfound":
        return "(Cri CNotFound)"
    if kind in CRI_ERR:
        return "(Cri CErr)"
    if kind == "nil":
        return "(Cri CNil)"
    if kind == "ready":
        return "(Cri CReady)"
    p = pods.get(a["ns"] + "/" + a["name"], {"missing": True})
    if p.get("err"):
        return "(Cri (CNotReady PErr))"
    if p.get("missing"):
        return "(Cri (CNotReady PNotFound))"
    m = {"running": "Running", "waiting": "Waiting", "terminated": "Terminated", "none": "NoState"}
    return "(Cri (CNotReady (PFound %s)))" % clist(m[s] for s in p.get("states", []))


def is_err(mode, a, pods):
    t = canswer(mode, a, pods)
    return t in ("(Docker DErr)", "(Cri CErr)", "(Cri (CNotReady PErr))")


def is_gone(mode, a, pods):
    if mode == "docker":
        return a in DOCKER_GONE
    t = canswer(mode, a, pods)
    if t in ("(Cri CNotFound)", "(Cri (CNotReady PNotFound))"):
        return True
    return t.startswith("(Cri (CNotReady (PFound") and "Running" not in t and "Waiting" not in t


def cdir(d):
    if d.get("missing"):
        return "None"
    es = sorted(d["entries"], key=lambda e: e["name"].encode())
    return "(Some %s)" % clist(cpair(cstr(e["name"]), "NDir" if e.get("dir") else "(NFile %s)" % cstr(e.get("content", "")))
                                for e in es)


def cfs(case):
    return "{| ipdirs := %s; gcdirs := %s |}" % (clist(cdir(d) for d in case["ipdirs"]), clist(cdir(d) for d in case["gcdirs"]))


def corc(case):
    pods = case.get("pods", {})
    return "(mk_orc %s %s)" % (clist(cpair(cstr(c), clist(canswer(case["mode"], a, pods) for a in l))
                                     for c, l in sorted(case["oracle"].items())), canswer(case["mode"], case["default"], pods))


def cnames(l):
    return "None" if l is None else "(Some %s)" % clist(cstr(n) for n in l)


def cround(r):
    return "(%s, %s, %s, %s)" % (clist(cnames(l) for l in r["ip"]), clist(cnames(l) for l in r["gc"]),
                                 clist(cstr(p) for p in r["ports"]),
                                 clist(cpair(cstr(c), cnat(n)) for c, n in sorted(r["calls"].items())))


def init_names(d):
    if d.get("missing"):
        return None
    return sorted((e["name"] for e in d["entries"]), key=lambda s: s.encode())


def dead_budget(case):
    """[(cid, k)]: containers that are gone for good and whose inspect errs exactly k times"""
    out = []
    pods = case.get("pods", {})
    for c, l in case["oracle"].items():
        if not l or is_err(case["mode"], l[-1], pods):
            continue
        if all(is_err(case["mode"], a, pods) or is_gone(case["mode"], a, pods) for a in l):
            out.append((c, sum(1 for a in l if is_err(case["mode"], a, pods))))
    return out


def case_exprs(case, o):
    orc, f = corc(case), cfs(case)
    obs = clist(cround(r) for r in o["rounds"])
    head = "(let orc := %s in let f := %s in " % (orc, f)
    corr = head + "chk_gc orc f %s)" % obs
    bip = clist(cnames(init_names(d)) for d in case["ipdirs"])
    bgc = clist(cnames(init_names(d)) for d in case["gcdirs"])
    safe = head + "mon_safe orc f %s %s [] %s)" % (bip, bgc, obs)
    last = o["rounds"][-1]
    live = head + "mon_live f %s %s %s %s)" % (clist(cnames(l) for l in last["ip"]), clist(cnames(l) for l in last["gc"]),
                                              cnat(len(o["rounds"])), clist(cpair(cstr(c), cnat(k)) for c, k in dead_budget(case)))
    return corr, safe, live


# ---------------------------------------------------------------------------- generators
CIDS = ["0a1b2c3d4e5f", "deadbeef0001", "c0ffee", "f00d", "9f8e7d", "ab", "x y", "K8S_pod.1-a"]
NONIP = ["last_reserved_ip.0", "lock", "10.0.0", "10.0.0.256", "1.2.3.4.5", "010.0.0.1", "10.0.0.1 ", "a.b.c.d", "0x0a.0.0.1", "10.0.0.-1"]


def gen_answer(rng, mode, pods, ctx):
    if mode == "docker":
        r = rng.random()
        if r < 0.3:
            a = rng.choice(DOCKER_GONE)
        elif r < 0.55:
            a = rng.choice(DOCKER_ERR)
        else:
            a = rng.choice(DOCKER_ALIVE)
        ctx.dist("answer:docker:" + (a or "empty-status"))
        return a
    r = rng.random()
    if r < 0.2:
        a = "notfound"
    elif r < 0.4:
        a = rng.choice(CRI_ERR)
    elif r < 0.5:
        a = rng.choice(["nil", "ready"])
    else:
        name = "p%d" % rng.randrange(6)
        key = "ns/" + name
        if key not in pods:
            k = rng.random()
            if k < 0.25:
                pods[key] = {"missing": True}
            elif k < 0.4:
                pods[key] = {"err": True, "states": ["terminated"]}
            else:
                pods[key] = {"states": [rng.choice(["running", "waiting", "terminated", "terminated", "none"])
                                        for _ in range(rng.choice([0, 1, 2, 3]))]}
        a = {"kind": "notready", "ns": "ns", "name": name}
        p = pods[key]
        ctx.dist("answer:cri:notready:" + ("pod-error" if p.get("err") else "pod-gone" if p.get("missing") else "pod-found"))
        return a
    ctx.dist("answer:cri:" + a)
    return a


def gen_case(rng, ctx, mode):
    pods = {}
    ncid = rng.choice([2, 3, 4, 5])
    cids = rng.sample(CIDS, ncid)
    if rng.random() < 0.15:
        cids.append("")
    oracle = {}
    for c in cids:
        if rng.random() < 0.85:
            oracle[c] = [gen_answer(rng, mode, pods, ctx) for _ in range(rng.choice([1, 1, 2, 3, 4]))]
    default = gen_answer(rng, mode, pods, ctx)
    ipdirs, gcdirs = [], []
    ipn = 2
    for _ in range(rng.choice([1, 2, 2, 3])):
        if rng.random() < 0.12:
            ipdirs.append({"missing": True})
            ctx.dist("dir:missing")
            continue
        es, used = [], set()
        for _ in range(rng.choice([0, 1, 2, 3, 4, 6])):
            r = rng.random()
            if r < 0.7:
                name = "10.0.%d.%d" % (rng.randrange(2), ipn)
                ipn += 1
            else:
                name = rng.choice(NONIP)
            if name in used:
                continue
            used.add(name)
            if rng.random() < 0.08:
                es.append({"name": name, "dir": True})
                ctx.dist("ipdir:subdirectory")
                continue
            c = rng.choice(cids)
            form = rng.choice(["lf", "lf", "crlf", "bare", "spaces", "empty", "nl-only", "crlf-only", "tab"])
            content = {"lf": c + "\neth0", "crlf": c + "\r\neth0", "bare": c, "spaces": "  " + c + " \neth0", "empty": "",
                       "nl-only": "\neth0", "crlf-only": "\r\n", "tab": "\t" + c + "\t\r\neth0\n"}[form]
            ctx.dist("ipfile:" + form + (":non-ip-name" if not name.startswith("10.0.") or name in NONIP else ""))
            es.append({"name": name, "content": content})
        ipdirs.append({"entries": es})
    for _ in range(rng.choice([1, 2, 3, 3])):
        if rng.random() < 0.12:
            gcdirs.append({"missing": True})
            ctx.dist("dir:missing")
            continue
        es, used = [], set()
        for _ in range(rng.choice([0, 1, 2, 3, 4, 5])):
            name = rng.choice([c for c in cids if c != ""] + ["port", "README", "unknown-cid"])
            if name in used:
                continue
            used.add(name)
            if name == "port" or rng.random() < 0.05:
                es.append({"name": name, "dir": True})
                ctx.dist("gcdir:subdirectory")
            else:
                es.append({"name": name, "content": rng.choice(["{}", "", '[{"hostPort":80}]'])})
                ctx.dist("gcdir:file")
        gcdirs.append({"entries": es})
    case = {"mode": mode, "ipdirs": ipdirs, "gcdirs": gcdirs, "rounds": rng.choice([1, 2, 3, 4, 5]), "default": default,
            "oracle": oracle, "pods": pods, "port_err": [c for c in cids if rng.random() < 0.2]}
    return case


def live_template(rng, ctx, mode):
    """a dead container with k inspect errors, several files, k+1 rounds"""
    k = rng.choice([0, 1, 2, 3])
    pods = {"ns/gone": {"missing": True}, "ns/done": {"states": ["terminated", "terminated"]}, "ns/up": {"states": ["running"]}}
    if mode == "docker":
        gone = lambda: rng.choice(DOCKER_GONE)
        err = lambda: rng.choice(DOCKER_ERR)
        alive = "running"
    else:
        gone = lambda: rng.choice(["notfound", {"kind": "notready", "ns": "ns", "name": "gone"}, {"kind": "notready", "ns": "ns", "name": "done"}])
        err = lambda: rng.choice(CRI_ERR)
        alive = rng.choice(["ready", {"kind": "notready", "ns": "ns", "name": "up"}])
    script = [gone() for _ in range(rng.choice([1, 2, 3]))]
    for _ in range(k):
        script.insert(rng.randrange(len(script)), err())
    ctx.dist("template:dead-with-%d-errors" % k)
    case = {"mode": mode,
            "ipdirs": [{"entries": [{"name": "10.0.0.2", "content": "dead01\neth0"}, {"name": "10.0.0.3", "content": "live01\neth0"},
                                    {"name": "10.0.0.4", "content": "dead01\r\neth1"}]}],
            "gcdirs": [{"entries": [{"name": "dead01", "content": "{}"}, {"name": "live01", "content": "{}"}]},
                       {"entries": [{"name": "dead01", "content": "{}"}, {"name": "port", "dir": True}]}],
            "rounds": k + 1 + rng.choice([0, 0, 1]), "default": alive, "oracle": {"dead01": script, "live01": [alive]},
            "pods": pods, "port_err": []}
    return case


def run(ctx):
    n = 700 if ctx.quick else 7000
    ctx.cov["rule"] = ("cases = (mode docker|cri, allocated-IP directories and gc dirs with IP-named / other files, empty "
                       "files, LF/CRLF/blank first lines, sub-directories, missing directories; a scripted runtime: per "
                       "container id the answers to successive inspect calls incl. errors, 5xx, undecodable bodies, dropped "
                       "connections, gRPC NotFound/Unavailable/plain errors, sandbox READY/NOTREADY with the pod found "
                       "(container states) / gone / lookup error; 1-5 rounds); each case runs gc.NewFlannelGC rounds "
                       "(cleanupIP + cleanupGCDirs through the verif hook) with the real docker.NewDockerInterface against a "
                       "fake Docker daemon (unix socket, DOCKER_HOST) or a fake CRI RuntimeService (gRPC, CONTAINERD_HOST) "
                       "+ fake clientset, and through the Coq model; compared per round: directory listings, port-clean "
                       "callbacks, inspect-call counts per container; gc_safe / gc_live predicates evaluated as monitors "
                       "on the implementation's listings")
    ctx.cov["trusted_base"] = vf.TRUSTED_COMMON + [
        "fake Docker daemon / fake CRI service / fake clientset / temp directories stand for the runtime, the API server and "
        "/var/lib/cni; file removal is assumed to succeed; IPv6-named files, unreadable files/directories and cleanupVeth "
        "(netlink) are not modelled; one round = cleanupIP then cleanupGCDirs (Run() drives them from two timers)"]
    ctx.assumptions += ["os.Remove of a collected file succeeds; directories are readable",
                        "nothing but the GC changes the directories between rounds",
                        "gc_live: a dead container stays dead (every non-error answer says gone) and its inspect errs at most k times"]
    ctx.theorems("C17", THEOREMS, REFUTED, deps=DEPS)
    cases = []
    corpus = json.load(open(vf.ROOT + "/corpus/C17.json"))
    for c in corpus["cases"]:
        cases.append(c)
        ctx.dist("case:corpus")
    for i in range(n // 7):
        cases.append(live_template(ctx.rng, ctx, "docker" if i % 2 == 0 else "cri"))
    for i in range(n):
        mode = "docker" if i % 5 < 3 else "cri"
        cases.append(gen_case(ctx.rng, ctx, mode))
        ctx.dist("case:random-" + mode)
    obs = ctx.harness("gc", cases, cmd="ghcni", shards=16)
    if obs is None:
        return
    corr, safe, live, idx = [], [], [], []
    for i, (c, o) in enumerate(zip(cases, obs)):
        ctx.count(c)
        if o.get("res") != "ok":
            ctx.violation("monitor", "a GC round did not complete (%s)" % o.get("res"), {"case": c, "obs": o}, found=True)
            continue
        ce, se, le = case_exprs(c, o)
        corr.append(ce)
        safe.append(se)
        live.append(le)
        idx.append(i)
        removed = sum(len(init_names(d) or []) for d in c["ipdirs"] + c["gcdirs"]) - \
            sum(len(l or []) for l in o["rounds"][-1]["ip"] + o["rounds"][-1]["gc"])
        ctx.dist("files-removed", removed)
        ctx.dist("inspect-calls", sum(o["rounds"][-1]["calls"].values()))
        if len(ctx.cov["samples"]) < 3 and removed > 1 and c["mode"] == ("cri" if len(ctx.cov["samples"]) == 1 else "docker"):
            ctx.sample({"case": c, "observed": o})
    ctx.cov["traces_validated_against_impl"] = len(corr)
    rc = ctx.coq_bools("corr", IMPORTS, corr, shard=100)
    rs = ctx.coq_bools("safe", IMPORTS, safe, shard=100)
    rl = ctx.coq_bools("live", IMPORTS, live, shard=100)
    if rc is None or rs is None or rl is None:
        ctx.violation("correspondence", "the Coq evaluation of the C17 cases failed", {}, found=False,
                      theorem="C17 correspondence (Corr/C17c.v chk_gc)")
        return
    bad_safe = [idx[k] for k, b in enumerate(rs) if not b]
    bad_live = [idx[k] for k, b in enumerate(rl) if not b]
    bad_corr = [idx[k] for k, b in enumerate(rc) if not b]
    for i in bad_safe[:3]:
        ctx.violation("monitor", "C17 gc_safe: a file was removed although no inspect call of its container answered "
                      "not-found/exited/dead in that round (or a file of no container vanished, or the port-clean callbacks differ "
                      "from the removed gc files): " + explain_safe(cases[i], obs[i]),
                      {"case": cases[i], "obs": obs[i], "how": "bin/check C17 --replay <this file>"}, found=True, theorem="gc_safe")
    for i in bad_live[:3]:
        ctx.violation("monitor", "C17 gc_live: files of a dead container are left after k+1 rounds (k inspect errors): %s"
                      % dead_budget(cases[i]), {"case": cases[i], "obs": obs[i], "how": "bin/check C17 --replay <this file>"},
                      found=True, theorem="gc_live")
    if bad_corr:
        ctx.violation("correspondence", "model and implementation disagree on %d C17 case(s)" % len(bad_corr),
                      {"disagreements": [{"case": cases[i], "obs": obs[i]} for i in bad_corr[:3]],
                       "theorems_no_longer_about_the_code": THEOREMS}, found=False,
                      theorem="C17 correspondence (Corr/C17c.v chk_gc)")
    ctx.cov["disagreements"] = len(bad_corr)
    ctx.cov["monitor_failures"] = len(bad_safe) + len(bad_live)


def py_owner(kind, e):
    """python mirror of owner_ip / owner_gc, used only to word the message"""
    if e.get("dir"):
        return None
    if kind == "gc":
        return e["name"]
    parts = e["name"].split(".")
    if len(parts) != 4 or not all(p.isdigit() and (p == "0" or not p.startswith("0")) and int(p) < 256 for p in parts):
        return None
    c = e.get("content", "")
    return c.split("\n")[0].strip(" \t\r\n\v\f") if c else None


def explain_safe(case, o):
    """the removals of a round in which the file's container got no 'gone' answer (re-computed for the message)"""
    out = []
    pods = case.get("pods", {})
    dirs = {"ip": case["ipdirs"], "gc": case["gcdirs"]}
    before = {k: [init_names(d) for d in v] for k, v in dirs.items()}
    calls_before = {}
    for r, rd in enumerate(o["rounds"]):
        for kind in ("ip", "gc"):
            for di, (b, a) in enumerate(zip(before[kind], rd[kind])):
                for nme in (b or []):
                    if nme in (a or []):
                        continue
                    e = [x for x in dirs[kind][di]["entries"] if x["name"] == nme][0]
                    c = py_owner(kind, e)
                    if c is None:
                        out.append("round %d: %s dir %d: %r belongs to no container but was removed" % (r + 1, kind, di, nme))
                        continue
                    script = case["oracle"].get(c) or [case["default"]]
                    lo, hi = calls_before.get(c, 0), rd["calls"].get(c, 0)
                    answers = [script[min(n, len(script) - 1)] for n in range(lo, hi)]
                    if not any(is_gone(case["mode"], x, pods) for x in answers):
                        out.append("round %d: %s dir %d: %r of container %r removed, inspect answered %s" % (
                            r + 1, kind, di, nme, c, [x if isinstance(x, str) else canswer(case["mode"], x, pods) for x in answers]))
        gone_gc = [n for b, a in zip(before["gc"], rd["gc"]) for n in (b or []) if n not in (a or [])]
        if gone_gc != rd["ports"]:
            out.append("round %d: port-clean callbacks %s but removed gc files %s" % (r + 1, rd["ports"], gone_gc))
        before = {"ip": rd["ip"], "gc": rd["gc"]}
        calls_before = rd["calls"]
    return "; ".join(out[:4]) or "see replay"


def replay(ctx, path):
    r = json.load(open(path))
    rp = r["replay"]
    cs = [rp["case"]] if "case" in rp else [d["case"] for d in rp.get("disagreements", [])]
    obs = ctx.harness("gc", cs, cmd="ghcni")
    for c, o in zip(cs, obs):
        print(json.dumps({"case": c, "observed_now": o}))
