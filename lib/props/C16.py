"""C16 - Installed rules enforce Kubernetes NetworkPolicy semantics."""
import copy, json
import vf
from vf import cN, cbool, cstr, clist, cpair

IMPORTS = ("From Coq Require Import List Ascii String NArith Bool.\n"
           "From Galaxy.Base Require Import Strs.\nFrom Galaxy.Model Require Import Nets Netfilter Policy K8sPolicy.\n"
           "From Galaxy.Corr Require Import CorrBase C16c.\n")

THEOREMS = ["enforces_partial_general", "enforces_partial_general_injective", "enforces_partial", "enforces_partial_injective",
            "enforces_partial_node", "enforces_partial_policy_chain"]   # see Props/C16.v
REFUTED = ["enforces_refuted", "enforces_refuted_podsel_all_ns", "enforces_refuted_nspod_ignores_ns",
           "enforces_refuted_empty_peers", "enforces_refuted_merged_except", "enforces_refuted_cross_talk",
           "enforces_refuted_egress_shortcut", "refutation_verdicts"]
DEPS = ["Strs", "Nets", "NetsP", "Netfilter", "Policy", "PolicySpec", "K8sPolicy", "NetfilterP", "PolicySetsP", "PolicyPodsP",
        "PolicyP", "K8sPolicyP", "K8sPolicyFragP", "CorrBase", "C16c", "C16"]

# bit i of the classification mask (Corr/C16c.v classify) <-> finding
CLASSES = [("K6a", "c16-podsel-all-namespaces"), ("K6b", "c16-nspod-ignores-ns"), ("K6c", "c16-empty-peers-deny"),
           ("K6d", "c16-merged-ipblock-except"), ("K6e", "c16-ingress-egress-cross-talk"),
           ("K6g", "c16-egress-accept-skips-ingress")]
KNOWN_FINDINGS = [
    {"id": "K6a", "status": "open", "tag": "c16-podsel-all-namespaces",
     "what": "a podSelector-only peer is resolved in ALL namespaces instead of the policy's (peerTable lists pods with "
             "NamespaceAll): pods of foreign namespaces with matching labels get through; witness "
             "enforces_refuted_podsel_all_ns, corpus K6a"},
    {"id": "K6b", "status": "open", "tag": "c16-nspod-ignores-ns",
     "what": "a peer with namespaceSelector AND podSelector ignores the namespace selector (peerTable tests podSelector "
             "first); witness enforces_refuted_nspod_ignores_ns, corpus K6b"},
    {"id": "K6c", "status": "open", "tag": "c16-empty-peers-deny",
     "what": "a rule with an empty from/to (allow from/to anywhere, with or without ports) installs no ACCEPT rule at all: "
             "the traffic NetworkPolicy allows is dropped; witness enforces_refuted_empty_peers, corpus K6c"},
    {"id": "K6d", "status": "open", "tag": "c16-merged-ipblock-except",
     "what": "all ipBlocks of a rule are merged into one hash:net set, so the except (nomatch) of one block cuts a hole "
             "into another block of the same rule; witness enforces_refuted_merged_except, corpus K6d"},
    {"id": "K6e", "status": "open", "tag": "c16-ingress-egress-cross-talk",
     "what": "ingress and egress ACCEPT rules of a policy share one chain reached from both hooks: an egress rule of policy "
             "X accepts INGRESS traffic between pods X selects (and vice versa); witness enforces_refuted_cross_talk, "
             "corpus K6e"},
    {"id": "K5d", "status": "open", "tag": "c16-conflicting-ipblock-flags",
     "what": "a rule that lists one net both as the cidr of one ipBlock and as an except of another keeps ONE hash:net element "
             "whose nomatch flag every synchronisation flips (C15's finding K5d): whether addresses of that net are accepted "
             "depends on how many synchronisations have run - seen by C16 on clusters reached through pod events; attributed "
             "only to flows with an end inside such a net of a cluster that has the shape"},
    {"id": "K6g", "status": "open", "tag": "c16-egress-accept-skips-ingress",
     "what": "FORWARD jumps to GLX-EGRESS before GLX-INGRESS and every verdict is a terminal ACCEPT: for two pods on one "
             "node the source's egress ACCEPT skips the destination's ingress isolation; witness "
             "enforces_refuted_egress_shortcut, corpus K6g"},
]


MANIFEST = {
    "text": "The full statement `enforces` (for all clusters, policies and flows the installed rules accept a new connection iff "
            "the Kubernetes NetworkPolicy semantics allow it) is stated in Coq over two executable models - galaxy's compiler + "
            "packet walk (Model/Policy.v, Netfilter.v) and a reference semantics written from the NetworkPolicy API "
            "(Model/K8sPolicy.v) - and is REFUTED by proof: enforces_refuted, with six independent witnesses "
            "(enforces_refuted_podsel_all_ns, _nspod_ignores_ns, _empty_peers, _merged_except, _cross_talk, _egress_shortcut; "
            "refutation_verdicts gives both verdicts of each). Each witness is reproduced on the real PolicyManager and recorded "
            "as an open known finding (K6a-e, K6g). PROVED for all inputs is the positive half, the compiler-correctness "
            "theorem enforces_partial_general (per node: enforces_partial_node; one policy chain: "
            "enforces_partial_policy_chain; for an injective name hash: *_injective): for every name hash that does not "
            "collide on the policy keys and on the pod keys of the nodes the flow crosses, every cluster in the fragment "
            "`frag_g` and every flow with 32-bit addresses, without cross-talk (`no_cross`) and with at most one hooked end per "
            "node (`one_hooked`), the packet walk over the kernels that PolicyManager.Run installs (from a node without "
            "netfilter state) on the nodes of the two ends gives EXACTLY the reference verdict: galaxy_allows H c f = "
            "k8s_allows c f. The fragment (boolean predicates, Proofs/K8sPolicyFragP.v, DESIGN.md appendix D): (1) every rule "
            "of a direction its policy affects has at least one peer; (2) peers are ipBlocks, namespaceSelector-only peers, or "
            "podSelector-only peers all of whose matching pods live in the policy's namespace (no peer with both selectors); "
            "(3) at most one ipBlock per rule, 32-bit CIDRs, every exception a strictly longer prefix than its block; (4) "
            "numeric tcp/udp ports; well-formedness: distinct policy keys, distinct pod keys, distinct 32-bit pod addresses; "
            "premises on the flow: (5) no_cross - no policy selecting an egress-isolated sender has an ingress rule matching "
            "the flow and no policy selecting an ingress-isolated receiver has an egress rule matching it; (6) one_hooked - no "
            "source pod / destination pod pair on one node with the source egress-isolated and the destination "
            "ingress-isolated. enforces_partial is the corollary for the simple fragment `frag` (moreover every policy affects "
            "exactly one direction and no pod is isolated in both directions), where (5) holds for every flow. Each of (1)-(6) "
            "excludes one of the six refuted classes (K6c; K6a, K6b; K6d; -; K6e; K6g). Both fragments are inhabited "
            "(enforces_partial_nonvacuous: two policies, five pods on two nodes, three allowed and three denied flows; "
            "enforces_partial_general_nonvacuous: a policy affecting both directions, two allowed and three denied flows). "
            "Outside the fragment, and for the link "
            "model <-> real code, the check decides the property differentially: the Coq packet walk over the rules the REAL code "
            "installed is compared with the Coq reference for all generated flows, and every disagreement must be explained by a "
            "combination of the six recorded divergences (Corr/C16c.v classify), otherwise it is a VIOLATION with the "
            "cluster/flow as replay.",
    "note": "trusted: Coq kernel (no axioms); strict iptables/ipset fakes (semantics checked against real iptables 1.8.9 in a netns; "
            "ipset by man page); numeric TCP/UDP ports and matchLabels selectors only; enforces_partial is about the kernel a Run "
            "leaves on a node WITHOUT prior netfilter state (restart / event histories are C15's domain) and about the FORWARD "
            "hook; the agreement outside the fragment and outside the six divergence classes is "
            "validated by generated cases, not by a theorem",
}


# ---------------------------------------------------------------------------- helpers
def ip2s(n):
    return "%d.%d.%d.%d" % (n >> 24 & 255, n >> 16 & 255, n >> 8 & 255, n & 255)


def s2ip(s):
    a, b, c, d = [int(x) for x in s.split(".")]
    return a << 24 | b << 16 | c << 8 | d


def parse_cidr(s):
    a, l = s.split("/")
    return s2ip(a), int(l)


def in_net(cidr, x):
    a, l = cidr
    sh = 32 - l
    return (a >> sh) == (x >> sh)


# ---------------------------------------------------------------------------- Coq printers
def clabels(d):
    return clist(cpair(cstr(k), cstr(d[k])) for k in sorted(d))


def cpeer(p):
    if p.get("cidr"):
        return "(PeerBlock %s %s)" % (cpair(*map(cN, parse_cidr(p["cidr"]))),
                                      clist(cpair(*map(cN, parse_cidr(e))) for e in p.get("except", [])))
    if p.get("ns") is not None and p.get("pod") is not None:
        return "(PeerNsPod %s %s)" % (clabels(p["ns"]), clabels(p["pod"]))
    if p.get("pod") is not None:
        return "(PeerPod %s)" % clabels(p["pod"])
    return "(PeerNs %s)" % clabels(p["ns"])


def cprule(r):
    return "(mkPRule %s %s)" % (clist(cpair(cstr(pr.lower()), cN(po)) for pr, po in r["ports"]),
                                clist(cpeer(p) for p in r["peers"]))


def cpolicy(p):
    return "(mkPol %s %s %s %s %s %s %s)" % (cstr(p["ns"]), cstr(p["name"]), clabels(p["sel"]),
                                             cbool("Ingress" in p["types"]), cbool("Egress" in p["types"]),
                                             clist(cprule(r) for r in p["ingress"]), clist(cprule(r) for r in p["egress"]))


def ccluster(c):
    return "(mkCluster %s %s %s)" % (
        clist("(mkNs %s %s)" % (cstr(n["name"]), clabels(n["labels"])) for n in c["namespaces"]),
        clist("(mkPod %s %s %s (Some %s) %s)" % (cstr(p["ns"]), cstr(p["name"]), clabels(p["labels"]), cN(s2ip(p["ip"])),
                                                 cstr(p["node"])) for p in c["pods"]),
        clist(cpolicy(p) for p in c["policies"]))


def crule(r):
    return "(mkRule %s %s %s %s %s %s %s)" % (cstr(r["src"]), cstr(r["dst"]), cstr(r["proto"]), cstr(r["comment"]),
                                              clist(cstr(x) for x in r["match"]), cstr(r["target"]),
                                              clist(cstr(x) for x in r["topts"]))


def ctable(chains):
    return clist(cpair(cstr(c["name"]), clist(crule(r) for r in c["rules"])) for c in chains)


def csettype(t):
    return {"hash:ip": "HashIP", "hash:net": "HashNet"}.get(t, "(OtherSet %s)" % cstr(t))


def ckernel(step):
    sets = clist(cpair(cstr(s["name"]), "(mkSet %s %s)" % (csettype(s["type"]),
                                                          clist(cpair(cstr(e[0]), cbool(e[1])) for e in s["elems"])))
                 for s in step["sets"])
    return "(mkK %s %s)" % (ctable(step["filter"]), sets)


def cflow(f):
    return "(mkFlow %s %s %s %s)" % (cN(s2ip(f["src"])), cN(s2ip(f["dst"])), cstr(f["proto"]), cN(f["dport"]))


# ---------------------------------------------------------------------------- generators
NS_LABELS = [{}, {"team": "a"}, {"team": "b"}, {"team": "a", "env": "prod"}, {"env": "prod"}]
# (a label may carry the EMPTY value - `canary: ""` is legal: a selector entry with the empty value matches only pods that
#  carry the key with that value, not pods without the key)
NS_LABELS += [{"team": "a", "canary": ""}]
POD_LABELS = [{}, {"app": "web"}, {"app": "db"}, {"app": "cli"}, {"app": "web", "tier": "fe"}, {"app": "db", "tier": "be"},
              {"tier": "fe"}, {"canary": ""}, {"app": "web", "canary": ""}, {"app": "web", "canary": "yes"}]
POD_SELS = [{}, {"app": "web"}, {"app": "db"}, {"app": "cli"}, {"tier": "fe"}, {"app": "web", "tier": "fe"}, {"canary": ""},
            {"app": "web", "canary": ""}]
NS_SELS = [{}, {"team": "a"}, {"team": "b"}, {"env": "prod"}, {"canary": ""}]
PORTS = [("TCP", 80), ("TCP", 443), ("UDP", 53), ("TCP", 8080), ("UDP", 80)]
BLOCKS = ["10.0.0.0/8", "10.0.0.0/16", "10.0.1.0/24", "10.0.1.77/24", "10.0.1.4/30", "192.168.0.0/16", "192.168.1.0/24",
          "172.16.5.9/32", "10.0.0.0/23", "10.0.2.0/23"]
POD_IPS = ["10.0.0.%d" % i for i in (1, 2, 3, 9)] + ["10.0.1.%d" % i for i in (1, 5, 6, 77, 130)] + \
          ["10.0.2.7", "10.1.0.4", "192.168.1.10", "192.168.7.7", "172.16.5.9", "172.16.5.10"]


def gen_except(rng, cidr):
    a, l = parse_cidr(cidr)
    if l >= 32:
        return None
    l2 = min(32, l + rng.choice([1, 1, 2, 4, 8, 32 - l]))
    base = (a >> (32 - l)) << (32 - l)
    sub = base | (rng.randrange(1 << (l2 - l)) << (32 - l2))
    if rng.random() < 0.2 and l2 < 32:
        sub |= 1                      # deliberately not masked: formatCidr must mask
    return "%s/%d" % (ip2s(sub), l2)


def gen_peer(rng, ctx):
    k = rng.random()
    if k < 0.25:
        ctx.dist("peer:podSelector")
        return {"pod": rng.choice(POD_SELS)}
    if k < 0.45:
        ctx.dist("peer:namespaceSelector")
        return {"ns": rng.choice(NS_SELS)}
    if k < 0.65:
        ctx.dist("peer:ns+podSelector")
        return {"ns": rng.choice(NS_SELS), "pod": rng.choice(POD_SELS)}
    cidr = rng.choice(BLOCKS)
    ex = []
    for _ in range(rng.choice([0, 0, 1, 1, 2])):
        e = gen_except(rng, cidr)
        if e and e not in ex:
            ex.append(e)
    ctx.dist("peer:ipBlock-%d-except" % len(ex))
    return {"cidr": cidr, "except": ex}


def gen_rule(rng, ctx):
    ports = rng.sample(PORTS, rng.choice([0, 0, 1, 1, 2]))
    npeers = rng.choice([0, 1, 1, 1, 2, 2, 3])
    peers = [gen_peer(rng, ctx) for _ in range(npeers)]
    if not peers:
        ctx.dist("rule:empty-peers" + ("" if ports else "+empty-ports"))
    return {"ports": [list(p) for p in ports], "peers": peers}


def gen_cluster(rng, ctx):
    nss = [{"name": "ns%d" % (i + 1), "labels": rng.choice(NS_LABELS)} for i in range(rng.choice([1, 2, 2, 3]))]
    ips = rng.sample(POD_IPS, rng.choice([2, 3, 3, 4, 5, 6]))
    one_node = rng.random() < 0.25
    pods = [{"ns": rng.choice(nss)["name"], "name": "p%d" % i, "labels": rng.choice(POD_LABELS), "ip": ip,
             "node": "node1" if one_node else rng.choice(["node1", "node2"])} for i, ip in enumerate(ips)]
    pols = []
    for i in range(rng.choice([0, 1, 1, 2, 2, 3, 4])):
        types = rng.choice([[], [], ["Ingress"], ["Egress"], ["Ingress", "Egress"], ["Ingress", "Egress"]])
        # a rule section of a direction the policyTypes do not list is legal and ignored by Kubernetes (F8d repaired: no crash)
        ing = [gen_rule(rng, ctx) for _ in range(rng.choice([0, 1, 1, 2]))] if (types != ["Egress"] or rng.random() < 0.4) else []
        eg = [gen_rule(rng, ctx) for _ in range(rng.choice([0, 1, 1, 2]))] if (types != ["Ingress"] or rng.random() < 0.4) else []
        if not types and rng.random() < 0.5:
            eg = []
        ctx.dist("policyTypes:%s%s" % ("+".join(types) or "defaulted", "" if types else ("(egress rules)" if eg else "")))
        if (types == ["Ingress"] and eg) or (types == ["Egress"] and ing):
            ctx.dist("policy-with-ignored-rule-section")
        pols.append({"ns": rng.choice(nss)["name"], "name": "pol%d" % i, "sel": rng.choice(POD_SELS), "types": types,
                     "ingress": ing, "egress": eg})
    ctx.dist("cluster:%d-policies" % len(pols))
    return {"namespaces": nss, "pods": pods, "policies": pols}


def nested_block_clusters():
    """one rule with two or three ipBlock peers that lie inside one another / inside one another's excepts, in every order (all
    blocks of a rule share one hash:net set; the most specific element containing an address decides): flows from addresses in
    every region, all of them"""
    import itertools
    fams = [
        [("10.0.0.0/8", ["10.1.0.0/16"]), ("10.1.2.0/24", [])],                       # a block inside another block's except
        [("10.0.0.0/8", ["10.1.0.0/16"]), ("10.1.0.0/16", ["10.1.2.0/24"]), ("10.1.2.128/25", [])],
        [("10.0.0.0/8", []), ("10.1.0.0/16", []), ("10.1.2.0/24", [])],                # nested, no excepts
        [("10.1.0.0/16", ["10.1.1.0/24"]), ("10.0.0.0/8", [])],                       # K6d: an except more specific than the other block
        [("192.168.0.0/16", ["192.168.1.0/24"]), ("192.168.1.64/26", ["192.168.1.96/27"])],
    ]
    out = []
    for fi, fam in enumerate(fams):
        for perm in itertools.permutations(fam):
            for direction in ("ingress", "egress"):
                peers = [{"cidr": cd, "except": list(ex)} for cd, ex in perm]
                pol = {"ns": "ns1", "name": "pol0", "sel": {"app": "web"}, "types": ["Ingress"] if direction == "ingress" else ["Egress"],
                       "ingress": [{"ports": [], "peers": peers}] if direction == "ingress" else [],
                       "egress": [{"ports": [], "peers": peers}] if direction == "egress" else []}
                out.append({"namespaces": [{"name": "ns1", "labels": {}}],
                            "pods": [{"ns": "ns1", "name": "p0", "labels": {"app": "web"}, "ip": "172.16.0.5", "node": "node1"}],
                            "policies": [pol]})
    return out


def cluster_blocks(c):
    out = []
    for p in c["policies"]:
        for r in p["ingress"] + p["egress"]:
            for q in r["peers"]:
                if q.get("cidr"):
                    out.append((parse_cidr(q["cidr"]), [parse_cidr(e) for e in q.get("except", [])]))
    return out


def gen_flows(rng, c, exhaustive, cap):
    podips = [p["ip"] for p in c["pods"]]
    cand = ["8.8.8.8"]
    for cd, exs in cluster_blocks(c):
        a, l = cd
        base = (a >> (32 - l)) << (32 - l) if l else 0
        size = 1 << (32 - l)
        for _ in range(2):
            cand.append(ip2s(base + rng.randrange(size)))          # inside the block (maybe inside an except)
        for e in exs:
            ea, el = e
            eb = (ea >> (32 - el)) << (32 - el)
            cand.append(ip2s(eb + rng.randrange(1 << (32 - el))))  # inside the except
            if eb > 0:
                cand.append(ip2s(eb - 1))                          # just below the except
        cand.append(ip2s((base + size) & 0xffffffff))              # just above the block
    cand = sorted(set(x for x in cand if x not in podips))
    ext = cand if exhaustive else rng.sample(cand, min(len(cand), 3))
    ports = set()
    for p in c["policies"]:
        for r in p["ingress"] + p["egress"]:
            for pr, po in r["ports"]:
                ports.add(po)
    ports = sorted(ports) + [9999]
    flows = []
    addrs = podips + ext
    for s in addrs:
        for d in addrs:
            if s == d or (s in ext and d in ext):
                continue
            for pr in ("tcp", "udp"):
                for po in ports:
                    flows.append({"src": s, "dst": d, "proto": pr, "dport": po})
    if cap and len(flows) > cap:
        flows = rng.sample(flows, cap)
    return flows


def swap_nodes(c):
    c2 = copy.deepcopy(c)
    for p in c2["pods"]:
        p["node"] = {"node1": "node2", "node2": "node1"}.get(p["node"], p["node"])
    return c2


def harness_case(c):
    return {"prior": {"filter": [], "sets": []}, "cluster": c, "steps": [{"op": "start"}, {"op": "run"}]}


def event_case(rng, c):
    """the same final cluster reached through pod events after the full synchronisation: some pods appear (get their IP) only
    after Run, and one of those IPs belonged to a pod of ANOTHER namespace that is deleted first (IP reuse); no policy event
    in between, so only the incremental path (UpdatePod / DeletePod -> SyncPodIPInIPSet, SyncPodChains) maintains the sets;
    sometimes followed by the event of an unrelated policy (full resynchronisation with every other spec unchanged)"""
    late = [p for p in c["pods"] if rng.random() < 0.5]
    if not late:
        late = [rng.choice(c["pods"])]
    c0 = copy.deepcopy(c)
    c0["pods"] = [p for p in c0["pods"] if not any(p["name"] == q["name"] and p["ns"] == q["ns"] for q in late)]
    steps = [{"op": "start"}, {"op": "run"}]
    q = late[0]
    others = [n["name"] for n in c["namespaces"] if n["name"] != q["ns"]]
    if others and rng.random() < 0.7:
        ghost = {"ns": rng.choice(others), "name": "ghost", "labels": dict(q.get("labels") or {}), "ip": q["ip"], "node": q["node"]}
        c0["pods"].append(ghost)
        steps.append({"op": "del_pod", "ns": ghost["ns"], "name": ghost["name"]})
    for p in late:
        steps.append({"op": "set_pod", "pod": p})
    if c["policies"] and rng.random() < 0.5:
        # ... and one policy is UPDATED to its final form: before, one of its rules named broader peers (every pod of the
        # namespace, every namespace); its final peers may overlap (a peer listed twice, a broad and a narrow selector)
        pi = rng.randrange(len(c["policies"]))
        final = c["policies"][pi]
        if rng.random() < 0.6:
            for r in final["ingress"] + final["egress"]:
                if r["peers"] and rng.random() < 0.7:
                    r["peers"].append(copy.deepcopy(rng.choice(r["peers"])))          # the same peer twice (legal)
        early = copy.deepcopy(final)
        for r in early["ingress"] + early["egress"]:
            if r["peers"]:
                r["peers"] = [rng.choice([{"pod": {}}, {"ns": {}}, {"ns": {}, "pod": {}}])]
        c0["policies"][pi] = early
        steps.append({"op": "set_policy", "policy": final})
    if rng.random() < 0.6:
        # ... and then an event of an UNRELATED policy (it selects no pod, so no verdict changes): the full resynchronisation
        # it triggers must keep what the pod events built for the policies whose spec did not change
        steps.append({"op": "set_policy", "policy": {"ns": c["namespaces"][0]["name"], "name": "unrelated", "sel": {"app": "zz-none"},
                                                      "types": ["Ingress"], "ingress": [], "egress": []}})
    return {"prior": {"filter": [], "sets": []}, "cluster": c0, "steps": steps}


# ---------------------------------------------------------------------------- Coq evaluation of list-valued cases
def coq_bool_lists(ctx, name, exprs, lens, shard=6):
    """each expression is a Coq [list bool] of known length; returns a list of python lists (None on failure)"""
    jobs = []
    for k in range(0, len(exprs), shard):
        part = exprs[k:k + shard]
        text = IMPORTS + "\nImport ListNotations.\nOpen Scope N_scope.\n"
        text += "Definition cases : list bool := List.concat [\n  " + ";\n  ".join(part) + "\n].\n"
        text += 'Definition R := Eval vm_compute in cases.\nGoal True. idtac "BOOLS". Abort.\nPrint R.\n'
        jobs.append(("%s_%s_%d" % (name, ctx.pid, k), text, sum(lens[k:k + shard])))
    from concurrent.futures import ThreadPoolExecutor
    with ThreadPoolExecutor(max_workers=16) as ex:
        outs = list(ex.map(lambda j: vf.coqc_run(j[0], j[1]), jobs))
    flat = []
    for (nm, text, n), (rc, out) in zip(jobs, outs):
        bs = vf.parse_bools(out, "BOOLS") if rc == 0 else None
        if bs is None or len(bs) != n:
            vf.log("coq evaluation failed for", nm, out[-3000:])
            return None
        flat.extend(bs)
    res, pos = [], 0
    for n in lens:
        res.append(flat[pos:pos + n])
        pos += n
    return res


PER_FLOW = 10


def case_expr(c, o1, o2, flows):
    hashes = clist(cpair(cstr(k), cstr(h)) for k, h in o1["hashes"])
    return "(diff_case %s %s %s %s %s)" % (hashes, ccluster(c), ckernel(o1["steps"][-1]), ckernel(o2["steps"][-1]),
                                           clist(cflow(f) for f in flows))


K5D_TAG = "c16-conflicting-ipblock-flags"


def k5d_nets(c):
    """the nets (lo, hi) that one rule lists both as the cidr of an ipBlock and as an except of another (K5d's shape)"""
    out = []
    for p in c["policies"]:
        for r in p["ingress"] + p["egress"]:
            cids, exs = set(), set()
            for q in r["peers"]:
                if q.get("cidr"):
                    a, l = parse_cidr(q["cidr"])
                    cids.add(((a >> (32 - l)) << (32 - l) if l else 0, l))
                    for e in q.get("except", []):
                        ea, el = parse_cidr(e)
                        exs.add(((ea >> (32 - el)) << (32 - el) if el else 0, el))
            for b, l in cids & exs:
                out.append((b, b + (1 << (32 - l)) - 1))
    return out


def tags_of_mask(m):
    return [CLASSES[i][1] for i in range(6) if m >> i & 1]


def run(ctx):
    n_clusters = 230 if ctx.quick else 1500
    cap = 70 if ctx.quick else 0
    ctx.cov["rule"] = ("random clusters (1-3 labelled namespaces, 2-6 labelled pods with unique IPs on node1/node2, 0-4 "
                       "NetworkPolicies: all policyTypes variants, 0-2 rules per direction, 0-2 TCP/UDP ports, 0-3 peers of the "
                       "four kinds, ipBlocks with 0-2 excepts, empty from/to, empty rules) + the six corpus witnesses; each "
                       "cluster is run through the REAL PolicyManager.Run once per node over the strict iptables/ipset fakes; (i) "
                       "the dumped filter table and ipsets are compared with the Coq model's installed kernel; (ii) for flows "
                       "between all pod pairs and external addresses chosen inside/outside the ipBlocks and excepts x listed "
                       "ports + an unlisted one x tcp/udp (quick: sampled, thorough: all), the Coq packet walk over the "
                       "IMPLEMENTATION's dumped rules is compared with the NetworkPolicy reference k8s_allows; every "
                       "disagreement must be reproduced by the reference with a minimal combination of the six known "
                       "divergences switched on (that combination is its tag), and the reference with all six on must agree "
                       "with the implementation on EVERY flow; anything else is a violation")
    ctx.cov["trusted_base"] = vf.TRUSTED_COMMON + [
        "strict iptables/ipset fakes harness/nfake (shared with C14/C15); the packet walk (Model/K8sPolicy.v verdict) is the "
        "model of the kernel's filter traversal for a NEW tcp/udp connection: -s/-d, -p, -m set (hash:ip; hash:net with the "
        "kernel's rule: among the elements containing the address the most specific one decides, a nomatch element meaning "
        "no match - so a plain block lying inside another block's except still matches), -m multiport --dports, conntrack "
        "rules never match",
        "the reference k8s_allows is hand-written from the NetworkPolicy API documentation (DESIGN.md appendix D)",
        "nameHash is read from the implementation (sha256/base32 not modelled); the full statement assumes it injective"]
    ctx.assumptions += ["pod IPs unique, every pod has an IP and a namespace object, numeric TCP/UDP ports, matchLabels selectors "
                        "only, IPv4, ipBlock excepts inside their block, prefix length >= 8",
                        "flows cross FORWARD on the source pod's node and on the destination pod's node; host-originated "
                        "traffic (INPUT/OUTPUT hooks) is not evaluated"]
    ctx.theorems("C16", THEOREMS, REFUTED, deps=DEPS)
    known = {f["id"] for f in ctx.findings}
    for f in KNOWN_FINDINGS:          # until lib/gen_manifest.py has copied them into known_findings.json
        if f["id"] not in known:
            ctx.findings.append(dict(f, property="C16"))
    rng = ctx.rng
    clusters, meta = [], []
    corpus = json.load(open(vf.ROOT + "/corpus/C16.json"))
    for w in corpus["witnesses"]:
        clusters.append(w["cluster"])
        meta.append({"kind": "corpus", "id": w["id"], "flows": [w["flow"]], "tag": w["tag"]})
        ctx.dist("corpus")
    for _ in range(n_clusters):
        c = gen_cluster(rng, ctx)
        clusters.append(c)
        meta.append({"kind": "random", "flows": gen_flows(rng, c, not ctx.quick, cap)})
    for c in nested_block_clusters():
        clusters.append(c)
        meta.append({"kind": "random", "flows": gen_flows(rng, c, True, 0)})
        ctx.dist("cluster:nested-ipblocks")
    # the same clusters reached through pod events after the synchronisation (incremental path), verdicts only
    n_ev = 60 if ctx.quick else 400
    for c in [c for c, m in zip(clusters, meta) if m["kind"] == "random" and c["policies"]][:n_ev]:
        clusters.append(c)
        meta.append({"kind": "events", "flows": gen_flows(rng, c, not ctx.quick, cap)})
        ctx.dist("cluster:reached-through-pod-events")
    cases = []
    for c, m in zip(clusters, meta):
        if m["kind"] == "events":
            st = rng.getstate()
            cases.append(event_case(rng, c))
            rng.setstate(st)                      # the swapped run makes the same choices
            ec = event_case(rng, c)
            ec["cluster"] = swap_nodes(ec["cluster"])
            for s_ in ec["steps"]:
                if s_["op"] == "set_pod":
                    s_["pod"] = dict(s_["pod"], node={"node1": "node2", "node2": "node1"}.get(s_["pod"]["node"], s_["pod"]["node"]))
            cases.append(ec)
            continue
        cases.append(harness_case(c))
        cases.append(harness_case(swap_nodes(c)))
    obs = ctx.harness("policy", cases, cmd="ghpol", shards=48)
    if obs is None:
        return
    exprs, lens, idx = [], [], []
    for i, (c, m) in enumerate(zip(clusters, meta)):
        o1, o2 = obs[2 * i], obs[2 * i + 1]
        bad = [o for o in (o1, o2) if o.get("res") != "ok"]
        if bad:
            ctx.violation("monitor", "PolicyManager.Run %s on a C16 cluster" % bad[0].get("res"),
                          {"cluster": c, "obs": bad[0]}, found=True)
            continue
        for o in (o1, o2):
            for rj in o["steps"][-1]["rejected"]:
                ctx.dist("rejected:%s:%s" % (rj.get("kind"), rj.get("why")))
        exprs.append(case_expr(c, o1, o2, m["flows"]))
        lens.append(2 + PER_FLOW * len(m["flows"]))
        idx.append(i)
        if len(ctx.cov["samples"]) < 2 and len(c["policies"]) >= 2 and m["kind"] == "random":
            ctx.sample({"cluster": c, "flows": m["flows"][:3], "node1_filter_chains": [ch["name"] for ch in o1["steps"][-1]["filter"]]})
    ctx.cov["traces_validated_against_impl"] = 2 * len(exprs)
    res = coq_bool_lists(ctx, "diff", exprs, lens)
    if res is None:
        ctx.violation("correspondence", "the Coq evaluation of the C16 cases failed", {}, found=False,
                      theorem="C16 correspondence (Corr/C16c.v diff_case)")
        return
    bad_corr, unexplained, by_mask, n_flows, n_dis = [], [], {}, 0, 0
    for i, bs in zip(idx, res):
        c, m = clusters[i], meta[i]
        if not (bs[0] and bs[1]) and m["kind"] != "events":
            bad_corr.append(i)            # (after pod events the rule ORDER inside a chain may differ from a fresh Run: verdicts decide)
        seen_masks = set()
        for j, f in enumerate(m["flows"]):
            b = bs[2 + PER_FLOW * j: 2 + PER_FLOW * (j + 1)]
            agree, all_on, model_same = b[0], b[1], b[2]
            mask = sum(1 << k for k in range(7) if b[3 + k])
            ctx.count({"cluster": c, "flow": f})
            n_flows += 1
            if not all_on or not model_same or mask >= 64:
                unexplained.append((i, f, dict(reference_agrees=agree, all_divergences_agree=all_on,
                                               model_kernel_same_verdict=model_same, mask=mask)))
                continue
            if agree:
                ctx.dist("flow:agrees")
                continue
            n_dis += 1
            tags = tags_of_mask(mask)
            ctx.dist("flow:disagrees:" + "+".join(t[4:] for t in tags))
            seen_masks.add(mask)
            by_mask.setdefault(mask, (i, f))
        if m["kind"] == "corpus":
            want = 1 << [t for _, t in CLASSES].index(m["tag"])
            if seen_masks != {want}:
                ctx.violation("correspondence", "corpus witness %s no longer reproduces on the implementation as class %s "
                              "(classification masks now %s): the known finding or the model is stale" %
                              (m["id"], m["tag"], sorted(seen_masks)), {"cluster": c, "flow": m["flows"][0]}, found=False,
                              theorem=m["id"])
            else:
                ctx.dist("corpus:reproduced:" + m["id"])
    for mask, (i, f) in sorted(by_mask.items()):
        tags = tags_of_mask(mask)
        ctx.violation("monitor", "installed rules and NetworkPolicy semantics disagree on a flow; explained by the known "
                      "divergence(s) %s" % "+".join(tags),
                      {"cluster": clusters[i], "flow": f, "how": "bin/check C16 --replay <this file>"}, found=True,
                      theorem="enforces", tags=tags)
    def k5d(u):
        nets = k5d_nets(clusters[u[0]])
        return any(lo <= s2ip(u[1][end]) <= hi for lo, hi in nets for end in ("src", "dst"))
    flipped = [u for u in unexplained if k5d(u)]
    unexplained = [u for u in unexplained if not k5d(u)]
    for i, f, why in flipped[:1]:
        ctx.violation("monitor", "installed rules and NetworkPolicy semantics disagree on a flow whose address lies in a net that one "
                      "rule lists both as an ipBlock and as an except (the element's nomatch flag flips with every synchronisation)",
                      {"cluster": clusters[i], "flow": f, "why": why, "how": "bin/check C16 --replay <this file>"},
                      found=True, theorem="enforces", tags=[K5D_TAG])
    real = [u for u in unexplained if not u[2]["reference_agrees"]]
    for i, f, why in real[:5]:
        ctx.violation("monitor", "installed rules and NetworkPolicy semantics disagree on a flow in a way none of the known "
                      "divergences K6a-e,g explains",
                      {"cluster": clusters[i], "flow": f, "why": why, "how": "bin/check C16 --replay <this file>"},
                      found=True, theorem="enforces")
    stale = [u for u in unexplained if u[2]["reference_agrees"]]
    if stale:
        # the implementation agrees with the reference where the model of galaxy's compilation does not
        ctx.violation("correspondence", "on %d flow(s) the installed rules no longer behave as galaxy's modelled compilation "
                      "(they agree with the NetworkPolicy reference there): model or known findings are stale" % len(stale),
                      {"examples": [{"cluster": clusters[i], "flow": f, "why": why} for i, f, why in stale[:3]]},
                      found=bool(real), theorem="C16 correspondence (k8s_allows_with all_devs)")
    if bad_corr:
        ex = [{"cluster": clusters[i]} for i in bad_corr[:3]]
        ctx.violation("correspondence", "the model's installed kernel and the implementation's dumped rules/sets differ on %d "
                      "C16 cluster(s)" % len(bad_corr), {"disagreements": ex, "theorems_no_longer_about_the_code": THEOREMS + REFUTED},
                      found=False, theorem="C16 correspondence (Corr/C16c.v kernel_eqb)")
    ctx.cov["disagreements"] = len(bad_corr)
    ctx.cov["flows_evaluated"] = n_flows
    ctx.cov["flows_disagreeing_with_reference_all_classified"] = n_dis
    ctx.cov["flows_unexplained"] = len(unexplained)


def replay(ctx, path):
    r = json.load(open(path))
    rp = r["replay"]
    cs = [rp["cluster"]] if "cluster" in rp else [d["cluster"] for d in rp.get("disagreements", [])]
    for c in cs:
        o1, o2 = ctx.harness("policy", [harness_case(c), harness_case(swap_nodes(c))], cmd="ghpol", shards=1)
        flows = [rp["flow"]] if "flow" in rp else gen_flows(ctx.rng, c, True, 40)
        out = {"cluster": c, "flows": []}
        if o1.get("res") == "ok" and o2.get("res") == "ok":
            res = coq_bool_lists(ctx, "replay", [case_expr(c, o1, o2, flows)], [2 + PER_FLOW * len(flows)])
            if res:
                bs = res[0]
                out["model_kernel_equals_dump"] = [bs[0], bs[1]]
                for j, f in enumerate(flows):
                    b = bs[2 + PER_FLOW * j: 2 + PER_FLOW * (j + 1)]
                    mask = sum(1 << k for k in range(7) if b[3 + k])
                    out["flows"].append({"flow": f, "implementation_verdict_equals_reference": b[0],
                                         "equals_reference_with_all_known_divergences": b[1],
                                         "classification": tags_of_mask(mask) if mask < 64 else "unexplained"})
        else:
            out["obs"] = [o1.get("res"), o2.get("res")]
        print(json.dumps(out))
