"""C07 - A sized IP pool never grows beyond its size."""
import plugincheck

THEOREMS = []
REFUTED = []
KNOWN_FINDINGS = [
    {"id": "K2", "status": "open", "tag": plugincheck.K2_TAG,
     "what": "Bind allocates a fresh IP for a pod of a sized pool without consulting the size: a pod filtered while no Pool "
             "object was visible (so filter did not allocate) is bound after the Pool(size 1) appeared and brings the pool to 2 "
             "IPs; witness pool_cap_refuted_late_pool, scenario K2-late-pool-object"},
]


def run(ctx):
    ctx.cov["rule"] = "wip"
    rng = ctx.rng
    plugincheck.run(ctx, "C07", THEOREMS, REFUTED, plugincheck.mon_c07, ext=True, incarnations=False,
                    extra_scenarios=plugincheck.pool_scenarios(rng, ctx, 120 if ctx.quick else 1200),
                    nrandom=(80, 800), gen_kw={"pool_api": True, "kinds": ["dppool", "dppool", "dp", "sts"]})


def replay(ctx, path):
    plugincheck.replay(ctx, path)
