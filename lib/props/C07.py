"""C07 - A sized IP pool never grows beyond its size."""
import plugincheck

THEOREMS = ["pool_cap_filter", "pool_cap_filter_other", "pool_cap_filter_reachable", "ns_ok_reachable", "pool_cap_prealloc",
            "pool_cap_prealloc_other", "pool_count_release_steps", "pool_cap_bind_partial", "pool_cap_bind_no_alloc",
            "pool_cap_history", "pool_cap_invariant", "pool_key_is_prefix", "pool_pod_counted"]
REFUTED = ["pool_cap_refuted_late_pool"]
KNOWN_FINDINGS = [
    {"id": "K2", "status": "open", "tag": plugincheck.K2_TAG,
     "what": "Bind allocates a fresh IP for a pod of a sized pool without consulting the size: a pod filtered while no Pool "
             "object was visible (so filter did not allocate) is bound after the Pool(size 1) appeared and brings the pool to 2 "
             "IPs; witness pool_cap_refuted_late_pool, scenario K2-late-pool-object"},
    {"id": "K8", "status": "fixed", "commit": "4c73f0e", "tag": "c07-pool-request-not-one-section",
     "what": "fixed: property=C07 4c73f0e POST /v1/pool wrote the Pool object and only then took the pool lock for the "
             "pre-allocation, which uses the size of its OWN request: a second request for the pool (a shrink to 1) that got in "
             "right after the first one's Create / Update was answered first, and the first then pre-allocated 5 IPs while the size "
             "in force was 1 (scenarios two-writers-of-the-pool:create|update:request:*); after the repair the whole request is "
             "one section under the pool mutex - which is what the model's atomic PApiPool step assumes"},
    {"id": "F10", "status": "fixed", "commit": "8bbc8a6", "tag": "c07-size-read-before-lock",
     "what": "fixed: property=C07 8bbc8a6 filter read the pool size before taking the pool lock, so a shrink that landed in between "
             "was ignored; after the repair reading the size, counting and allocating are one section under the pool lock, which is "
             "what the model's atomic filter step mirrors"},
]

MANIFEST = {
    "text": "Coq theorems over the scheduler-plugin model extended with the pool API (Model/PluginPool.v: POST /v1/pool with "
            "preAllocateIP as one section under the pool lock): pool_cap_filter / pool_cap_filter_reachable - a filter step never "
            "brings the number of IPs held under a pool's prefix above max(previous count, size the Pool lister shows), for any "
            "number of deployments and pods sharing the pool; pool_cap_prealloc - pre-allocation never exceeds the requested size "
            "and reaches it on success; *_other - other pools' counts are untouched; pool_count_release_steps - events, resync "
            "items and API releases never increase a count; pool_cap_bind_no_alloc / pool_cap_bind_partial - bind does not change "
            "any count when the pod's key already holds an IP (which filter guarantees for a visible sized pool); pool_cap_history "
            "/ pool_cap_invariant - for ALL extended histories (any interleaving of filter, bind, pool create/update requests and "
            "everything else at section granularity: these requests hold the pool mutex in the code) in which bind never "
            "allocates for a pool pod, every step respects the size in force. The excluded case is the recorded defect K2, "
            "proved as pool_cap_refuted_late_pool and reproduced on the real code. Tied to the code by pool scenario + random "
            "histories (real Filter/Bind and the real PoolController.CreateOrUpdate) vs the model step by step and by the cap "
            "predicate on the implementation's dumps after every step.",
    "note": "trusted: Coq kernel (no axioms); harness fakes; section atomicity: filter (after fix 8bbc8a6) and the pool request "
            "(after fix 4c73f0e: from writing the Pool object to pre-allocating) hold the pool mutex, so concurrent requests "
            "serialise - probed on the code by stopping a request between two of its calls (a second request / a Filter / another "
            "writer of the object arrives meanwhile), other goroutine interleavings are not explored; pool names are '_'-free (K4); the Pool object reaches galaxy-ipam through its lister (EPoolSet)",
}


def run(ctx):
    ctx.cov["rule"] = ("extended histories (plugin sections, environment operations, pool API requests): pool scenarios (1-3 "
                       "deployments sharing pool p1, sizes 0-4, pods filtered before earlier ones are bound, Pool object created / "
                       "resized / removed in the lister and through POST /v1/pool with and without pre-allocation, store faults) + "
                       "the K2 history + random histories with pool requests; each runs on the REAL FloatingIPPlugin and "
                       "PoolController and on the model (Model/Plugin.v + PluginPool.v), compared after every step; monitor: after "
                       "every filter / bind / pool request / release step the count under the pool prefix is at most max(previous "
                       "count, size in force)")
    rng = ctx.rng
    plugincheck.run(ctx, "C07", THEOREMS, REFUTED, plugincheck.mon_c07, ext=True, incarnations=False,
                    extra_scenarios=plugincheck.pool_scenarios(rng, ctx, 120 if ctx.quick else 1200),
                    nrandom=(80, 800), gen_kw={"pool_api": True, "kinds": ["dppool", "dppool", "dp", "sts"]})


def replay(ctx, path):
    plugincheck.replay(ctx, path)
