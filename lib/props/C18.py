"""C18 - No request, watched object or configuration can crash or wedge a daemon.   (proof: PARTIAL)

Three parts:
 1. Coq no-panic / termination theorems about executable models of the pure parsing and decision surfaces
    (Props/C18.v), tied to the code by running the same inputs through the real functions (result class).
 2. Lock balance: the translator (extractor/) emits, per function of the tracked packages, the lock operations on
    every syntactic path; Coq's proved decision procedure `locks_balanced_b` is evaluated on them at run time.
 3. Typed surfaces end to end (harness/cmd/ghsurf): real Filter/Bind/Preempt/pod events, HTTP handlers, CNI request
    parsing, networks annotation through the real resolveNetworks, NetworkPolicy objects on the real PolicyManager,
    the ConfigMap decoder - DIFFERENTIAL TESTING of the result class only (answer/error/panic/timeout + a follow-up
    call on the same instance that needs every lock)."""
import base64, json, re
from urllib.parse import quote
import vf, locksgen
from vf import cN, cZ, cbool, cstr, clist, copt, cpair

IMPORTS = ("From Coq Require Import List Ascii String NArith ZArith Bool.\n"
           "From Galaxy.Base Require Import Strs.\nFrom Galaxy.Model Require Import Nets Pool Surf Lockset.\n"
           "From Galaxy.Corr Require Import CorrBase C18c.\n")

THEOREMS = ["unmarshal_pool_no_panic", "walk_terminates", "parse_range_total",
            "net_annotation_no_panic", "preempt_no_panic", "policy_sync_no_panic", "policy_rules_aligned",
            "cni_request_no_panic", "pagination_slice_safe", "parse_pod_index_no_panic", "balanced_sound",
            "locks_balanced"]
REFUTED = ["net_annotation_refuted_null", "preempt_refuted_nil_pod", "preempt_refuted_nil_victim",
           "policy_sync_refuted_omitted_direction", "unmarshal_pool_refuted_null_subnet", "walk_refuted_wrap_c18"]
DEPS = ["Strs", "Nets", "Pool", "NetsP", "PoolP", "Lockset", "LocksetP", "Surf", "SurfP", "CorrBase", "C18c", "C18"]

KNOWN_FINDINGS = [
    {"id": "F8b", "status": "fixed", "commit": "df7c32f", "tag": "c18-netanno-null-element",
     "what": "fixed: property=C18 df7c32f networks annotation `[null]` decoded to a nil element that resolveNetworks dereferenced "
             "(CNI ADD handler panic); witness net_annotation_refuted_null, corpus C18 netanno"},
    {"id": "F8c", "status": "fixed", "commit": "b6f78fd", "tag": "c18-preempt-nil-pod",
     "what": "fixed: property=C18 b6f78fd POST /v1/preempt with a body without Pod (`{}`) dereferenced the nil Pod in the handler "
             "and in FloatingIPPlugin.Preempt; witness preempt_refuted_nil_pod"},
    {"id": "F8d", "status": "fixed", "commit": "c64b875", "tag": "c18-policy-omitted-direction",
     "what": "fixed: property=C18 c64b875 a NetworkPolicy whose policyTypes omit a direction it lists rules for made "
             "syncIngressInIPSet/syncEgressInIPSet dereference the nil rule set; witness policy_sync_refuted_omitted_direction"},
    {"id": "F8e", "status": "fixed", "commit": "0c6cba7", "tag": "c18-preempt-nil-victim",
     "what": "fixed: property=C18 0c6cba7 a preempt request whose NodeNameToVictims holds a null entry or a null victim pod "
             "(`{\"n1\":null}`, `{\"n1\":{\"Pods\":[null]}}`) dereferenced nil in fillNodeNameToMetaVictims; found by ghsurf; "
             "witness preempt_refuted_nil_victim, corpus C18"},
    {"id": "F8f", "status": "fixed", "commit": "ecbd364", "tag": "c18-extender-null-body",
     "what": "fixed: property=C18 ecbd364 the JSON body `null` sent to /v1/filter, /v1/priority, /v1/bind or /v1/preempt set the "
             "handler's argument pointer to nil (ReadEntity(&args)) and the handler dereferenced it; found by ghsurf (differential "
             "testing only, go-restful entity decoding is not modelled)"},
    {"id": "F4", "status": "fixed", "commit": "7cee827", "tag": "c18-walk-never-returns",
     "what": "fixed: property=C18 7cee827 a pod's request_ip_range or a pool range ending at 255.255.255.255 made walkIPRanges "
             "loop forever with the cache read lock held; witness walk_refuted_wrap_c18, corpus C18 plugin filter"},
    {"id": "F8a", "status": "fixed", "commit": "701da2e", "tag": "c18-null-node-subnet",
     "what": "fixed: property=C18 701da2e \"nodeSubnets\":[null] in the ConfigMap made the decoder dereference nil in the reload "
             "goroutine; witness unmarshal_pool_refuted_null_subnet, corpus C18 conf"},
]

MANIFEST = {
    "text": "PARTIAL proof. (1) Coq no-panic / termination theorems for ALL inputs of the executable models of the parsing and "
            "decision surfaces (Model/Surf.v, Pool.v, Nets.v): unmarshal_pool_no_panic, walk_terminates (fuel = total size + 1 "
            "suffices for every accepted pool and every requested range, incl. ranges ending at 255.255.255.255), "
            "parse_range_total, net_annotation_no_panic, preempt_no_panic, policy_sync_no_panic, policy_rules_aligned, "
            "cni_request_no_panic, pagination_slice_safe, parse_pod_index_no_panic; each old crash keeps its refutation witness "
            "for the old flag. (2) Lock balance: balanced_sound is proved once; the lock operations of every function of the "
            "tracked packages are extracted from /repo's Go AST on every run (extractor/) and the proved decision procedure is "
            "evaluated on them (locks_balanced instantiated at run time). (3) The typed surfaces end to end (real Filter/Bind/"
            "Preempt/HTTP handlers/CNI request/networks annotation/NetworkPolicy objects/ConfigMap decoder) are run under a "
            "watchdog with a follow-up call that needs every lock - differential testing of the result class only.",
    "note": "trusted: Coq kernel (no axioms); the Go-AST translator (syntactic, follows calls inside the package); models cover the "
            "listed surfaces only - a panic in code that is not modelled can only be found by part (3), which is testing, not proof",
}


BOUNDARY_RANGES = ["255.255.255.250~255.255.255.255", "255.255.255.255", "0.0.0.0~0.0.0.3", "10.0.0.2~10.0.0.4",
                   "10.0.0.60~10.0.0.2", "10.0.0.2", "10.0.0.256", "1.2.3", "", "~", "10.0.0.2~", "::1", "10.0.0.2~10.0.0.2"]


# ---------------------------------------------------------------------------- generators
def jdump(x):
    return json.dumps(x, separators=(",", ":"))


def gen_netanno(rng, ctx):
    names = ["galaxy-flannel", "galaxy-k8s-vlan", "tke-route-eni", "unknown-net", "", "A", "a_b", "-a", "a-", "x" * 70]
    r = rng.random()
    if r < 0.35:
        n = rng.choice([1, 1, 2, 3])
        items = []
        for _ in range(n):
            s = rng.choice(names)
            if rng.random() < 0.3:
                s = rng.choice(["ns1", "", "a/b", "NS"]) + "/" + s
            if rng.random() < 0.3:
                s = s + "@" + rng.choice(["eth1", "", "e@f", "net1", "E"])
            if rng.random() < 0.2:
                s = " " + s + " "
            items.append(s)
        ctx.dist("netanno:text")
        return ",".join(items)
    if r < 0.9:
        def elem():
            k = rng.random()
            if k < 0.18:
                return None
            if k < 0.28:
                return rng.choice([1, "x", [], True, 1.5])
            e = {}
            if rng.random() < 0.9:
                e["name"] = rng.choice(names + [None, 5])
            if rng.random() < 0.3:
                e["interface"] = rng.choice(["eth1", "", None, 7, "net1"])
            if rng.random() < 0.2:
                e["namespace"] = rng.choice(["ns1", None, {}])
            if rng.random() < 0.2:
                e["ips"] = rng.choice(["10.0.0.2", None, ["10.0.0.2"]])
            if rng.random() < 0.1:
                e["Name"] = rng.choice(names)
            return e
        top = rng.random()
        if top < 0.8:
            v = [elem() for _ in range(rng.choice([0, 1, 1, 2, 3]))]
        elif top < 0.9:
            v = elem()
        else:
            v = rng.choice([None, "galaxy-flannel", {"name": "galaxy-flannel"}, [[None]], [[{"name": "a"}]]])
        ctx.dist("netanno:json")
        return jdump(v)
    ctx.dist("netanno:garbage")
    return rng.choice(["[", "{", "\"", "[nul]", "[null,", "é", "[{\"name\":\"galaxy-flannel\"}]x", "null", " ", ",", ",,",
                       "a,,b", "[" * 50, "{\"name\":1}"])


def gen_cnireq(rng, ctx):
    env = {"CNI_COMMAND": rng.choice(["ADD", "DEL", "VERSION", "", "add"]), "CNI_CONTAINERID": rng.choice(["c1", ""]),
           "CNI_NETNS": "/proc/1/ns/net", "CNI_IFNAME": "eth0", "CNI_PATH": "/opt/cni/bin",
           "CNI_ARGS": rng.choice(["K8S_POD_NAMESPACE=ns1;K8S_POD_NAME=p;K8S_POD_INFRA_CONTAINER_ID=c1",
                                   "K8S_POD_NAMESPACE=ns1", "", ";", "=", "a=b=c;K8S_POD_NAME=p", "K8S_POD_NAME",
                                   "K8S_POD_NAMESPACE= ns1 ;K8S_POD_NAME= p ", ";;;=;=;", "IgnoreUnknown=1;K8S_POD_NAMESPACE=n;K8S_POD_NAME=p"])}
    r = rng.random()
    if r < 0.35:
        for k in list(env):
            if rng.random() < 0.25:
                del env[k]
    body = {"env": env}
    if rng.random() < 0.5:
        body["config"] = rng.choice(["e30=", "", None, "!!!notbase64", 5, [1, 2]])
    if r > 0.85:
        ctx.dist("cnireq:garbage")
        return rng.choice(["", "null", "[]", "{\"env\":null}", "{\"env\":[]}", "{\"env\":{\"CNI_COMMAND\":null}}", "{", "{}",
                           "{\"env\":{\"CNI_COMMAND\":5}}", "\"x\""])
    ctx.dist("cnireq:structured")
    return jdump(body)


def gen_page(rng, ctx):
    strs = ["", "0", "1", "2", "10", "-1", "-0", "abc", "1e3", "99999999999999999999", "9223372036854775807", " 1", "+3",
            "0x10", "3.5", "007", "2147483648", "-9223372036854775808"]
    ctx.dist("page")
    return {"op": "page", "page": rng.choice(strs), "size": rng.choice(strs), "len": rng.choice([0, 1, 2, 9, 10, 11, 25, 100])}


def gen_args_annotation(rng):
    """the value of the ExtendedCNIArgs annotation (k8s.v1.cni.galaxy.io/args)"""
    r = rng.random()
    def rng_list():
        return [rng.choice(BOUNDARY_RANGES + [None, 5]) for _ in range(rng.choice([0, 1, 1, 2]))]
    if r < 0.6:
        v = [rng_list() if rng.random() < 0.9 else rng.choice([None, "10.0.0.2", 7]) for _ in range(rng.choice([0, 1, 1, 2, 3]))]
        return jdump({"request_ip_range": v})
    if r < 0.8:
        return jdump({"common": {"ipinfos": rng.choice([None, [], [None], [{"ip": "10.0.0.2/24", "vlan": 2, "gateway": "10.0.0.1"}],
                                                             [{"ip": None}], "x", [{"ip": "10.0.0.2"}]])}})
    return rng.choice(["", "{", "null", "[]", "{\"request_ip_range\":null}", "{\"request_ip_range\":\"x\"}",
                       "{\"request_ip_range\":[[\"10.0.0.2~10.0.0.4\"],[\"10.0.0.2~10.0.0.4\"]]}", "{\"common\":null}", "5"])


def gen_pod(rng, ctx, allow_holes=True):
    """an adversarial but structurally valid Pod (what the scheduler or the API server can deliver)"""
    ann = {}
    if rng.random() < 0.8:
        ann["k8s.v1.cni.cncf.io/networks"] = rng.choice(["galaxy-k8s-vlan", "galaxy-flannel", "", "[null]", "x,y"])
    if rng.random() < 0.6:
        ann["k8s.v1.cni.galaxy.io/args"] = gen_args_annotation(rng)
    if rng.random() < 0.4:
        ann["k8s.v1.cni.galaxy.io/release-policy"] = rng.choice(["", "immutable", "never", "Never", "xx", " never"])
    if rng.random() < 0.3:
        ann["tke.cloud.tencent.com/eni-ip-pool"] = rng.choice(["", "pool1", "my_pool", "p" * 300, "é", "a b"])
    name = rng.choice(["web-0", "web", "web-", "-0", "web-00", "web-99999999999999999999", "dp-5f6c7-x2x", "a", "web--1", ""])
    meta = {"name": name, "namespace": rng.choice(["ns1", "", "kube-system", "n_s"]), "uid": rng.choice(["u1", ""]),
            "annotations": ann}
    r = rng.random()
    if r < 0.25:
        meta["ownerReferences"] = [{"apiVersion": "apps/v1", "kind": "StatefulSet", "name": rng.choice(["web", "", "x"]), "uid": "o1",
                                    "controller": rng.choice([True, None])}]
    elif r < 0.5:
        meta["ownerReferences"] = [{"apiVersion": "apps/v1", "kind": "ReplicaSet", "name": rng.choice(["dp-5f6c7", "dp", "-", ""]),
                                    "uid": "o1", "controller": True}]
    elif r < 0.6:
        meta["ownerReferences"] = [{"apiVersion": "tkestack.io/v1", "kind": rng.choice(["TApp", "Foo", ""]), "name": "t", "uid": "o2"}]
    elif r < 0.7:
        # several owner references (legal: at most ONE may be the controller, none has to be)
        refs = [{"apiVersion": "apps/v1", "kind": rng.choice(["StatefulSet", "ReplicaSet", "Job", "TApp"]), "name": rng.choice(["web", "dp-5f6c7", "j"]),
                 "uid": "o%d" % j} for j in range(rng.choice([2, 2, 3]))]
        if rng.random() < 0.5:
            refs[rng.randrange(len(refs))]["controller"] = True
        meta["ownerReferences"] = refs
    elif r < 0.75 and allow_holes:
        meta["ownerReferences"] = rng.choice([None, [], [{}]])
    if allow_holes and rng.random() < 0.1:
        meta["annotations"] = None
    containers = [{"name": "c", "resources": {"requests": {"tke.cloud.tencent.com/eni-ip": "1"}}}]
    if rng.random() < 0.25:
        containers = rng.choice([[], [{"name": "c"}], [{"name": "c", "resources": {"limits": {"tke.cloud.tencent.com/eni-ip": "1"}}}]])
    spec = {"containers": containers}
    if rng.random() < 0.3:
        spec["nodeName"] = rng.choice(["n1", "n2", "nope", ""])
    pod = {"metadata": meta, "spec": spec}
    if rng.random() < 0.5:
        pod["status"] = {"phase": rng.choice(["Running", "Pending", "Failed", "Succeeded", ""]),
                         "podIP": rng.choice(["", "10.0.0.2", "x"])}
    ctx.dist("pod:generated")
    return pod


def gen_ext_http(rng, ctx):
    route = rng.choice(["filter", "bind", "preempt", "preempt", "priority"])
    r = rng.random()
    if r < 0.25:
        body = rng.choice(["{}", "null", "[]", "", "{", "5", "\"x\"", "{\"Pod\":null}", "{\"pod\":null,\"nodes\":null}",
                           "{\"nodes\":{\"items\":null}}", "{\"nodes\":{\"items\":[null]}}"])
        ctx.dist("ext_http:%s:skeleton" % route)
        return {"op": "ext_http", "route": route, "body": body}
    pod = gen_pod(rng, ctx)
    if route in ("filter", "priority"):
        nodes = [{"metadata": {"name": n}, "status": {"addresses": rng.choice([[{"type": "InternalIP", "address": a}], [], None,
                                                                                   [{"type": "InternalIP", "address": "x"}]])}}
                 for n, a in rng.sample([("n1", "10.1.0.5"), ("n2", "10.2.0.5"), ("n3", "10.9.0.5"), ("ghost", "10.1.0.9")], rng.choice([0, 1, 2, 4]))]
        body = {"pod": pod, "nodes": {"items": nodes}}
    elif route == "bind":
        body = {"PodName": pod["metadata"]["name"], "PodNamespace": pod["metadata"]["namespace"], "PodUID": "u1",
                "Node": rng.choice(["n1", "n2", "nope", ""])}
        if rng.random() < 0.3:
            body = {k: v for k, v in body.items() if rng.random() < 0.6}
        if rng.random() < 0.4:
            body["PodName"], body["PodNamespace"] = "known-0", "ns1"
    else:
        victims = rng.choice([None, {}, {"n1": None}, {"n1": {"Pods": None}}, {"n1": {"Pods": [None]}},
                              {"n1": {"Pods": [{"metadata": {"uid": "v1"}}], "NumPDBViolations": 1}, "nope": {"Pods": []}}])
        meta = rng.choice([None, {}, {"n1": None}, {"n1": {"Pods": [None]}}, {"n2": {"Pods": [{"UID": "v"}]}}])
        body = {"Pod": rng.choice([pod, pod, pod, None]), "NodeNameToVictims": victims, "NodeNameToMetaVictims": meta}
    ctx.dist("ext_http:%s:structured" % route)
    return {"op": "ext_http", "route": route, "body": jdump(body)}


def gen_plugin(rng, ctx):
    fn = rng.choice(["filter", "filter", "bind", "preempt", "podevent"])
    pod = gen_pod(rng, ctx, allow_holes=False)
    if fn in ("filter", "podevent"):
        return {"op": "plugin", "fn": fn, "pod": jdump(pod)}
    if fn == "bind":
        a = {"PodName": rng.choice([pod["metadata"]["name"], "known-0"]), "PodNamespace": rng.choice([pod["metadata"]["namespace"], "ns1"]),
             "PodUID": rng.choice(["u0", "", "zz"]), "Node": rng.choice(["n1", "n2", "nope", ""])}
        return {"op": "plugin", "fn": "bind", "args": jdump(a)}
    a = {"Pod": rng.choice([pod, pod, None]),
         "NodeNameToVictims": rng.choice([None, {"n1": {"Pods": [{"metadata": {"uid": "v1"}}]}}, {"n1": None}, {"n1": {"Pods": [None]}}]),
         "NodeNameToMetaVictims": rng.choice([None, {"n1": {"Pods": [{"UID": "v"}]}, "nope": None}])}
    return {"op": "plugin", "fn": "preempt", "args": jdump(a)}


# pod names of deployment ns1/web whose pod-lock key "ns1_<name>" falls into the same slot of a 500000-slot fnv32a table (the
# size of both hashed key-mutex tables) as the deployment's pool-lock key "dp_ns1_web_" (first three) or as the named pool's key
# "pool__p1_" (last three): Filter, unbind and resync take the pod lock and then the pool lock in one goroutine, which is only
# safe while the two live in different tables.  Found by enumerating 5-letter suffixes (about 1 in 500000 collides).
LOCK_SLOT_PODS = [("web-6d4cf56db6-btj6f", ""), ("web-6d4cf56db6-c2hqz", ""), ("web-6d4cf56db6-dnbw5", ""),
                  ("web-6d4cf56db6-cbc7d", "p1"), ("web-6d4cf56db6-ckn2q", "p1"), ("web-6d4cf56db6-c4ktk", "p1")]


def lock_slot_cases(ctx):
    out = []
    for name, pool in LOCK_SLOT_PODS:
        for policy in ("", "immutable"):
            ann = {"k8s.v1.cni.cncf.io/networks": "galaxy-k8s-vlan"}
            if policy:
                ann["k8s.v1.cni.galaxy.io/release-policy"] = policy
            if pool:
                ann["tke.cloud.tencent.com/eni-ip-pool"] = pool
            pod = {"metadata": {"name": name, "namespace": "ns1", "uid": "u1", "annotations": ann,
                                "ownerReferences": [{"apiVersion": "apps/v1", "kind": "ReplicaSet", "name": "web-6d4cf56db6", "uid": "o1",
                                                     "controller": True}]},
                   "spec": {"containers": [{"name": "c", "resources": {"requests": {"tke.cloud.tencent.com/eni-ip": "1"}}}]}}
            out.append({"op": "plugin", "fn": "filter", "pod": jdump(pod)})
            out.append({"op": "plugin", "fn": "podevent", "pod": jdump(pod)})
            ctx.dist("plugin:lock-slot-collision-pod")
    return out


def gen_api_http(rng, ctx):
    route = rng.choice(["list", "list", "release", "release", "pool_get", "pool_put", "pool_del"])
    ctx.dist("api_http:" + route)
    if route == "list":
        qs = []
        for k in ("keyword", "poolName", "appName", "podName", "namespace", "appType", "page", "size", "sort"):
            if rng.random() < 0.4:
                qs.append("%s=%s" % (k, quote(rng.choice(["", "0", "1", "-1", "abc", "dp_", "_", "%25", "ip+desc", "ip%20asc", "podname desc",
                                                             "99999999999999999999", "deployment", "x" * 200]), safe="%+")))
        if rng.random() < 0.1:
            qs.append(rng.choice(["%zz", "a=%", "&&&", "page=1&page=2"]))
        return {"op": "api_http", "route": "list", "query": "&".join(qs)}
    if route == "release":
        def ent():
            if rng.random() < 0.15:
                return None
            return {"ip": rng.choice(["10.0.0.2", "", "x", "255.255.255.255", None]), "namespace": rng.choice(["ns1", "", None]),
                    "appName": rng.choice(["web", "", None]), "podName": rng.choice(["web-0", "", "known-0"]),
                    "poolName": rng.choice(["", "pool1", "my_pool"]), "appType": rng.choice(["", "deployment", "statefulset", "NULL", "xx", "tapp"])}
        body = rng.choice([{}, {"ips": None}, {"ips": []}, {"ips": [ent() for _ in range(rng.choice([1, 2, 3]))]}, None, [], "x"])
        return {"op": "api_http", "route": "release", "body": jdump(body) if rng.random() < 0.9 else rng.choice(["", "{", "nul"])}
    if route == "pool_put":
        body = rng.choice([{}, None, {"name": ""}, {"name": "p1", "size": rng.choice([0, 1, -1, 3, 10 ** 12, "x", None]),
                                                      "preAllocateIP": rng.choice([True, False, None, "x"])}, [], "x"])
        return {"op": "api_http", "route": "pool_put", "body": jdump(body)}
    return {"op": "api_http", "route": route, "name": rng.choice(["", "p1", "nope", "a/b", "x" * 300, "P_1"])}


def gen_policy(rng, ctx):
    """an API-valid NetworkPolicy (valid selectors, CIDRs, ports) with every combination of policyTypes and rule lists"""
    def selector():
        return rng.choice([{}, {"matchLabels": {"app": "a"}}, {"matchLabels": {"app": "b"}},
                           {"matchExpressions": [{"key": "app", "operator": "In", "values": ["a", "b"]}]},
                           {"matchExpressions": [{"key": "app", "operator": "Exists"}]}])
    def peer():
        k = rng.random()
        if k < 0.35:
            return {"podSelector": selector()}
        if k < 0.6:
            return {"namespaceSelector": rng.choice([{}, {"matchLabels": {"team": "x"}}, {"matchLabels": {"team": "zz"}}])}
        if k < 0.75:
            return {"podSelector": selector(), "namespaceSelector": {"matchLabels": {"team": "x"}}}
        return {"ipBlock": rng.choice([{"cidr": "10.0.0.0/16"}, {"cidr": "10.0.0.0/16", "except": ["10.0.1.0/24"]},
                                       {"cidr": "0.0.0.0/0", "except": ["10.0.0.0/8", "192.168.0.0/16"]}, {"cidr": "255.255.255.255/32"},
                                       {"cidr": "10.0.0.0/24", "except": []}])}
    def ports():
        return rng.choice([None, [], [{"port": 80}], [{"protocol": "UDP", "port": 53}, {"protocol": "TCP", "port": "http"}],
                           [{"protocol": "SCTP", "port": 7}], [{"protocol": "TCP"}], [{"port": 8000, "endPort": 9000}]])
    def rules(key):
        k = rng.random()
        if k < 0.2:
            return None
        if k < 0.3:
            return []
        out = []
        for _ in range(rng.choice([1, 1, 2, 3])):
            r = {}
            p = ports()
            if p is not None:
                r["ports"] = p
            if rng.random() < 0.85:
                r[key] = [peer() for _ in range(rng.choice([0, 1, 1, 2]))]
            out.append(r)
        return out
    spec = {"podSelector": selector()}
    pt = rng.choice([None, [], ["Ingress"], ["Egress"], ["Ingress", "Egress"], ["Egress", "Ingress"]])
    if pt is not None:
        spec["policyTypes"] = pt
    i, e = rules("from"), rules("to")
    if i is not None:
        spec["ingress"] = i
    if e is not None:
        spec["egress"] = e
    ctx.dist("policy:types=%s ingress=%s egress=%s" % ("omitted" if pt is None else "+".join(pt) or "empty",
                                                      "none" if not i else "rules", "none" if not e else "rules"))
    return {"op": "policy", "np": jdump({"metadata": {"name": rng.choice(["np1", "a" * 60]), "namespace": rng.choice(["ns1", "ns2"])},
                                         "spec": spec})}


def gen_conf(rng, ctx):
    good = {"nodeSubnets": ["10.1.0.0/16"], "ips": ["10.0.0.2~10.0.0.9"], "subnet": "10.0.0.0/24", "gateway": "10.0.0.1"}
    r = rng.random()
    ctx.dist("conf")
    if r < 0.3:
        return jdump(rng.choice([None, [], [None], [good, None], [[]], [5], "x", {}, [{"nodeSubnets": [None]}],
                                 [dict(good, ips=[None])], [dict(good, ips=["255.255.255.250~255.255.255.255"], subnet="255.255.255.0/24",
                                                                   gateway="255.255.255.1")]]))
    p = dict(good)
    for k in list(p):
        q = rng.random()
        if q < 0.12:
            del p[k]
        elif q < 0.24:
            p[k] = rng.choice([None, 5, [], [None], "", "x", {}, [[]], "10.0.0.0/33", ["10.0.0.2~"], ["~"], [""]])
    return jdump([p] * rng.choice([1, 2]))


# ---------------------------------------------------------------------------- the check
def panic_site(o):
    """first galaxy frame of a recovered panic: (function, file:line)"""
    st = o.get("stack", "")
    m = re.search(r"(tkestack\.io/galaxy/[^\s(]+(?:\([^)]*\))?[^\s(]*)\([^\n]*\)\n\t(\S+?\.go):(\d+)", st)
    if not m:
        return "?", "?"
    return m.group(1).replace("tkestack.io/galaxy/", ""), "%s:%s" % (re.sub(r"^.*?/pkg/", "pkg/", m.group(2)), m.group(3))


def tag_for(case, o):
    fn, _ = panic_site(o)
    tags = []
    if "resolveNetworks" in fn:
        tags.append("c18-netanno-null-element")
    if "Preempt" in fn or ".preempt" in fn or "fillNodeNameToMetaVictims" in fn:
        body = case.get("body") or case.get("args") or ""
        try:
            b = json.loads(body)
        except ValueError:
            b = None
        if isinstance(b, dict) and b.get("Pod") is None:
            tags.append("c18-preempt-nil-pod")
    if "syncIngressInIPSet" in fn or "syncEgressInIPSet" in fn:
        tags.append("c18-policy-omitted-direction")
    return tags


def run(ctx):
    q = ctx.quick
    ctx.cov["rule"] = ("a case is one input (annotation text, request body, query, pod/args/NetworkPolicy object, config text) "
                       "generated from one PRNG (structured mostly-valid stream + null/empty/boundary perturbations + corpus), run "
                       "on the real code under a watchdog; observed: result class answer/error/panic/timeout and a follow-up call "
                       "on the same instance; non-trivial = distinct input")
    ctx.cov["trusted_base"] = vf.TRUSTED_COMMON + [
        "the Go-AST translator /verif/extractor for the lock-balance part (syntactic, trusted; Coq checks its output)",
        "typed surfaces are DIFFERENTIALLY TESTED, not proved: harness/cmd/ghsurf with the fake API machinery of "
        "context.CreateTestIPAMContext, harness/nfake (ipset/iptables), httptest + go-restful request objects"]
    ctx.assumptions += [
        "proved on Coq models (for all inputs): pool/range/CIDR decoding and the range walk (Model/Nets.v, Pool.v), networks "
        "annotation decoding + resolveNetworks element handling, Preempt's argument handling, policy rule-set alignment, CNI "
        "request/args parsing, Pagination slice bounds, parsePodIndex; lock balance of every function of the tracked packages "
        "(decision procedure proved sound, evaluated on the translator's output)",
        "ONLY differentially tested (result class, no theorem): Filter/Bind/pod events end to end, the HTTP handlers and go-restful "
        "entity decoding, the API controllers, the PolicyManager sync procedures beyond rule-set alignment, encoding/json itself",
        "a panic inside a deferred-unlock region is assumed to be recovered by net/http per connection (the follow-up call checks "
        "that no lock stays held); panics in informer goroutines would kill the process and are reported as such",
    ]
    ctx.theorems("C18", THEOREMS, REFUTED, deps=DEPS)
    # ---------------- lock balance on the translator's output
    data, err = locksgen.extract(ctx)
    ctx.cov["obligations"] += 1
    if data is None:
        ctx.violation("correspondence", "the lock summary cannot be extracted from the working tree", {"log": err}, found=False,
                      theorem="translator (extractor/)")
    else:
        unb, out = locksgen.unbalanced(data)
        npaths = sum(len(f["paths"]) for f in data["functions"])
        ctx.cov["lock_balance"] = {"functions_total": data["functions_total"], "functions_with_lock_operations": len(data["functions"]),
                                   "paths": npaths, "truncated": [f["name"] for f in data["functions"] if f.get("truncated")],
                                   "non_deferred_regions_with_calls": {f["name"]: f["undeferred_calls"] for f in data["functions"]
                                                                       if f["undeferred_calls"]}}
        ctx.dist("lockpaths", npaths)
        if unb is None:
            ctx.violation("proof", "Coq could not evaluate locks_balanced_b on the generated paths", {"output": out[-2000:]}, found=False,
                          theorem="locks_balanced")
        elif unb:
            for i in unb[:5]:
                f = data["functions"][i]
                ctx.violation("monitor", "function %s (%s) has a path that returns holding a lock, unlocks a lock it does not hold or "
                              "re-locks a lock it holds" % (f["name"], f["pos"]), {"function": f}, found=True, theorem="locks_balanced")
        else:
            text = locksgen.HEADER + "From Galaxy.Props Require Import C18.\n" + (
                "Theorem generated_balanced : locks_balanced_b fn_paths = true.\nProof. vm_compute. reflexivity. Qed.\n"
                "Definition galaxy_locks_balanced := locks_balanced fn_paths generated_balanced.\n"
                'Goal True. idtac "PA". Abort.\nPrint Assumptions galaxy_locks_balanced.\n')
            rc, out = locksgen.coqc_gen("Balanced", text)
            if rc != 0 or "Closed under the global context" not in out.split("PA", 1)[-1]:
                ctx.violation("proof", "galaxy_locks_balanced does not check on the generated paths", {"output": out[-3000:]},
                              found=False, theorem="locks_balanced")
            else:
                ctx.cov["discharged"] += 1
                ctx.theorem_report["galaxy_locks_balanced (run time, on the generated paths)"] = {"axioms": []}
        for f in data["functions"]:
            if f.get("truncated"):
                ctx.violation("correspondence", "path enumeration of %s was truncated" % f["name"], {"function": f["name"]},
                              found=False, theorem="locks_balanced")
    # ---------------- surfaces
    corpus = json.load(open(vf.ROOT + "/corpus/C18.json"))
    cases = list(corpus["surf"])
    for c in cases:
        ctx.dist("corpus")
    n = 1 if q else 8
    rng = ctx.rng
    for _ in range(220 * n):
        cases.append({"op": "netanno", "s": gen_netanno(rng, ctx)})
    for _ in range(150 * n):
        cases.append({"op": "cnireq", "body": gen_cnireq(rng, ctx)})
    for _ in range(60 * n):
        cases.append({"op": "cniargs", "s": rng.choice(["", ";", "=", "a=b", "a=b;c", "a==b;;", " a = b ; c = d ", "é=1", "a=b=c"])})
    for _ in range(150 * n):
        cases.append(gen_page(rng, ctx))
    for _ in range(260 * n):
        cases.append(gen_ext_http(rng, ctx))
    for _ in range(260 * n):
        cases.append(gen_plugin(rng, ctx))
    cases += lock_slot_cases(ctx)
    # pool requests with pre-allocation around the number of free IPs of a node subnet (59 and 6 here): fits in the first subnet,
    # needs the second one, exceeds everything; each followed by the pool's deletion
    for size in (1, 6, 7, 58, 59, 60, 64, 65, 66, 70, 1000, 10 ** 6):
        nm = "pre%d" % size
        cases.append({"op": "api_http", "route": "pool_put", "body": jdump({"name": nm, "size": size, "preAllocateIP": True})})
        cases.append({"op": "api_http", "route": "pool_put", "body": jdump({"name": nm, "size": size + 1, "preAllocateIP": True})})
        cases.append({"op": "api_http", "route": "release", "body": jdump({"ips": [{"ip": "10.0.0.%d" % k, "poolName": nm} for k in range(2, 61)]})})
        cases.append({"op": "api_http", "route": "pool_del", "name": nm})
        ctx.dist("api_http:pool-preallocation-size-%d" % size)
    for _ in range(200 * n):
        cases.append(gen_api_http(rng, ctx))
    for _ in range(160 * n):
        cases.append(gen_policy(rng, ctx))
    obs = ctx.harness("surf", cases, cmd="ghsurf", timeout=900)
    conf_cases = [{"op": "conf", "text": t} for t in corpus.get("conf", [])] + \
                 [{"op": "conf", "text": gen_conf(rng, ctx)} for _ in range(150 * n)]
    conf_obs = ctx.harness("nets", conf_cases, cmd="gh")
    if obs is None or conf_obs is None:
        return
    cases += conf_cases
    obs += conf_obs
    exprs, idx = [], []
    reported = {}
    for i, (c, o) in enumerate(zip(cases, obs)):
        ctx.count(c)
        res = o.get("res")
        ctx.dist("res:%s:%s" % (c["op"], res))
        if res in ("ok", "err") and o.get("follow", "ok") == "ok":
            if c["op"] == "netanno" and len(ctx.cov["samples"]) < 3 and o.get("parsed", 0) > 1:
                ctx.sample({"case": c, "observed": o})
            m = model_expr(c, o)
            if m:
                exprs.append(m)
                idx.append(i)
            continue
        if res == "harness-error":
            ctx.violation("correspondence", "the ghsurf harness could not run a case: %s" % o.get("err"), {"case": c, "obs": o},
                          found=False, theorem="ghsurf")
            continue
        fn, site = panic_site(o)
        if res == "panic":
            what = "%s panics in %s (%s): %s" % (describe(c), fn, site, o.get("panic"))
        elif res == "timeout":
            what = "%s does not return (watchdog)" % describe(c)
        elif res in ("crash", "not-run"):
            what = "%s kills the process" % describe(c)
        else:
            what = "%s leaves the instance wedged: the follow-up call ended with %s" % (describe(c), o.get("follow"))
        key = (c["op"], c.get("route") or c.get("fn"), fn, res)
        if key in reported:
            reported[key] += 1
            continue
        reported[key] = 1
        o2 = dict(o)
        o2["stack"] = o.get("stack", "")[:1800]
        ctx.violation("monitor", what, {"case": c, "obs": o2, "how": "bin/check C18 --replay <this file>"}, found=True,
                      theorem="result class is answer or error, instance usable afterwards", tags=tag_for(c, o))
    ctx.cov["surface_failures_by_site"] = {"%s %s %s %s" % k: v for k, v in reported.items()}
    ctx.cov["traces_validated_against_impl"] = len(exprs)
    if exprs:
        rb = ctx.coq_bools("corr", IMPORTS, exprs)
        if rb is None:
            ctx.violation("correspondence", "the Coq evaluation of the C18 model cases failed", {}, found=False,
                          theorem="C18 correspondence (Corr/C18c.v)")
        else:
            bad = [idx[k] for k, b in enumerate(rb) if not b]
            ctx.cov["disagreements"] = len(bad)
            if bad:
                ctx.violation("correspondence", "model and implementation disagree on the result class of %d case(s)" % len(bad),
                              {"disagreements": [{"case": cases[i], "obs": obs[i]} for i in bad[:6]]}, found=False,
                              theorem="C18 correspondence (Corr/C18c.v)")


def describe(c):
    op = c["op"]
    if op == "netanno":
        return "networks annotation %r" % c["s"]
    if op == "ext_http":
        return "POST /v1/%s with body %s" % (c["route"], c["body"][:300])
    if op == "api_http":
        return "API %s %s" % (c["route"], (c.get("query") or c.get("body") or c.get("name") or "")[:300])
    if op == "plugin":
        return "FloatingIPPlugin %s with %s" % (c["fn"], (c.get("pod") or c.get("args"))[:400])
    if op == "policy":
        return "NetworkPolicy %s" % c["np"][:400]
    if op == "conf":
        return "floatingips configuration %s" % c["text"][:300]
    return "%s %s" % (op, jdump(c)[:300])


# ---------------------------------------------------------------------------- model side (result class)
def cjson(t):
    if t is None:
        return "JNull"
    if isinstance(t, bool):
        return "(JBool %s)" % cbool(t)
    if isinstance(t, int):
        return "(JNum %s)" % cZ(t)
    if isinstance(t, float):
        return "JNumOther"
    if isinstance(t, str):
        return "(JStr %s)" % cstr(t)
    if isinstance(t, dict):
        return "(JObj %s)" % clist(cpair(cstr(k), cjson(v)) for k, v in t.items())
    if isinstance(t, list):
        return "(JArr %s)" % clist(cjson(v) for v in t)
    raise ValueError(t)


def ascii_plain(s):
    return all(32 <= ord(ch) < 127 for ch in s)


def model_expr(c, o):
    """Coq boolean: the model's result class equals the observed one (only for inputs inside the modelled domain)"""
    cls = "COk" if o["res"] == "ok" else "CErr"
    if c["op"] == "netanno":
        s = c["s"]
        if not ascii_plain(s):
            return None
        if any(ch in s for ch in '[{"'):
            try:
                t = json.loads(s)
            except ValueError:
                return "(chk_class (CErr) %s)" % cls          # encoding/json rejects it; so does python's decoder
            if has_dup_or_float(t):
                return None
            return "(chk_netanno cur_sflags (AJson %s) %s)" % (cjson(t), cls)
        return "(chk_netanno cur_sflags (AText %s) %s)" % (cstr(s), cls)
    if c["op"] == "cnireq":
        body = c["body"]
        if not ascii_plain(body):
            return None
        try:
            b = json.loads(body)
        except ValueError:
            return "(chk_class CErr %s)" % cls
        if not isinstance(b, dict) or has_dup_or_float(b) or any(k.lower() in ("env", "config") and k not in ("env", "config") for k in b):
            return None
        env, cfg = b.get("env"), b.get("config")
        if env is not None and (not isinstance(env, dict) or not all(isinstance(v, str) and ascii_plain(k + v) for k, v in env.items())):
            return None
        if cfg is not None:
            if not isinstance(cfg, str):
                return None
            try:
                base64.b64decode(cfg, validate=True)
            except Exception:
                return "(chk_class CErr %s)" % cls
        e = "None" if env is None else "(Some %s)" % clist(cpair(cstr(k), cstr(v)) for k, v in env.items())
        return "(chk_cnireq %s %s)" % (e, cls)
    if c["op"] == "plugin" and c.get("fn") == "preempt":
        a = json.loads(c["args"])
        def vic(v):
            if v is None:
                return "None"
            pods = v.get("Pods") or []
            return "(Some %s)" % clist("None" if p is None else "(Some 1)" for p in pods)
        vs = a.get("NodeNameToVictims") or {}
        ms = a.get("NodeNameToMetaVictims") or {}
        return "(chk_preempt cur_sflags {| pa_pod := %s; pa_victims := %s; pa_meta := %s |} %s)" % (
            "None" if a.get("Pod") is None else "(Some false)",
            clist(cpair(cstr(k), vic(v)) for k, v in vs.items()), clist(cstr(k) for k in ms), cls)
    if c["op"] == "policy":
        spec = json.loads(c["np"])["spec"]
        def peers(rule, key):
            out = []
            for p in rule.get(key) or []:
                if "ipBlock" in p:
                    out.append("PIpBlock")
                elif "podSelector" in p and "namespaceSelector" in p:
                    out.append("PPodNs")
                elif "podSelector" in p:
                    out.append("PPod")
                else:
                    out.append("PNs")
            return clist(out)
        types = clist("TIngress" if t == "Ingress" else "TEgress" for t in spec.get("policyTypes") or [])
        return "(chk_policy cur_sflags {| np_types := %s; np_ingress := %s; np_egress := %s |} %s)" % (
            types, clist(peers(r, "from") for r in spec.get("ingress") or []),
            clist(peers(r, "to") for r in spec.get("egress") or []), cls)
    return None    # page: Model/Page.v is tied to the code by C11's correspondence; the real slice expression runs in ghsurf


def has_dup_or_float(t):
    if isinstance(t, float):
        return True
    if isinstance(t, dict):
        low = [k.lower() for k in t]
        return len(set(low)) != len(low) or any(has_dup_or_float(v) for v in t.values())
    if isinstance(t, list):
        return any(has_dup_or_float(v) for v in t)
    return False


def replay(ctx, path):
    r = json.load(open(path))
    rp = r["replay"]
    cs = [rp["case"]] if "case" in rp else [d["case"] for d in rp.get("disagreements", [])]
    for c in cs:
        cmd = "gh" if c["op"] == "conf" else "ghsurf"
        sub = "nets" if c["op"] == "conf" else "surf"
        o = ctx.harness(sub, [c], cmd=cmd)
        print(json.dumps({"case": c, "observed_now": o[0] if o else None})[:3000])
