"""C06 - Filter-approved nodes can be bound and get a routable IP."""
import plugincheck

THEOREMS = ["filter_then_bind", "filter_then_bind_noranges", "filter_then_bind_owned_ranges", "filter_then_bind_partial",
            "bind_routable", "bind_routable_ranges", "bind_routable_partial", "first_of_key_smallest", "bind_info_configured",
            "owned_restricts", "fresh_exact"]
REFUTED = ["bind_routable_refuted_old", "first_of_key_old_two", "bind_routable_witness_reachable", "bind_routable_refuted_ranges_old",
           "filter_then_bind_refuted_restart_old", "filter_then_bind_witness_reachable_old", "filter_then_bind_overlap_refuted"]
KNOWN_FINDINGS = [
    {"id": "K7", "status": "fixed", "commit": "d08b5a9", "tag": "c06-plain-key-holds-several-ips",
     "what": "fixed: property=C06 d08b5a9 a pod that requests no range but whose key holds SEVERAL IPs (its template changed from "
             "requested ranges to none while the IPs were reserved): filter and bind each took 'the first' IP of the key in Go's map "
             "order, so filter could approve nodes for one IP and bind write another one that is not routable from the chosen node "
             "(witness bind_routable_refuted_old / first_of_key_old_two; scenarios K7-plain-key-two-ips); ByKeyAndIPRanges now "
             "lists a key's IPs in ascending order"},
    {"id": "F14", "status": "fixed", "commit": "948e55d", "tag": "c06-range-intersection-restart",
     "what": "fixed: property=C06 948e55d NodeSubnetsByIPRanges restarted the intersection of the range lists' node subnets when it "
             "became empty: with three range lists in pools without a common node subnet filter approved a node on which bind "
             "answered 'no enough available ips left' (witness filter_then_bind_refuted_restart_old; scenario "
             "F14-three-ranges-no-common-subnet)"},
    {"id": "F15", "status": "fixed", "commit": "07fe1a3", "tag": "c06-held-ips-restriction-dropped",
     "what": "fixed: property=C06 07fe1a3 getSubnet dropped (or restarted) the restriction to the node subnets of the IPs a pod "
             "already holds in its requested ranges when those IPs had no subnet in common, approving nodes from which a kept IP is "
             "not routable (witness bind_routable_refuted_ranges_old; scenario F15-held-ips-without-common-subnet)"},
]

MANIFEST = {
    "text": "Coq theorems over the scheduler-plugin model for EVERY world satisfying WInv, every topology the decoder accepts, "
            "every oracle: filter_then_bind (filter returned the node, nothing else changed, no injected fault, pairwise-disjoint "
            "requested ranges: bind succeeds, or the oracle was invalid, or it reports that an IP of the key is still stored for "
            "another UID - the documented wait for the deletion event); bind_routable (every IP written by a bind on a "
            "filter-approved node lies in a pool that lists the node's subnet - the statement as asked, no extra premise since the "
            "repair of K7: 'the first' IP of a key is its smallest, first_of_key_smallest); bind_info_configured (the "
            "mask, gateway and VLAN written are those of a loaded pool containing the IP); owned_restricts (a pod holding an IP "
            "is offered exactly the nodes from which it is routable); fresh_exact (a fresh default-policy pod is offered exactly "
            "the candidate nodes with a free routable IP). Three defects refuted these statements and were repaired (F14, F15, K7: "
            "witnesses for the old behaviour kept). Tied to the code by random-topology routing scenarios (bind on a node the "
            "real filter approved) on the real FloatingIPPlugin vs the model step by step - filter node sets, bind results and the "
            "IP/mask/gateway/VLAN written are compared - plus the predicates filter_then_bind / bind_routable / "
            "bind_info_configured on the implementation's outputs.",
    "note": "trusted: Coq kernel (no axioms); harness fakes; section atomicity; requested range lists pairwise disjoint (the "
            "property's quantifier; filter_then_bind_overlap_refuted shows it is necessary); node subnets as the decoder produces "
            "them (every pool has at least one: pools_routable_reachable)",
}


def run(ctx):
    ctx.cov["rule"] = ("well-formed histories on random topologies (1-3 pools, node subnets shared by pools, nodes outside every "
                       "subnet, a ghost node): fresh pods of every kind and policy with 0-3 pairwise disjoint requested range lists "
                       "(single addresses, short ranges, partially pre-owned after a first incarnation), filter on a random node "
                       "set followed by bind on a node the REAL filter approved; regression scenarios of F14 / F15 and the K7 shape; "
                       "random histories; real FloatingIPPlugin vs Model/Plugin.v after every step (filter node sets, bind result, "
                       "tables); monitors filter_then_bind, bind_routable, bind_info_configured on the implementation's outputs")
    plugincheck.run(ctx, "C06", THEOREMS, REFUTED, plugincheck.mon_c06, nrandom=(100, 1000), incarnations=False,
                    extra_scenarios=plugincheck.routing_scenarios(ctx.rng, ctx, 150 if ctx.quick else 1500))


def replay(ctx, path):
    plugincheck.replay(ctx, path)
