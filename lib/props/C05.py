"""C05 - Persisted FloatingIPs equal in-memory state; restart and crash safe."""
import ipamcheck, plugincheck

THEOREMS = ["agree_invariant", "agree_step", "agree_quiescent", "restart_exact"]
REFUTED = ["agree_refuted_reload_window_old", "agree_refuted_stale_event_old"]
PLUGIN_THEOREMS = ["crash_in_bind_restart_safe", "crash_elsewhere_restart_safe", "after_restart_no_double_owner",
                   "after_restart_pods_keep_ips", "after_restart_resync_no_leak", "restart_world_fresh_informer"]

KNOWN_FINDINGS = [
    {"id": "K9", "status": "open", "tag": "c05-rollback-delete-fails",
     "what": "when a multi-IP request is rolled back (a creation failed, e.g. on an administrator's reservation not yet seen) and "
             "the DELETION of an object it had created fails too, the failure is only logged: the object stays in the store while "
             "memory forgets the IP - store and memory disagree, a new process loads the IP as allocated to a key that never got "
             "it; attributed only to histories in which a roll-back's deletion failed and only when taking exactly those objects "
             "out makes the predicate true (found by the thorough tier, history random, step alloc_ranges fault=3)"},
    {"id": "F3", "status": "fixed", "commit": "cdfc2c2", "tag": "c05-reload-window",
     "what": "fixed: property=C05 cdfc2c2 ConfigurePool listed the store before taking cacheLock: an allocation made in that window "
             "was persisted but dropped from memory (witness agree_refuted_reload_window_old; scenario request-during-reload-list)"},
    {"id": "F11", "status": "fixed", "commit": "da2dfd1", "tag": "c05-stale-delete-event",
     "what": "fixed: property=C05 da2dfd1 handleFIPUnassign evicted a pod's allocation when the stale delete event of a removed "
             "reservation arrived after a reload (witness agree_refuted_stale_event_old; scenario stale-reservation-delete-event)"},
]

MANIFEST = {
    "text": "Coq invariant proof over ALL histories of crdIpam operations, every fault index and every map-iteration oracle "
            "(agree_invariant/agree_step: tables disjoint, tables = configured addresses, memory = store on owner/policy/node/uid/"
            "reserved label for every configured IP, modulo undelivered administrator changes; agree_quiescent; restart_exact: a "
            "restarted process rebuilds exactly its tables). Tied to the code by replaying scenario + random histories and, for a "
            "subset, every fault index of every operation on the real crdIpam and on the model step by step; the invariant is also "
            "evaluated as a monitor on the implementation's dumps. The crash-between-two-API-calls half of the property is covered at "
            "this layer through restart_exact (a crash loses memory only; the rebuilt tables are a function of the store). Plugin "
            "level (Model/PluginCrash.v, Proofs/PluginCrashP.v): because the store is written before memory, a section that dies "
            "before its k-th API call leaves a restarted process exactly the state of that call failing cleanly "
            "(crash_elsewhere_restart_safe, for every section, every fault argument) - except inside Bind's multi-IP allocation, "
            "where a failed creation rolls back and a dead process does not: crash_in_bind_restart_safe covers that state for every "
            "k. In both cases the restarted world satisfies the world invariant WInv, hence after_restart_no_double_owner, "
            "after_restart_pods_keep_ips and - with C03's resync pass theorem - after_restart_resync_no_leak. Tied to the code by "
            "crash scenarios: the store fake lets every call from the k-th on fail (rollbacks included), the plugin object is "
            "abandoned and a new one started over the same API server, for every k of the multi-IP allocation.",
    "note": "trusted: Coq kernel (no axioms); fake API server semantics; ConfigurePool and AllocateSpecificIP modelled as atomic "
            "steps (after fix cdfc2c2 ConfigurePool holds the lock across its list; AllocateSpecificIP's unlocked Create is protected "
            "by the name conflict); administrator does not touch a reservation again before its event is delivered",
}

def run(ctx):
    ctx.cov["rule"] = ("histories of crdIpam operations (scenario histories + random histories from one PRNG, symbolic references "
                       "resolved against the live tables) and, for a subset, EVERY fault index of every operation; each history runs "
                       "on the real crdIpam against a fake API server and on Model/Ipam.v (result class, returned IPs and the three "
                       "tables compared after every step); monitors mon_agree (memory = store on configured IPs) after every step "
                       "and same_tables across every restart are evaluated on the implementation's dumps; a history is "
                       "non-trivial/distinct by its operation list")
    ipamcheck.run(ctx, "C05", "C05", THEOREMS, REFUTED)
    # plugin level: the process dies inside a section (Model/PluginCrash.v), a new process starts, resyncs, binds again
    plugincheck.run(ctx, "C05", PLUGIN_THEOREMS, [], plugincheck.mon_crash, ext=3, incarnations=False, nrandom=(0, 0),
                    extra_scenarios=plugincheck.crash_scenarios(ctx.rng, ctx, 12 if ctx.quick else 120), fixed=False)


def replay(ctx, path):
    ipamcheck.replay(ctx, path)
