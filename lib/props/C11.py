"""C11 - Allocation keys are unambiguous and the API releases what it lists."""
import json
import urllib.parse
import vf
from vf import cN, cbool, cstr, clist, cpair

IMPORTS = ("From Coq Require Import List Ascii String NArith ZArith Bool.\n"
           "From Galaxy.Base Require Import Strs.\nFrom Galaxy.Model Require Import Keys Page IpApi.\n"
           "From Galaxy.Corr Require Import CorrBase C11c.\n")

THEOREMS = ["key_injective", "parse_format", "list_release_roundtrip", "blank_type_is_statefulset", "release_exact",
            "release_exact_owner", "pages_partition", "pages_beyond_empty", "sort_by_ip_permutation",
            "batch_release_exact", "batch_roundtrip_any_order"]
REFUTED = ["parse_format_refuted_pool_underscore", "list_release_refuted_pool_underscore",
           "list_release_refuted_omitted_type", "list_release_refuted_null_type"]
DEPS = ["Strs", "Keys", "Page", "IpApi", "KeysP", "PageP", "IpApiP", "CorrBase", "C11c", "C11"]

K4_TAG = "c11-pool-annotation-contains-underscore"
KNOWN_FINDINGS = [
    {"id": "K4", "status": "open", "tag": K4_TAG,
     "what": "a pool annotation containing '_' is accepted by FormatKey/bind but ParseKey splits the pool name at its "
             "first '_' (pool__my_pool_dp_ns1_dp_dp-abc-x parses to pool 'my', everything else empty), so the list "
             "API shows a wrong entry that cannot be posted back; witness parse_format_refuted_pool_underscore / "
             "list_release_refuted_pool_underscore, corpus pods 1-2"},
]


MANIFEST = {
    "text": "Coq theorems over the executable model of util.FormatKey/ParseKey/NewKeyObj, the key<->list-entry conversion of "
            "api.go and the paging code (Model/Keys.v, IpApi.v, Page.v), for ALL pods with DNS-1123 ('_'-free, non-empty) names, "
            "namespaces and owner names, any owner kind and any pool string: key_injective (equal keys => equal namespace, app, "
            "pod), parse_format (for '_'-free kind and pool ParseKey(FormatKey p) returns exactly p's fields), "
            "list_release_roundtrip + blank_type_is_statefulset (every listed entry posted back addresses the same key; an omitted "
            "appType means statefulset), release_exact / release_exact_owner (a release frees x only if x's current key equals the "
            "posted key - never another owner's IP), pages_partition / pages_beyond_empty / sort_by_ip_permutation (pages of the "
            "IP-sorted list partition it for every size), batch_release_exact / batch_roundtrip_any_order (a release request with "
            "SEVERAL entries - Model/IpApi.v post_entries - frees only posted IPs, each only under the key some entry posted with it "
            "denotes, and releases every entry that denotes the current key of its IP whatever the order of the entries, an omitted "
            "appType meaning statefulset wherever the entry stands). The old defects F5/F6 keep their refutation witnesses for the old flags. "
            "Tied to the code by generated pods/kinds/pools through the real FormatKey/ParseKey and the real HTTP ListIPs/ReleaseIPs "
            "controllers wired to the real plugin, compared field by field with the model.",
    "note": "trusted: Coq kernel (no axioms); ASCII names only in the model (the differ sends non-ASCII too and then only requires "
            "same accept/reject); go-restful routing and JSON entity decoding are exercised, not modelled; known finding K4 (pool "
            "annotation containing '_') is outside parse_format's hypothesis and reported as KNOWN-FINDING",
}


def lstr(l):
    return clist(cstr(x) for x in l)


# ---------------------------------------------------------------------------- generators
ALNUM = "abcdefghijklmnopqrstuvwxyz0123456789"


def gen_label(rng, dots=False):
    """a DNS-1123 label (or subdomain when dots=True): lower-case alphanumerics and '-', alphanumeric at both ends"""
    r = rng.random()
    if r < 0.08:
        n = 63
    elif r < 0.2:
        n = rng.choice([1, 2])
    else:
        n = rng.randrange(3, 14)
    cs = []
    for i in range(n):
        if 0 < i < n - 1 and rng.random() < 0.18:
            cs.append("." if dots and rng.random() < 0.3 else "-")
        else:
            cs.append(rng.choice(ALNUM))
    if rng.random() < 0.25:
        cs[0] = rng.choice("0123456789")            # digit-first names are legal DNS-1123 labels
    s = "".join(cs)
    while ".." in s or "-." in s or ".-" in s:
        s = s.replace("..", ".a").replace("-.", "a.").replace(".-", ".a")
    return s


KINDS = ["StatefulSet", "StatefulSet", "ReplicaSet", "ReplicaSet", "ReplicaSet", "Deployment", "TApp", "DaemonSet",
         "Job", "CronJob", "statefulset", "STATEFULSETS", "StatefulSets", "replicaset", "REPLICASET", "deployment",
         "Null", "NULL", "null", "dp", "sts", "Pool", "pool", "MyCRD", "GameStatefulSet", "X", "tapp", "N",
         # kinds that look like plurals or carry other suffixes a "normalisation" might strip
         "Redis", "Jenkins", "Ingress", "S", "ss", "TApps", "Deployments", "ReplicaSets"]
POOLS = [None, None, None, None, "", "p1", "my-pool", "pool", "pool-", "0", "sts", "NULL", "a.b"]
BAD_POOLS = ["my_pool", "_", "x_", "_x", "a__b", "pool__x"]


def gen_pod(rng, ctx, small=False):
    """(case dict, tags) - a pod as far as FormatKey reads it"""
    ns = gen_label(rng) if not small else rng.choice(["ns1", "ns2", "a", "a-b"])
    r = rng.random()
    owners = []
    if r < 0.15:
        kindclass = "no-owner"
    else:
        kind = rng.choice(KINDS)
        kindclass = "kind:" + kind
        app = gen_label(rng, dots=rng.random() < 0.2) if not small else rng.choice(["app", "a", "b-c", "a-b"])
        if kind == "ReplicaSet":
            rr = rng.random()
            if rr < 0.7:
                oname = app + "-" + "".join(rng.choice("bcdfghjklmnpqrstvwxz2456789") for _ in range(rng.choice([5, 9, 10])))
            elif rr < 0.9:
                oname = app.replace("-", "")          # replica set without '-': the app is the full owner name
                if not oname:
                    oname = "rs"
            else:
                oname = app
        else:
            oname = app
        owners.append([kind, oname])
        if rng.random() < 0.06:
            owners.append([rng.choice(KINDS), gen_label(rng)])      # only the first reference counts (RS: error)
            kindclass += "+second-owner"
    if owners and owners[0][0] == "StatefulSet":
        name = owners[0][1] + "-" + str(rng.choice([0, 1, 7, 10, 123]))
    elif owners and owners[0][0] == "ReplicaSet":
        name = owners[0][1] + "-" + "".join(rng.choice("bcdfghjklmnpqrstvwxz2456789") for _ in range(5))
    else:
        name = gen_label(rng, dots=rng.random() < 0.15)
    if len(name) > 63 and rng.random() < 0.8:
        name = name[:58] + "".join(rng.choice(ALNUM) for _ in range(5))     # how the apiserver shortens generated names
    if small and rng.random() < 0.5:
        name = rng.choice(["p", "p-0", "a-b", "b", "c-0"])
    c = {"op": "key", "name": name, "ns": ns, "owners": owners}
    r = rng.random()
    if r < 0.07:
        c["pool"] = rng.choice(BAD_POOLS)
        ctx.dist("pod:pool-with-underscore")
    else:
        p = rng.choice(POOLS)
        if p is not None:
            c["pool"] = p
        ctx.dist("pod:pool-" + ("absent" if p is None else "empty" if p == "" else "present"))
    # rare out-of-domain shapes, compared for correspondence only
    r = rng.random()
    if r < 0.02 and owners:
        owners[0][0] = rng.choice(["My_Kind", "_", "a_"])
        kindclass = "kind:with-underscore"
    elif r < 0.03 and owners:
        owners[0][0] = ""
        kindclass = "kind:empty"
    elif r < 0.04 and owners:
        owners[0][1] = rng.choice(["", "-x", "a_b"])
        kindclass += "+odd-owner-name"
    elif r < 0.05:
        c["ns"] = rng.choice(["", "a_b"])
        kindclass += "+odd-namespace"
    ctx.dist("pod:" + kindclass.split("+")[0] if kindclass.startswith("kind:") and "+" in kindclass else "pod:" + kindclass)
    return c


def names_ok(c):
    """the theorems' hypotheses (weaker than DNS-1123): non-empty and '_'-free namespace, pod name, owner name;
    non-empty '_'-free kind"""
    def ok(s):
        return s != "" and "_" not in s
    if not ok(c["ns"]) or not ok(c["name"]):
        return False
    for k, n in c["owners"][:1]:
        if not ok(n) or not ok(k):
            return False
    return True


def cpod(c):
    return "(mk_pod %s %s %s %s)" % (cstr(c["name"]), cstr(c["ns"]),
                                    clist(cpair(cstr(k), cstr(n)) for k, n in c["owners"]), cstr(c.get("pool", "")))


def ascii_only(*ss):
    return all(ord(ch) < 128 for s in ss for ch in s)


PAGE_TEXTS = ["", "0", "1", "2", "3", "5", "9", "10", "11", "99", "100", "9998", "9999", "10000", "99998", "99999", "100000",
              "-1", "-0", "+3", "+0", "abc", "1a", " 5", "5 ", "0x10", "1_0", "007", "1.5", "1e3", "+", "-",
              "9223372036854775807", "9223372036854775808", "-9223372036854775808", "-9223372036854775809",
              "99999999999999999999", "000000000000000000000005", "2147483648", "4294967296"]


def gen_page_case(rng, ctx):
    r = rng.random()
    pg = rng.choice(PAGE_TEXTS) if r < 0.6 else str(rng.randrange(0, 40))
    sz = rng.choice(PAGE_TEXTS) if rng.random() < 0.5 else str(rng.randrange(1, 30))
    ln = rng.choice([0, 1, 2, 9, 10, 11, 99, 100, 101, rng.randrange(0, 400), rng.randrange(0, 10 ** 6), 99999 * 9999,
                     10 ** 9 + 7])
    ctx.dist("page:param-" + ("empty" if pg == "" else "numeric" if pg.isdigit() else "other"))
    return {"op": "page", "page": pg, "size": sz, "len": ln}


def key_exprs(c, o):
    if o["err"]:
        return "(chk_key %s true [] [] [] [] [] [] [] [])" % cpod(c)
    return "(chk_key %s false %s %s %s %s %s %s %s %s)" % (
        cpod(c), cstr(o["key"]), lstr(o["fields"]), cstr(o["pp"]), cstr(o["pap"]), lstr(o["parsed"]),
        lstr(o["parsed_pp"]), lstr(o["parsed_pap"]), cstr(o["nko"]))


def cstate(st):
    return clist(cpair(cstr(ip), cstr(k)) for ip, k in st)


def ip_text(n):
    return "10.0.%d.%d" % (n >> 8 & 255, n & 255)


# ---------------------------------------------------------------------------- API scenarios
def gen_api_case(rng, ctx, pool_of_keys, forced=None):
    """allocate keys observed in phase 1 (pod keys, pool prefixes, app prefixes), list, post back"""
    n = rng.choice([2, 3, 4, 5, 6, 8, 12])
    picks = forced or [rng.choice(pool_of_keys) for _ in range(n)]
    offs = rng.sample(range(2, 1018), len(picks))       # 10.0.0.2 ... 10.0.3.249; widths 1-3 digits mix
    if rng.random() < 0.5:
        offs = rng.sample([2, 3, 9, 10, 11, 19, 20, 99, 100, 101, 199, 200, 255, 256, 257, 265, 266, 355, 356, 512, 1000], min(len(picks), 21))
        picks = picks[:len(offs)]
    allocs, seen, meta = [], set(), {}
    spread = rng.random() < 0.5          # IPs from three address blocks far apart (10/8, 100.64/24, 192.168.5/24)
    ctx.dist("api:blocks-" + ("three" if spread else "one"))
    for (key, pc, what, fields), off in zip(picks, offs):
        if key in seen or key == "":
            continue        # one IP per key keeps the scenario readable (a key may hold several IPs, not needed here)
        seen.add(key)
        ipt = ip_text(off)
        if spread:
            ipt = [ip_text(off), "100.64.0.%d" % (2 + off % 249), "192.168.5.%d" % (2 + off % 249)][len(allocs) % 3]
            if ipt in meta:
                continue
        allocs.append([key, ipt])
        meta[ipt] = (key, pc, what)
    # a deployment pod of a named pool AND the pool's reserve key (pool__<name>_) hold IPs at the same time: the entry of the
    # one must never release the IP of the other
    for key, pc, what, fields in list(picks):
        if what == "pod" and pc.get("pool") and "_" not in pc["pool"] and rng.random() < 0.5:
            pk_ = "pool__%s_" % pc["pool"]
            if pk_ not in seen:
                seen.add(pk_)
                ipt = "10.0.3.%d" % (200 + len(allocs) % 50)
                if ipt not in meta:
                    allocs.append([pk_, ipt])
                    meta[ipt] = (pk_, pc, "pool-prefix")
                    ctx.dist("api:pool-pod-and-its-pool-reserve")
    # a key may hold SEVERAL IPs (a pool's or an app's reserve, a pod with several requested ranges): every one of its listed
    # entries is released by posting it back, whichever of them the table yields first
    if allocs and rng.random() < 0.4:
        for key, _ in rng.sample(allocs, min(len(allocs), rng.choice([1, 2]))):
            for _ in range(rng.choice([1, 2, 3])):
                ipt = "10.0.2.%d" % rng.randrange(2, 250)
                if ipt not in meta and all(ipt != a[1] for a in allocs):
                    allocs.append([key, ipt])
                    meta[ipt] = meta[next(a[1] for a in allocs if a[0] == key)]
        ctx.dist("api:key-holds-several-ips")
    pods = []
    for key, pc, what, fields in picks:
        if what == "pod" and rng.random() < 0.15:
            pods.append([pc["ns"], pc["name"]])          # still running: not releasable
    size = rng.choice([1, 2, 3, 5, 100])
    lists = ["keyword=_&size=9999"]
    npages = (len(allocs) + size - 1) // size
    for pg in range(npages + 2):
        lists.append("keyword=_&size=%d&page=%d" % (size, pg))
    # a field query (no keyword: ListIPs builds a key prefix from the fields) for one of the pods
    qp = [p for p in picks if p[2] == "pod" and not p[1].get("pool") and p[0] in seen]
    if qp and rng.random() < 0.8:
        key, pc, _, fields = rng.choice(qp)
        q = {"namespace": fields[1], "appName": fields[2]}
        if pc["owners"] and not (pc["owners"][0][0] == "StatefulSet" and rng.random() < 0.5):
            q["appType"] = pc["owners"][0][0]
        elif not pc["owners"]:
            q["appType"] = "NULL"
        if rng.random() < 0.3:
            q["podName"] = fields[3]
        lists.append(urllib.parse.urlencode(q))
    sorted_ips = sorted(ip for _, ip in allocs)
    posts = []
    order = list(range(len(allocs)))
    rng.shuffle(order)
    for i in order:
        r = rng.random()
        if r < 0.60:
            posts.append({"list": 0, "idx": i})
        elif r < 0.78:
            posts.append({"list": 0, "idx": i, "blank": True})
            posts.append({"list": 0, "idx": i})
        elif r < 0.90 and len(allocs) > 1:
            j = rng.choice([x for x in range(len(allocs)) if x != i])
            posts.append({"list": 0, "idx": i, "ip": sorted_ips[j]})       # entry i with the IP of entry j: another owner's IP
            posts.append({"list": 0, "idx": i})
        else:
            posts.append({"list": 0, "idx": i})
            posts.append({"list": 0, "idx": i})                  # second post: already released
    # cross posts: every entry whose key starts with a pool prefix against the IP of that pool's reserve, and back
    keys_by_idx = [k_ for k_, _ in sorted(allocs, key=lambda a: a[1])]
    for i, ki in enumerate(keys_by_idx):
        for j, kj in enumerate(keys_by_idx):
            if i != j and kj.startswith("pool__") and kj.endswith("_") and kj.count("_") == 3 and ki.startswith(kj) and rng.random() < 0.7:
                posts.insert(0, {"list": 0, "idx": i, "ip": sorted_ips[j]})      # the pod's entry with the reserve's IP
                posts.insert(0, {"list": 0, "idx": j, "ip": sorted_ips[i]})      # the reserve's entry with the pod's IP
    ctx.dist("api:allocs-%d" % len(allocs))
    batches = []
    if rng.random() < 0.35 and len(allocs) >= 2:
        # the listing (or a part of it) is posted back in ONE request, some entries without their appType, in listing
        # order or shuffled; a second request repeats some of it
        specs = [dict({"list": 0, "idx": i}, **({"blank": True} if rng.random() < 0.4 else {})) for i in range(len(allocs))]
        if rng.random() < 0.5:
            rng.shuffle(specs)
        if rng.random() < 0.3:
            specs = specs[:max(2, len(specs) // 2)]
        batches = [specs] + ([rng.sample(specs, min(2, len(specs)))] if rng.random() < 0.3 else [])
        posts = []
        ctx.dist("api:batch-request-%d-entries" % len(specs))
    return {"op": "api", "allocs": allocs, "pods": pods, "lists": lists, "posts": posts, "batches": batches}, meta, size


def run(ctx):
    rng = ctx.rng
    n_keys = 2000 if ctx.quick else 20000
    n_parse = 300 if ctx.quick else 3000
    n_page = 300 if ctx.quick else 3000
    n_api = 150 if ctx.quick else 1200
    ctx.cov["rule"] = ("pods generated from one PRNG (DNS-1123 names incl. 63-byte, 1-byte, digit-first, dotted; owner kinds "
                       "known / CRD-like / odd case / none; pool annotations absent, empty, plain, with '_'); a case is "
                       "non-trivial when it is a distinct input; each runs on the real util.FormatKey / PoolPrefix / "
                       "PoolAppPrefix / ParseKey / NewKeyObj / GetAppTypePrefix / GetAppType, page.ParsePage / ParseSize / "
                       "Pagination, and (API scenarios) on the real api.Controller ListIPs/ReleaseIPs handlers wired to the "
                       "real FloatingIPPlugin.Release and crdIpam; the same cases run through the Coq model, and the "
                       "theorems' predicates (parse = format, injectivity, list->release round trip, omitted type = "
                       "statefulset, release exactness, pages tile the list) are evaluated on the implementation's own output")
    ctx.cov["trusted_base"] = vf.TRUSTED_COMMON + [
        "ASCII only: strings.ToLower is modelled for ASCII (kinds are ASCII identifiers); non-ASCII inputs are not generated",
        "encoding/json and go-restful carry the entry fields unchanged (string fields with omitempty: \"\" <-> omitted); "
        "the harness posts what it decoded from the list response, as an API client would",
        "crdIpam.ByIP/Release/ByKeyword/ByPrefix are represented by an abstract map IP -> key (their own model is C01-C10's)"]
    ctx.assumptions += ["Kubernetes guarantees namespaces, pod names and owner names are non-empty and '_'-free (DNS-1123), "
                        "and owner kinds are non-empty '_'-free identifiers",
                        "IP texts in the list are pairwise distinct, so the order produced by sort.Sort is unique"]
    ctx.theorems("C11", THEOREMS, REFUTED, deps=DEPS)
    flags = "cur_kflags"
    corpus = json.load(open(vf.ROOT + "/corpus/C11.json"))

    # ------------------------------------------------------------------ phase 1: keys, parse, genkey, apptype, page
    cases = []
    for c in corpus["pods"]:
        cases.append(dict(c, op="key"))
        ctx.dist("pod:corpus")
    for _ in range(n_keys):
        cases.append(gen_pod(rng, ctx, small=rng.random() < 0.15))
    n_pods = len(cases)
    pieces = ["", "a", "ns1", "sts", "dp", "pool", "NULL", "x-1", "0", "a.b"]
    for _ in range(n_parse):
        r = rng.random()
        parts = [rng.choice(pieces) for _ in range(rng.choice([0, 1, 2, 3, 4, 4, 4, 5, 6, 7]))]
        s = "_".join(parts)
        if r < 0.4:
            s = rng.choice(["pool__", "pool_", "pool__p_", "pool___", "pool__a-b_"]) + s
        cases.append({"op": "parse", "s": s})
        ctx.dist("parse:raw-key")
    for _ in range(n_parse):
        f = [rng.choice(["sts_", "dp_", "NULL_", "tapp_", "", "_"]), rng.choice(["", "ns1", "a"]),
             rng.choice(["", "app", "NULL"]), rng.choice(["", "p-0"]), rng.choice(["", "", "p1", "my_pool"])]
        cases.append({"op": "genkey", "f": f})
        ctx.dist("genkey:fields")
    for k in KINDS + ["", "_", "a_", "sts_", "dp_", "NULL_", "null_", "tapp_", "Deployment_", "x"]:
        cases.append({"op": "apptype", "s": k})
        ctx.dist("apptype")
    for c in corpus["pages"]:
        cases.append(dict(c, op="page"))
    for _ in range(n_page):
        cases.append(gen_page_case(rng, ctx))
    # page sweeps for the tiling monitor: every page 0..pages+1 of (size, len)
    sweeps = []
    for _ in range(40 if ctx.quick else 300):
        size = rng.choice([1, 2, 3, 7, 10, 10, 50, 9999])
        ln = rng.choice([0, 1, size - 1, size, size + 1, 2 * size, 3 * size + 1, rng.randrange(0, 12 * size + 1)])
        ln = max(0, min(ln, 40 * size))
        pages = (ln + size - 1) // size
        first = len(cases)
        for pg in range(pages + 2):
            cases.append({"op": "page", "page": str(pg), "size": str(size), "len": ln})
        sweeps.append((size, ln, pages, first))
        ctx.dist("page:sweep")
    obs = ctx.harness("keys", cases, cmd="ghkeys")
    if obs is None:
        return
    corr, idx_corr = [], []
    by_key = {}
    alloc_keys = []        # (key, pod case, what) for phase 2
    for i, (c, o) in enumerate(zip(cases, obs)):
        ctx.count(c)
        if o.get("res") != "ok":
            ctx.violation("monitor", "%s on a C11 %s case" % (o.get("res"), c["op"]), {"case": c, "obs": o}, found=True)
            continue
        if c["op"] == "key":
            if not ascii_only(c["name"], c["ns"], c.get("pool", ""), *[x for ow in c["owners"] for x in ow]):
                continue
            corr.append(key_exprs(c, o))
            idx_corr.append(i)
            if o["err"]:
                ctx.dist("key:error")
                continue
            ctx.dist("key:ok")
            if names_ok(c):
                ident = [c["ns"], o["fields"][2], c["name"]]
                by_key.setdefault(o["key"], []).append((i, ident))
                # monitor parse_format, at the strength of the property text (any pool name)
                want = o["fields"]
                if o["parsed"] != want:
                    pool = c.get("pool", "")
                    tags = [K4_TAG] if "_" in pool else []
                    ctx.violation("monitor", "ParseKey(FormatKey(pod)) differs from the pod's own fields: key %r parses to %r, "
                                  "built from %r" % (o["key"], o["parsed"], want),
                                  {"case": c, "obs": o, "how": "bin/check C11 --replay <this file>"}, found=True,
                                  theorem="parse_format", tags=tags)
                if len(ctx.cov["samples"]) < 3 and c.get("pool") and len(c["name"]) > 20:
                    ctx.sample({"case": c, "observed": o})
                alloc_keys.append((o["key"], c, "pod", o["fields"]))
                if rng.random() < 0.25:
                    alloc_keys.append((o["pp"], c, "pool-prefix", o["fields"]))
                if rng.random() < 0.15:
                    alloc_keys.append((o["pap"], c, "app-prefix", o["fields"]))
        elif c["op"] == "parse":
            corr.append("(chk_parse %s %s)" % (cstr(c["s"]), lstr(o["parsed"])))
            idx_corr.append(i)
        elif c["op"] == "genkey":
            corr.append("(chk_genkey %s %s %s %s)" % (lstr(c["f"]), cstr(o["key"]), cstr(o["pp"]), cstr(o["pap"])))
            idx_corr.append(i)
        elif c["op"] == "apptype":
            corr.append("(chk_apptype %s %s %s)" % (cstr(c["s"]), cstr(o["prefix"]), cstr(o["type"])))
            idx_corr.append(i)
        elif c["op"] == "page":
            if not ascii_only(c["page"], c["size"]):
                continue
            corr.append("(chk_page %s %s %s %s %s %s %s %s %s %s %s %s %s %s)" % (
                cstr(c["page"]), cstr(c["size"]), cN(c["len"]), cN(o["pg"]), cN(o["sz"]), cN(o["start"]), cN(o["end"]),
                cbool(o["first"]), cbool(o["last"]), cN(o["total"]), cN(o["pages"]), cN(o["count"]), cN(o["size"]),
                cN(o["number"])))
            idx_corr.append(i)
    mons, mon_info = [], []
    # monitor key_injective on the observed keys: every group of pods with the same key
    for key, grp in by_key.items():
        for (i, a), (j, b) in zip(grp, grp[1:]):
            mons.append("(mon_inj %s %s %s %s)" % (cstr(key), lstr(a), cstr(key), lstr(b)))
            mon_info.append(("key_injective", "two pods share the allocation key %r" % key,
                             {"cases": [cases[i], cases[j]], "obs": [obs[i], obs[j]]}, []))
    ctx.dist("inj:groups-with-equal-keys", sum(1 for g in by_key.values() if len(g) > 1))
    # monitor pages_partition on the implementation's windows
    for size, ln, pages, first in sweeps:
        wins = [(obs[first + k]["start"], obs[first + k]["end"]) for k in range(pages + 2) if obs[first + k].get("res") == "ok"]
        if len(wins) != pages + 2:
            continue
        told = obs[first]["pages"]
        mons.append("(mon_pages %s %s %s)" % (cN(ln), clist(cpair(cN(a), cN(b)) for a, b in wins[:told]),
                                             clist(cpair(cN(a), cN(b)) for a, b in wins[told:])))
        mon_info.append(("pages_partition", "pages 0..totalPages-1 (size %d, %d elements) do not tile the list" % (size, ln),
                         {"cases": cases[first:first + pages + 2], "obs": obs[first:first + pages + 2]}, []))

    # ------------------------------------------------------------------ phase 2: list -> release over the HTTP handlers
    acases, ameta = [], []
    for sc in corpus["api"]:
        acases.append(dict(sc, op="api"))
        ameta.append(({ip: (key, {"ns": "n", "name": "n", "owners": [], "pool": sc.get("pools", {}).get(ip, "")}, "pod")
                       for key, ip in sc["allocs"]}, None))
        ctx.dist("api:corpus")
    if alloc_keys:
        for _ in range(n_api):
            c, meta, size = gen_api_case(rng, ctx, alloc_keys)
            acases.append(c)
            ameta.append((meta, size))
    aobs = ctx.harness("keys", acases, cmd="ghkeys", shards=16) if acases else []
    if aobs is None:
        return
    for ci, (c, o, (meta, size)) in enumerate(zip(acases, aobs, ameta)):
        ctx.count(c)
        if o.get("res") != "ok":
            ctx.violation("monitor", "%s in a list/release scenario" % o.get("res"), {"case": c, "obs": o}, found=True)
            continue
        state = [(ip, key) for key, ip in c["allocs"]]
        pods = clist(cpair(cstr(ns), cstr(n)) for ns, n in c["pods"])
        podset = {(ns, n) for ns, n in c["pods"]}
        # lists
        for q, lo in zip(c["lists"], o["lists"]):
            qs = urllib.parse.parse_qs(q, keep_blank_values=True)
            if lo["code"] != 200:
                ctx.violation("monitor", "ListIPs answered %s" % lo["code"], {"case": c, "obs": o}, found=True)
                continue
            content = clist(cpair(cstr(e[0]), lstr(e[1:])) for e in lo.get("content", []))
            fuzzy = "keyword" in qs
            qf = [qs["keyword"][0]] if fuzzy else [qs.get(k, [""])[0] for k in ("namespace", "appName", "podName", "poolName", "appType")]
            corr.append("(chk_list %s %s %s %s %s %s %s)" % (
                cstate(state), cbool(fuzzy), lstr(qf), cstr(qs.get("page", [""])[0]), cstr(qs.get("size", [""])[0]),
                content, clist(cN(int(x)) for x in lo["page"])))
            idx_corr.append(("api", ci, q))
        # paging monitor on the real responses: pages 0..n-1 of the paged listing = the full listing, each IP once
        if size is not None and len(o["lists"]) > 1 and o["lists"][0]["code"] == 200:
            full = [e[0] for e in o["lists"][0].get("content", [])]
            paged = [lo for q, lo in zip(c["lists"], o["lists"]) if "&page=" in q]
            told = paged[0]["page"][3] if paged else 0
            cat = [e[0] for lo in paged[:told] for e in lo.get("content", [])]
            beyond = [e[0] for lo in paged[told:] for e in lo.get("content", [])]
            ok = cat == full and sorted(full) == sorted(ip for ip, _ in state) and len(set(full)) == len(full) and not beyond
            ctx.dist("api:paged-listing-checked")
            if not ok:
                ctx.violation("monitor", "paging through GET /v1/ip (size %d) does not show every allocated IP exactly once: "
                              "pages give %r, allocated %r" % (size, cat + beyond, sorted(ip for ip, _ in state)),
                              {"case": c, "obs": o}, found=True, theorem="pages_partition")
        # posts
        listed0 = o["lists"][0].get("content", []) if o["lists"] else []
        for pspec, po in zip(c["posts"], o["posts"]):
            if po.get("skipped"):
                continue
            e = po["entry"]
            ip, f = e[0], e[1:]
            before = list(state)
            after = [(a, b) for a, b in po["state"]]
            code202 = po["code"] != 200
            corr.append("(chk_post %s %s %s %s %s %s %s)" % (flags, cstate(before), pods, cstr(ip), lstr(f), cbool(code202), cstate(after)))
            idx_corr.append(("api", ci, pspec))
            info = {"case": c, "post": pspec, "entry": e, "state_before": before, "answer": {k: po[k] for k in ("code", "unreleased", "reasons")},
                    "state_after": after, "how": "bin/check C11 --replay <this file>"}
            keyb = dict(before).get(ip)
            pool_us = keyb is not None and keyb.startswith("pool__") and "_" in meta.get(ip, ("", {}, ""))[1].get("pool", "")
            tags = [K4_TAG] if pool_us else []
            mons.append("(mon_exact %s %s %s %s)" % (cstate(before), cstr(ip), lstr(f), cstate(after)))
            mon_info.append(("release_exact", "POST /v1/ip released something other than the IP whose key the entry denotes", info, []))
            plain = "entry" not in pspec and not pspec.get("blank") and not pspec.get("ip")
            if plain and keyb is not None and [ip] + f in listed0 and (f[0], f[2]) not in podset and ip in meta \
                    and names_ok(meta[ip][1]):
                mons.append("(mon_roundtrip %s %s %s %s)" % (cstate(before), cstr(ip), cbool(code202), cstate(after)))
                mon_info.append(("list_release_roundtrip", "the entry listed for %s (key %r) cannot be released by posting it back: "
                                 "HTTP %s %s" % (ip, keyb, po["code"], po.get("reasons")), info, tags))
                ctx.dist("api:post-listed-entry")
            elif pspec.get("blank") and keyb is not None and (f[0], f[2]) not in podset:
                mons.append("(mon_blank %s %s %s %s)" % (cstate(before), cstr(ip), lstr(f), cstate(after)))
                mon_info.append(("blank_type_is_statefulset", "an entry posted without appType is not treated as a statefulset entry "
                                 "(ip %s, key %r): HTTP %s %s" % (ip, keyb, po["code"], po.get("reasons")), info, []))
                ctx.dist("api:post-blank-type")
            else:
                ctx.dist("api:post-other")
            state = after
        for bspec, bo in zip(c.get("batches") or [], o.get("batches") or []):
            es = clist(cpair(cstr(e[0]), lstr(e[1:])) for e in bo["entries"])
            before = list(state)
            after = [(a, b) for a, b in bo["state"]]
            corr.append("(chk_post_batch %s %s %s %s %s %s)" % (flags, cstate(before), pods, es, cbool(bo["code"] != 200), cstate(after)))
            idx_corr.append(("api", ci, bspec))
            info = {"case": c, "batch": bspec, "entries": bo["entries"], "state_before": before,
                    "answer": {k: bo[k] for k in ("code", "unreleased", "reasons")}, "state_after": after,
                    "how": "bin/check C11 --replay <this file>"}
            mons.append("(mon_exact_batch %s %s %s)" % (cstate(before), es, cstate(after)))
            mon_info.append(("release_exact", "a POST /v1/ip with several entries released something no entry denotes", info, []))
            mons.append("(mon_batch_releases %s %s %s %s)" % (cstate(before), pods, es, cstate(after)))
            mon_info.append(("list_release_roundtrip", "an entry of a POST /v1/ip with several entries denotes the current key of its IP "
                             "(omitted appType = statefulset) and was not released: HTTP %s %s" % (bo["code"], bo.get("reasons")), info, []))
            ctx.dist("api:post-batch")
            state = after
        if len(ctx.cov["samples"]) < 5 and len(c["allocs"]) >= 3:
            ctx.sample({"case": {k: c[k] for k in ("allocs", "pods")}, "listed": listed0[:4],
                        "first_post": o["posts"][0] if o["posts"] else None})
    ctx.cov["traces_validated_against_impl"] = len(corr)
    rc = ctx.coq_bools("corr", IMPORTS, corr)
    rm = ctx.coq_bools("mon", IMPORTS, mons)
    if rc is None or rm is None:
        ctx.violation("correspondence", "the Coq evaluation of the C11 cases failed", {}, found=False,
                      theorem="C11 correspondence (Corr/C11c.v)")
        return
    nbad_mon = 0
    for ok, (thm, what, info, tags) in zip(rm, mon_info):
        if not ok:
            nbad_mon += 1
            if nbad_mon <= 40:
                ctx.violation("monitor", what, info, found=True, theorem=thm, tags=tags)
    bad_corr = [idx_corr[k] for k, b in enumerate(rc) if not b]
    if bad_corr:
        ex = []
        for b in bad_corr[:5]:
            if isinstance(b, tuple):
                ex.append({"case": acases[b[1]], "step": b[2], "obs": aobs[b[1]]})
            else:
                ex.append({"case": cases[b], "obs": obs[b]})
        ctx.violation("correspondence", "model and implementation disagree on %d C11 case(s)" % len(bad_corr),
                      {"disagreements": ex, "theorems_no_longer_about_the_code": THEOREMS}, found=False,
                      theorem="C11 correspondence (Corr/C11c.v chk_key/chk_parse/chk_page/chk_list/chk_post)")
    ctx.cov["disagreements"] = len(bad_corr)
    ctx.cov["monitor_failures"] = nbad_mon
    ctx.cov["monitors_evaluated"] = len(mons)


def replay(ctx, path):
    r = json.load(open(path))
    rp = r["replay"]
    cs = []
    if "case" in rp:
        cs = [rp["case"]]
    elif "cases" in rp:
        cs = rp["cases"]
    else:
        cs = [d["case"] for d in rp.get("disagreements", [])]
    obs = ctx.harness("keys", cs, cmd="ghkeys")
    for c, o in zip(cs, obs or []):
        print(json.dumps({"case": c, "observed_now": o}))
