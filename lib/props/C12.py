"""C12 - CNI multi-network ADD/DEL is ordered, paired, rolled back and isolated."""
import itertools, json, os
import vf
from vf import cbool, cstr, clist, copt, cpair

IMPORTS = ("From Coq Require Import List Ascii String NArith ZArith Bool.\n"
           "From Galaxy.Base Require Import Strs.\nFrom Galaxy.Model Require Import Pool Cni.\n"
           "From Galaxy.Corr Require Import CorrBase C12c.\n")

THEOREMS = ["selection_order", "ifnames", "ifnames_distinct", "add_order", "del_retry", "del_retry_seq",
            "isolation", "payload_ok_meaning", "independence", "isolation_concurrent"]
REFUTED = ["isolation_refuted"]
DEPS = ["Strs", "Nets", "Pool", "Cni", "CniP", "CorrBase", "C12c", "C12"]

MANIFEST = {
    "text": "Coq theorems over an executable model of ParsePodNetworkAnnotation / resolveNetworks / getNetworkConf / setNetInterface "
            "/ CmdAdd / CmdDel (selection_order, ifnames, ifnames_distinct, add_order, del_retry, del_retry_seq for ALL configurations, "
            "annotations, states and failure scripts; isolation for ALL request histories; independence for ALL interleavings of "
            "requests with distinct container ids, by a locality + projection + refinement-to-the-sequential-step argument); the "
            "model is tied to the working tree by running ~320 scenarios / ~1500 requests (quick; exhaustive failure patterns "
            "for N<=4 + random configurations, both annotation syntaxes, 1-3 containers, sequential and concurrent steps) on the "
            "REAL daemon over its unix socket with a fake plugin binary, comparing invocations, result class and state files, "
            "and evaluating the theorems' predicates as monitors on the implementation's plugin log",
    "note": "trusted: Coq kernel (no axioms), Go harness + fake plugin + fake clientset + python printers, encoding/json's lexer "
            "(the JSON annotation reaches the model as a tree), ASCII; CNI_ARGS compared as a set; a container id has one pod; "
            "atomic steps = file operations and plugin executions, same-container requests are not interleaved; F7 (shared "
            "config map, confirmed on the real daemon) fixed by 6dc20c6, isolation_refuted kept for the old flag",
}
KNOWN_FINDINGS = [
    {"id": "F7", "status": "fixed", "commit": "6dc20c6", "tag": "c12-shared-netconf-prevresult",
     "what": "fixed: property=C12 6dc20c6 getNetworkConf handed out the daemon's shared network-config map and CmdAdd wrote "
             "prevResult into it: a container whose first network was an earlier container's later network received that "
             "container's prevResult (ADD cid7 pod 'net1,net2'; ADD cid8 pod 'net2' -> cid8 got cid7's result); witness "
             "isolation_refuted, corpus scenario 0"},
]

ANN = "k8s.v1.cni.cncf.io/networks"
EXT = "k8s.v1.cni.galaxy.io/args"
FLAGS = "cur_flags"


class O(list):
    """a JSON object as an ordered list of (key, value) pairs"""


def render(t):
    if isinstance(t, O):
        return "{" + ",".join(json.dumps(k) + ":" + render(v) for k, v in t) + "}"
    if isinstance(t, list):
        return "[" + ",".join(render(v) for v in t) + "]"
    return json.dumps(t)


def cjson(t):
    if t is None:
        return "JNull"
    if isinstance(t, bool):
        return "(JBool %s)" % cbool(t)
    if isinstance(t, int):
        return "(JNum %s)" % vf.cZ(t)
    if isinstance(t, float):
        return "JNumOther"
    if isinstance(t, str):
        return "(JStr %s)" % cstr(t)
    if isinstance(t, O):
        return "(JObj %s)" % clist(cpair(cstr(k), cjson(v)) for k, v in t)
    if isinstance(t, list):
        return "(JArr %s)" % clist(cjson(v) for v in t)
    raise ValueError(t)


def cnat(n):
    return "%d%%nat" % n


def cbools(l):
    return clist(cbool(b) for b in l)


# ---------------------------------------------------------------------------- scenario -> harness case / Coq terms
def net_tag(conf_obj):
    return conf_obj.get("tag", "")


def scenario_case(sc):
    """the JSON case for `ghcni cni`"""
    pods = []
    for p in sc["pods"]:
        an = {}
        if p.get("annot") is not None:
            an[ANN] = p["annot"]
        if p.get("ext") is not None:
            an[EXT] = p["ext"]["text"]
        pod = {"name": p["name"], "ns": "ns", "annotations": an, "eni": bool(p.get("eni")),
               "containers": p.get("containers", 1), "eni_at": p.get("eni_at", 0)}
        # the API server's watch cache still shows an earlier version of every second pod (its form before the binding / the
        # annotations of a previous incarnation): a daemon that accepts a cached read resolves other networks and arguments
        if sum(map(ord, p["name"])) % 2 == 0:
            pod["cached_annotations"] = {ANN: "stale-network-of-an-earlier-version"} if an else {ANN: "galaxy-flannel,stale-network"}
        pods.append(pod)
    steps = []
    for st in sc["steps"]:
        reqs = []
        for r in st:
            ct = sc["containers"][r["cid"]]
            reqs.append({"cmd": r["cmd"], "cid": r["cid"], "pod": ct["pod"], "ifname": ct["ifname"],
                         "args": ";".join(req_args(sc, r["cid"])), "fail_add": r.get("fa", []), "fail_del": r.get("fd", []),
                         "netns_gone": bool(r.get("nsgone"))})
        steps.append({"reqs": reqs})
    return {"conf": sc["conf"], "confdir": sc.get("confdir", []), "pods": pods, "steps": steps}


def req_args(sc, cid):
    ct = sc["containers"][cid]
    return ["IgnoreUnknown=1", "K8S_POD_NAMESPACE=ns", "K8S_POD_NAME=" + ct["pod"], "K8S_POD_INFRA_CONTAINER_ID=" + cid]


def json_key(c):
    if "name" in c:
        return c["name"]
    return c["type"]


def dir_order(confdir):
    top = sorted([e for e in confdir if not e.get("sub")], key=lambda e: e["file"])
    subs = sorted([e for e in confdir if e.get("sub")], key=lambda e: (e["sub"], e["file"]))
    return top + subs


def static_confs(sc):
    """tag -> the configuration object a plugin must receive (apart from prevResult)"""
    m = {}
    for c in sc["conf"]["NetworkConf"]:
        m[net_tag(c)] = c
    for e in sc.get("confdir", []):
        c = json.loads(e["text"])
        c.pop("kubeconfig", None)
        m[net_tag(c)] = c
    return m


def cconf(sc):
    js = clist("{| nd_name := %s; nd_tag := %s |}" % (cstr(json_key(c)), cstr(net_tag(c))) for c in sc["conf"]["NetworkConf"])
    ds = clist("{| nd_name := %s; nd_tag := %s |}" % (cstr(json.loads(e["text"]).get("name", "")),
                                                       cstr(net_tag(json.loads(e["text"]))))
               for e in dir_order(sc.get("confdir", [])))
    return "{| c_json := %s; c_dir := %s; c_defaults := %s; c_eni := %s |}" % (
        js, ds, clist(cstr(n) for n in sc["conf"].get("DefaultNetworks", [])), cstr(sc["conf"].get("ENIIPNetwork", "")))


def lex(text):
    try:
        return json.loads(text, object_pairs_hook=lambda p: O(p))
    except ValueError:
        return "LEXERR"


def cpreq(sc, cid):
    ct = sc["containers"][cid]
    p = [q for q in sc["pods"] if q["name"] == ct["pod"]][0]
    annot = p.get("annot") or ""
    tree = lex(annot) if annot else "LEXERR"
    ext = p.get("ext")
    if ext is None or ext["text"] == "":
        ce = "ExtNone"
    elif ext.get("bad"):
        ce = "ExtBad"
    else:
        ce = "(ExtArgs %s)" % clist(cstr(kv) for kv in ext["kv"])
    return ("{| r_annot := %s; r_annot_json := %s; r_eni := %s; r_ext := %s; r_ifname := %s; r_args := %s |}" % (
        cstr(annot), "None" if tree == "LEXERR" else "(Some %s)" % cjson(tree), cbool(p.get("eni")), ce,
        cstr(ct["ifname"]), clist(cstr(a) for a in req_args(sc, cid))))


def corigin(dom):
    parts = (dom or "").split("|")
    if len(parts) >= 2 and parts[1].isdigit():
        return cpair(cstr(parts[0]), cnat(int(parts[1])))
    return cpair(cstr("?"), cnat(999))


def prev_of(conf):
    pr = conf.get("prevResult") if isinstance(conf, dict) else None
    if pr is None:
        return "None"
    dom = (pr.get("dns") or {}).get("domain") if isinstance(pr, dict) else None
    return "(Some %s)" % corigin(dom)


def centry(rec):
    st = rec.get("stdin") if isinstance(rec.get("stdin"), dict) else {}
    args = [a for a in rec.get("args", "").split(";") if a != ""]
    return ("{| e_cmd := %s; e_cid := %s; e_tag := %s; e_if := %s; e_args := %s; e_prev := %s |}" % (
        "ADD" if rec.get("cmd") == "ADD" else "DEL", cstr(rec.get("cid", "")), cstr(st.get("tag", "") if isinstance(st.get("tag", ""), str) else ""),
        cstr(rec.get("if", "")), clist(cstr(a) for a in args), prev_of(st)))


def cosaved(o):
    conf = o.get("conf") or {}
    return "{| os_name := %s; os_tag := %s; os_if := %s; os_args := %s; os_prev := %s |}" % (
        cstr(o.get("name", "")), cstr(conf.get("tag", "")), cstr(o.get("if", "")), clist(cstr(a) for a in o.get("args", [])),
        prev_of(conf))


def cop(r):
    if r["cmd"] == "ADD":
        return "(Add %s %s %s)" % (cstr(r["cid"]), cbools(r.get("fa", [])), cbools(r.get("fd", [])))
    return "(Del %s %s)" % (cstr(r["cid"]), cbools(r.get("fd", [])))


def csaved_opt(saved, cid):
    v = saved.get(cid)
    if v is None or not isinstance(v, list):
        return "None"
    return "(Some %s)" % clist(cosaved(o) for o in v)


def scenario_exprs(sc, o):
    """(correspondence expr for FLAGS, same for the other flag setting, [monitor exprs], python-level problems)"""
    cf = cconf(sc)
    cids = sorted(sc["containers"])
    rql = clist(cpair(cstr(c), cpreq(sc, c)) for c in cids)
    problems = []
    statics = static_confs(sc)
    steps_t = []
    mons = {"add_order": [], "selection_ifnames": [], "isolation": [], "del_retry": [], "add_saved": []}
    before = {}
    bindir_seen = True
    for st, ost in zip(sc["steps"], o["steps"]):
        ops_t = []
        saved = ost.get("saved") or {}
        foreign = [rec for rec in ost["log"] if rec.get("cid") not in [r["cid"] for r in st]]
        if foreign:
            problems.append("a plugin was invoked for a container without a request in this step: %s" % foreign[0].get("cid"))
        for r, res in zip(st, ost["results"]):
            recs = [rec for rec in ost["log"] if rec.get("cid") == r["cid"]]
            for rec in recs:
                sd = rec.get("stdin")
                if not isinstance(sd, dict):
                    problems.append("plugin stdin is not a JSON object")
                    continue
                rest = {k: v for k, v in sd.items() if k != "prevResult"}
                if statics.get(sd.get("tag")) != rest:
                    problems.append("plugin received a configuration that is not the static one of network %r" % sd.get("tag"))
                if rec.get("netns") != ("" if r.get("nsgone") else "/proc/self/ns/net"):
                    problems.append("CNI_NETNS was not passed through")
            es = clist(centry(rec) for rec in recs)
            ok = res["class"] == "ok"
            ops_t.append("(%s, %s, %s)" % (cop(r), es, cbool(ok)))
            c = cstr(r["cid"])
            rq = "(mkrq rql %s)" % c
            mons["isolation"].append("mon_isolation %s %s %s" % (c, rq, es))
            if r["cmd"] == "ADD":
                mons["add_order"].append("mon_add_order %s %s %s" % (cbools(r.get("fa", [])), es, cbool(ok)))
                mons["selection_ifnames"].append("mon_selection cf %s %s" % (rq, es))
                mons["add_saved"].append("mon_add_saved %s %s %s %s %s" % (cbools(r.get("fd", [])), es, cbool(ok),
                                                                       csaved_opt(before, r["cid"]), csaved_opt(saved, r["cid"])))
            else:
                mons["del_retry"].append("mon_del %s %s %s %s %s" % (csaved_opt(before, r["cid"]), csaved_opt(saved, r["cid"]),
                                                                  cbools(r.get("fd", [])), es, cbool(ok)))
        sv_t = clist(cpair(cstr(k), clist(cosaved(x) for x in v)) for k, v in sorted(saved.items()) if isinstance(v, list))
        if any(not isinstance(v, list) for v in saved.values()):
            problems.append("a state file is unreadable")
        steps_t.append("(%s, %s)" % (clist(ops_t), sv_t))
        before = saved
    head = "(let cf := %s in let rql := %s in " % (cf, rql)
    corr = head + "chk_scenario %s cf rql %s)" % (FLAGS, clist(steps_t))
    other = head + "chk_scenario %s cf rql %s)" % ("old_flags" if FLAGS == "cur_flags" else "cur_flags", clist(steps_t))
    mon_exprs = [(k, head + "all %s)" % clist("(%s)" % m for m in v)) for k, v in mons.items()]
    return corr, other, mon_exprs, problems


# ---------------------------------------------------------------------------- generators
NAMES = ["net1", "net2", "galaxy-flannel", "bridge0", "eni", "k8s-vlan", "x"]


def gen_conf(rng, ctx, k=None):
    k = k or rng.choice([1, 2, 2, 3, 3, 4])
    names = rng.sample(NAMES, k)
    ncs = []
    for i, n in enumerate(names):
        c = {"name": n, "type": "fakecni", "tag": "t%d" % i}
        r = rng.random()
        if r < 0.25:
            c["cniVersion"] = rng.choice(["0.2.0", "0.3.1", "0.4.0", "0.1.0"])
        if rng.random() < 0.3:
            c["mtu"] = rng.choice([1400, 1500])
        if rng.random() < 0.2:
            c["ipam"] = {"type": "host-local", "subnet": "10.%d.0.0/16" % i}
        ncs.append(c)
    if rng.random() < 0.1:
        del ncs[-1]["name"]            # keyed by its type
        names[-1] = "fakecni"
        ctx.dist("conf:network-keyed-by-type")
    confdir = []
    r = rng.random()
    dnames = []
    if r < 0.35:
        nd = rng.choice([1, 1, 2, 3])
        pool = [n for n in NAMES if n not in names] + ([rng.choice(names)] if rng.random() < 0.2 else [])
        for j in range(nd):
            if not pool:
                break
            n = rng.choice(pool)
            pool.remove(n)
            c = {"name": n, "type": "fakecni", "tag": "d%d" % j}
            if rng.random() < 0.5:
                c["kubeconfig"] = "/etc/kubernetes/kubelet.conf"
            if rng.random() < 0.3:
                c["cniVersion"] = "0.3.1"
            e = {"file": "%02d-%s%s" % (rng.randrange(100), n, rng.choice([".conf", ".json"])), "text": json.dumps(c)}
            if rng.random() < 0.3:
                e["sub"] = rng.choice(["multus", "a"])
            confdir.append(e)
            dnames.append(n)
            if rng.random() < 0.4:
                # a file whose NAME is exactly that of this network but whose content is another network's: a network is
                # selected by the "name" inside the file, never by the file's name
                dz = {"name": "decoy-%d" % j, "type": "fakecni", "tag": "z%d" % j}
                confdir.append({"file": n + rng.choice([".conf", ".json"]), "text": json.dumps(dz)})
                dnames.append("decoy-%d" % j)
                ctx.dist("conf:file-named-like-another-network")
        ctx.dist("conf:with-confdir")
    known = names + dnames
    nd = rng.choice([0, 1, 1, 1, 2, 2, 3])
    defaults = [rng.choice(known) for _ in range(nd)]
    if rng.random() < 0.05:
        defaults.append("missing-net")
    eni = rng.choice(known) if rng.random() < 0.4 else ""
    conf = {"NetworkConf": ncs, "DefaultNetworks": defaults}
    if eni or rng.random() < 0.5:
        conf["ENIIPNetwork"] = eni
    ctx.dist("conf:%d-json-networks" % len(ncs))
    return conf, confdir, known


IFS = ["eth1", "net1", "eth7", "data0", "eth0"]


def gen_annot(rng, ctx, known):
    """(annotation text or None, kind)"""
    r = rng.random()
    if r < 0.18:
        return None, "absent"
    n = rng.choice([1, 1, 2, 2, 3, 4])
    sel = [rng.choice(known) for _ in range(n)]
    if r < 0.55:
        items = []
        for nm in sel:
            it = nm
            if rng.random() < 0.3:
                it = rng.choice(["ns1", "kube-system"]) + "/" + it
            if rng.random() < 0.4:
                it = it + "@" + rng.choice(IFS)
            if rng.random() < 0.2:
                it = " " + it + rng.choice([" ", "\t", ""])
            items.append(it)
        s = ",".join(items)
        kind = "comma"
        if rng.random() < 0.15:
            kind = "comma-malformed"
            s = rng.choice([s + ",", s + ",Net1", "a/b/" + s, s + "@x@y", s + "@-bad", "net1_x", s + ", ,", "-" + s, s + "/", "@" + s,
                            s.replace(",", ";"), s + ",missing-net", s.upper()])
        return s, kind
    # JSON form
    elems = []
    for nm in sel:
        m = [("name", nm)]
        if rng.random() < 0.4:
            m.append(("interface", rng.choice(IFS)))
        if rng.random() < 0.2:
            m.append(("namespace", "ns1"))
        if rng.random() < 0.1:
            m.append((rng.choice(["ips", "mac"]), "10.0.0.9"))
        rng.shuffle(m)
        elems.append(O(m))
    kind = "json"
    t = elems
    if rng.random() < 0.3:
        kind = "json-perturbed"
        which = rng.choice(["case", "nullval", "wrongtype", "object", "null", "unknown", "dupkey", "lexerr", "emptyarr",
                            "nullelem", "nonobj", "missingname", "string"])
        ctx.dist("annot:json-" + which)
        k = rng.randrange(len(elems))
        if which == "case":
            elems[k] = O([(kk.upper() if rng.random() < 0.5 else kk.title(), vv) for kk, vv in elems[k]])
        elif which == "nullval":
            elems[k] = O(list(elems[k]) + [(rng.choice(["name", "interface", "mac"]), None)])
        elif which == "wrongtype":
            elems[k] = O(list(elems[k]) + [(rng.choice(["name", "interface", "ips", "namespace"]), rng.choice([5, True, ["a"], O([("a", "b")])]))])
        elif which == "object":
            t = elems[0]
        elif which == "null":
            return "null ", kind        # contains none of [ { " : takes the comma-list path
        elif which == "unknown":
            elems[k] = O(list(elems[k]) + [("cni-args", O([("a", 1)]))])
        elif which == "dupkey":
            elems[k] = O(list(elems[k]) + [("name", rng.choice(known))])
        elif which == "lexerr":
            return render(elems)[:-1], kind
        elif which == "emptyarr":
            t = []
        elif which == "nullelem":
            t = elems + [None]
        elif which == "nonobj":
            t = elems + [rng.choice([7, "net1", [1]])]
        elif which == "missingname":
            elems[k] = O([(kk, vv) for kk, vv in elems[k] if kk != "name"])
        elif which == "string":
            return json.dumps(",".join(sel)), kind
    return render(t), kind


def gen_ext(rng):
    r = rng.random()
    if r < 0.6:
        return None
    if r < 0.67:
        return {"text": rng.choice(['{"common":', '[1]', '{"common":[1]}', '"x"']), "bad": True}
    if r < 0.72:
        return {"text": rng.choice(['{}', '{"other":{"a":1}}', '{"common":null}', 'null']), "kv": []}
    kv = []
    members = []
    for k in rng.sample(["ipinfos", "vlan", "request-id", "zone"], rng.choice([1, 2])):
        raw = rng.choice(['"v1"', "7", '{"a":1}', "[1,2]", '[{"ip":"10.0.0.7/24","vlan":2,"gateway":"10.0.0.1"}]', "true", "null"])
        members.append(json.dumps(k) + ":" + raw)
        kv.append(k + "=" + raw)
    return {"text": '{"common":{' + ",".join(members) + "}}", "kv": kv}


def rand_fails(rng, n, p=0.3):
    return [rng.random() < p for _ in range(n)]


def gen_scenario(rng, ctx):
    conf, confdir, known = gen_conf(rng, ctx)
    nct = rng.choice([1, 2, 2, 3, 3])
    pods, containers = [], {}
    for i in range(nct):
        annot, kind = gen_annot(rng, ctx, known)
        ctx.dist("annot:" + kind)
        # the ENI-IP request may sit on any container of the pod (app first, side-cars after)
        nc = rng.choice([1, 1, 2, 3])
        pods.append({"name": "pod%d" % i, "annot": annot, "eni": rng.random() < 0.3, "ext": gen_ext(rng), "containers": nc,
                     "eni_at": rng.randrange(nc)})
        containers["cid%d" % i] = {"pod": "pod%d" % i, "ifname": rng.choice(["eth0", "eth0", "eth0", "ens5"])}
    steps = []
    cids = sorted(containers)
    for _ in range(rng.choice([3, 4, 5, 6, 8])):
        if len(cids) > 1 and rng.random() < 0.3:
            grp = rng.sample(cids, rng.choice([2, len(cids)]))
            ctx.dist("step:concurrent-%d" % len(grp))
        else:
            grp = [rng.choice(cids)]
            ctx.dist("step:single")
        st = []
        for c in grp:
            if rng.random() < 0.5:
                st.append({"cmd": "ADD", "cid": c, "fa": rand_fails(rng, 4, 0.2), "fd": rand_fails(rng, 4, 0.35)})
            else:
                # (a third of the DELs arrive with an empty CNI_NETNS: the sandbox's network namespace is gone already)
                st.append(dict({"cmd": "DEL", "cid": c, "fd": rand_fails(rng, 4, 0.3)}, **({"nsgone": True} if rng.random() < 0.33 else {})))
        steps.append(st)
    return {"conf": conf, "confdir": confdir, "pods": pods, "containers": containers, "steps": steps}


def exhaustive_scenarios(rng, ctx):
    """every failure pattern of ADD (with every rollback-DEL pattern) and of DEL for N = 1..4 networks"""
    out = []
    # which network a pod without networks annotation gets: the ENI-IP request on ANY of its 1-3 containers selects exactly the
    # ENIIPNetwork, no request selects the default networks
    for nc in (1, 2, 3):
        for at in list(range(nc)) + [None]:
            conf = {"NetworkConf": [{"name": "net1", "type": "fakecni", "tag": "t0"}, {"name": "eni", "type": "fakecni", "tag": "t1"}],
                    "DefaultNetworks": ["net1"], "ENIIPNetwork": "eni"}
            out.append({"conf": conf, "confdir": [],
                        "pods": [{"name": "pod0", "annot": None, "eni": at is not None, "ext": None, "containers": nc, "eni_at": at or 0}],
                        "containers": {"cid0": {"pod": "pod0", "ifname": "eth0"}},
                        "steps": [[{"cmd": "ADD", "cid": "cid0", "fa": [], "fd": []}], [{"cmd": "DEL", "cid": "cid0", "fd": []}]]})
            ctx.dist("exhaustive:eni-request-on-container-%s-of-%d" % (at, nc))
    for n in range(1, 5):
        names = NAMES[:n]
        conf = {"NetworkConf": [{"name": nm, "type": "fakecni", "tag": "t%d" % i} for i, nm in enumerate(names)],
                "DefaultNetworks": names[:1]}
        for form in ("comma", "json", "default"):
            if form == "comma":
                annot = ",".join(names)
            elif form == "json":
                annot = render([O([("name", nm)]) for nm in names])
            else:
                annot = None
                conf = dict(conf, DefaultNetworks=names)
            base = {"conf": conf, "confdir": [], "pods": [{"name": "pod0", "annot": annot, "eni": False, "ext": None}],
                    "containers": {"cid0": {"pod": "pod0", "ifname": "eth0"}}}
            pats = list(itertools.product([False, True], repeat=n))
            if form == "comma":
                # ADD: every failure pattern, the rollback DELs failing at random
                for fa in pats:
                    steps = [[{"cmd": "ADD", "cid": "cid0", "fa": list(fa), "fd": rand_fails(rng, n)}],
                             [{"cmd": "DEL", "cid": "cid0", "fd": rand_fails(rng, n)}],
                             [{"cmd": "DEL", "cid": "cid0", "fd": []}], [{"cmd": "DEL", "cid": "cid0", "fd": []}]]
                    out.append(dict(base, steps=steps))
                    ctx.dist("exhaustive:add-pattern")
                # ADD failing at j: every pattern of the j+1 rollback DELs
                for j in range(n):
                    for fd in itertools.product([False, True], repeat=j + 1):
                        fa = [False] * j + [True]
                        steps = [[{"cmd": "ADD", "cid": "cid0", "fa": fa, "fd": list(fd)}],
                                 [{"cmd": "DEL", "cid": "cid0", "fd": rand_fails(rng, n)}],
                                 [{"cmd": "DEL", "cid": "cid0", "fd": []}]]
                        out.append(dict(base, steps=steps))
                        ctx.dist("exhaustive:rollback-pattern")
            if form in ("json", "default") or n <= 2:
                # DEL: every failure pattern after a complete ADD, then retries
                for fd in pats:
                    for gone in (False, True):
                        # (gone: the failing DEL and its retry arrive with an empty CNI_NETNS)
                        steps = [[{"cmd": "ADD", "cid": "cid0", "fa": [], "fd": []}],
                                 [dict({"cmd": "DEL", "cid": "cid0", "fd": list(fd)}, **({"nsgone": True} if gone else {}))],
                                 [dict({"cmd": "DEL", "cid": "cid0", "fd": rand_fails(rng, n)}, **({"nsgone": True} if gone else {}))],
                                 [{"cmd": "DEL", "cid": "cid0", "fd": []}], [{"cmd": "DEL", "cid": "cid0", "fd": []}]]
                        out.append(dict(base, steps=steps))
                        ctx.dist("exhaustive:del-pattern" + ("-netns-gone" if gone else ""))
    return out


def describe(kind):
    return {
        "add_order": "ADD did not invoke n0..nj in order / did not roll back with DEL nj..n0 / reported the wrong result",
        "selection_ifnames": "a plugin of a network the pod did not select was invoked, or on the wrong interface",
        "isolation": "a plugin received data that does not belong to its container (prevResult or args of another request)",
        "del_retry": "DEL did not invoke exactly the saved networks in reverse / did not save exactly the failed ones again",
        "add_saved": "the networks saved by ADD are not the ones established (or, after a rollback, the ones whose DEL failed)",
    }[kind]


def run(ctx):
    n_random = 170 if ctx.quick else 1700
    ctx.cov["rule"] = ("scenarios = (network configuration from JSON config and conf dir, pods with networks/args annotations, "
                       "1-3 containers, a sequence of steps of ADD/DEL requests with scripted plugin failures; steps with "
                       "several containers are issued concurrently); exhaustive part: every ADD failure pattern, every "
                       "rollback-DEL pattern and every DEL failure pattern for N=1..4 networks; each scenario runs on the REAL "
                       "daemon (NewGalaxy/Init/StartServer, requests over its unix socket, fake plugin binary executed by "
                       "cniutil) in a private mount namespace and on the Coq model; compared: per request the plugin "
                       "invocations (command, container, configuration object, interface, args set, prevResult origin), the "
                       "result class and the saved state files; the theorems' predicates are evaluated as monitors on the "
                       "implementation's own log")
    ctx.cov["trusted_base"] = vf.TRUSTED_COMMON + [
        "fake CNI plugin binary (harness/cmd/fakecni) and fake clientset stand for the plugins and the API server; "
        "encoding/json's lexer is not modelled (the JSON form of the annotation reaches the model as a tree); ASCII only",
        "independence: atomic steps = the file operations and plugin executions of one request; requests for the SAME "
        "container are not interleaved (kubelet serialises per sandbox)"]
    ctx.assumptions += ["a container id belongs to one pod and one kubelet interface name for the whole history",
                        "plugin executions and state-file operations are the atomic steps of the interleaving model",
                        "CNI_ARGS is compared as a set of k=v entries (galaxy repeats entries; Go map order)"]
    ctx.theorems("C12", THEOREMS, REFUTED, deps=DEPS)
    ok, out = vf.harness_build("fakecni")
    if not ok:
        ctx.violation("correspondence", "the fake CNI plugin no longer builds", {"log": out[-3000:]}, found=False,
                      theorem="harness build")
        return
    scenarios = []
    corpus = json.load(open(vf.ROOT + "/corpus/C12.json"))
    for sc in corpus["scenarios"]:
        scenarios.append(sc)
        ctx.dist("scenario:corpus")
    ex = exhaustive_scenarios(ctx.rng, ctx)
    scenarios += ex
    for _ in range(n_random):
        scenarios.append(gen_scenario(ctx.rng, ctx))
        ctx.dist("scenario:random")
    check_scenarios(ctx, scenarios)


def check_scenarios(ctx, scenarios):
    cases = [scenario_case(sc) for sc in scenarios]
    obs = ctx.harness("cni", cases, cmd="ghcni", shards=16)
    if obs is None:
        return
    corr, other, idx, mon_all, mon_idx = [], [], [], [], []
    nreq = 0
    for i, (sc, o) in enumerate(zip(scenarios, obs)):
        ctx.count(sc)
        nreq += sum(len(st) for st in sc["steps"])
        if o.get("res") != "ok":
            ctx.violation("monitor", "the daemon did not survive the scenario (%s): %s" % (o.get("res"), (o.get("stderr") or o.get("err") or "")[:300]),
                          {"scenario": sc, "obs": o, "how": "bin/check C12 --replay <this file>"}, found=True)
            continue
        for ost in o["steps"]:
            for res in ost["results"]:
                ctx.dist("result:" + res["class"])
            ctx.dist("plugin-invocations", len(ost["log"]))
        ce, oe, mons, problems = scenario_exprs(sc, o)
        for pmsg in problems[:1]:
            ctx.violation("monitor", pmsg, {"scenario": sc, "obs": o}, found=True)
        corr.append(ce)
        other.append(oe)
        idx.append(i)
        for k, e in mons:
            mon_all.append(e)
            mon_idx.append((i, k))
        if len(ctx.cov["samples"]) < 3 and len(sc["steps"]) >= 3 and len(sc["containers"]) > 1:
            ctx.sample({"scenario": sc, "observed_first_step": o["steps"][0]})
    ctx.cov["traces_validated_against_impl"] = len(corr)
    ctx.cov["requests"] = nreq
    rc = ctx.coq_bools("corr", IMPORTS, corr, shard=40)
    rm = ctx.coq_bools("mon", IMPORTS, mon_all, shard=150)
    if rc is None or rm is None:
        ctx.violation("correspondence", "the Coq evaluation of the C12 cases failed", {}, found=False,
                      theorem="C12 correspondence (Corr/C12c.v chk_scenario)")
        return
    bad_mon = [mon_idx[k] for k, b in enumerate(rm) if not b]
    bad_corr = [idx[k] for k, b in enumerate(rc) if not b]
    reported = set()
    for i, kind in bad_mon:
        if kind in reported and len(reported) > 3:
            continue
        reported.add(kind)
        sc = shrink_info(scenarios[i])
        ctx.violation("monitor", "C12 %s: %s" % (kind, describe(kind)),
                      {"scenario": scenarios[i], "obs": obs[i], "requests": sc, "how": "bin/check C12 --replay <this file>"},
                      found=True, theorem=kind)
    if bad_corr:
        ro = ctx.coq_bools("other", IMPORTS, [other[idx.index(i)] for i in bad_corr[:40]], shard=40)
        explained = [i for i, b in zip(bad_corr[:40], ro or []) if b]
        what = "model and implementation disagree on %d C12 scenario(s)" % len(bad_corr)
        if explained:
            what += ("; %d of them are explained by the model variant with the F7 flag flipped (getNetworkConf %s the "
                     "shared map): the tree and cur_flags are out of step" % (len(explained), "copies" if FLAGS != "cur_flags" else "returns"))
        ctx.violation("correspondence", what,
                      {"disagreements": [{"scenario": scenarios[i], "obs": obs[i]} for i in bad_corr[:3]],
                       "theorems_no_longer_about_the_code": THEOREMS}, found=False,
                      theorem="C12 correspondence (Corr/C12c.v chk_scenario)")
    ctx.cov["disagreements"] = len(bad_corr)
    ctx.cov["monitor_failures"] = len(bad_mon)


def shrink_info(sc):
    return [["%s %s (pod annotation %r)" % (r["cmd"], r["cid"], [p for p in sc["pods"] if p["name"] == sc["containers"][r["cid"]]["pod"]][0].get("annot"))
             for r in st] for st in sc["steps"]]


def replay(ctx, path):
    r = json.load(open(path))
    rp = r["replay"]
    scs = [rp["scenario"]] if "scenario" in rp else [d["scenario"] for d in rp.get("disagreements", [])]
    vf.harness_build("fakecni")
    obs = ctx.harness("cni", [scenario_case(sc) for sc in scs], cmd="ghcni")
    for sc, o in zip(scs, obs):
        print(json.dumps({"requests": shrink_info(sc), "observed_now": o}))
