"""C10 - Cloud-provider assign/unassign calls are well ordered per IP."""
import plugincheck

THEOREMS = []
REFUTED = []
KNOWN_FINDINGS = [
    {"id": "K3", "status": "open", "tag": plugincheck.K3_TAG,
     "what": "Bind calls AssignIP(ip, node) although the provider still has the ip assigned to another node: after a failed "
             "pods/binding call (or a bind request for an already bound pod) the scheduler binds the pod on another node and "
             "galaxy-ipam assigns without unassigning first (assign x@node3, assign x@node5); witness "
             "cloud_wellformed_refuted_rebind, scenario K3-rebind-other-node"},
    {"id": "K3b", "status": "open", "tag": plugincheck.K3B_TAG,
     "what": "with a cloud provider, a resync item (and an API release) of a pod holding SEVERAL ips unassigns only the item's "
             "ip but clears the node of / releases every ip of the key: the other ips are freed while the provider still has them "
             "assigned to the old node, and a later pod gets them assigned elsewhere; witness "
             "cloud_wellformed_refuted_multi_ip_resync, scenarios incarnation:*:multi:cloud"},
]


def run(ctx):
    ctx.cov["rule"] = "wip"
    plugincheck.run(ctx, "C10", THEOREMS, REFUTED, plugincheck.mon_c10, gen_kw={"provider": True})


def replay(ctx, path):
    plugincheck.replay(ctx, path)
