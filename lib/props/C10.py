"""C10 - Cloud-provider assign/unassign calls are well ordered per IP."""
import plugincheck

THEOREMS = ["cloud_wellformed", "freed_before_reuse", "cloud_invariant_preserved"]
REFUTED = ["cloud_wellformed_refuted_rebind", "cloud_wellformed_refuted_multi_ip_resync_old", "cloud_wellformed_refuted_nodeless_resync_old"]
KNOWN_FINDINGS = [
    {"id": "K3", "status": "open", "tag": plugincheck.K3_TAG,
     "what": "Bind calls AssignIP(ip, node) although the provider still has the ip assigned to another node: after a failed "
             "pods/binding call (or a bind request for an already bound pod) the scheduler binds the pod on another node and "
             "galaxy-ipam assigns without unassigning first (assign x@node3, assign x@node5); witness "
             "cloud_wellformed_refuted_rebind, scenario K3-rebind-other-node"},
    {"id": "K3b", "status": "fixed", "commit": "5359786", "tag": "c10-multi-ip-key-resync-or-release",
     "what": "fixed: property=C10 5359786 with a cloud provider, a resync item (and an API release) of a pod holding SEVERAL ips "
             "unassigned only the item's ip but cleared the node of / released every ip of the key: the other ips were freed while the "
             "provider still had them assigned to the old node (also when the item's own ip had no node stored while another ip of the "
             "key had); witnesses cloud_wellformed_refuted_multi_ip_resync_old, cloud_wellformed_refuted_nodeless_resync_old, "
             "scenarios incarnation:*:multi:cloud"},
]

MANIFEST = {
    "text": "Coq invariant proof over ALL well-formed histories of the scheduler-plugin model with a cloud provider (sections "
            "filter / bind / pod event / resync item / API release / pod-IP sync / reload / restart in any order, arbitrary "
            "informer lag, every provider call failing cleanly at any index, every map-iteration oracle): cloud_wellformed - the "
            "provider's log replays without ever assigning an IP that is On another node (log_wf), every IP of a bound live pod "
            "is On that pod's node (cloud_live), an IP is On a node only while allocated with that node stored (cloud_alloc); "
            "freed_before_reuse - every step that frees an IP or hands it to another owner leaves it Unassigned; "
            "cloud_invariant_preserved (the induction step). The one state condition of the history predicate wf_c10 (k3_free: Bind on a "
            "node happens only while no IP of the pod's key is On another node) is exactly the recorded defect K3, with a proved "
            "refuting history (cloud_wellformed_refuted_rebind) reproduced on the real code; resync items and API releases carry no "
            "condition any more since the repair of K3b (5359786: every IP of the key is unassigned before the key is reserved or "
            "released; an API release clears one IP) - the old behaviour keeps its refutation witnesses "
            "(cloud_wellformed_refuted_multi_ip_resync_old, .._nodeless_resync_old on Proofs/PluginC10P.v resync_section_old). Tied to the "
            "code by replaying scenario + random histories on the real FloatingIPPlugin with a recording provider vs the model "
            "step by step, and by evaluating log_ok / mon_cloud_live / mon_freed_unassigned on the implementation's own provider "
            "log and dumps after every step.",
    "note": "trusted: Coq kernel (no axioms); harness fakes (API server, listers, recording provider); section atomicity (one "
            "history item = one region under the pod lock); store-call failures inside Bind after a successful AssignIP are outside "
            "the property's fault quantifier (provider calls) and excluded (f_update = None); histories are those of wf_op "
            "(Proofs/PluginInv.v)",
}


def run(ctx):
    ctx.cov["rule"] = ("well-formed histories of plugin sections and environment operations with a cloud provider: 5 regression "
                       "scenarios (F1/F2/F13), 'old versus new incarnation' races (kind x policy x ranges none/same/changed/multi x "
                       "how the old pod ended x random interleavings of its event / resync items / API release / pod-IP sync with "
                       "create / filter / bind / run of the new pod, followed by late events, resync, reload, restart), and random "
                       "histories (provider-call faults at random indices); each history runs on the REAL FloatingIPPlugin and on "
                       "Model/Plugin.v (result, returned IPs / nodes, allocation tables, store, pods, event queue, provider state "
                       "compared after every step); the predicates of the theorems (log replay, cloud_live, freed_unassigned) are "
                       "evaluated on the implementation's provider log and dumps after every step of the well-formed prefix")
    plugincheck.run(ctx, "C10", THEOREMS, REFUTED, plugincheck.mon_c10, gen_kw={"provider": True})


def replay(ctx, path):
    plugincheck.replay(ctx, path)
