"""C03 - IPs are released exactly when the release policy says so."""
import plugincheck

THEOREMS = ["release_only_when_licensed", "never_kept", "immutable_kept_sts", "default_released_by_event", "resync_item_exact",
            "resync_pass_exact", "resync_pass_no_orphans", "prefix_reserve_survives_resync",
            "keyuid_invariant", "keyuid_preserved", "resync_keeps_alive_pod", "event_keeps_alive_pod", "queued_event_keeps_alive_pod",
            "alive_pod_keeps_ip", "immutable_dp_over_replicas_releases", "immutable_dp_within_replicas_reserves",
            "immutable_dp_nonvacuous", "two_events_release_the_surplus", "two_events_nonvacuous"]
REFUTED = ["dp_reserve_leak_refuted", "alive_pod_keeps_ip_refuted_old"]
KNOWN_FINDINGS = [
    {"id": "F18", "status": "fixed", "commit": "58ad117", "tag": "c03-mixed-uid-key",
     "what": "fixed: property=C03 58ad117 the pod-IP sync gave the annotated IP of the (stale) object it was handed back to the pod's key "
             "although the key already held an IP stored for another UID - a new deployment pod of the same name that was handed a "
             "reserved IP at Filter time; the next resync item for the old IP released the alive pod's IP too (witness "
             "alive_pod_keeps_ip_refuted_old, found as a counterexample by the prover asked to prove resync_keeps_alive_pod; "
             "scenario F18-mixed-uid-key)"},
    {"id": "K1", "status": "open", "tag": plugincheck.K1_TAG,
     "what": "an immutable deployment's IP parked under the app prefix key (dp_<ns>_<app>_) is never released once the deployment "
             "is deleted (or scaled below the number of parked IPs): resync skips keys without a pod name, so the reserve leaks "
             "although the policy keeps immutable IPs only until the owning workload is deleted; witness dp_reserve_leak_refuted "
             "(reachable world, every resync pass keeps the IP), scenarios policy:*"},
]

MANIFEST = {
    "text": "Coq theorems over the scheduler-plugin model, with the policy specified independently of the code's control flow "
            "(policy_verdict: MustFree / KeepForPod / KeepForApp from policy, workload kind, replicas, ordinal; Proofs/PluginPolicyP.v): "
            "release_only_when_licensed - for EVERY step of every well-formed history and every IP allocated under a pod key that "
            "the step frees or re-keys, one licence holds: API release of exactly that IP and key for a pod that is not running, a "
            "reload/restart that de-configures it, or a pod event / resync item of that key for a pod that is not a live incarnation "
            "whose policy verdict is MustFree (freed) or KeepForApp (parked under the app/pool prefix); corollaries never_kept and "
            "immutable_kept_sts; default_released_by_event; resync_item_exact (one resync item leaves the key's IPs exactly as the "
            "verdict says) and resync_pass_exact / resync_pass_no_orphans (after a full resync pass, any order, no entry remains "
            "that is keyed by a pod that no longer runs and whose verdict is MustFree). The one place where galaxy-ipam violates "
            "the property - reserves of a deleted deployment, K1 - is proved as dp_reserve_leak_refuted on a reachable world and "
            "reported as KNOWN-FINDING. Tied to the code by policy x kind x scale/delete scenario histories ending in a "
            "quiescence phase (+ random histories) on the real FloatingIPPlugin vs the model step by step, with the policy "
            "predicates evaluated on the implementation's dumps. Immutable deployments (Proofs/PluginReplicasP.v): immutable_dp_over_replicas_releases - a handled pod event frees the pod's IPs when the app holds more IPs than it has replicas; immutable_dp_within_replicas_reserves - otherwise they are parked under the app's prefix key and nothing is freed.",
    "note": "trusted: Coq kernel (no axioms); harness fakes; section atomicity (DESIGN.md section 5); stored policy codes are 0..2 "
            "(what parseReleasePolicy produces); scalable custom resources (dynamic client) are not modelled - for kinds other than "
            "statefulset and deployment only `never` for indexed pod names is supported, as in the code without a CRD lister",
}


def run(ctx):
    ctx.cov["rule"] = plugincheck.RULE_COMMON + ("; plus policy scenarios (release policy x workload kind x scale down/up, app deleted "
                      "before/after its pods, events handled / delayed / dropped) that end with a quiescence phase (informer catches "
                      "up, every queued event handled, one resync pass); monitors: never_kept / immutable_kept_sts / "
                      "default_released_by_event on every event and resync step, resync_pass_no_orphans and the K1 shape at the end")
    plugincheck.run(ctx, "C03", THEOREMS, REFUTED, plugincheck.mon_c03, nrandom=(80, 800), per_config=(1, 1),
                    extra_scenarios=plugincheck.policy_scenarios(ctx.rng, ctx, 150 if ctx.quick else 1500))


def replay(ctx, path):
    plugincheck.replay(ctx, path)
