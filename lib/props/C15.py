"""C15 - Network-policy sync converges and leaves foreign rules alone."""
import copy
import json
import vf
from vf import cN, cbool, cstr, clist, cpair

IMPORTS = ("From Coq Require Import List Ascii String NArith Bool.\n"
           "From Galaxy.Base Require Import Strs.\nFrom Galaxy.Model Require Import Nets Netfilter Policy PolicySpec.\n"
           "From Galaxy.Corr Require Import CorrBase C15c.\n")

THEOREMS = ["policy_batch_no_dangling", "pod_batch_no_dangling", "sync_sets_exact", "sync_exact_partial_fresh",
            "policy_chains_exact", "sync_exact_partial_restart", "sync_idem_restart", "restart_pre_fresh", "run_keeps_shape",
            "sync_exact_partial_written", "events_policy_added_exact"]
REFUTED = ["sync_exact_refuted_stale_referenced", "sync_exact_refuted_stale_pod_chain", "sync_exact_refuted_nomatch_flip",
           "sync_idem_refuted_nomatch_flip", "sync_idem_refuted_conflicting_flags", "sync_exact_partial_needs_shape"]
DEPS = ["Strs", "Nets", "Netfilter", "Policy", "PolicySpec", "NetfilterP", "PolicySetsP", "PolicyPodsP", "PolicyP", "PolicyRunP", "CorrBase",
        "C15c", "C15"]

MANIFEST = {
    "text": "Coq theorems over an executable model of pkg/policy (policy.go, event.go: compile to ipsets + GLX-PLCY/GLX-POD chains, "
            "createIPSet, syncIptables, SyncPodChains, Run, the event handlers) on a strict netfilter/ipset model. Proved for ALL "
            "inputs: policy_batch_no_dangling / pod_batch_no_dangling (no submitted line before the -X lines names a missing chain "
            "or set; only a still-referenced stale chain's -X can refuse a batch), policy_chains_exact (an accepted policy batch "
            "leaves exactly the compiled chains), sync_sets_exact (createIPSet's diff update is exact from every non-conflicting "
            "prior content, other sets untouched), sync_exact_partial_fresh (a whole Run on a node with arbitrary foreign chains/"
            "rules/sets but no GLX-owned state is accepted, leaves exactly compile/pod_chain of the cluster and all foreign state as "
            "it was, for every cluster on whose policy keys and local pod keys the name hash does not collide and in which no rule lists "
            "one address with both nomatch flags); RESTART: sync_exact_partial_restart / sync_idem_restart (from EVERY prior kernel that "
            "already holds galaxy state and satisfies restart_pre = partial_pre [consistent, none of the shapes K5/K5b/K5c/K5d] && "
            "glx_shape [every GLX chain is GLX-INGRESS/EGRESS/PLCY-*/POD-*, no rule outside the GLX-PLCY chains names a GLX set, no "
            "GLX-POD rule jumps to a GLX-POD chain, no hook rule held twice, no blank in a GLX set element] a whole Run is accepted, "
            "exact - stale sets destroyed, stale chains deleted, set contents and hook rules corrected - leaves foreign state alone, "
            "and the next Run changes nothing up to kernel_eqv), restart_pre_fresh (kernels without GLX state satisfy it), "
            "run_keeps_shape (the kernel such a Run leaves is again consistent and galaxy-shaped), sync_exact_partial_written (on every "
            "kernel written by galaxy's own successful Runs from a node without GLX state, for any sequence of clusters, the ONLY "
            "hypothesis is partial_pre - none of the four recorded shapes; exact + foreign-untouched + idempotent + closed), "
            "events_policy_added_exact (the AddPolicy/UpdatePolicy handler = a Run: same guarantees). "
            "sync_exact_partial_needs_shape shows partial_pre alone is not sufficient on arbitrary consistent kernels (duplicate hook "
            "rule: never exact; GLX-POD rule pinning a stale set: first Run not exact, not idempotent). The FULL sync_exact / sync_idem are refuted by five vm_compute witnesses on the faithful model (K5, K5b, K5c, "
            "K5d; prior states produced by galaxy's own Run), each reproduced on the real code (corpus/C15.json). The model is tied to "
            "the working tree by driving the REAL PolicyManager (hook NewForVerif, strict iptables/ipset fakes) through ~154 (quick) "
            "restart/event histories and comparing the dump after EVERY step with the model's kernel; exactness, foreign-untouched, "
            "idempotence and no-dangling are evaluated on the implementation's own dumps and operation log (~600 evaluations)",
    "note": "trusted: Coq kernel (no axioms), strict fakes harness/nfake (iptables side hand-checked against iptables v1.8.9, ipset "
            "side from man page / kernel source: add -exist rewrites the nomatch flag, del removes by address), Go harness + python "
            "printers, informer plumbing bypassed (handlers called one at a time), name hash not modelled (Section variable H; the "
            "theorems assume it does not collide on the names in play, the driver reads the real hashes from the implementation). "
            "ONLY MONITORED, not proved: events_converge (exactness of the Run that follows a sequence of policy / pod event handlers: "
            "the handlers are other code paths - DeletePolicy syncs pods before rules, UpdatePod / DeletePod edit single chains and "
            "set elements against the manager's cached policies - and the kernels they leave are not covered by galaxy_written; "
            "missing are the lemmas that each handler keeps kernel_consistent && glx_shape) and exactness from prior kernels that "
            "violate glx_shape - checked differentially on every generated history (exactness/idempotence monitors on the "
            "implementation's dumps; a failure outside the K5-K5d shapes is a VIOLATION). Goroutine concurrency of syncPods is modelled sequentially (compared up to rule order)",
}
KNOWN_FINDINGS = [
    {"id": "K5", "status": "open", "tag": "c15-stale-policy-chain-referenced",
     "what": "policy sync never converges when a GLX-PLCY chain of a policy that no longer exists is still referenced "
             "(galaxy restarted across a policy delete+create): the -X is refused, iptables-restore rejects the whole batch, the "
             "new policy's chain is never created and every pod-chain batch then names a missing chain; witness "
             "sync_exact_refuted_stale_referenced, corpus case 0"},
    {"id": "K5b", "status": "open", "tag": "c15-stale-pod-chain",
     "what": "GLX-POD-* chains and GLX-INGRESS/GLX-EGRESS hook rules of pods that were deleted (or re-created with another "
             "address) while galaxy was down are never collected - the address's next owner is filtered by them; witness "
             "sync_exact_refuted_stale_pod_chain, corpus case 1"},
    {"id": "K5c", "status": "open", "tag": "c15-nomatch-flag-flip",
     "what": "when an ipBlock address changes between cidr and except in the same rule slot, createIPSet re-adds the element "
             "with the new nomatch flag (add -exist) and then deletes it as a stale entry (entries are compared as printed "
             "strings but deleted by address): the element is missing until the NEXT sync (sync is not exact and not "
             "idempotent from that state); witness sync_exact_refuted_nomatch_flip, corpus case 2"},
    {"id": "K5d", "status": "open", "tag": "c15-conflicting-ipblock-flags",
     "what": "a rule that lists one address both as the cidr of one ipBlock and as an except of another (all ipBlocks of a rule "
             "share ONE hash:net set) makes every sync flip that element's nomatch flag: the set never settles, sync is "
             "neither exact nor idempotent; witness sync_idem_refuted_conflicting_flags, corpus case 3"},
]

HOST = "node1"
FILTER_BUILTIN = ["INPUT", "FORWARD", "OUTPUT"]


# ---------------------------------------------------------------------------- Coq printers
def ip2n(s):
    a, b, c, d = (int(x) for x in s.split("."))
    return (a << 24) | (b << 16) | (c << 8) | d


def ccidr(s):
    if "/" in s:
        a, l = s.split("/")
        return "(%d, %d)" % (ip2n(a), int(l))
    return "(%d, 32)" % ip2n(s)


def clabels(d):
    return clist(cpair(cstr(k), cstr(v)) for k, v in sorted((d or {}).items()))


def cpod(p):
    ip = "(Some %d)" % ip2n(p["ip"]) if p.get("ip") else "None"
    return "(mkPod %s %s %s %s %s)" % (cstr(p["ns"]), cstr(p["name"]), clabels(p.get("labels")), ip, cstr(p["node"]))


def cpeer(q):
    if q.get("cidr"):
        return "(PeerBlock %s %s)" % (ccidr(q["cidr"]), clist(ccidr(e) for e in q.get("except") or []))
    if q.get("pod") is not None and q.get("ns") is not None:
        return "(PeerNsPod %s %s)" % (clabels(q["ns"]), clabels(q["pod"]))
    if q.get("pod") is not None:
        return "(PeerPod %s)" % clabels(q["pod"])
    return "(PeerNs %s)" % clabels(q.get("ns"))


def cprule(r):
    return "(mkPRule %s %s)" % (clist(cpair(cstr((pr or "tcp").lower()), cN(po)) for pr, po in r.get("ports") or []),
                                clist(cpeer(q) for q in r.get("peers") or []))


def cpol(p):
    ty = p.get("types") or []
    return "(mkPol %s %s %s %s %s %s %s)" % (cstr(p["ns"]), cstr(p["name"]), clabels(p.get("sel")), cbool("Ingress" in ty),
                                             cbool("Egress" in ty), clist(cprule(r) for r in p.get("ingress") or []),
                                             clist(cprule(r) for r in p.get("egress") or []))


def ccluster(w):
    return "(mkCluster %s %s %s)" % (
        clist("(mkNs %s %s)" % (cstr(n["name"]), clabels(n.get("labels"))) for _, n in sorted(w["ns"].items())),
        clist(cpod(p) for _, p in sorted(w["pods"].items())),
        clist(cpol(p) for _, p in sorted(w["pols"].items())))


def crule(r):
    return "(mkRule %s %s %s %s %s %s %s)" % (cstr(r["src"]), cstr(r["dst"]), cstr(r["proto"]), cstr(r["comment"]),
                                              clist(cstr(x) for x in r["match"]), cstr(r["target"]),
                                              clist(cstr(x) for x in r["topts"]))


def csettype(t):
    return {"hash:ip": "HashIP", "hash:net": "HashNet"}.get(t, "(OtherSet %s)" % cstr(t))


def ckernel(filt, sets_):
    return "(mkK %s %s)" % (
        clist(cpair(cstr(c["name"]), clist(crule(r) for r in c["rules"])) for c in filt),
        clist(cpair(cstr(s["name"]), "(mkSet %s %s)" % (csettype(s["type"]),
                                                        clist(cpair(cstr(k), cbool(nm)) for k, nm in s["elems"])))
              for s in sets_))


def canon_rule(tok):
    r = dict(src="", dst="", proto="", comment="", match=[], target="", topts=[])
    i = 0
    while i < len(tok):
        t = tok[i]
        if t == "-s":
            r["src"] = tok[i + 1]; i += 2
        elif t == "-d":
            r["dst"] = tok[i + 1]; i += 2
        elif t == "-p":
            r["proto"] = "" if tok[i + 1].lower() == "all" else tok[i + 1].lower(); i += 2
        elif t == "-m" and tok[i + 1] == "comment":
            i += 2
        elif t == "-m":
            r["match"] += ["-m", tok[i + 1]]; i += 2
        elif t == "--comment":
            r["comment"] = tok[i + 1]; i += 2
        elif t == "-j":
            r["target"] = tok[i + 1]; r["topts"] = list(tok[i + 2:]); i = len(tok)
        else:
            r["match"].append(t); i += 1
    return r


def prior_kernel(prior):
    names = [c["name"] for c in prior.get("filter", [])]
    filt = [dict(name=c["name"], rules=[canon_rule(t) for t in c["rules"]]) for c in prior.get("filter", [])] + \
           [dict(name=n, rules=[]) for n in FILTER_BUILTIN if n not in names]
    return ckernel(filt, prior.get("sets", []))


# ---------------------------------------------------------------------------- generators
APPS = ["web", "db", "cli"]
TIERS = ["fe", "be"]
CIDRS = ["10.0.0.0/24", "10.0.1.0/24", "192.168.0.0/16", "10.0.0.8/30", "10.0.0.5/32", "172.16.0.0/12", "10.0.1.128/25",
         "172.20.0.0/22", "172.20.0.0/23"]
# texts that differ only in their last characters (a member comparison that normalises or trims must still tell them apart)
NEAR_OCTETS = [2, 3, 12, 13, 22, 23, 32, 33]
NEAR_CIDR = {"172.20.0.0/22": "172.20.0.0/23", "172.20.0.0/23": "172.20.0.0/22"}


def gen_sel(rng, allow_empty=True):
    r = rng.random()
    if r < 0.25 and allow_empty:
        return {}
    if r < 0.7:
        return {"app": rng.choice(APPS)}
    if r < 0.8:
        return {"canary": ""}                     # an entry with the empty value: only pods that carry the key with that value
    return {"app": rng.choice(APPS), "tier": rng.choice(TIERS)}


def gen_peer(rng):
    k = rng.random()
    if k < 0.3:
        return {"pod": gen_sel(rng)}
    if k < 0.55:
        return {"ns": rng.choice([{}, {"team": "a"}, {"team": "b"}])}
    if k < 0.7:
        return {"ns": rng.choice([{"team": "a"}, {"team": "b"}]), "pod": gen_sel(rng)}
    c = rng.choice(CIDRS)
    ex = [e for e in rng.sample(CIDRS, rng.choice([0, 0, 1, 2])) if e != c]
    return {"cidr": c, "except": ex}


def gen_rule(rng):
    ports = rng.sample([["TCP", 80], ["UDP", 53], ["TCP", 443], ["", 8080]], rng.choice([0, 1, 1, 2]))
    peers = [gen_peer(rng) for _ in range(rng.choice([0, 1, 1, 2, 3]))]
    return {"ports": ports, "peers": peers}


def gen_policy(rng, name, nss):
    types = rng.choice([[], ["Ingress"], ["Egress"], ["Ingress", "Egress"]])
    ing = [gen_rule(rng) for _ in range(rng.choice([0, 1, 1, 2]))]
    eg = [gen_rule(rng) for _ in range(rng.choice([0, 0, 1, 2]))]
    # a policy may keep the rule section of a direction its policyTypes do not list: Kubernetes ignores the section (such
    # objects crashed galaxy before fix c64b875, F8d)
    if types and "Ingress" not in types and rng.random() < 0.6:
        ing = []
    if types and "Egress" not in types and rng.random() < 0.6:
        eg = []
    return {"ns": rng.choice(nss), "name": name, "sel": gen_sel(rng), "types": types, "ingress": ing, "egress": eg}


def gen_pod(rng, name, nss, used_ips):
    while True:
        ip = "10.0.%d.%d" % (rng.randrange(2), rng.choice(NEAR_OCTETS) if rng.random() < 0.5 else rng.randrange(2, 14))
        if ip not in used_ips:
            break
    used_ips.add(ip)
    lab = {"app": rng.choice(APPS)}
    if rng.random() < 0.5:
        lab["tier"] = rng.choice(TIERS)
    if rng.random() < 0.2:
        lab["canary"] = rng.choice(["", "", "yes"])
    return {"ns": rng.choice(nss), "name": name, "labels": lab, "ip": "" if rng.random() < 0.04 else ip,
            "node": HOST if rng.random() < 0.7 else "node2"}


def gen_cluster(rng, ctx):
    nss = ["ns%d" % i for i in range(1, rng.choice([1, 2, 2, 3]) + 1)]
    used = set()
    w = {"ns": {n: {"name": n, "labels": {"team": rng.choice(["a", "b"])}} for n in nss}, "pods": {}, "pols": {}}
    for i in range(rng.randrange(2, 7)):
        p = gen_pod(rng, "p%d" % i, nss, used)
        w["pods"][p["ns"] + "/" + p["name"]] = p
        if rng.random() < 0.3:
            # a pod whose name CONTAINS this one's (db-0 / mongodb-0), same namespace: whatever identifies a pod's rules by its
            # name must not match the other's
            q = gen_pod(rng, "x" + p["name"], [p["ns"]], used)
            w["pods"][q["ns"] + "/" + q["name"]] = q
            ctx.dist("cluster:pod-name-contains-another")
    for i in range(rng.choice([0, 1, 1, 2, 2, 3, 4])):
        x = gen_policy(rng, "pol%d" % i, nss)
        w["pols"][x["ns"] + "/" + x["name"]] = x
    return w, used


def gen_mutations(rng, ctx, w, used, n):
    """cluster mutations (as harness steps) turning w into the 'after' cluster"""
    nss = sorted(w["ns"])
    w = copy.deepcopy(w)
    steps = []
    for _ in range(n):
        k = rng.random()
        if k < 0.2 and w["pols"]:
            key = rng.choice(sorted(w["pols"]))
            x = w["pols"].pop(key)
            steps.append({"op": "del_policy", "ns": x["ns"], "name": x["name"]})
            ctx.dist("mut:del-policy")
            if rng.random() < 0.6:          # delete + create under another name (K5 shape across a restart)
                y = copy.deepcopy(x)
                y["name"] = x["name"] + "n"
                w["pols"][y["ns"] + "/" + y["name"]] = y
                steps.append({"op": "set_policy", "policy": y})
                ctx.dist("mut:recreate-policy-renamed")
        elif k < 0.35:
            x = gen_policy(rng, "pol%d" % rng.randrange(6), nss)
            w["pols"][x["ns"] + "/" + x["name"]] = x
            steps.append({"op": "set_policy", "policy": x})
            ctx.dist("mut:set-policy")
        elif k < 0.45 and w["pols"]:
            key = rng.choice(sorted(w["pols"]))
            x = copy.deepcopy(w["pols"][key])
            which = rng.choice(["sel", "rule", "swap-cidr", "mask", "types", "types"])
            if which == "types":
                # only the direction changes, selector and rules stay
                x["types"] = rng.choice([t for t in ([], ["Ingress"], ["Egress"], ["Ingress", "Egress"]) if t != x["types"]])
                ctx.dist("mut:policy-types-changed")
                which = "done"
            if which == "mask":
                for r in x["ingress"] + x["egress"]:
                    for q in r["peers"]:
                        if q.get("cidr") in NEAR_CIDR:
                            q["cidr"] = NEAR_CIDR[q["cidr"]]          # same rule slot, same address, another prefix length
                            q["except"] = []
                            ctx.dist("mut:cidr-mask-changed")
            elif which == "sel":
                x["sel"] = gen_sel(rng)
            elif which == "rule" and (not x["types"] or "Ingress" in x["types"]):
                x["ingress"] = [gen_rule(rng) for _ in range(rng.choice([0, 1, 2]))]
            elif which == "done":
                pass
            else:
                for r in x["ingress"] + x["egress"]:
                    for q in r["peers"]:
                        if q.get("cidr") and q.get("except"):
                            q["cidr"], q["except"][0] = q["except"][0], q["cidr"]      # K5c shape
                            ctx.dist("mut:cidr-except-swapped")
            w["pols"][key] = x
            steps.append({"op": "set_policy", "policy": x})
            ctx.dist("mut:update-policy")
        elif k < 0.6 and w["pods"]:
            key = rng.choice(sorted(w["pods"]))
            p = w["pods"].pop(key)
            steps.append({"op": "del_pod", "ns": p["ns"], "name": p["name"]})
            ctx.dist("mut:del-pod")
            if rng.random() < 0.5:          # re-created under the same name with another address
                q = gen_pod(rng, p["name"], [p["ns"]], used)
                if p.get("ip") and rng.random() < 0.6:
                    # ... whose text differs from the old one only in its last characters
                    pre = p["ip"].rsplit(".", 1)[0]
                    cand = [pre + ".%d" % o for o in NEAR_OCTETS if pre + ".%d" % o not in used]
                    if cand:
                        q["ip"] = rng.choice(cand)
                        used.add(q["ip"])
                q["labels"] = p["labels"]
                w["pods"][key] = q
                steps.append({"op": "set_pod", "pod": q})
                ctx.dist("mut:recreate-pod-new-ip")
        elif k < 0.66 and w["pods"]:
            # a pod is replaced under its name by one that still waits for its address (delivered as an update of the same
            # namespace/name, or missed altogether while galaxy is down)
            key = rng.choice(sorted(w["pods"]))
            q = copy.deepcopy(w["pods"][key])
            q["ip"] = ""
            if rng.random() < 0.5:
                q["labels"] = {"app": rng.choice(APPS)}
            w["pods"][key] = q
            steps.append({"op": "set_pod", "pod": q})
            ctx.dist("mut:pod-replaced-ipless")
        elif k < 0.75:
            p = gen_pod(rng, "p%d" % rng.randrange(8), nss, used)
            key = p["ns"] + "/" + p["name"]
            if key in w["pods"]:
                p["ip"], p["node"] = w["pods"][key]["ip"], w["pods"][key]["node"]     # label change only
                ctx.dist("mut:relabel-pod")
            else:
                ctx.dist("mut:add-pod")
            w["pods"][key] = p
            steps.append({"op": "set_pod", "pod": p})
        elif k < 0.85:
            n_ = rng.choice(nss)
            obj = {"name": n_, "labels": {"team": rng.choice(["a", "b"])}}
            w["ns"][n_] = obj
            steps.append({"op": "set_ns", "nsobj": obj})
            ctx.dist("mut:relabel-namespace")
        elif w["pols"]:
            keys = sorted(w["pols"])
            for key in keys:
                x = w["pols"].pop(key)
                steps.append({"op": "del_policy", "ns": x["ns"], "name": x["name"]})
            ctx.dist("mut:del-all-policies")
    return steps


def gen_prior(rng, ctx):
    """kernel state before galaxy ever ran: foreign chains/sets, optionally unreferenced GLX leftovers"""
    filt = {}
    sets_ = []
    if rng.random() < 0.6:
        filt["DOCKER"] = [["-i", "docker0", "-j", "RETURN"]]
        filt.setdefault("FORWARD", []).append(["-j", "DOCKER"])
        ctx.dist("prior:foreign-chain")
    if rng.random() < 0.4:
        sets_.append({"name": "blocklist", "type": "hash:ip", "elems": [["1.1.1.1", False]]})
        filt.setdefault("INPUT", []).append(["-m", "set", "--match-set", "blocklist", "src", "-j", "DROP"])
        ctx.dist("prior:foreign-set")
    if rng.random() < 0.3:
        filt.setdefault("OUTPUT", []).append(["-d", "169.254.169.254", "-j", "REJECT"])
    if rng.random() < 0.35:
        sets_.append({"name": "GLX-ip-STALESTALESTALE0", "type": "hash:ip", "elems": [["10.9.9.9", False]]})
        sets_.append({"name": "GLX-snet-0-STALESTALESTALE0", "type": "hash:net", "elems": [["10.9.0.0/16", False], ["10.9.1.0/24", True]]})
        filt["GLX-PLCY-STALESTALESTALE0"] = [["-p", "tcp", "-m", "set", "--match-set", "GLX-snet-0-STALESTALESTALE0", "src", "-m", "set",
                                              "--match-set", "GLX-ip-STALESTALESTALE0", "dst", "-j", "ACCEPT"]]
        ctx.dist("prior:stale-glx-policy-chain-and-sets")
    if rng.random() < 0.15:
        filt["GLX-INGRESS"] = []
        filt["GLX-EGRESS"] = []
        filt.setdefault("FORWARD", []).insert(0, ["-j", "GLX-INGRESS"])
        ctx.dist("prior:glx-hook-chains-present")
    return {"filter": [{"name": n, "rules": rs} for n, rs in filt.items()], "sets": sets_}


def gen_case(rng, ctx):
    w, used = gen_cluster(rng, ctx)
    tmpl = rng.choice(["restart", "restart", "restart", "events", "events", "events", "fresh", "drain", "ipless"])
    ctx.dist("template:" + tmpl)
    if tmpl == "ipless":
        if not w["pols"]:
            x = gen_policy(rng, "pol0", sorted(w["ns"]))
            w["pols"][x["ns"] + "/" + x["name"]] = x
        for x in w["pols"].values():
            if not x["sel"]:
                x["sel"] = {"app": rng.choice(APPS)}
    case = {"prior": gen_prior(rng, ctx), "cluster": {"namespaces": list(w["ns"].values()), "pods": list(w["pods"].values()),
                                                      "policies": list(w["pols"].values())}}
    steps = [{"op": "start"}, {"op": "run"}]
    if tmpl == "restart":
        steps += [{"op": "stop"}] + gen_mutations(rng, ctx, w, used, rng.choice([1, 2, 3, 4])) + \
                 [{"op": "start"}, {"op": "run"}, {"op": "run"}]
    elif tmpl == "events":
        steps += gen_mutations(rng, ctx, w, used, rng.choice([2, 3, 4, 5])) + [{"op": "run"}, {"op": "run"}]
    elif tmpl == "fresh":
        steps += [{"op": "run"}]
    elif tmpl == "ipless":
        # pods that had chains come back under their names without an address and are no longer selected by any policy
        # (the policies stay - deleting them while galaxy is down is the recorded finding K5 - the pods' new labels match none)
        down = rng.random() < 0.6
        mid = []
        for key in sorted(w["pods"]):
            if rng.random() < 0.7:
                q = copy.deepcopy(w["pods"][key])
                q["ip"] = ""
                q["labels"] = {"app": "idle"}
                w["pods"][key] = q
                mid.append({"op": "set_pod", "pod": q})
        rng.shuffle(mid)
        steps += ([{"op": "stop"}] if down else []) + mid + ([{"op": "start"}] if down else []) + [{"op": "run"}, {"op": "run"}]
    elif tmpl == "drain":
        steps += [{"op": "stop"}] + [{"op": "del_policy", "ns": x["ns"], "name": x["name"]} for x in w["pols"].values()] + \
                 [{"op": "start"}, {"op": "run"}, {"op": "run"}]
    case["steps"] = steps
    return case


# ---------------------------------------------------------------------------- expressions
def world_of(cluster):
    return {"ns": {n["name"]: n for n in cluster["namespaces"]}, "pods": {p["ns"] + "/" + p["name"]: p for p in cluster["pods"]},
            "pols": {p["ns"] + "/" + p["name"]: p for p in cluster["policies"]}}


def model_steps(case):
    """replays the harness's bookkeeping; returns for each step (coq pstep term, cluster term at that point, kind)"""
    w = world_of(case["cluster"])
    up = False
    out = []
    for st in case["steps"]:
        op = st["op"]
        term, kind = "PNone", "none"
        if op == "start":
            up, term, kind = True, "PStart", "start"
        elif op == "stop":
            up = False
        elif op == "run":
            if up:
                term, kind = "(PRun %s)" % ccluster(w), "run"
        elif op == "set_policy":
            key = st["policy"]["ns"] + "/" + st["policy"]["name"]
            had = key in w["pols"]
            w["pols"][key] = st["policy"]
            if up:
                term, kind = "(%s %s)" % ("PPolicyUpdated" if had else "PPolicyAdded", ccluster(w)), "policy-event"
        elif op == "del_policy":
            key = st["ns"] + "/" + st["name"]
            had = key in w["pols"]
            w["pols"].pop(key, None)
            if up and had:
                term, kind = "(PPolicyDeleted %s)" % ccluster(w), "policy-event"
        elif op == "set_pod":
            key = st["pod"]["ns"] + "/" + st["pod"]["name"]
            w["pods"][key] = st["pod"]
            if up:
                term, kind = "(PPodUpdated %s %s)" % (ccluster(w), cpod(st["pod"])), "pod-event"
        elif op == "del_pod":
            key = st["ns"] + "/" + st["name"]
            old = w["pods"].pop(key, None)
            if up and old:
                term, kind = "(PPodDeleted %s %s)" % (ccluster(w), cpod(old)), "pod-event"
        elif op == "set_ns":
            w["ns"][st["nsobj"]["name"]] = st["nsobj"]
        out.append((term, ccluster(w), kind))
    return out


DANGLING = {("restore", "missing-chain"), ("restore", "missing-set"), ("ensure-rule", "missing-chain"),
            ("ensure-rule", "missing-set"), ("delete-rule", "missing-set")}


def case_exprs(case, o):
    tbl = clist(cpair(cstr(k), cstr(h)) for k, h in o["hashes"])
    ms = model_steps(case)
    kernels = [prior_kernel(case["prior"])] + [ckernel(ob["filter"], ob["sets"]) for ob in o["steps"]]
    steps = clist("(%s, %s)" % (term, kernels[i + 1]) for i, (term, _, _) in enumerate(ms))
    corr = "(chk_policy %s %s %s %s)" % (tbl, cstr(HOST), kernels[0], steps)
    mons = []        # (kind, step index, expr, aux)
    for i, (term, cl, kind) in enumerate(ms):
        if kind == "run" or (kind == "policy-event" and (term.startswith("(PPolicyUpdated") or term.startswith("(PPolicyAdded"))):
            mons.append(("exact", i, "(mon_exact_is 0 %s %s %s %s %s)" % (tbl, cstr(HOST), cl, kernels[i], kernels[i + 1]),
                         (tbl, cl, kernels[i], kernels[i + 1], "(model_exact_at %s %s %s %s %d%%nat %s)" % (tbl, cstr(HOST), kernels[0], steps, i, cl))))
            if kind == "run" and i > 0 and ms[i - 1][2] == "run":
                mons.append(("idem", i, "(kernel_eqv %s %s)" % (kernels[i], kernels[i + 1]), (tbl, ms[i - 1][1], kernels[i - 1], kernels[i],
                                                                                                "(model_idem_at %s %s %s %s %d%%nat)" % (tbl, cstr(HOST), kernels[0], steps, i))))
        dang = [r for r in o["steps"][i]["rejected"] if (r["kind"], r["why"]) in DANGLING]
        if dang and kind != "none":
            mons.append(("dangling", i, "(negb (stale_referenced (hash_of %s) %s %s))" % (tbl, cl, kernels[i]), dang))
    return corr, mons


def run(ctx):
    n = 150 if ctx.quick else 1500
    ctx.cov["rule"] = ("cases = a prior kernel state (foreign chains/sets/rules, unreferenced GLX leftovers) + a cluster (1-3 labelled "
                       "namespaces, 2-6 labelled pods with addresses on two nodes, 0-4 NetworkPolicies with pod/namespace/combined "
                       "selectors, ipBlocks with exceptions, TCP/UDP ports, all policyTypes variants) + a history: Run, then either a "
                       "galaxy restart across 1-4 cluster changes or the same changes delivered as AddPolicy/UpdatePolicy/DeletePolicy/"
                       "UpdatePod/DeletePod events to the REAL PolicyManager (strict iptables/ipset fakes), then Run twice; after EVERY "
                       "step the dump (iptables-save + ipset list of the fakes) is compared with the Coq model's kernel, and the "
                       "theorems' predicates (exactness, foreign state untouched, idempotence, no dangling reference in any submitted "
                       "batch) are evaluated on the implementation's own dumps and operation log")
    ctx.cov["trusted_base"] = vf.TRUSTED_COMMON + [
        "strict iptables/ipset fakes harness/nfake (DESIGN.md section 6 semantics; iptables side checked by hand against "
        "iptables v1.8.9 in a private netns, ipset side follows the man page / kernel source reading)",
        "informer plumbing is bypassed: the harness feeds the listers' caches and calls the exported handlers itself, one at "
        "a time (hook pkg/policy/zz_verif_hooks.go); name hashes are read from the implementation (VerifNameHash)"]
    ctx.assumptions += ["netfilter/ipset assumptions of DESIGN.md section 6 (incl. add -exist rewrites an element's nomatch flag)",
                        "events are handled one at a time, in order; pod chains synced by parallel goroutines commute "
                        "(compared up to rule order in pod chains and hook chains)",
                        "policies may carry rules for a direction their policyTypes omit (ignored by Kubernetes; F8d repaired)"]
    ctx.theorems("C15", THEOREMS, REFUTED, deps=DEPS)
    cases = list(json.load(open(vf.ROOT + "/corpus/C15.json"))["cases"])
    for _ in cases:
        ctx.dist("corpus")
    for _ in range(n):
        cases.append(gen_case(ctx.rng, ctx))
    obs = ctx.harness("policy", cases, cmd="ghpol", shards=48)
    if obs is None:
        return
    corr, corr_idx, mons, meta = [], [], [], []
    for i, (c, o) in enumerate(zip(cases, obs)):
        ctx.count(c)
        if o.get("res") != "ok":
            ctx.violation("monitor", "PolicyManager %s on a C15 case" % o.get("res"), {"case": c, "obs": {k: v for k, v in o.items()}},
                          found=True)
            continue
        ce, ms = case_exprs(c, o)
        corr.append(ce)
        corr_idx.append(i)
        for kind, k, e, aux in ms:
            mons.append(e)
            meta.append((i, kind, k, aux))
        for st, ob in zip(c["steps"], o["steps"]):
            ctx.dist("step:" + st["op"])
            for rj in ob["rejected"]:
                ctx.dist("refused:%s:%s" % (rj["kind"], rj["why"]))
        if len(ctx.cov["samples"]) < 2:
            ctx.sample({"case": c, "last_step_sets": o["steps"][-1]["sets"]})
    ctx.cov["traces_validated_against_impl"] = len(corr)
    rc = ctx.coq_bools("corr", IMPORTS, corr, shard=6)
    rm = ctx.coq_bools("mon", IMPORTS, mons, shard=12)
    if rc is None or rm is None:
        ctx.violation("correspondence", "the Coq evaluation of the C15 cases failed", {}, found=False,
                      theorem="C15 correspondence (Corr/C15c.v)")
        return
    bad = [meta[k] for k, b in enumerate(rm) if not b]
    # classify failed exactness / idempotence monitors by the shape of the state before the Run
    cls_exprs, cls_meta = [], []
    for (i, kind, k, aux) in bad:
        if kind in ("exact", "idem"):
            tbl, cl, k0, k1, model_ok = aux
            cls_exprs.append(model_ok)
            cls_meta.append((i, kind, k, "model"))
            for n_ in (5, 1, 2, 3):
                if kind == "exact":
                    cls_exprs.append("(mon_exact_is %d %s %s %s %s %s)" % (n_, tbl, cstr(HOST), cl, k0, k1))
                else:
                    cls_exprs.append({5: "(conflicting_flags (hash_of %s) %s)" % (tbl, cl),
                                      1: "(stale_referenced (hash_of %s) %s %s)" % (tbl, cl, k0),
                                      2: "(stale_pod_state (hash_of %s) %s %s %s)" % (tbl, cstr(HOST), cl, k0),
                                      3: "(nomatch_flip (hash_of %s) %s %s)" % (tbl, cl, k0)}[n_])
                cls_meta.append((i, kind, k, n_))
    rcls = ctx.coq_bools("cls", IMPORTS, cls_exprs, shard=12) if cls_exprs else []
    if rcls is None:
        ctx.violation("correspondence", "the Coq evaluation of the C15 classification failed", {}, found=False, theorem="C15c")
        return
    shape = {}
    model_holds = set()       # the model (= the unchanged code) passes the monitor at this step: no recorded finding explains the failure
    for (i, kind, k, n_), b in zip(cls_meta, rcls):
        if n_ == "model":
            if b:
                model_holds.add((i, kind, k))
        elif b and (i, kind, k) not in shape and (i, kind, k) not in model_holds:
            shape[(i, kind, k)] = n_
    TAGS = {1: "c15-stale-policy-chain-referenced", 2: "c15-stale-pod-chain", 3: "c15-nomatch-flag-flip",
            5: "c15-conflicting-ipblock-flags"}
    n_mon_fail = 0
    for (i, kind, k, aux) in bad:
        n_mon_fail += 1
        if kind == "dangling":
            # the shape expression was negated: false = the K5 shape holds before this step
            ctx.dist("finding:K5(dangling)")
            ctx.violation("monitor", "a submitted batch names a chain or set that does not exist (step %d): %s" % (k, aux[:2]),
                          {"case": cases[i], "step": k, "refused": aux}, found=True, theorem="no_dangling",
                          tags=["c15-stale-policy-chain-referenced"])
            continue
        s = shape.get((i, kind, k))
        ctx.dist("finding:%s(%s)" % ({1: "K5", 2: "K5b", 3: "K5c", 5: "K5d"}.get(s, "UNEXPLAINED"), kind))
        what = {"exact": "after Run the GLX-owned state is not what the cluster compiles to, or foreign state changed (step %d)",
                "idem": "a second Run changed the kernel state (step %d)"}[kind] % k
        ctx.violation("monitor", what, {"case": cases[i], "step": k, "how": "bin/check C15 --replay <this file>"}, found=True,
                      theorem="sync_exact" if kind == "exact" else "sync_idem", tags=[TAGS[s]] if s else [])
    # dangling references that the K5 shape does not explain
    for k_, b in enumerate(rm):
        pass
    for (i, kind, k, aux) in [meta[k] for k, b in enumerate(rm) if b and meta[k][1] == "dangling"]:
        ctx.violation("monitor", "a submitted batch names a chain or set that does not exist (step %d): %s" % (k, aux[:2]),
                      {"case": cases[i], "step": k, "refused": aux}, found=True, theorem="no_dangling")
    bad_corr = [corr_idx[k] for k, b in enumerate(rc) if not b]
    if bad_corr:
        ex = [{"case": cases[i]} for i in bad_corr[:3]]
        ctx.violation("correspondence", "model and implementation disagree on %d C15 case(s)" % len(bad_corr),
                      {"disagreements": ex, "theorems_no_longer_about_the_code": THEOREMS}, found=False,
                      theorem="C15 correspondence (Corr/C15c.v chk_policy)")
    ctx.cov["disagreements"] = len(bad_corr)
    ctx.cov["monitor_failures"] = n_mon_fail
    ctx.cov["monitor_evaluations"] = len(mons)


def replay(ctx, path):
    r = json.load(open(path))
    rp = r["replay"]
    cs = [rp["case"]] if "case" in rp else [d["case"] for d in rp.get("disagreements", [])]
    obs = ctx.harness("policy", cs, cmd="ghpol", shards=1)
    for c, o in zip(cs, obs):
        print(json.dumps({"case": c, "refused_per_step": [s["rejected"] for s in o.get("steps", [])],
                          "last_filter": o.get("steps", [{}])[-1].get("filter"), "last_sets": o.get("steps", [{}])[-1].get("sets")}))
