"""C19 - Shared state is free of data races under concurrent requests.

Generic Coq theorem lockset_sound (proved once, for all programs / thread counts / schedules) + a translator that
re-extracts galaxy's lock discipline from the Go AST of the working tree on every run; Coq evaluates `disciplined` on
the extracted program and instantiates the theorem on it.  A failing access is named together with a conflicting
partner and the two entry points are run concurrently under the Go race detector (harness/cmd/ghrace, -race build)."""
import json, os, re, subprocess
import vf, locksgen

THEOREMS = ["lockset_sound", "access_holds_lock", "undisciplined_races"]
REFUTED = []
DEPS = ["Lockset", "LocksetP", "C19"]

MANIFEST = {
    "text": "Coq theorem lockset_sound (interleaving semantics of any number of threads over Lock/Unlock/RLock/RUnlock/read/"
            "write with mutex and RW-lock state; invariant proof): a program set that passes the executable check `disciplined` "
            "has no reachable state, in ANY schedule, with two threads about to perform conflicting accesses.  On every run a "
            "Go-AST translator (extractor/, go/packages + go/types) re-extracts from the working tree, for 71 entry points of "
            "pkg/ipam/floatingip, schedulerplugin, ipam/crd, ipam/api (REST controllers), ipam/cloudprovider (gRPC client), galaxy+api/cniutil, network/portmapping and policy, every access to "
            "42 tracked shared locations with the locks syntactically held (calls followed across these packages to depth 9, "
            "closures and deferred calls replayed, thread-local objects tracked until published); coqc evaluates `disciplined "
            "generated` by vm_compute and proves galaxy_race_free := lockset_sound .. generated .. at run time. Objects handed out "
            "by an informer cache (Get/List/ByIndex of a ...Lister, Indexer or Store) are tracked as read-only shared objects: any "
            "store through one (field, element, whole value, mutator method) fails the discipline and is handed to the race detector",
    "note": "the theorem is fully proved (no axioms); the TRANSLATOR is syntactic and trusted (its output is what Coq checks): "
            "memory reached through interfaces/reflection and state outside the tracked list (config.go) is not covered, function "
            "literals passed to opaque callees are assumed to run synchronously, entry-point ownership assumptions are listed in "
            "the evidence; a failing access is confirmed with the Go race detector (evidence, not proof) for crdIpam pairs",
    "technique": "Coq-proved lockset discipline theorem instantiated at run time on a lock/access summary extracted from the Go AST",
}
KNOWN_FINDINGS = [
    {"id": "F12", "status": "fixed", "commit": "15a991b", "tag": "c19-configurepool-deferred-log",
     "what": "fixed: property=C19 15a991b crdIpam.ConfigurePool's deferred log closure (registered first, so it runs AFTER the "
             "deferred cacheLock.Unlock, and on the early error return without any lock) read ci.FloatingIPs and len() of both "
             "allocation tables while scheduler requests write them; found by the translator, confirmed by the Go race detector "
             "(ConfigurePool || Release/AllocateInSubnet), replay corpus/C19-F12-configurepool-log.json"},
    {"id": "F7", "status": "fixed", "commit": "6dc20c6", "tag": "c19-netconf-prevresult",
     "what": "fixed: property=C19 6dc20c6 cniutil.CmdAdd wrote prevResult into the per-network config map shared through "
             "Galaxy.netConf while other requests read/marshal it (unsynchronised map write); the translator flags "
             "`W Galaxy.netConf[][] pkg/api/cniutil/cni.go:179` on the tree before the fix and nothing after it"},
]

ASSUMPTIONS = [
    "translator (trusted): an access is attributed the locks held on the linear walk of the function body; branches must "
    "agree on the lock state (checked, reported otherwise), loop bodies must be lock-neutral (checked)",
    "translator: an object is thread-local from its allocation (&T{}, make, new, var, constructor results seen through "
    "inlining) until it is stored into a shared object, a package variable, a channel or a goroutine; only accesses to "
    "shared objects are reported",
    "translator: interface method calls and calls outside the loaded packages are not followed; they are assumed to read "
    "(not retain, not publish, not write) what is reachable from their arguments; methods named Insert/Delete/Add/Set/... "
    "on a tracked container count as writes; function literals passed to them run synchronously under the current locks",
    "entry-point ownership: crdIpam.ConfigurePool's argument is a freshly decoded pool slice owned by the caller until "
    "ConfigurePool stores it (callers: schedulerplugin ensureIPAMConf/Init decode or own it); Galaxy.Init runs before the "
    "instance is shared (StartServer is called afterwards)",
    "copies: outside pkg/ipam/floatingip a FloatingIP value of unknown origin is a copy handed out by the exported IPAM "
    "interface; the walk verifies that no crdIpam entry point returns a pointer to a table object",
    "publication is safe: an immutable-after-publication field is written only while the object is thread-local and the "
    "object becomes shared through a lock-protected table (or before the server starts), which orders the writes before "
    "every later read",
    "sync.Once is seen as a lock: the function passed to X.once.Do runs holding it in write mode, everything after a Do call on "
    "the path holds it in read mode (Do returns only after the single execution of the function has completed); a location "
    "guarded by a Once (grpcCloudProvider.client) is therefore written only inside Do and read only after Do",
    "goroutine bodies: a function literal started by a go statement inside a loop must not store, without a lock, into a variable "
    "of the enclosing function (syntactic rule on the literal's free variables); variables written by a single goroutine and "
    "read after a WaitGroup.Wait are not covered",
    "informer caches: what a Lister/Indexer/Store method returns is the cache's own object (client-go contract); the results of "
    "DeepCopy and of clientset calls are private copies",
    "abstraction: each recorded access becomes the mini-program `acquire held locks; access; release` of the Coq model; "
    "the real code holds the locks longer, which only removes interleavings",
]


def pair_for(data, ei, ai):
    """the failing access and a conflicting partner (another entry point's access to the same location)"""
    e = data["coq_entries"][ei]
    a = e["accesses"][ai]
    partner = None
    for e2 in data["coq_entries"]:
        for a2 in e2["accesses"]:
            if a2["loc"] == a["loc"] and (a2["write"] or a["write"]) and (a2 is not a):
                ok2 = bool(a2["hw"]) if a2["write"] else bool(a2["hw"] or a2["hr"])
                cand = {"entry": e2["name"], "access": a2, "disciplined": ok2}
                if partner is None or (cand["disciplined"] and not partner["disciplined"]):
                    partner = cand
    return e, a, partner


def race_build(ctx):
    """-race build of harness/cmd/ghrace against the working tree; returns path or None"""
    if not ctx.build_harness("ghrace"):       # plain build first: regenerates go.mod next to the binaries
        return None
    env = dict(os.environ)
    env.update(vf.GOENV)
    out = os.path.join(vf.BIN, "ghrace-race")
    with vf.Lock("harness"):
        r = vf.sh(["go", "build", "-race", "-modfile=" + os.path.join(vf.BIN, "go.mod"), "-tags", "verif", "-o", out,
                   "./cmd/ghrace"], cwd=os.path.join(vf.ROOT, "harness"), env=env)
    if r.returncode != 0:
        vf.log("race build failed:", r.stdout[-2000:])
        return None
    return out


def run_detector(binary, a_entry, writers, iters):
    case = {"a": a_entry, "b": writers, "iters": iters}
    env = dict(os.environ)
    env["GORACE"] = "halt_on_error=0"
    try:
        p = subprocess.run([binary, "pair"], input=(json.dumps(case) + "\n").encode(), stdout=subprocess.PIPE,
                           stderr=subprocess.PIPE, timeout=240, env=env)
    except subprocess.TimeoutExpired:
        return case, None, "timeout"
    err = p.stderr.decode(errors="replace")
    reports = err.split("==================")
    reports = [r.strip() for r in reports if "DATA RACE" in r]
    return case, reports, p.stdout.decode(errors="replace").strip()


def report_matches(report, access):
    """the detector's report involves the source line of the undisciplined access"""
    m = re.search(r"([\w/\.]+\.go):(\d+)$", access["pos"])
    return bool(m) and ("/" + m.group(1) + ":" + m.group(2)) in report.replace(vf.REPO, "")


def run(ctx):
    ctx.cov["rule"] = ("one evaluation = one (entry point, tracked location, access kind, lock set, source position) tuple "
                       "extracted from the working tree and checked by the Coq decision procedure `disciplined`; every tuple "
                       "is distinct by construction")
    ctx.cov["trusted_base"] = vf.TRUSTED_COMMON[:2] + [
        "the Go-AST translator /verif/extractor (syntactic, trusted; go/packages + go/types of golang.org/x/tools v0.29.0): "
        "Coq checks its OUTPUT; tracked locations, entry points and ownership assumptions are extractor/config.go",
        "the Go race detector is used only to confirm a failing access pair (evidence, not proof)"]
    ctx.assumptions += ASSUMPTIONS
    ctx.theorems("C19", THEOREMS, REFUTED, deps=DEPS)
    data, err = locksgen.extract(ctx)
    ctx.cov["obligations"] += 2
    if data is None:
        ctx.violation("correspondence", "the lock/access summary cannot be extracted from the working tree",
                      {"log": err}, found=False, theorem="translator (extractor/)")
        return
    n_acc = 0
    for e in data["coq_entries"]:
        for a in e["accesses"]:
            n_acc += 1
            ctx.count([e["name"], a])
            ctx.dist(("W " if a["write"] else "R ") + a["loc"])
    ctx.cov["traces_validated_against_impl"] = len(data["coq_entries"])
    ctx.cov["translator"] = {"entry_points": [e["name"] for e in data["entries"]], "locks": data["locks"],
                             "locations": data["locs"], "guards": data["guards"], "accesses": n_acc,
                             "stats": data["stats"], "notes": data["notes"], "seconds": data["seconds"]}
    for e in data["coq_entries"]:
        if e["accesses"] and len(ctx.cov["samples"]) < 5 and e["name"] in (
                "crdIpam.AllocateSpecificIP", "Galaxy.cni", "crdKey.GetGroupVersionResource", "crdIpam.Collect",
                "PolicyManager.SyncPodIPInIPSet"):
            ctx.sample({"entry": e["name"], "accesses": e["accesses"][:6]})
    # the translator's own checks (lock state at branches/loops/returns, unlock of a lock not held, escaping pointers)
    for d in data["diagnostics"][:10]:
        ctx.violation("correspondence", "translator: " + d, {"diagnostic": d, "all": data["diagnostics"]}, found=False,
                      theorem="translator consistency checks", tags=["c19-diag"])
    # objects handed out by an informer cache (Lister / Indexer / Store methods) are the cache's own: shared with every other
    # reader and the informer goroutine, guarded by no lock of galaxy - a store through one fails the discipline outright
    cache_writes = data.get("cache_writes") or []
    ctx.cov["informer_cache_writes"] = len(cache_writes)
    ctx.cov["obligations"] += 1
    if not cache_writes:
        ctx.cov["discharged"] += 1
    cw_binary = None
    for cw in cache_writes[:4]:
        entry = cw["via"].split(":")[0]
        what = ("%s stores %s at %s through an object handed out by %s: that is the informer cache's own object, read without "
                "a lock by every other holder of the lister (reached via %s)" % (entry, cw["what"], cw["pos"], cw["from"], cw["via"]))
        replay = {"informer_cache_write": cw, "how": "bin/check C19 --replay <this file>"}
        found = False
        if cw_binary is None:
            cw_binary = race_build(ctx) or ""
        if cw_binary:
            case, reports, res = run_detector(cw_binary, entry, ["FloatingIPPlugin.Filter", entry], 150 if ctx.quick else 1000)
            replay["ghrace_case"] = case
            if reports:
                hits = [r for r in reports if report_matches(r, cw)]
                replay["race_detector_reports"] = (hits or reports)[:3]
                replay["race_detector_report_count"] = len(reports)
                found = bool(hits)
            else:
                replay["race_detector"] = "silent (%s)" % res
        ctx.violation("monitor", what, replay, found=found, theorem="disciplined generated = true (informer-cache objects are read-only)")
    # a variable of the enclosing function written, without a lock, by goroutines that a loop starts: every instance writes
    # the same variable (no struct field is involved, so no tracked location sees it)
    go_writes = data.get("go_writes") or []
    ctx.cov["goroutine_captured_writes"] = len(go_writes)
    ctx.cov["obligations"] += 1
    if not go_writes:
        ctx.cov["discharged"] += 1
    seen_pos = set()
    for gw in go_writes:
        if gw["pos"] in seen_pos or len(seen_pos) >= 3:
            continue
        seen_pos.add(gw["pos"])
        entry = gw["via"].split(":")[0]
        what = ("%s: goroutines started in a loop store into %s at %s without holding a lock (reached via %s)" % (
            entry, gw["what"], gw["pos"], gw["via"]))
        replay = {"goroutine_captured_write": gw, "how": "bin/check C19 --replay <this file>"}
        found = False
        if cw_binary is None:
            cw_binary = race_build(ctx) or ""
        if cw_binary:
            case, reports, res = run_detector(cw_binary, entry, [entry], 20 if ctx.quick else 100)
            replay["ghrace_case"] = case
            if reports:
                hits = [r for r in reports if report_matches(r, gw)]
                replay["race_detector_reports"] = (hits or reports)[:3]
                replay["race_detector_report_count"] = len(reports)
                found = bool(hits)
            else:
                replay["race_detector"] = "silent (%s)" % res
        ctx.violation("monitor", what, replay, found=found, theorem="disciplined generated = true (variables captured by goroutines)")
    bad, out = locksgen.bad_accesses(data)
    if bad is None:
        ctx.violation("proof", "Coq could not evaluate the discipline on the generated program", {"output": out[-3000:]},
                      found=False, theorem="disciplined generated")
        return
    ctx.cov["undisciplined_accesses"] = len(bad)
    if not bad:
        # instantiate the theorem on the generated program, at run time
        text = locksgen.HEADER + "From Galaxy.Props Require Import C19.\n" + (
            "Theorem generated_disciplined : disciplined lock_of generated = true.\nProof. vm_compute. reflexivity. Qed.\n"
            "Theorem galaxy_race_free : forall s, reachable generated s -> ~ race s.\n"
            "Proof. exact (lockset_sound lock_of generated generated_disciplined). Qed.\n"
            'Goal True. idtac "PA". Abort.\nPrint Assumptions galaxy_race_free.\n'
            "Definition n_entries := Eval vm_compute in List.length generated.\nPrint n_entries.\n")
        rc, out = locksgen.coqc_gen("RaceFree", text)
        if rc != 0 or "Closed under the global context" not in out.split("PA", 1)[-1]:
            ctx.violation("proof", "galaxy_race_free does not check on the generated program", {"output": out[-3000:]},
                          found=False, theorem="galaxy_race_free")
        else:
            ctx.cov["discharged"] += 2
            ctx.theorem_report["galaxy_race_free (run time, on the generated program)"] = {"axioms": []}
        return
    # ---- some access fails the discipline: name the pair, ask the race detector
    groups = {}
    for ei, ai in bad:
        e, a, partner = pair_for(data, ei, ai)
        groups.setdefault((e["name"], a["via"]), []).append((e, a, partner))
    binary = None
    for (ename, via), items in list(groups.items())[:4]:
        e, a, partner = items[0]
        locs = sorted({x[1]["loc"] for x in items})
        what = ("%s %s %s at %s without %s (reached via %s); conflicts with %s" % (
            ename, "writes" if a["write"] else "reads", ", ".join(locs), a["pos"],
            data["guards"].get(a["loc"], "any lock (the location is declared immutable after publication)"), via,
            ("%s at %s" % (partner["entry"], partner["access"]["pos"])) if partner else "another instance of itself"))
        writers = sorted({e2["name"] for e2 in data["coq_entries"] for a2 in e2["accesses"]
                          if a2["write"] and a2["loc"] in locs})
        if a["write"] and ename not in writers:
            writers.append(ename)
        # a write conflicts with the READERS of the location too (they may hold the lock in read mode only): a first, small
        # round runs the entry against itself, a few readers and - for crdIpam - the allocation that keeps the key the canned
        # arguments name supplied with IPs (the other writers would take them away again); the second round uses every writer
        readers = sorted({e2["name"] for e2 in data["coq_entries"] for a2 in e2["accesses"] if not a2["write"] and a2["loc"] in locs})
        small = ([ename] if a["write"] else []) + [r_ for r_ in readers if r_ != ename][:3] + \
            (["crdIpam.AllocateInSubnet"] if ename.startswith("crdIpam.") else [])
        feeder = ["crdIpam.AllocateInSubnet"] if ename.startswith("crdIpam.") else []
        inplace = [w_ for w_ in writers if w_ in ("crdIpam.UpdateAttr", "crdIpam.ReserveIP", "crdIpam.handleFIPAssign")]
        rounds = ([small] if a["write"] and small != writers else []) + \
            ([inplace + feeder] if not a["write"] and inplace else []) + [writers + [f_ for f_ in feeder if f_ not in writers]]
        replay = {"access_pair": {"undisciplined": [{"entry": x[0]["name"], "access": x[1]} for x in items],
                                  "partner": partner}, "how": "bin/check C19 --replay <this file>"}
        found = False
        if binary is None:
            binary = race_build(ctx) or ""
        for partners in (rounds if binary else []):
            case, reports, res = run_detector(binary, ename, partners, 150 if ctx.quick else 1000)
            replay["ghrace_case"] = case
            if reports:
                hits = [r for r in reports if any(report_matches(r, x[1]) for x in items)]
                replay["race_detector_reports"] = (hits or reports)[:3]
                replay["race_detector_report_count"] = len(reports)
                found = bool(hits)
                replay.pop("race_detector", None)
            else:
                replay["race_detector"] = "silent (%s)" % res
            if found:
                break
        tags = []
        if a["loc"].startswith("Galaxy.netConf[][]") and a["write"] and "cniutil.CmdAdd" in via:
            tags.append("c19-netconf-prevresult")
        ctx.violation("monitor", what, replay, found=found, theorem="disciplined generated = true", tags=tags)


def replay(ctx, path):
    r = json.load(open(path))
    rp = r["replay"]
    print(json.dumps(rp.get("access_pair"), indent=1))
    case = rp.get("ghrace_case")
    if case:
        binary = race_build(ctx)
        if binary:
            case, reports, res = run_detector(binary, case["a"], case["b"], case.get("iters", 300))
            print("race detector: %d report(s); result %s" % (len(reports or []), res))
            for rep in (reports or [])[:2]:
                print(rep)
