"""C01 - A floating IP is never held by two live pods."""
import plugincheck, ipamcheck

THEOREMS = ["one_owner", "live_pods_disjoint", "resync_passes_by_keys_without_a_pod", "underscore_pool_key_is_skipped",
            "resync_passes_by_nonvacuous"]
REFUTED = ["live_pods_disjoint_refuted_late_event_old"]
KNOWN_FINDINGS = [
    {"id": "F1", "status": "fixed", "commit": "53acf3f", "tag": "c01-late-event",
     "what": "fixed: property=C01 53acf3f a late delete/finish event of an earlier same-named pod released the live pod's IP, which "
             "was then handed to a second live pod (witness live_pods_disjoint_refuted_late_event_old; scenarios F1-late-event-*)"},
    {"id": "F13", "status": "fixed", "commit": "b734a7c", "tag": "c01-mixed-uid-key",
     "what": "fixed: property=C01 b734a7c Bind allocated further IPs under a key that still held IPs of the previous same-named pod; "
             "the next resync released every IP of the key including the live pod's, which a second live pod then received (scenario "
             "F13-mixed-uid-key)"},
]

MANIFEST = {
    "text": "Coq invariant proof over ALL well-formed histories of the scheduler-plugin model (any order of filter / bind / pod "
            "events / resync items / API releases / pod-IP syncs / reloads / restarts, arbitrary informer lag, event delay, loss and "
            "retry, same-name pods with new UIDs, one clean fault at any call of any section, every map-iteration oracle): "
            "one_owner (the allocation table is a map and is disjoint from the free table, exactly the configured addresses are in "
            "one of them) and live_pods_disjoint (two distinct live bound pods never hold the same IP in their binding "
            "annotations), derived from the world invariant WInv (Proofs/PluginInv.v; C04's live_bound_owned) + key injectivity. "
            "The old behaviour is refuted by live_pods_disjoint_refuted_late_event_old. Tied to the code by replaying scenario "
            "(old-versus-new-incarnation races, regression histories of F1/F2/F13) + random histories on the real "
            "FloatingIPPlugin vs the model step by step, and by evaluating mon_one_owner on the implementation's dumps after every "
            "step.",
    "note": "trusted: Coq kernel (no axioms); harness fakes; section atomicity (one history item = one region under the pod lock, "
            "DESIGN.md section 5: interleavings of goroutines inside a section are not explored); histories are those of wf_op "
            "(Proofs/PluginInv.v): fresh non-empty pod UIDs, '_'-free names, finished pods stay finished, reloads keep live pods' IPs "
            "and their deletions succeed, no administrator reservations (C09 at the crdIpam layer)",
}


def run(ctx):
    ctx.cov["rule"] = plugincheck.RULE_COMMON + "; monitor: no IP in the binding annotations of two live pods, no IP twice in the allocation table, tables disjoint (after every step of the well-formed prefix)"
    plugincheck.run(ctx, "C01", THEOREMS, REFUTED, plugincheck.mon_c01)
    reload_window(ctx)


def reload_window(ctx):
    """the plugin model treats ConfigurePool as one atomic step (the lock is held across the list since fix cdfc2c2): requests
    of every kind arriving while the real ConfigurePool lists the store must be serialised after it, memory = store afterwards"""
    ipamcheck.run(ctx, "C05", "C05", [], [], only="request-during-reload-list")


def replay(ctx, path):
    plugincheck.replay(ctx, path)
