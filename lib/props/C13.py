"""C13 - The IPs a plugin configures are exactly the IPs IPAM allocated."""
import json
import os
import vf
import plugincheck, plugingen
from vf import cN, cbool, cstr, clist, cpair, copt

IMPORTS = ("From Coq Require Import List Ascii String NArith ZArith Bool.\n"
           "From Galaxy.Base Require Import Strs.\nFrom Galaxy.Model Require Import Nets IpInfoCodec.\n"
           "From Galaxy.Corr Require Import CorrBase C13c.\n")

THEOREMS = ["ipinfos_end_to_end", "no_ipinfos_nothing_configured", "annotation_scanned", "enc_no_semicolon",
            "enc_no_outer_space", "ipinfos_key_no_equals", "json_print_parse", "decode_encode"]
REFUTED = []
# what Bind writes for the CNI plugin (Props/C13p.v, proofs in Proofs/PluginAnswerP.v)
PLUGIN_THEOREMS = ["bind_annotation_is_what_ipam_holds", "bind_infos_match_ips"]
DEPS = ["Strs", "Nets", "NetsP", "Keys", "KeysP", "Page", "PageP", "IpInfoCodec", "IpInfoCodecP", "CorrBase", "C13c", "C13"]

KNOWN_FINDINGS = []


MANIFEST = {
    "text": "Coq theorems over the executable model of the whole IP-information path (Model/IpInfoCodec.v): json.Marshal of "
            "[]IPInfo, the pod annotation written by Bind, the raw-member JSON scanner of the daemon, k=v;... argument building "
            "in any map order, CmdAdd's accumulation, the plugins' argument parser and cni/ipam's decoder. ipinfos_end_to_end: "
            "for ALL lists of IP infos (address < 2^32, prefix <= 32, vlan < 2^16, gateway), all requested-range annotations, all "
            "kubelet argument prefixes and every ordering of the args map, the decoder returns exactly the allocated address, "
            "prefix length, gateway and VLAN in order; supporting theorems annotation_scanned, enc_no_semicolon, "
            "enc_no_outer_space, ipinfos_key_no_equals, json_print_parse, decode_encode, no_ipinfos_nothing_configured. Tied to "
            "the code end to end: real encoder, real annotation, real galaxy argument passing (verif hook 7fed6f0) and a plugin "
            "binary that decodes with tkestack.io/galaxy/cni/ipam, compared with the model on generated pools and IP lists. galaxy-ipam's side (Props/C13p.v, Proofs/PluginAnswerP.v): bind_annotation_is_what_ipam_holds - a successful Bind writes max(1, number of range lists) IPs, each allocated under the pod's key for its UID; bind_infos_match_ips - one ipinfo per IP, carrying mask, gateway and vlan of a loaded pool that contains it.",
    "note": "trusted: Coq kernel (no axioms); encoding/json is modelled only for the shapes galaxy produces (ASCII, the IPInfo and "
            "CniArgs structs); the CNI exec protocol (env/stdin) is exercised by the harness, not modelled",
}


def ip2s(n):
    return "%d.%d.%d.%d" % (n >> 24 & 255, n >> 16 & 255, n >> 8 & 255, n & 255)


def cinfo(i):
    return "(mk_info %s %s %s %s)" % (cN(i[0]), cN(i[1]), cN(i[2]), "None" if i[3] < 0 else "(Some %s)" % cN(i[3]))


def cinfos(l):
    return clist(cinfo(i) for i in l)


def crr(rr):
    return clist(clist(cstr(s) for s in rs) for rs in rr)


def ckvs(m):
    return clist(cpair(cstr(k), cstr(v)) for k, v in sorted(m.items()))


def coalloc(o):
    """the plugin-side decoder's outcome, projected"""
    if o is None:
        return "ONothing"
    if o.get("res") == "ok":
        rs = o.get("results", [])
        if any(r is None or r[3] != 32 for r in rs):
            return "ODecPanic"      # not an IPv4 result: compares unequal to every in-domain expectation
        return "(OVals %s %s)" % (clist(cN(v) for v in o["vlans"]),
                                  clist("(%s, %s, %s)" % (cN(r[0]), cN(r[1]), "None" if r[2] is None else "(Some %s)" % cN(r[2]))
                                        for r in rs))
    if o.get("res") in ("panic", "decoder-panic"):
        return "ODecPanic"
    return "ONothing"


def in_domain(s):
    """the modelled JSON/text domain: ASCII, no escapes, no fractions/exponents, no IPv6 text"""
    return all(32 <= ord(c) < 127 or c in "\t\n\r" for c in s) and "\\" not in s


# ---------------------------------------------------------------------------- generators
BOUNDARY_IPS = [0, 1, 255, 256, 0x0a000005, 0x7fffffff, 0x80000000, 0xfffffffe, 0xffffffff, 0xc0a80001, 0x64400001,
                0x0a0a0a0a, 0x01010101, 0xa9fe0001]


def gen_info(rng, ctx):
    r = rng.random()
    plen = rng.choice([0, 1, 8, 12, 16, 20, 22, 24, 24, 24, 25, 26, 27, 28, 30, 31, 32])
    if r < 0.2:
        addr = rng.choice(BOUNDARY_IPS)
    else:
        addr = rng.randrange(1 << 32)
    size = 1 << (32 - plen)
    net = addr & ~(size - 1) & 0xffffffff
    g = rng.random()
    if g < 0.06:
        gw = -1                                   # pool without gateway: encoded as ""
        ctx.dist("info:gateway-absent")
    elif g < 0.2:
        gw = rng.choice(BOUNDARY_IPS)
        ctx.dist("info:gateway-boundary")
    else:
        gw = net + rng.randrange(size) if size > 1 else net
        ctx.dist("info:gateway-in-subnet")
    vlan = rng.choice([0, 0, 1, 2, 3, 9, 10, 99, 100, 1000, 4094, 4095, 4096, 9999, 10000, 65535, rng.randrange(65536)])
    ctx.dist("info:prefix-%s" % ("0" if plen == 0 else "32" if plen == 32 else "1-31"))
    return [addr, plen, vlan, gw]


def gen_infos(rng, ctx):
    n = rng.choice([1, 1, 1, 2, 2, 3, 4, 5, 8])
    ctx.dist("infos:%d" % n)
    return [gen_info(rng, ctx) for _ in range(n)]


def gen_rr(rng):
    if rng.random() < 0.6:
        return []
    out = []
    for _ in range(rng.choice([1, 2, 3])):
        rs = []
        for _ in range(rng.choice([1, 1, 2, 3])):
            a = rng.randrange(1 << 32)
            if rng.random() < 0.5:
                rs.append(ip2s(a))
            else:
                b = min(0xffffffff, a + rng.choice([1, 2, 10, 255, 70000]))
                rs.append(ip2s(a) + "~" + ip2s(b) if b > a else ip2s(a))
        out.append(rs)
    return out


KUBELET = ["IgnoreUnknown=1;K8S_POD_NAMESPACE=ns;K8S_POD_NAME=p;K8S_POD_INFRA_CONTAINER_ID=0123456789abcdef",
           "IgnoreUnknown=1;K8S_POD_NAMESPACE=kube-system;K8S_POD_NAME=a-0;K8S_POD_INFRA_CONTAINER_ID=c1;",
           "", ";", ";;", "K8S_POD_NAME=p", " K8S_POD_NAME = p ; x = y ", "a=b=c;d", "novalue", "=v", "k=",
           "ipinfos=bogus;K8S_POD_NAME=p", "K8S_POD_NAME=p;ipinfos=[]", "IPINFOS=x; ipinfos =y", "a=1;a=2;a=3"]


def enc_py(infos):
    """the encoder's text, in python (used only to build perturbed decoder inputs)"""
    return "[" + ",".join('{"ip":"%s/%d","vlan":%d,"gateway":"%s"}' % (ip2s(a), l, v, "" if g < 0 else ip2s(g))
                          for a, l, v, g in infos) + "]"


def perturb_value(rng, infos, ctx):
    """a decoder input near the encoder's image (still inside the modelled JSON domain)"""
    kind = rng.choice(["ws", "reorder", "case", "unknown", "dup", "noip", "nullelem", "nullip", "vlanrange", "vlanneg",
                       "vlanstr", "gwbad", "gwnull", "gwnum", "cidrbad", "notarray", "null", "empty", "trunc", "trail",
                       "nested", "lead0", "emptyobj", "semi"])
    ctx.dist("alloc:perturbed-" + kind)
    a, l, v, g = infos[0]
    ip, gw = "%s/%d" % (ip2s(a), l), ("" if g < 0 else ip2s(g))
    base = enc_py(infos)
    if kind == "ws":
        return base.replace(",", " , ").replace(":", " : ").replace("[", "[ ").replace("]", " ]").replace("{", "{\t")
    if kind == "reorder":
        return '[{"gateway":"%s","vlan":%d,"ip":"%s"}]' % (gw, v, ip)
    if kind == "case":
        return '[{"IP":"%s","Vlan":%d,"GATEWAY":"%s"}]' % (ip, v, gw)
    if kind == "unknown":
        return '[{"ip":"%s","mtu":1500,"vlan":%d,"x":{"y":[1,2,null,true,false,"z"]},"gateway":"%s"}]' % (ip, v, gw)
    if kind == "dup":
        return '[{"ip":"1.2.3.4/8","ip":"%s","vlan":7,"vlan":%d,"gateway":"%s"}]' % (ip, v, gw)
    if kind == "noip":
        return '[{"vlan":%d,"gateway":"%s"}]' % (v, gw)
    if kind == "nullelem":
        return "[null]" if rng.random() < 0.5 else base[:-1] + ",null]"
    if kind == "nullip":
        return '[{"ip":null,"vlan":%d}]' % v
    if kind == "vlanrange":
        return '[{"ip":"%s","vlan":%d,"gateway":"%s"}]' % (ip, rng.choice([65536, 70000, 10 ** 12]), gw)
    if kind == "vlanneg":
        return '[{"ip":"%s","vlan":-%d,"gateway":"%s"}]' % (ip, rng.choice([0, 1, 5]), gw)
    if kind == "vlanstr":
        return '[{"ip":"%s","vlan":"%d","gateway":"%s"}]' % (ip, v, gw)
    if kind == "gwbad":
        return '[{"ip":"%s","vlan":%d,"gateway":"%s"}]' % (ip, v, rng.choice(["10.0.0", "10.0.0.256", "x", "10.0.0.1/8", "01.2.3.4"]))
    if kind == "gwnull":
        return '[{"ip":"%s","vlan":%d,"gateway":null}]' % (ip, v)
    if kind == "gwnum":
        return '[{"ip":"%s","vlan":%d,"gateway":5}]' % (ip, v)
    if kind == "cidrbad":
        return '[{"ip":"%s","vlan":%d}]' % (rng.choice(["10.0.0.1", "10.0.0.1/33", "10.0.0.1/", "/8", "10.0.0.1/08", "10.0.0.256/8",
                                                        "", "a/b", "10.0.0.1/8 ", "010.0.0.1/8", "10.0.0.1/+8"]), v)
    if kind == "notarray":
        return rng.choice(['{"ip":"%s"}' % ip, '"x"', "5", "true"])
    if kind == "null":
        return "null"
    if kind == "empty":
        return rng.choice(["[]", "[ ]"])
    if kind == "trunc":
        return base[:rng.randrange(1, len(base))]
    if kind == "trail":
        return base + rng.choice(["]", "x", " ", ",", "[]"])
    if kind == "nested":
        return "[" + base + "]"
    if kind == "lead0":
        return '[{"ip":"%s","vlan":0%d,"gateway":"%s"}]' % (ip, v, gw)
    if kind == "emptyobj":
        return "[{}]"
    if kind == "semi":
        return '[{"ip":"%s","note":"a;b","vlan":%d}]' % (ip, v)
    return base


def gen_annotation_text(rng, infos, ctx):
    """annotations as a user (or another writer) might put them: same content, different layout"""
    enc = enc_py(infos)
    kind = rng.choice(["ws", "common-first", "case", "extra-common", "extra-top", "common-null", "common-empty", "no-common",
                       "trunc", "common-string", "ipinfos-ws", "dup-common-member", "semi-member", "not-object"])
    ctx.dist("ext:layout-" + kind)
    if kind == "ws":
        return ' { "common" : { "ipinfos" : %s } } ' % enc
    if kind == "common-first":
        return '{"common":{"ipinfos":%s},"request_ip_range":[["10.0.0.1"]]}' % enc
    if kind == "case":
        return '{"%s":{"ipinfos":%s}}' % (rng.choice(["Common", "COMMON", "cOmmon"]), enc)
    if kind == "extra-common":
        return '{"common":{"mtu":1500,"ipinfos":%s,"name":"x y","flag":true,"n":null,"o":{"a":[1,2]}}}' % enc
    if kind == "extra-top":
        return '{"x":1,"request_ip_range":null,"common":{"ipinfos":%s},"y":[{"common":1}]}' % enc
    if kind == "common-null":
        return '{"common":null}'
    if kind == "common-empty":
        return rng.choice(['{"common":{}}', '{"common":{ }}', "{}", "{ }"])
    if kind == "no-common":
        return '{"request_ip_range":[["10.0.0.1~10.0.0.3"]]}'
    if kind == "trunc":
        s = '{"common":{"ipinfos":%s}}' % enc
        return s[:rng.randrange(1, len(s))]
    if kind == "common-string":
        return rng.choice(['{"common":"x"}', '{"common":[1]}', '{"common":5}'])
    if kind == "ipinfos-ws":
        return '{"common":{"ipinfos": %s }}' % enc.replace(",", ", ")
    if kind == "dup-common-member":
        return '{"common":{"a":"1","a":"2"}}'
    if kind == "semi-member":
        return '{"common":{"ipinfos":%s,"note":"a;b=c"}}' % enc
    return rng.choice(["[1]", '"x"', "5"])


def daemon_phase(ctx, rng, n):
    """the whole path through the REAL daemon: the pod object is read from an API server stand-in with the two read paths of
    kube-apiserver (consistent read; watch-cache read for resourceVersion=0, which here still shows an EARLIER version of the pod
    with other IPs), galaxy resolves the networks, passes the arguments, executes the plugin binary of every network; the
    plugin's CNI_ARGS must carry exactly the IPs galaxy-ipam allocated and persisted in the pod's current annotation"""
    if not ctx.build_harness("ghcni") or not ctx.build_harness("fakecni"):
        return
    cases, want = [], []
    for i in range(n):
        infos = gen_infos(rng, ctx)
        old = gen_infos(rng, ctx)
        nets = rng.choice([1, 1, 2, 3])
        conf = {"NetworkConf": [{"name": "net%d" % j, "type": "fakecni"} for j in range(nets)], "DefaultNetworks": ["net%d" % j for j in range(nets)]}
        ann = {"k8s.v1.cni.galaxy.io/args": '{"common":{"ipinfos":%s}}' % enc_py(infos)}
        stale = rng.choice([{}, {"k8s.v1.cni.galaxy.io/args": '{"common":{"ipinfos":%s}}' % enc_py(old)}])
        cases.append({"conf": conf, "confdir": [], "pods": [{"name": "pod0", "ns": "ns", "annotations": ann, "cached_annotations": stale, "eni": False}],
                      "steps": [{"reqs": [{"cmd": "ADD", "cid": "cid0", "pod": "pod0", "ifname": "eth0",
                                           "args": "IgnoreUnknown=1;K8S_POD_NAMESPACE=ns;K8S_POD_NAME=pod0;K8S_POD_INFRA_CONTAINER_ID=cid0",
                                           "fail_add": [], "fail_del": []}]}]})
        want.append((infos, nets))
        ctx.dist("daemon:nets-%d" % nets)
        ctx.dist("daemon:cached-version-" + ("before-binding" if not stale else "earlier-ips"))
    # histories on ONE daemon: a second pod is set up on the same networks after the first - with other IPs, or without any
    # argument annotation (then its plugins must receive no ipinfos at all: nothing of an earlier request may linger)
    for i in range(max(8, n // 3)):
        nets = rng.choice([1, 2, 3])
        conf = {"NetworkConf": [{"name": "net%d" % j, "type": "fakecni"} for j in range(nets)], "DefaultNetworks": ["net%d" % j for j in range(nets)]}
        pods, steps, per_step = [], [], []
        for k in range(rng.choice([2, 2, 3])):
            infos = gen_infos(rng, ctx) if (k == 0 or rng.random() < 0.5) else None
            ann = {"k8s.v1.cni.galaxy.io/args": '{"common":{"ipinfos":%s}}' % enc_py(infos)} if infos is not None else {}
            pods.append({"name": "pod%d" % k, "ns": "ns", "annotations": ann, "eni": False})
            steps.append({"reqs": [{"cmd": "ADD", "cid": "cid%d" % k, "pod": "pod%d" % k, "ifname": "eth0",
                                    "args": "IgnoreUnknown=1;K8S_POD_NAMESPACE=ns;K8S_POD_NAME=pod%d;K8S_POD_INFRA_CONTAINER_ID=cid%d" % (k, k),
                                    "fail_add": [], "fail_del": []}]})
            per_step.append(infos)
        cases.append({"conf": conf, "confdir": [], "pods": pods, "steps": steps})
        want.append((per_step, nets))
        ctx.dist("daemon:history-%d-pods%s" % (len(pods), "-one-without-args" if any(x is None for x in per_step) else ""))
    obs = ctx.harness("cni", cases, cmd="ghcni", shards=16)
    if obs is None:
        return
    for c, o, (infos, nets) in zip(cases, obs, want):
        ctx.count({"daemon": [p_["annotations"] for p_ in c["pods"]], "nets": nets})
        if o is None or o.get("res") != "ok":
            ctx.violation("correspondence", "the daemon case did not run: %s" % str(o)[:300], {"case": c}, found=False, theorem="C13 daemon path")
            continue
        per_step = infos if len(c["steps"]) > 1 else [infos]
        ok, allargs, exp_all = len(o["steps"]) == len(per_step), [], []
        for st, want_infos in zip(o["steps"], per_step):
            log = [l for l in st["log"] if l.get("cmd") == "ADD"]
            got = []
            for l in log:
                kv = dict(p.split("=", 1) for p in l.get("args", "").split(";") if "=" in p)
                allargs.append(l.get("args"))
                if "ipinfos" not in kv:
                    got.append(None)
                    continue
                try:
                    got.append(json.loads(kv["ipinfos"]))
                except ValueError:
                    got.append("unparsable")
            exp = json.loads(enc_py(want_infos)) if want_infos is not None else None
            exp_all.append(exp)
            ok = ok and len(log) == nets and all(g == exp for g in got)
        if not ok:
            ctx.violation("monitor", "the IPs the plugins receive through the real daemon are not the IPs galaxy-ipam persisted in the pod's "
                          "current annotation (ipinfos_end_to_end on the daemon path)",
                          {"case": c, "plugin_args": allargs, "expected_ipinfos_per_request": exp_all,
                           "cache_reads_by_the_daemon": o.get("cache_reads")}, found=True, theorem="ipinfos_end_to_end")


def mon_c13_bind(h, o, nwf, keys):
    """what Bind writes into the pod's annotation (the ipinfos the CNI plugin will configure) is what galaxy-ipam holds for the
    pod: one entry per requested range list (one entry without ranges), every one allocated to the pod's key for its UID - also
    when the same incarnation is bound a second time"""
    out = []
    specs = plugincheck.spec_index(h)
    steps = (o.get("steps") or [])[:nwf]
    prev = None
    for si, (op, st) in enumerate(zip(h["ops"], steps)):
        d = st.get("dump")
        if d is None:
            break
        if prev is not None and op["op"] == "bind" and st.get("res") == "ok":
            sp = plugincheck.lister_spec(prev, specs, op["ns"], op["name"])
            if sp is not None:
                key = plugingen.pod_key(sp)
                mine = {e[0]: e for e in d["alloc"] if e[1] == key}
                ips = st.get("ips") or []
                want = max(1, len(sp.get("Ranges") or []))
                ok = len(ips) == want and len(st.get("infos") or []) == want and all(x in mine and mine[x][4] == sp["Uid"] for x in ips)
                out.append((plugincheck.lit(ok), si, "bind_annotation_is_what_ipam_holds", []))
        prev = d
    return out


def run(ctx):
    rng = ctx.rng
    n_enc = 500 if ctx.quick else 5000
    n_e2e = 320 if ctx.quick else 3200
    n_alloc = 500 if ctx.quick else 5000
    n_ext = 300 if ctx.quick else 3000
    n_args = 300 if ctx.quick else 3000
    ctx.cov["rule"] = ("ipinfo lists generated from one PRNG (addresses incl. boundaries, prefix lengths 0..32, VLAN 0..65535, gateways "
                       "in-subnet / boundary / absent, 1-8 IPs, optional request_ip_range); a case is non-trivial when it is a distinct "
                       "input; each runs on the real json.Marshal of constant.CniArgs / []constant.IPInfo (what Bind writes), the real "
                       "galaxy resolveNetworks/parseExtendedCNIArgs, the real cniutil.CmdAdd EXECUTING a plugin binary per network, and "
                       "the real cni/ipam.Allocate inside that plugin process; the same cases run through the Coq model; the theorem's "
                       "predicate (decoded = allocated, in order) is evaluated on what the plugin process itself decoded")
    ctx.cov["trusted_base"] = vf.TRUSTED_COMMON + [
        "encoding/json is modelled for escape-free printable ASCII strings and integer literals (scanner + struct decoding of IPInfo); "
        "escapes, fractions/exponents, non-ASCII and IPv6 texts are outside the modelled domain and not generated",
        "the API server stores the annotation string unchanged (it is an opaque string value of the pod object)",
        "libcni's invoke passes Args to the plugin process as the CNI_ARGS environment variable unchanged (exercised for real: the "
        "harness plugin binary is executed by cniutil.CmdAdd)"]
    ctx.assumptions += ["the annotation Bind wrote is the pod's current annotation (json.Marshal of constant.CniArgs); that the DAEMON reads "
                        "the current one is checked on the real daemon against an API stand-in whose cache lags (daemon_phase)",
                        "address < 2^32, prefix length <= 32, VLAN < 2^16 (the Go types' ranges)"]
    ctx.theorems("C13", THEOREMS, REFUTED, deps=DEPS)
    if not ctx.build_harness("ghkeyscni"):
        return
    corpus = json.load(open(vf.ROOT + "/corpus/C13.json"))
    cases = []
    for c in corpus["cases"]:
        cases.append(dict(c))
        ctx.dist("corpus")
    for _ in range(n_enc):
        cases.append({"op": "enc", "infos": gen_infos(rng, ctx) if rng.random() > 0.03 else [], "rr": gen_rr(rng)})
    for _ in range(n_e2e):
        infos = gen_infos(rng, ctx) if rng.random() > 0.05 else []
        c = {"op": "e2e", "infos": infos, "rr": gen_rr(rng), "kubelet": rng.choice(KUBELET), "nets": rng.choice([1, 1, 2, 3, 4])}
        ctx.dist("e2e:nets-%d" % c["nets"])
        if rng.random() < 0.4:
            # every second network's configuration names a third-party ipam plugin too (the fallback for pods without ipinfos)
            c["ipam_section"] = True
            ctx.dist("e2e:netconf-with-ipam-section")
        if rng.random() < 0.2:
            c = {"op": "e2e", "annotation": gen_annotation_text(rng, infos or gen_infos(rng, ctx), ctx), "kubelet": rng.choice(KUBELET),
                 "nets": rng.choice([1, 2, 3])}
            ctx.dist("e2e:explicit-annotation")
        cases.append(c)
    for _ in range(n_alloc):
        infos = gen_infos(rng, ctx)
        r = rng.random()
        val = enc_py(infos) if r < 0.3 else perturb_value(rng, infos, ctx)
        pre = rng.choice(KUBELET)
        key = rng.choice(["ipinfos", "ipinfos", "ipinfos", " ipinfos", "ipinfos ", "IPINFOS", "ipinfo"])
        sep = rng.choice(["=", "=", "= ", " = "])
        args = (pre + ";" if pre and rng.random() < 0.8 else "") + key + sep + val + rng.choice(["", "", ";", ";x=y", " "])
        cases.append({"op": "alloc", "args": args})
    for _ in range(n_ext):
        cases.append({"op": "ext", "annotation": gen_annotation_text(rng, gen_infos(rng, ctx), ctx)})
    for _ in range(n_args):
        parts = []
        for _ in range(rng.choice([0, 1, 2, 3, 5])):
            parts.append(rng.choice(["a=1", "b = 2", " c=3 ", "a=4", "novalue", "", "=x", "k=", "x=y=z", "ipinfos=[1]", "\tk\t=\tv\t"]))
        cases.append({"op": "parseargs", "s": ";".join(parts)})
        m = {rng.choice(["a", "b", "ipinfos", "k1", "x-y"]): rng.choice(["1", "", "[{\"a\":1}]", "v w"]) for _ in range(rng.choice([0, 1, 2, 3]))}
        cases.append({"op": "buildargs", "m": m})
        ctx.dist("args:parse/build")
    env = {"GHKEYS_CNI_DIR": vf.BIN}
    obs = ctx.harness("ipinfo", cases, cmd="ghkeys", env=env, shards=16)
    if obs is None:
        return
    daemon_phase(ctx, rng, 40 if ctx.quick else 400)
    # galaxy-ipam's side of the hand-over: the annotation Bind writes (real FloatingIPPlugin vs Model/Plugin.v, regression and
    # incarnation scenarios incl. a second Bind of the same incarnation after a failed pods/binding call)
    # (+ reloads that change a pool's prefix length / gateway / vlan: what Bind writes carries the attributes in force)
    plugincheck.run(ctx, "C13", PLUGIN_THEOREMS, [], lambda h, o, nwf, keys: mon_c13_bind(h, o, nwf, keys) + plugincheck.mon_c20_plugin(h, o, nwf, keys),
                    module="C13p", nrandom=(40, 400), per_config=(1, 2), all_steps=True,
                    extra_scenarios=plugincheck.attr_reload_scenarios(ctx.rng, ctx))
    corr, idx_corr, mons, mon_info = [], [], [], []
    for i, (c, o) in enumerate(zip(cases, obs)):
        ctx.count(c)
        res = o.get("res")
        if res in ("panic", "timeout", "crash", "not-run", "harness-error"):
            ctx.violation("monitor", "%s on a C13 %s case" % (res, c["op"]), {"case": c, "obs": o}, found=True)
            continue
        op = c["op"]
        if op == "enc":
            if res != "ok":
                ctx.violation("monitor", "the real encoder failed on an in-domain ipinfo list", {"case": c, "obs": o}, found=True)
                continue
            corr.append("(chk_enc %s %s %s %s %s)" % (cinfos(c["infos"]), crr(c["rr"]), cstr(o["enc"]) if c["infos"] else cstr("[]"),
                                                     cstr(o["marshal_cni_args"]), cstr(o["annotation"])))
            idx_corr.append(i)
            if c["infos"]:
                mons.append("(mon_enc_text %s)" % cstr(o["enc"]))
                mon_info.append(("enc_no_semicolon", "json.Marshal([]IPInfo) produced a ';' or outer white space: %r" % o["enc"],
                                 {"case": c, "obs": o}))
        elif op == "ext":
            if not in_domain(c["annotation"]):
                continue
            ok = res == "ok"
            corr.append("(chk_ext %s %s %s)" % (cstr(c["annotation"]), cbool(ok), ckvs(o.get("members", {}) if ok else {})))
            idx_corr.append(i)
        elif op == "parseargs":
            corr.append("(chk_parseargs %s %s)" % (cstr(c["s"]), ckvs(o.get("map", {}))))
            idx_corr.append(i)
        elif op == "buildargs":
            corr.append("(chk_buildargs %s %s)" % (ckvs(c["m"]), cstr(o["s"])))
            idx_corr.append(i)
        elif op == "alloc":
            if not in_domain(c["args"]):
                continue
            corr.append("(chk_alloc %s %s)" % (cstr(c["args"]), coalloc(o)))
            idx_corr.append(i)
            ctx.dist("allocres:" + ("values" if res == "ok" else res))
        elif op == "e2e":
            if res == "resolve-err":
                # the daemon rejected the annotation: the model must reject it too
                if in_domain(c.get("annotation", "")):
                    corr.append("(chk_ext %s false [])" % cstr(c["annotation"]))
                    idx_corr.append(i)
                ctx.dist("e2e:annotation-rejected")
                continue
            explicit = "annotation" in c
            ann = o["annotation"]
            if not in_domain(ann):
                continue
            if not explicit:
                corr.append("(chk_e2e_ann %s %s %s)" % (cinfos(c["infos"]), crr(c["rr"]), cstr(ann)))
                idx_corr.append(i)
            for k, (na, po) in enumerate(zip(o["net_args"], o["plugin"])):
                corr.append("(chk_e2e_net %s %s %s %s %s %s)" % (cstr(ann), cstr(c["kubelet"]), cN(k), ckvs(na),
                                                                 cstr(po["args"] if po else ""), coalloc(po)))
                idx_corr.append(i)
                if not explicit:
                    mons.append("(mon_e2e %s %s)" % (cinfos(c["infos"]), coalloc(po)))
                    mon_info.append(("ipinfos_end_to_end",
                                     "network %d of %d: the plugin decoded %s from CNI_ARGS %r, IPAM allocated %s" % (
                                         k, len(o["net_args"]), json.dumps({x: po.get(x) for x in ("res", "vlans", "results", "err")} if po else None),
                                         po["args"] if po else None, c["infos"]),
                                     {"case": c, "obs": o, "how": "bin/check C13 --replay <this file>"}))
            if len(ctx.cov["samples"]) < 4 and not explicit and len(c["infos"]) >= 2 and c["nets"] >= 2:
                ctx.sample({"case": c, "annotation": ann, "plugin_saw": o["plugin"][-1]})
    ctx.cov["traces_validated_against_impl"] = len(corr)
    rc = ctx.coq_bools("corr", IMPORTS, corr)
    rm = ctx.coq_bools("mon", IMPORTS, mons)
    if rc is None or rm is None:
        ctx.violation("correspondence", "the Coq evaluation of the C13 cases failed", {}, found=False,
                      theorem="C13 correspondence (Corr/C13c.v)")
        return
    nbad = 0
    for ok, (thm, what, info) in zip(rm, mon_info):
        if not ok:
            nbad += 1
            if nbad <= 40:
                ctx.violation("monitor", what, info, found=True, theorem=thm)
    bad_corr = sorted({idx_corr[k] for k, b in enumerate(rc) if not b})
    if bad_corr:
        ex = [{"case": cases[i], "obs": obs[i]} for i in bad_corr[:5]]
        ctx.violation("correspondence", "model and implementation disagree on %d C13 case(s)" % len(bad_corr),
                      {"disagreements": ex, "theorems_no_longer_about_the_code": THEOREMS}, found=False,
                      theorem="C13 correspondence (Corr/C13c.v chk_enc/chk_ext/chk_parseargs/chk_buildargs/chk_alloc/chk_e2e_net)")
    ctx.cov["disagreements"] = len(bad_corr)
    ctx.cov["monitor_failures"] = nbad
    ctx.cov["monitors_evaluated"] = len(mons)


def replay(ctx, path):
    r = json.load(open(path))
    rp = r["replay"]
    cs = [rp["case"]] if "case" in rp else [d["case"] for d in rp.get("disagreements", [])]
    if not ctx.build_harness("ghkeyscni"):
        return
    obs = ctx.harness("ipinfo", cs, cmd="ghkeys", env={"GHKEYS_CNI_DIR": vf.BIN})
    for c, o in zip(cs, obs or []):
        print(json.dumps({"case": c, "observed_now": o}))
