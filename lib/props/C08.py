"""C08 - Multi-IP requests get one IP per range, all or nothing."""
import ipamcheck, plugincheck, plugingen

THEOREMS = ["alloc_ranges_ok", "alloc_ranges_atomic", "rollback_restores"]
REFUTED = []
# the same property at the level of the scheduler plugin's Bind (Props/C08p.v, proofs in Proofs/PluginAnswerP.v)
PLUGIN_THEOREMS = ["bind_ranges_in_order", "bind_all_or_nothing", "bind_ranges_in_order_nonvacuous", "bind_store_fault_keeps_nothing",
                   "held_slot_is_first_in_walk_order", "by_key_ranges_deterministic", "held_slot_single_range", "held_slot_first_range",
                   "held_slot_is_first_nonvacuous"]

MANIFEST = {
    "text": "Coq theorems about the model of AllocateInSubnetsAndIPRange with the rollback loop modelled explicitly: alloc_ranges_ok "
            "(k distinct IPs, i-th in the i-th range list, each free and routable before, owned by the key in memory and store "
            "afterwards, nothing else changed), alloc_ranges_atomic (ANY non-success - not enough IPs or the j-th Create failing for "
            "any j - leaves a state IDENTICAL to the one before), rollback_restores. Tied to the code by histories with a creation "
            "fault at every index on the real crdIpam vs the model, and by the monitor mon_ranges on the implementation's dumps. At the level of the scheduler plugin's Bind (Props/C08p.v, Proofs/PluginAnswerP.v): bind_ranges_in_order - k requested range lists give k IPs, the i-th inside the i-th list, pairwise different for disjoint lists; bind_all_or_nothing - whatever fails (the j-th object creation for any j, a provider call, pods/binding), the key's IPs are what they were or every range list has one.",
    "note": "trusted: Coq kernel (no axioms); fake API server; requested ranges pairwise disjoint (the property's quantifier); a "
            "failure of a rollback delete is a second fault and outside the quantifier. Plugin level: the IPs Bind reports (and "
            "writes into the pod's annotation) are one per requested range list IN REQUEST ORDER also when some lists are already "
            "owned by the key (monitor bind_ranges_in_order on the real FloatingIPPlugin, incarnation scenarios incl. a request that "
            "grows in front of an owned range; Bind's result list is compared with Model/Plugin.v bind_section step by step)",
}

def run(ctx):
    ctx.cov["rule"] = ("histories centred on AllocateInSubnetsAndIPRange with pairwise-disjoint requested range lists (boundary "
                       "addresses, ranges straddling pools and unconfigured addresses, partially pre-owned ranges, reservations not "
                       "yet seen) with a creation fault at EVERY index; compared step by step with Model/Ipam.v; monitor mon_ranges on "
                       "the implementation's dumps: success = one distinct free routable IP per list in request order and nothing "
                       "else changed, failure = dump identical to the one before")
    kinds = ["alloc_ranges"] * 8 + ["alloc_in_subnet"] * 2 + ["release"] * 2 + ["admin_reserve", "watch_deliver", "configure",
                                                                                 "release_ips", "by_key_ranges"]
    ipamcheck.run(ctx, "C08", "C08", THEOREMS, REFUTED, kinds=kinds)
    # plugin level: what Bind reports for a multi-range request
    plugincheck.run(ctx, "C08", PLUGIN_THEOREMS, [], mon_c08, module="C08p", nrandom=(40, 400), per_config=(1, 2), fixed=False)


def mon_c08(h, o, nwf, keys):
    """every successful bind of a pod with requested range lists reports one IP per list, the i-th inside the i-th list; a bind
    that fails on the creation of a store object leaves the key's IPs as they were (all or nothing)"""
    out = []
    specs = plugincheck.spec_index(h)
    steps = (o.get("steps") or [])[:nwf]
    prev = None
    for si, (op, st) in enumerate(zip(h["ops"], steps)):
        d = st.get("dump")
        if d is None:
            break
        if prev is not None and op["op"] == "bind" and st.get("res") != "skipped":
            sp = plugincheck.lister_spec(prev, specs, op["ns"], op["name"])
            if sp is not None and sp.get("Ranges"):
                if st.get("res") == "ok":
                    ips = st.get("ips") or []
                    ok = len(ips) == len(sp["Ranges"]) and all(plugincheck.in_range_list(rl, x) for rl, x in zip(sp["Ranges"], ips)) and \
                        len(set(ips)) == len(ips)
                    out.append((plugincheck.lit(ok), si, "bind_ranges_in_order", []))
                elif any(c[0] == "create" and c[2] for c in st.get("calls") or []):
                    key = plugingen.pod_key(sp)
                    same = sorted(e[0] for e in prev["alloc"] if e[1] == key) == sorted(e[0] for e in d["alloc"] if e[1] == key)
                    out.append((plugincheck.lit(same), si, "bind_all_or_nothing", []))
        prev = d
    return out


def replay(ctx, path):
    ipamcheck.replay(ctx, path)
