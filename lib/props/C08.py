"""C08 - Multi-IP requests get one IP per range, all or nothing."""
import ipamcheck

THEOREMS = ["alloc_ranges_ok", "alloc_ranges_atomic", "rollback_restores"]
REFUTED = []

MANIFEST = {
    "text": "Coq theorems about the model of AllocateInSubnetsAndIPRange with the rollback loop modelled explicitly: alloc_ranges_ok "
            "(k distinct IPs, i-th in the i-th range list, each free and routable before, owned by the key in memory and store "
            "afterwards, nothing else changed), alloc_ranges_atomic (ANY non-success - not enough IPs or the j-th Create failing for "
            "any j - leaves a state IDENTICAL to the one before), rollback_restores. Tied to the code by histories with a creation "
            "fault at every index on the real crdIpam vs the model, and by the monitor mon_ranges on the implementation's dumps.",
    "note": "trusted: Coq kernel (no axioms); fake API server; requested ranges pairwise disjoint (the property's quantifier); a "
            "failure of a rollback delete is a second fault and outside the quantifier; bind-level reporting order is covered by the "
            "plugin-level checks",
}

def run(ctx):
    ctx.cov["rule"] = ("histories centred on AllocateInSubnetsAndIPRange with pairwise-disjoint requested range lists (boundary "
                       "addresses, ranges straddling pools and unconfigured addresses, partially pre-owned ranges, reservations not "
                       "yet seen) with a creation fault at EVERY index; compared step by step with Model/Ipam.v; monitor mon_ranges on "
                       "the implementation's dumps: success = one distinct free routable IP per list in request order and nothing "
                       "else changed, failure = dump identical to the one before")
    kinds = ["alloc_ranges"] * 8 + ["alloc_in_subnet"] * 2 + ["release"] * 2 + ["admin_reserve", "watch_deliver", "configure",
                                                                                 "release_ips", "by_key_ranges"]
    ipamcheck.run(ctx, "C08", "C08", THEOREMS, REFUTED, kinds=kinds)


def replay(ctx, path):
    ipamcheck.replay(ctx, path)
