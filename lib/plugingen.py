"""Generators and Coq printers for scheduler-plugin histories (C01-C04, C06, C07, C10 and the plugin halves of C05/C08)."""
import copy, json
import vf, ipamgen
from vf import cN, cbool, cstr, clist, copt, cpair, cnat
from ipamgen import O, cjson, cdump, cranges, csubnet, s2ip, ip2s

IMPORTS = ("From Coq Require Import String.\nFrom stdpp Require Import gmap.\nFrom Galaxy.Base Require Import Strs.\n"
           "From Galaxy.Model Require Import Nets Pool Ipam Plugin PluginPool PluginCrash.\nFrom Galaxy.Model Require Keys.\n"
           "From Galaxy.Corr Require Import CorrBase Ipamc Pluginc.\n")

NODES = {"node1": "10.1.0.7", "node2": "10.2.0.9", "node3": "10.3.0.5", "node4": "10.77.0.1",
         # nodes in the upper half of their /24: a reload may split a node subnet in two
         "node5": "10.1.0.200", "node6": "10.2.0.130"}


def pod_key(s):
    pool = ("pool__%s_" % s["Pool"]) if s.get("Pool") else ""
    if s["Kind"] == "sts":
        return "%ssts_%s_%s_%s" % (pool, s["Ns"], s["App"], s["Name"])
    if s["Kind"] == "dp":
        return "%sdp_%s_%s_%s" % (pool, s["Ns"], s["App"], s["Name"])
    return "%sNULL_%s_NULL_%s" % (pool, s["Ns"], s["Name"])


def ckind(k):
    return {"sts": "KSts", "dp": "KDp"}.get(k, "KBare")


def cpod(s, node="", ips=()):
    return ("{| pd_ns := %s; pd_name := %s; pd_uid := %s; pd_kind := %s; pd_app := %s; pd_pool := %s; pd_policy := %s; "
            "pd_ranges := %s; pd_phase := %s; pd_node := %s; pd_ips := %s |}" % (
                cstr(s["Ns"]), cstr(s["Name"]), cstr(s["Uid"]), ckind(s["Kind"]), cstr(s.get("App", "")), cstr(s.get("Pool", "")),
                cN(s.get("Policy", 0)), cranges(s.get("Ranges") or []), cN(s.get("Phase", 0)), cstr(node), clist(cN(x) for x in ips)))


def cpk(ns, name):
    return cpair(cstr(ns), cstr(name))


# ------------------------------------------------------------------ topologies for plugin histories
def plugin_topology(rng):
    """pools whose node subnets are those of node1..node3; small ranges"""
    k = rng.choice([1, 2, 2, 3])
    pools = []
    subnets = ["10.1.0.0/24", "10.2.0.0/24", "10.3.0.0/24"]
    share = rng.random() < 0.3      # the pools share one pod subnet (same gateway), with disjoint ranges and their own node subnets
    for i in range(k):
        base = (10 << 24) | ((100 + (0 if share else i)) << 16)
        ns = rng.sample(subnets, rng.choice([1, 2, 3]))
        rs = []
        cur = base + 2 + (16 * i if share else 0)
        for _ in range(rng.choice([1, 2])):
            last = cur + rng.choice([0, 1, 2, 3])
            rs.append([cur, last])
            cur = last + 2
        pools.append({"nodeSubnets": ns, "subnet": "%s/24" % ip2s(base), "gateway": ip2s(base + 1), "vlan": rng.choice([0, 2]),
                      "ranges": rs})
    return pools


def conf_text(pools):
    return "[" + ",".join(ipamgen.render(ipamgen.pool_tree(p)) for p in pools) + "]"


def conf_trees(text):
    try:
        return clist(cjson(t) for t in json.loads(text, object_pairs_hook=lambda p: O(p)))
    except ValueError:
        # the text is not ONE JSON document (trailing text, two documents glued together ...): json.Unmarshal rejects it before
        # any pool is decoded.  The JSON grammar is not part of the plugin model (Model/Pool.v starts from trees; C20's own phase
        # covers the decoder): a stand-in tree that decode_pools rejects
        return "[JBool true]"


# ------------------------------------------------------------------ history generator
class Gen:
    def __init__(self, rng, ctx=None, provider=None, policies=None, kinds=None, faults=True, wf=False, pool_api=False):
        self.rng, self.ctx = rng, ctx
        self.pool_api = pool_api
        self.wf = wf               # stay inside the histories the L2 theorems quantify over (Proofs/PluginInv.v wf_op)
        self.pools = plugin_topology(rng)
        self.provider = rng.random() < 0.5 if provider is None else provider
        self.uidn = 0
        self.truth = {}            # (ns,name) -> spec
        self.ops = []
        self.faults = faults
        pol = policies or [0, 1, 2]
        self.templates = []
        kinds = kinds or ["sts", "sts", "dp", "dp", "dppool", "bare"]
        ips = ipamgen.topo_ips(self.pools)
        for k in kinds:
            if k == "sts":
                app = rng.choice(["web", "db"])
                self.templates.append({"Ns": "ns1", "Kind": "sts", "App": app, "Policy": rng.choice(pol), "names": [app + "-0", app + "-1", app + "-2"]})
            elif k == "dp":
                self.templates.append({"Ns": "ns1", "Kind": "dp", "App": "api", "Policy": rng.choice(pol),
                                       "names": ["api-7f9c6d-x1", "api-7f9c6d-x2", "api-7f9c6d-x3"]})
            elif k == "dppool":
                self.templates.append({"Ns": rng.choice(["ns1", "ns2"]), "Kind": "dp", "App": rng.choice(["job", "api"]), "Pool": "p1", "Policy": rng.choice([0, 0, 1, 2]),
                                       "names": ["job-7f9c6d-y1", "job-7f9c6d-y2"]})
            else:
                self.templates.append({"Ns": "ns1", "Kind": "bare", "App": "", "Policy": rng.choice([0, 0, 2]), "names": ["bare-1", "solo"]})
        for t in self.templates:
            if t["Kind"] != "dp" or t["Policy"] == 0 and not t.get("Pool"):
                if rng.random() < 0.3 and ips:
                    a = rng.choice(ips)
                    t["Ranges"] = [[ip2s(a) + "~" + ip2s(a + 1)]] if rng.random() < 0.6 else [[ip2s(a)], [ip2s(a + 2) + "~" + ip2s(a + 3)]]

    def dist(self, k):
        if self.ctx:
            self.ctx.dist(k)

    def new_pod(self):
        t = self.rng.choice(self.templates)
        name = self.rng.choice(t["names"])
        self.uidn += 1
        s = {"Ns": t["Ns"], "Name": name, "Uid": "u%d" % self.uidn, "Kind": t["Kind"], "App": t.get("App", ""), "Pool": t.get("Pool", ""),
             "Policy": t["Policy"], "Ranges": t.get("Ranges") or [], "Phase": 0, "Node": ""}
        self.truth[(s["Ns"], name)] = s
        return {"op": "pod_put", "pod": s}

    def some_pod(self):
        if not self.truth:
            return None
        return self.rng.choice(sorted(self.truth))

    def fault(self, what):
        if not self.faults or self.rng.random() > 0.15:
            return {}
        return {what: self.rng.choice([0, 0, 1, 2])}

    def gen_op(self):
        r = self.rng
        kinds = ["pod_put"] * 4 + ["informer"] * 6 + ["filter"] * 5 + ["bind"] * 6 + ["pod_phase"] * 3 + ["pod_delete"] * 3 + \
            ["event"] * 5 + ["resync"] * 3 + ["api_release"] * 2 + ["sync_pod"] * 2 + ["app_set"] * 3 + ["pool_set"] + \
            ["drop_event", "restart", "reload"]
        if self.pool_api:
            kinds += ["api_pool"] * 4 + ["pool_set"] * 3
        k = r.choice(kinds)
        self.dist("op:" + k)
        if k == "pod_put":
            return self.new_pod()
        if k in ("informer", "filter", "bind", "pod_phase", "pod_delete", "sync_pod"):
            key = self.some_pod() if r.random() < 0.85 or k in ("filter",) else None
            if key is None:
                t = r.choice(self.templates)
                key = (t["Ns"], r.choice(t["names"]))
            ns, name = key
            if k == "informer":
                return {"op": k, "ns": ns, "name": name}
            if k == "filter":
                return dict({"op": k, "ns": ns, "name": name, "nodes": r.sample(sorted(NODES), r.choice([2, 3, 4])) + (["ghost"] if r.random() < 0.1 else [])},
                            **self.fault("fstore"))
            if k == "bind":
                f = {}
                if self.faults and r.random() < 0.2:
                    f = r.choice([{"fstore": r.choice([0, 1])}, {"fcloud": r.choice([0, 1])}, {"fbind": 1}])
                return dict({"op": k, "ns": ns, "name": name, "uid": r.choice(["@truth"] * 6 + (["u1", "u2"] if self.wf else ["u1", ""])),
                             "node": r.choice(sorted(NODES))}, **f)
            if k == "pod_phase":
                ph = r.choice([1, 1, 2, 3])
                sp = self.truth.get(key)
                if self.wf and sp is not None:
                    if sp.get("_finished"):
                        ph = r.choice([2, 3])          # a finished pod never runs again
                    if ph in (2, 3):
                        sp["_finished"] = True
                return {"op": k, "ns": ns, "name": name, "phase": ph}
            if k == "pod_delete":
                self.truth.pop(key, None)
                return {"op": k, "ns": ns, "name": name}
            if k == "sync_pod" and r.random() < 0.4:
                return {"op": k, "ns": ns, "name": name, "stale": True}     # with the object the informer showed before
            return {"op": k, "ns": ns, "name": name}
        if k == "event":
            f = {}
            if self.faults and r.random() < 0.2:
                f = r.choice([{"fstore": r.choice([0, 1])}, {"fcloud": 0}])
            return dict({"op": k, "n": r.choice([0, 0, 0, 1, 2])}, **f)
        if k == "resync" and r.random() < 0.35:
            return {"op": r.choice(["resync_fetch", "resync_item", "resync_item"]), "ip": "@a%d" % r.randrange(6)}
        if k == "resync":
            return dict({"op": k, "ip": "@a%d" % r.randrange(6)}, **({"fcloud": 0} if self.faults and r.random() < 0.1 else {}))
        if k == "api_release":
            j = r.randrange(6)
            return dict({"op": k, "ip": "@a%d" % j, "key": r.choice(["@ka%d" % j] * 5 + ["sts_ns1_web_web-0"])},
                        **({"fcloud": 0} if self.faults and r.random() < 0.1 else {}))
        if k == "app_set":
            t = r.choice(self.templates)
            if t["Kind"] == "sts":
                return {"op": "sts_set", "ns": t["Ns"], "name": t["App"], "replicas": r.choice([0, 1, 2, 3, None])}
            return {"op": "dp_set", "ns": t["Ns"], "name": t.get("App") or "api", "replicas": r.choice([0, 1, 2, 3, None])}
        if k == "pool_set":
            return {"op": k, "name": "p1", "size": r.choice([0, 1, 2, 3, None])}
        if k == "api_pool":
            return dict({"op": k, "name": r.choice(["p1", "p1", "p2"]), "size": r.choice([0, 1, 2, 3, 5]), "prealloc": r.random() < 0.8},
                        **self.fault("fstore"))
        if k == "drop_event":
            return {"op": k, "n": 0}
        if k == "restart":
            return {"op": k}
        if k == "reload":
            return {"op": k, "conf": conf_text(self.pools)}
        raise ValueError(k)

    def history(self, n):
        ops = []
        # workloads exist from the start, most of the time
        for t in self.templates:
            if self.rng.random() < 0.85:
                if t["Kind"] == "sts":
                    ops.append({"op": "sts_set", "ns": t["Ns"], "name": t["App"], "replicas": self.rng.choice([1, 2, 3])})
                elif t["Kind"] == "dp":
                    ops.append({"op": "dp_set", "ns": t["Ns"], "name": t["App"], "replicas": self.rng.choice([1, 2, 3])})
            if t.get("Pool") and self.rng.random() < 0.6:
                ops.append({"op": "pool_set", "name": t["Pool"], "size": self.rng.choice([1, 2, 3])})
        for _ in range(n):
            ops.append(self.gen_op())
        return {"provider": self.provider, "nodes": NODES, "conf": conf_text(self.pools), "ops": ops}


def gen_history(rng, ctx=None, n=None, **kw):
    g = Gen(rng, ctx, **kw)
    return g.history(n or rng.choice([10, 16, 24, 32]))


# ------------------------------------------------------------------ observations -> Coq
def cfaults(store=None, update=None, cloud=None, bind=0):
    f = lambda x: "None" if x is None else "(Some %s)" % cnat(x)
    return "{| f_store := %s; f_update := %s; f_cloud := %s; f_bind := %s |}" % (f(store), f(update), f(cloud), cN(bind))


def coracle(first=None, choice=None, order=()):
    f = lambda x: "None" if x is None else "(Some %s)" % cN(x)
    return "{| o_first := %s; o_choice := %s; o_order := %s |}" % (f(first), f(choice), clist(cN(x) for x in order))


def key_ips(dump, key):
    return [e[0] for e in dump["alloc"] if e[1] == key]


def inj_index(calls, verb_group):
    """index (among the calls whose verb is in verb_group, counting get+update pairs as one step) of the injected call"""
    idx = -1
    for c in calls or []:
        if c[0] in verb_group and c[0] != "update":
            idx += 1
        if c[2] and c[0] in verb_group:
            return max(idx, 0)
    return None


def cwdump(d):
    pods = clist("(%s, %s, %s, %s, %s, %s)" % (cstr(p[0]), cstr(p[1]), cstr(p[2]), cN(p[3]), cstr(p[4]), clist(cN(x) for x in p[5]))
                 for p in d["pods"])
    q = clist("(%s, %s, %s)" % (cstr(e[0]), cstr(e[1]), cstr(e[2])) for e in d["queue"])
    cl = clist(cpair(cN(c[0]), cstr(c[1])) for c in d["cloud"])
    return "{| wd_ipam := %s; wd_pods := %s; wd_queue := %s; wd_cloud := %s |}" % (cdump(d), pods, q, cl)


def translate(hist, obs, ext=False):
    """-> (Coq list pstep_obs term, number of modelled steps, truncation reason or None, per-step meta list)"""
    terms, meta = [], []
    specs = {}       # (ns,name) -> latest spec put (API truth, by the generator's ops)
    prev = None
    conf = hist["conf"]
    for op, o in zip(hist["ops"], obs.get("steps") or []):
        if o.get("res") in ("panic", "timeout", "harness-error") or "dump" not in o:
            return clist(terms), len(terms), "impl-" + str(o.get("res")), meta
        d = o["dump"]
        k = op["op"]
        calls = o.get("calls") or []
        cloud = o.get("cloudcalls") or []
        res = o.get("res")
        t = None
        out = "ROk" if res == "ok" else "RErr"
        if k == "pod_put":
            s = op["pod"]
            specs[(s["Ns"], s["Name"])] = s
            t = "(PEnv (EPodPut %s))" % cpod(s, ips=[s2ip(x) for x in s.get("PreIps") or []])
            out = "ROk"
        elif k == "pod_delete":
            t = "(PEnv (EPodDelete %s))" % cpk(op["ns"], op["name"])
        elif k == "pod_terminating":
            prev = d
            continue              # a deletion timestamp changes nothing for galaxy-ipam: the pod is alive until its object is gone
        elif k == "pod_phase":
            t = "(PEnv (EPodPhase %s %s))" % (cpk(op["ns"], op["name"]), cN(op["phase"]))
        elif k == "informer":
            t = "(PEnv (EInformer %s))" % cpk(op["ns"], op["name"])
        elif k in ("sts_set", "dp_set"):
            r = op.get("replicas")
            t = "(PEnv (%s %s %s))" % ("EStsSet" if k == "sts_set" else "EDpSet", cpk(op["ns"], op["name"]),
                                        "None" if r is None else "(Some %s)" % cN(r))
        elif k == "pool_set":
            r = op.get("size")
            t = "(PEnv (EPoolSet %s %s))" % (cstr(op["name"]), "None" if r is None else "(Some %s)" % cN(r))
        elif k == "drop_event":
            if res == "skipped":
                prev = d
                continue
            t = "(PEnv (EDropEvent %s))" % cnat(op["n"])
            out = "ROk"
        elif k == "filter":
            if res == "skipped":
                prev = d
                continue
            s = specs.get((op["ns"], op["name"]))
            if s is None:
                return clist(terms), len(terms), "unknown-pod", meta
            mine = key_ips(prev or {"alloc": []}, pod_key(s))
            # K7 (repaired): ByKeyAndIPRanges(key, nil) lists the key's IPs in ascending order - "the first" is the smallest
            first = min(mine) if (mine and not s.get("Ranges")) else None
            w = [c for c in calls if c[0] in ("create", "get")]
            choice = s2ip(w[0][1]) if w else None
            fs = 0 if any(c[2] for c in calls) else None
            t = "(PFilter %s %s %s %s)" % (cpk(op["ns"], op["name"]), clist(cstr(n) for n in op["nodes"]), coracle(first, choice),
                                          cfaults(store=fs))
            out = "(RNodes %s)" % clist(cstr(n) for n in o.get("nodes") or []) if res == "ok" else "RErr"
        elif k == "bind":
            if res == "skipped":
                prev = d
                continue
            lp = None
            for p in (prev or {"lister": []})["lister"]:
                if p[0] == op["ns"] and p[1] == op["name"]:
                    lp = p
            s = None
            if lp is not None:
                # the informer's object decides the key: find the spec of that incarnation
                for cand in [specs.get((op["ns"], op["name"]))] + [x for x in obs.get("_allspecs", [])]:
                    if cand and cand["Uid"] == lp[2] and cand["Ns"] == op["ns"] and cand["Name"] == op["name"]:
                        s = cand
            first = None
            if s is not None:
                mine = key_ips(prev or {"alloc": []}, pod_key(s))
                first = min(mine) if (mine and not s.get("Ranges")) else None
            elif lp is not None:
                return clist(terms), len(terms), "unknown-lister-incarnation", meta
            creates = [c for c in calls if c[0] == "create"]
            inj = [c for c in calls if c[2]]
            if "fcrash" in op and inj and inj[0][0] == "create":
                # the process died inside the multi-IP allocation (a death at a later call equals that call failing: below)
                if ext != 3:
                    return clist(terms), len(terms), "crash-in-plain-history", meta
                k = len([c for c in creates if not c[2]])
                t3 = "(PCrashBind %s %s %s %s %s)" % (cstr(op["ns"]), cstr(op["name"]), cstr(o.get("uid", "")), cstr(o.get("node", op["node"])), cnat(k))
                terms.append("(" + t3 + ", (R1 RErr), " + "(Some " + cwdump(d) + ")" + ")")
                meta.append((k, len(terms) - 1, t3))
                prev = d
                continue
            if any(c[0] == "delete" and c[2] for c in calls):
                return clist(terms), len(terms), "fault-in-rollback", meta
            choice = s2ip(creates[0][1]) if creates else None
            fstore = None
            for i, c in enumerate(creates):
                if c[2]:
                    fstore = i
            fupd = None
            gi = -1
            for c in calls:
                if c[0] == "get":
                    gi += 1
                if c[0] in ("get", "update") and c[2]:
                    fupd = gi
            fcloud = None
            for i, c in enumerate(cloud):
                if not c[3]:
                    fcloud = i
            fbind = 1 if "injected" in (o.get("bindlog") or []) else 0
            t = "(PBind %s %s %s %s %s %s)" % (cstr(op["ns"]), cstr(op["name"]), cstr(o.get("uid", "")), cstr(o.get("node", op["node"])),
                                              coracle(first, choice), cfaults(fstore, fupd, fcloud, fbind))
            out = "(RIps %s)" % clist(cN(x) for x in o.get("ips") or []) if res == "ok" else "RErr"
        elif k in ("event", "event_loop"):
            # (event_loop: the same section, reached through the real event loop - a failed attempt queues the event again)
            if res == "skipped":
                prev = d
                continue
            ounassign = [s2ip(c[1]) for c in cloud]
            fcloud = None
            for i, c in enumerate(cloud):
                if not c[3]:
                    fcloud = i
            dels = [c for c in calls if c[0] == "delete"]
            gets = [c for c in calls if c[0] == "get"]
            order = [s2ip(c[1]) for c in (dels or gets)]
            fstore = None
            if dels:
                for i, c in enumerate(dels):
                    if c[2]:
                        fstore = i
            else:
                gi = -1
                for c in calls:
                    if c[0] == "get":
                        gi += 1
                    if c[2]:
                        fstore = gi
            t = "(PEvent %s %s %s %s)" % (cnat(op["n"]), coracle(order=order), clist(cN(x) for x in ounassign),
                                         cfaults(store=fstore, cloud=fcloud))
        elif k == "resync_fetch":
            prev = d
            continue                  # taking the snapshot changes nothing; the items are the model's steps
        elif k == "resync_item" and (res == "skipped" or not o.get("in_snapshot") or
                                     not any(e[0] == s2ip(o["ip"]) and e[1] == o.get("snapshot_key") for e in (prev or {"alloc": []})["alloc"])):
            prev = d
            continue                  # not in the snapshot, or the key changed since: the item aborts (the next dump comparison shows it)
        elif k in ("resync", "api_release", "resync_item"):
            ip = s2ip(o["ip"])
            ent = [e for e in (prev or {"alloc": []})["alloc"] if e[0] == ip]
            fcloud = None
            for i, c in enumerate(cloud):
                if not c[3]:
                    fcloud = i
            if any(c[2] for c in calls):
                return clist(terms), len(terms), "store-fault-in-resync", meta
            gets = [s2ip(c[1]) for c in calls if c[0] == "get"]
            dels = [s2ip(c[1]) for c in calls if c[0] == "delete"]
            nclear = 0
            oun = []
            fupd = None
            if k == "api_release":
                # K3b (repaired): UpdateAttr of this IP only (one get + update), then the release
                if ent and any(c[3] for c in cloud):
                    nclear = 1
            elif ent and cloud and all(c[3] for c in cloud):
                key = ent[0][1]
                nclear = len([e for e in prev["alloc"] if e[1] == key and (e[3] != "" or e[4] != "")])
            if k != "api_release":
                oun = [s2ip(c[1]) for c in cloud]          # the unassign loop's order (a failing call is its last element)
            oclear, rest = gets[:nclear], gets[nclear:]
            if k == "api_release":
                oclear = []
            else:
                oclear = oun + oclear
            order = dels or rest
            if k in ("resync", "resync_item"):
                t = "(PResync %s %s %s %s)" % (cN(ip), coracle(order=order), clist(cN(x) for x in oclear), cfaults(cloud=fcloud))
                out = "ROk"
            else:
                t = "(PApiRelease (Keys.parse_key %s) %s %s %s)" % (cstr(o["key"]), cN(ip), clist(cN(x) for x in oclear), cfaults(cloud=fcloud))
        elif k == "sync_pod":
            if res == "skipped":
                prev = d
                continue
            if any(c[2] for c in calls):
                return clist(terms), len(terms), "store-fault-in-sync", meta
            ob = o.get("obj")
            sp = next((x for x in obs.get("_allspecs") or all_specs(hist) if ob and x["Uid"] == ob[2] and x["Ns"] == ob[0] and x["Name"] == ob[1]), None)
            if sp is None:
                return clist(terms), len(terms), "sync-object-unknown", meta
            # the object the sync holds: the informer's current one, or - "stale" - the one it showed before (an earlier incarnation)
            t = "(PSyncPod %s %s)" % (cpod(dict(sp, Phase=ob[3]), node=ob[4], ips=ob[5]), cfaults())
            out = "ROk"
        elif k == "pool_race":
            # a pool request and a Filter of a pod of that pool, issued concurrently: both hold the pool mutex, so the run is the
            # request followed by the filter - unless they overlapped, which no sequential model step describes
            if ext is False or o.get("filter_during_request"):
                return clist(terms), len(terms), "concurrent-sections-overlapped" if o.get("filter_during_request") else "pool-request-in-plain-history", meta
            cnt = len([e for e in (prev or {"alloc": []})["alloc"] if e[1].startswith("pool__%s_" % op["name"])])
            need = max(0, op["size"] - cnt)
            creates = [c for c in calls if c[0] == "create"]
            mine = creates[:need]
            t2 = "(PApiPool %s %s true %s None)" % (cstr(op["name"]), cN(op["size"]), clist(cN(s2ip(c[1])) for c in mine))
            out2 = "(RPool %s)" % {"ok": "PoolOk", "notenough": "PoolNotEnough"}.get(res, "PoolErr")
            rest = [c for c in calls if c not in mine]
            w2 = [c for c in rest if c[0] in ("create", "get")]
            sp = specs.get((op["ns"], op["pod"]))
            if sp is None:
                return clist(terms), len(terms), "unknown-pod", meta
            t1 = "(PFilter %s %s %s %s)" % (cpk(op["ns"], op["pod"]), clist(cstr(n) for n in op["nodes"]),
                                           coracle(None, s2ip(w2[0][1]) if w2 else None), cfaults())
            out1 = "(RNodes %s)" % clist(cstr(n) for n in o.get("nodes") or []) if not o.get("filter_err") else "RErr"
            # the state between the two is not observed: the composite is compared after the second step only
            terms.append("(" + ("(P2 %s)" % t2 if ext == 3 else t2) + ", " + out2 + ", " + "None" + ")")
            t1w, out1w = "(P1 %s)" % t1, "(R1 %s)" % out1
            if ext == 3:
                t1w = "(P2 %s)" % t1w
            terms.append("(" + t1w + ", " + out1w + ", " + "(Some " + cwdump(d) + ")" + ")")
            meta.append((k, len(terms) - 1, t1))
            prev = d
            continue
        elif k == "event_race":
            # two release events handled by two goroutines: one after the other (the sections exclude each other) or overlapping -
            # the monitors judge the outcome; no single model step describes the pair
            return clist(terms), len(terms), "concurrent-events", meta
        elif k == "filter_race":
            # two Filter requests issued concurrently for pods sharing a pool: both hold the pool mutex from counting to allocating,
            # so the run is the first followed by the second - unless they overlapped, which no sequential model step describes
            if o.get("second_during_first"):
                return clist(terms), len(terms), "concurrent-sections-overlapped", meta
            w2 = [c for c in calls if c[0] in ("create", "get")]
            outs = []
            for j, nm in enumerate(op["pods"]):
                sp = specs.get((op["ns"], nm))
                if sp is None:
                    return clist(terms), len(terms), "unknown-pod", meta
                nodes_j = o.get("nodes_a" if j == 0 else "nodes_b") or []
                err_j = o.get("err_a" if j == 0 else "err_b")
                ch = None
                if nodes_j and w2:
                    ch = s2ip(w2.pop(0)[1])
                tj = "(PFilter %s %s %s %s)" % (cpk(op["ns"], nm), clist(cstr(n) for n in op["nodes"]), coracle(None, ch), cfaults())
                oj = "(RNodes %s)" % clist(cstr(n) for n in nodes_j) if not err_j else "RErr"
                if ext:
                    tj, oj = "(P1 %s)" % tj, "(R1 %s)" % oj
                if ext == 3:
                    tj = "(P2 %s)" % tj
                outs.append((tj, oj))
            terms.append("(" + outs[0][0] + ", " + outs[0][1] + ", None)")
            terms.append("(" + outs[1][0] + ", " + outs[1][1] + ", (Some " + cwdump(d) + "))")
            meta.append((k, len(terms) - 1, outs[1][0]))
            prev = d
            continue
        elif k == "api_pool":
            if not ext:
                return clist(terms), len(terms), "pool-request-in-plain-history", meta
            mw = op.get("meanwhile")
            if mw and (o.get("meanwhile_during") and mw["kind"] == "request" or mw["kind"] == "object" and mw["at"] == "create"):
                # two pool requests that overlapped (impossible while the whole request is one section under the pool mutex), or an
                # object written by someone else right before the request's Create: no sequential model step describes that
                return clist(terms), len(terms), "concurrent-pool-requests", meta
            if mw and mw["kind"] == "request":
                # the second request could only run after the first: two requests in a row, the state in between is not observed
                cnt = len([e for e in (prev or {"alloc": []})["alloc"] if e[1].startswith("pool__%s_" % op["name"])])
                creates = [c for c in calls if c[0] == "create"]
                need = max(0, op["size"] - cnt) if op.get("prealloc") else 0
                mine, rest = creates[:need], creates[need:]
                if any(c[2] for c in creates):
                    return clist(terms), len(terms), "store-fault-in-concurrent-pool-requests", meta
                tb = "(PApiPool %s %s %s %s None)" % (cstr(op["name"]), cN(op["size"]), cbool(op.get("prealloc", False)), clist(cN(s2ip(c[1])) for c in mine))
                ta = "(PApiPool %s %s %s %s None)" % (cstr(op["name"]), cN(mw["size"]), cbool(mw.get("prealloc", False)), clist(cN(s2ip(c[1])) for c in rest))
                outb = "(RPool %s)" % {200: "PoolOk", 202: "PoolNotEnough"}.get(o.get("code"), "PoolErr")
                outa = "(RPool %s)" % {200: "PoolOk", 202: "PoolNotEnough"}.get(o.get("meanwhile_code"), "PoolErr")
                if ext == 3:
                    tb, ta = "(P2 %s)" % tb, "(P2 %s)" % ta
                terms.append("(" + tb + ", " + outb + ", None)")
                terms.append("(" + ta + ", " + outa + ", (Some " + cwdump(d) + "))")
                meta.append((k, len(terms) - 1))
                prev = d
                continue
            creates = [c for c in calls if c[0] == "create"]
            picks = [s2ip(c[1]) for c in creates]
            nfail = None
            for i, c in enumerate(creates):
                if c[2]:
                    nfail = i
            t2 = "(PApiPool %s %s %s %s %s)" % (cstr(op["name"]), cN(op["size"]), cbool(op.get("prealloc", False)), clist(cN(x) for x in picks),
                                               "None" if nfail is None else "(Some %s)" % cnat(nfail))
            out2 = "(RPool %s)" % {"ok": "PoolOk", "notenough": "PoolNotEnough"}.get(res, "PoolErr")
            if ext == 3:
                t2 = "(P2 %s)" % t2
            terms.append("(" + t2 + ", " + out2 + ", " + "(Some " + cwdump(d) + ")" + ")")
            meta.append((k, len(terms) - 1))
            prev = d
            continue
        elif k == "reload":
            # a failing List inside ConfigurePool: nothing changes, the configuration in force stays (the next tick retries)
            lf = any(c[2] and c[0] == "list" for c in calls)
            if any(c[2] and c[0] != "list" for c in calls):
                return clist(terms), len(terms), "store-fault-in-reload", meta
            if not lf and res == "ok":
                conf = op["conf"]
            t = "(PIpam (OConfigure %s %s []))" % (conf_trees(op["conf"]), cbool(lf))
        elif k == "restart":
            t = "(PRestart %s)" % conf_trees(conf)
        if t is None:
            return clist(terms), len(terms), "unmodelled-op-" + k, meta
        if ext:
            t, out = "(P1 %s)" % t, "(R1 %s)" % out
        if ext == 3:
            t = "(P2 %s)" % t
        terms.append("(" + t + ", " + out + ", " + "(Some " + cwdump(d) + ")" + ")")
        meta.append((k, len(terms) - 1, t))
        prev = d
    return clist(terms), len(terms), None, meta


def all_specs(hist):
    return [op["pod"] for op in hist["ops"] if op["op"] == "pod_put"]


def cnodes(nodes):
    return clist(cpair(cstr(n), cN(s2ip(ip))) for n, ip in sorted(nodes.items()))
