"""Shared by C19 (lock discipline) and C18 (lock balance): run the Go-AST translator on the repository's CURRENT
working tree, compile its output (build/gen-*/Locks.v, never inside the git tree) and evaluate the Coq decision
procedures on it."""
import hashlib, json, os, re, subprocess
import vf

GEN = os.path.join(vf.BUILD, "gen-" + hashlib.sha1(vf.REPO.encode()).hexdigest()[:8])
COQFLAGS = ["-Q", os.path.join(vf.COQ, "theories"), "Galaxy", "-Q", GEN, "Gen",
            "-w", "-notation-overridden,-deprecated-hint-without-locality,-ambiguous-paths"]


def extract(ctx):
    """returns (data, error_text).  Rebuilds the translator (offline) and runs it on vf.REPO."""
    env = dict(os.environ)
    env.update(vf.GOENV)
    with vf.Lock("extractor"):
        r = vf.sh([os.path.join(vf.ROOT, "extractor", "build.sh"), vf.BIN], env=env)
        if r.returncode != 0:
            return None, "the translator does not build:\n" + r.stdout[-3000:]
        os.makedirs(GEN, exist_ok=True)
        for f in ("Locks.v", "locks.json", "Locks.vo", "Locks.glob", "Locks.vok", "Locks.vos"):
            try:
                os.remove(os.path.join(GEN, f))
            except OSError:
                pass
        r = vf.sh([os.path.join(vf.BIN, "extractor"), vf.REPO, GEN], env=env)
        if r.returncode != 0 or not os.path.exists(os.path.join(GEN, "locks.json")):
            return None, "the translator failed on the working tree (does it still type-check?):\n" + r.stdout[-3000:]
        vf.log(r.stdout.strip())
        r = vf.sh(["timeout", "600", "coqc"] + COQFLAGS + [os.path.join(GEN, "Locks.v")], cwd=GEN, preexec_fn=vf._big_stack)
        if r.returncode != 0:
            return None, "the generated Locks.v does not compile:\n" + r.stdout[-3000:]
    data = json.load(open(os.path.join(GEN, "locks.json")))
    for k in ("diagnostics", "notes", "functions", "entries"):
        data[k] = data.get(k) or []
    for e in data["entries"]:
        e["accesses"] = e.get("accesses") or []
    for f in data["functions"]:
        f["paths"] = f.get("paths") or []
        f["undeferred_calls"] = f.get("undeferred_calls") or []
    data["coq_entries"] = [e for e in data["entries"] if not e["init"]]   # order of `entries` in Locks.v
    return data, None


def coqc_gen(name, text, timeout=900):
    """compile a run-time file that may import Gen.Locks; returns (rc, output)"""
    path = os.path.join(GEN, name + ".v")
    with open(path, "w") as f:
        f.write(text)
    r = vf.sh(["timeout", str(timeout), "coqc"] + COQFLAGS + [path], cwd=GEN, preexec_fn=vf._big_stack)
    for ext in (".vo", ".vok", ".vos", ".glob"):
        try:
            os.remove(os.path.join(GEN, name + ext))
        except OSError:
            pass
    return r.returncode, r.stdout


HEADER = ("From Coq Require Import List NArith Bool.\nFrom Galaxy.Model Require Import Lockset.\n"
          "From Gen Require Import Locks.\nImport ListNotations.\nOpen Scope N_scope.\n")


def bad_accesses(data):
    """(entry index, access index) pairs that fail the discipline, computed by Coq (vm_compute); None on failure"""
    rc, out = coqc_gen("BadAcc", HEADER + "Definition bad := Eval vm_compute in bad_accesses lock_of entries.\n"
                       'Goal True. idtac "BADLIST". Abort.\nPrint bad.\n')
    if rc != 0 or "BADLIST" not in out:
        return None, out
    body = out.split("BADLIST", 1)[1]
    return [(int(a), int(b)) for a, b in re.findall(r"\((\d+),\s*(\d+)\)", body)], out


def unbalanced(data):
    """indices of functions with an unbalanced path, computed by Coq; None on failure"""
    rc, out = coqc_gen("Unbal", HEADER + "Definition unbal := Eval vm_compute in unbalanced fn_paths.\n"
                       'Goal True. idtac "UNBAL". Abort.\nPrint unbal.\n')
    if rc != 0 or "UNBAL" not in out:
        return None, out
    body = out.split("UNBAL", 1)[1].split(":", 1)[0]
    return [int(x) for x in re.findall(r"\b(\d+)\b", body.split("=", 1)[1] if "=" in body else body)], out
