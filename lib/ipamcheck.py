"""Shared driver of the crdIpam-level checks (C05, C08, C09): histories on the real crdIpam vs Model/Ipam.v,
plus the property monitors evaluated on the implementation's own dumps."""
import copy, json
import vf, ipamgen
from vf import cN, cbool, cstr, clist
from ipamgen import O, cjson, cdump, cranges, csubnet, history_term, IMPORTS

DEPS = ["Strs", "Nets", "Pool", "NetsP", "PoolP", "Ipam", "IpamP", "IpamResvP", "CorrBase", "Ipamc"]

P1 = {"nodeSubnets": ["10.1.0.0/24"], "subnet": "10.100.0.0/24", "gateway": "10.100.0.1", "vlan": 0,
      "ranges": [[ipamgen.s2ip("10.100.0.2"), ipamgen.s2ip("10.100.0.2")]]}
P2 = {"nodeSubnets": ["10.1.0.0/24", "10.2.0.0/24"], "subnet": "10.101.0.0/24", "gateway": "10.101.0.1", "vlan": 2,
      "ranges": [[ipamgen.s2ip("10.101.0.2"), ipamgen.s2ip("10.101.0.5")], [ipamgen.s2ip("10.101.0.9"), ipamgen.s2ip("10.101.0.10")]]}
A0 = {"policy": 0, "node": "node1", "uid": "uid-a"}


def conf_op(pools, **kw):
    return dict({"op": "configure", "pools": [ipamgen.render(ipamgen.pool_tree(p)) for p in pools], "_topo": pools}, **kw)


def scenarios():
    """deterministic histories aimed at the mechanisms the three properties name (also the regression cases of
    the repaired defects F3 and F11)"""
    S = []
    # F11: reservation deleted, reload, pod takes the IP, stale delete event arrives
    S.append(("stale-reservation-delete-event", [
        conf_op([P1]), {"op": "admin_reserve", "ip": "10.100.0.2", "key": "pool__reserved_", "policy": 2},
        {"op": "watch_deliver", "ip": "@pending"}, {"op": "admin_unreserve", "ip": "10.100.0.2"}, conf_op([P1, P2]),
        {"op": "alloc_ranges", "key": "sts_ns1_web_web-0", "subnet": "10.1.0.0/24", "ranges": [["10.100.0.2"]], "attr": A0},
        {"op": "watch_deliver", "ip": "@pending"}, {"op": "restart"}]))
    # F3: an allocation arrives while ConfigurePool is listing the store
    for nested in ({"op": "alloc_ranges", "key": "sts_ns1_web_web-0", "subnet": "10.1.0.0/24", "ranges": [["10.101.0.3"]], "attr": A0},
                   {"op": "alloc_specific", "key": "sts_ns1_web_web-1", "ip": "10.101.0.4", "attr": A0},
                   {"op": "release", "key": "sts_ns1_db_db-0", "ip": "10.101.0.9"},
                   # updates of an existing object in the window: a reserve IP handed to a pod, attributes rewritten, a reservation
                   {"op": "alloc_with_key", "old": "sts_ns1_db_db-0", "new": "dp_ns1_api_api-7f9c-x1", "subnet": "10.2.0.0/24", "attr": A0},
                   {"op": "update_attr", "key": "sts_ns1_db_db-0", "ip": "10.101.0.9", "attr": {"policy": 2, "node": "node2", "uid": "uid-b"}},
                   {"op": "reserve", "old": "sts_ns1_db_db-0", "new": "sts_ns1_db_db-0", "attr": {"policy": 0, "node": "", "uid": ""}}):
        S.append(("request-during-reload-list:" + nested["op"], [
            conf_op([P2]),
            {"op": "alloc_ranges", "key": "sts_ns1_db_db-0", "subnet": "10.2.0.0/24", "ranges": [["10.101.0.9"]], "attr": A0},
            conf_op([P2, P1], during_list=nested), {"op": "restart"}]))
    # a reservation made for a pool (key = the pool's prefix) is handed to a pod of the pool (AllocateInSubnetWithKey re-keys it,
    # UpdateAttr records the node; the object keeps its reserved label), then the administrator deletes the object: memory and
    # store must agree afterwards, and a new process must see what the old one saw
    PK = "pool__p1_dp_ns1_api_api-7f9c-x1"
    for upd in (False, True):
        for tail in (["deliver"], ["deliver", "alloc"], []):
            ops = [conf_op([P2]), {"op": "admin_reserve", "ip": "10.101.0.3", "key": "pool__p1_", "policy": 2}, {"op": "watch_deliver", "ip": "@pending"},
                   {"op": "alloc_with_key", "old": "pool__p1_", "new": PK, "subnet": "10.2.0.0/24", "attr": {"policy": 2, "node": "", "uid": "uid-x1"}}]
            if upd:
                ops.append({"op": "update_attr", "key": PK, "ip": "10.101.0.3", "attr": {"policy": 2, "node": "node2", "uid": "uid-x1"}})
            ops.append({"op": "admin_unreserve", "ip": "10.101.0.3"})
            if "deliver" in tail:
                ops.append({"op": "watch_deliver", "ip": "@pending"})
            if "alloc" in tail:
                ops.append({"op": "alloc_ranges", "key": "sts_ns1_web_web-0", "subnet": "10.2.0.0/24", "ranges": [["10.101.0.3"]], "attr": A0})
            ops += [{"op": "release", "key": PK, "ip": "10.101.0.3"}, {"op": "restart"}, {"op": "watch_deliver", "ip": "@pending"}]
            S.append(("pool-reservation-handed-to-a-pod-then-deleted:%d:%s" % (upd, "+".join(tail) or "undelivered"), ops))
    # a key that holds SEVERAL IPs inside one requested range list (its template asked for [a], then [b], now [a, b] or [b, a]):
    # the answer for that list is the first held address in the WALK order of the list - the same one every time it is asked
    KW = "sts_ns1_web_web-7"
    for lists in ([["10.101.0.4", "10.101.0.2"]], [["10.101.0.2", "10.101.0.4"]], [["10.101.0.2~10.101.0.5"]],
                  [["10.101.0.9~10.101.0.10", "10.101.0.2~10.101.0.4"]], [["10.101.0.10"], ["10.101.0.4", "10.101.0.2~10.101.0.3"]]):
        S.append(("one-range-list-holds-several-ips-of-the-key:%d" % len(S), [
            conf_op([P2]),
            {"op": "alloc_ranges", "key": KW, "subnet": "10.1.0.0/24", "ranges": [["10.101.0.2"], ["10.101.0.4"], ["10.101.0.10"]], "attr": A0}] +
            [{"op": "by_key_ranges", "key": KW, "ranges": lists}] * 8 +
            [{"op": "alloc_ranges", "key": KW, "subnet": "10.1.0.0/24", "ranges": lists, "attr": A0}, {"op": "by_key_ranges", "key": KW, "ranges": lists}]))
    # a reservation that carries only the label (no key at all) survives reloads and restarts like any other; its IP is never
    # handed out
    for deliver in (True, False):
        for again in ("configure", "restart"):
            ops = [conf_op([P1]), {"op": "admin_reserve", "ip": "10.100.0.2", "key": "", "policy": 2}]
            if deliver:
                ops.append({"op": "watch_deliver", "ip": "@pending"})
            ops += [conf_op([P1, P2]) if again == "configure" else {"op": "restart"},
                    {"op": "alloc_in_subnet", "key": "sts_ns1_web_web-0", "subnet": "10.1.0.0/24", "attr": A0},
                    {"op": "alloc_ranges", "key": "sts_ns1_web_web-1", "subnet": "10.1.0.0/24", "ranges": [["10.100.0.2"]], "attr": A0},
                    {"op": "watch_deliver", "ip": "@pending"}, conf_op([P1]),
                    {"op": "alloc_specific", "key": "sts_ns1_web_web-2", "ip": "10.100.0.2", "attr": A0}]
            S.append(("label-only-reservation-%s-%s" % ("seen" if deliver else "unseen", again), ops))
    # reservation not yet seen: Create conflicts, also in the middle of a multi-IP request (rollback)
    S.append(("unseen-reservation-conflict", [
        conf_op([P2]), {"op": "admin_reserve", "ip": "10.101.0.3", "key": "pool__reserved_", "policy": 2},
        {"op": "alloc_ranges", "key": "sts_ns1_web_web-0", "subnet": "10.1.0.0/24",
         "ranges": [["10.101.0.2"], ["10.101.0.3"], ["10.101.0.4~10.101.0.5"]], "attr": A0},
        {"op": "alloc_specific", "key": "sts_ns1_web_web-0", "ip": "10.101.0.3", "attr": A0},
        {"op": "watch_deliver", "ip": "@pending"},
        {"op": "alloc_ranges", "key": "sts_ns1_web_web-0", "subnet": "10.1.0.0/24",
         "ranges": [["10.101.0.2"], ["10.101.0.3~10.101.0.4"], ["10.101.0.4~10.101.0.5"]], "attr": A0}]))
    # multi-IP request, creation fault at every index, partially pre-owned ranges, not enough IPs
    for k in (-1, 0, 1, 2):
        S.append(("multi-ip-fault-%d" % k, [
            conf_op([P2, P1]),
            {"op": "alloc_ranges", "key": "sts_ns1_web_web-0", "subnet": "10.2.0.0/24", "ranges": [["10.101.0.4"]], "attr": A0},
            {"op": "alloc_ranges", "key": "sts_ns1_web_web-0", "subnet": "10.2.0.0/24",
             "ranges": [["10.101.0.2~10.101.0.3"], ["10.101.0.3~10.101.0.5"], ["10.101.0.9", "10.101.0.10"]], "attr": A0, "fault": k},
            {"op": "alloc_ranges", "key": "sts_ns1_web_web-1", "subnet": "10.2.0.0/24",
             "ranges": [["10.101.0.2~10.101.0.3"], ["10.101.0.2~10.101.0.3"], ["10.101.0.2~10.101.0.3"]], "attr": A0},
            {"op": "alloc_ranges", "key": "sts_ns1_web_web-1", "subnet": "10.7.0.0/24", "ranges": [["10.101.0.5"]], "attr": A0}]))
    # a multi-IP key released in one ReleaseIPs call, the delete failing at every index (and the retry afterwards)
    for k in (-1, 0, 1, 2):
        S.append(("multi-ip-release-fault-%d" % k, [
            conf_op([P2, P1]),
            {"op": "alloc_ranges", "key": "sts_ns1_web_web-0", "subnet": "10.2.0.0/24",
             "ranges": [["10.101.0.2"], ["10.101.0.4~10.101.0.5"], ["10.101.0.9"]], "attr": A0, "fault": -1},
            {"op": "release_ips", "m": {"10.101.0.2": "sts_ns1_web_web-0", "10.101.0.4": "sts_ns1_web_web-0", "10.101.0.9": "sts_ns1_web_web-0"},
             "fault": k},
            {"op": "release_ips", "m": {"10.101.0.2": "sts_ns1_web_web-0", "10.101.0.4": "sts_ns1_web_web-0", "10.101.0.9": "sts_ns1_web_web-0"},
             "fault": -1},
            {"op": "alloc_specific", "key": "sts_ns1_web_web-1", "ip": "10.101.0.2", "attr": A0, "fault": -1},
            {"op": "restart"}]))
    # reload sequences: shrink, move an IP to another pool, drop a pool, with allocations in place
    P2s = copy.deepcopy(P2)
    P2s["ranges"] = [[ipamgen.s2ip("10.101.0.3"), ipamgen.s2ip("10.101.0.5")]]
    P3 = {"nodeSubnets": ["10.3.0.0/24"], "subnet": "10.101.0.0/24", "gateway": "10.101.0.1", "vlan": 0,
          "ranges": [[ipamgen.s2ip("10.101.0.9"), ipamgen.s2ip("10.101.0.10")]]}
    S.append(("reload-shrink-move-drop", [
        conf_op([P2, P1]),
        {"op": "alloc_ranges", "key": "sts_ns1_web_web-0", "subnet": "10.1.0.0/24", "ranges": [["10.101.0.2"], ["10.101.0.9"], ["10.100.0.2"]], "attr": A0},
        conf_op([P2s, P3, P1]), {"op": "restart"}, conf_op([P2s, P3], fault=1), conf_op([P3], fault=0), conf_op([P3]), {"op": "restart"},
        conf_op([P2, P1])]))
    return S


def fault_variants(base_ops, base_steps):
    """exhaustive in the fault index: for every operation of the history and every store call k it made, the same history
    with the k-th call of that operation failing"""
    out = []
    for i, (op, st) in enumerate(zip(base_ops, base_steps)):
        n = len(st.get("calls") or [])
        if "fault" not in op and op["op"] != "configure":
            continue
        if op.get("during_list"):
            continue
        for k in range(n):
            v = copy.deepcopy(base_ops)
            v[i]["fault"] = k
            out.append(v)
    return out


def strip(h):
    return {"ops": [{k: v for k, v in o.items() if not k.startswith("_")} for o in h]}


def conf_trees(texts):
    return clist(cjson(json.loads(t, object_pairs_hook=lambda p: O(p))) for t in texts)


K9_TAG = "c05-rollback-delete-fails"


def monitors(steps, focus):
    """Coq boolean expressions over the implementation's own dumps; returns list of (expr, step index, kind)"""
    out = []
    conf = None          # texts of the configuration in force (last successful configure/restart)
    prev = None
    orphans = {}         # K9: ip -> key of an object whose deletion by a roll-back failed (it stays in the store)

    def without_orphans(dd):
        """the dump as it would be had the roll-back's deletions succeeded: orphan objects out of the store, and - once a new
        process has loaded them - out of the tables"""
        dd = dict(dd)
        dd["store"] = [e for e in dd["store"] if not (e[0] in orphans and e[1] == orphans[e[0]])]
        gone = [e[0] for e in dd["alloc"] if e[0] in orphans and e[1] == orphans[e[0]] and not any(e[0] == s_[0] for s_ in dd["store"])]
        dd["alloc"] = [e for e in dd["alloc"] if e[0] not in gone]
        dd["unalloc"] = sorted(set(dd["unalloc"]) | set(gone))
        return dd
    for i, o in enumerate(steps):
        ex = o.get("exec") or {}
        if "dump" not in o:
            break
        d = o["dump"]
        k = ex.get("op")
        if k == "alloc_ranges" and o.get("res") != "ok":
            for c in (o.get("calls") or []):
                if c[0] == "delete" and c[2]:
                    orphans[ipamgen.s2ip(c[1])] = ex.get("key")
        for ip_ in [x for x in orphans if not any(e[0] == x and e[1] == orphans[x] for e in d["store"])]:
            del orphans[ip_]          # the object is gone (released, deleted by a reload): no longer an orphan
        if k in ("configure", "restart") and o.get("res") == "ok":
            newconf = ex.get("pools")
            if focus in ("C09",) and k == "configure" and prev is not None and not o.get("nested"):
                delfail = [ipamgen.s2ip(c[1]) for c in (o.get("calls") or []) if c[0] == "delete" and c[2]]
                out.append(("(mon_reload %s %s %s %s)" % (conf_trees(newconf), clist(cN(x) for x in delfail), cdump(prev), cdump(d)),
                            i, "reload_lossless"))
            if focus == "C05" and k == "restart" and prev is not None and not prev.get("pending") and conf == newconf:
                if orphans:
                    out.append(("(same_tables %s %s)" % (cdump(without_orphans(prev)), cdump(without_orphans(d))), i, "restart_exact"))
                out.append(("(same_tables %s %s)" % (cdump(prev), cdump(d)), i, "restart_exact", [K9_TAG] if orphans else []))
            conf = newconf
        if conf is not None and focus in ("C05", "C09"):
            if orphans:
                # a failure that disappears when the orphan objects are taken out is K9 and nothing else
                out.append(("(mon_agree %s %s %s)" % (conf_trees(conf), clist(cN(x) for x in d.get("pending", [])), cdump(without_orphans(d))), i,
                            "agree"))
            out.append(("(mon_agree %s %s %s)" % (conf_trees(conf), clist(cN(x) for x in d.get("pending", [])), cdump(d)), i,
                        "agree", [K9_TAG] if orphans else []))
        # (the property quantifies over the failure of any SINGLE object creation: a request in which a creation failed AND a
        #  deletion of the roll-back failed as well - an unseen reservation's conflict plus an injected fault - is outside it;
        #  what the code does then is still compared with the model step by step)
        if k == "alloc_ranges" and prev is not None and focus == "C08" and ex.get("ranges") and \
                not any(c[0] == "delete" and c[2] for c in (o.get("calls") or [])):
            out.append(("(mon_ranges %s %s %s %s %s %s %s)" % (
                cdump(prev), cdump(d), cstr(ex["key"]), csubnet(ex["subnet"]), cranges(ex["ranges"]),
                cbool(o.get("res") == "ok"), clist(cN(x) for x in (o.get("ips") or []))), i, "multi_ip"))
        if focus == "C09" and conf is not None and prev is not None and o.get("res") == "ok":
            ips = None
            if k == "alloc_in_subnet":
                ips = [o["ip"]]
            elif k == "alloc_ranges":
                ips = o.get("ips") or []
            elif k == "alloc_specific":
                ips = [ipamgen.s2ip(ex["ip"])]
            if ips:
                out.append(("(mon_fresh %s %s %s)" % (conf_trees(conf), cdump(prev), clist(cN(x) for x in ips)), i, "fresh"))
        if focus in ("C08", "C09") and prev is not None and k in ("alloc_in_subnet", "alloc_ranges", "alloc_specific"):
            # an allocation request - failed or not - never removes or rewrites an administrator's reservation object (C09), nor
            # any other object the store held before it (C08: a creation that fails on an existing object is a FAILED creation -
            # the request is rolled back, the object is not taken over); theorem requests_keep_store_objects
            resv = [e for e in prev["store"] if e[5] or focus == "C08"]
            now = {e[0]: e for e in d["store"]}
            ok = all(e[0] in now and now[e[0]] == e for e in resv)
            out.append(("true" if ok else "false", i, "reservations_survive_requests" if focus == "C09" else "requests_keep_store_objects"))
        if focus == "C08" and k == "by_key_ranges" and ex.get("ranges") and o.get("res") == "ok" and o.get("slots") is not None:
            # which of its IPs a key holds "in the i-th range list": the first one in the walk order of that list (ranges in the
            # order given, addresses ascending) - what Filter and Bind both rely on, whatever the table's iteration order
            held = {e[0] for e in d["alloc"] if e[1] == ex["key"]}
            want = []
            for rl in ex["ranges"]:
                w_ = None
                for r_ in rl:
                    lo, hi = (r_.split("~") + [r_])[:2]
                    lo, hi = ipamgen.s2ip(lo), ipamgen.s2ip(hi)
                    if hi - lo > 4096:
                        w_ = "skip"
                        break
                    w_ = next((x for x in range(lo, hi + 1) if x in held), None)
                    if w_ is not None:
                        break
                want.append(w_)
            if "skip" not in want:
                out.append(("true" if list(o["slots"]) == want else "false", i, "held_ip_of_a_range_list_is_the_first_in_walk_order"))
        nested = o.get("nested")
        if nested and focus == "C09" and nested.get("res") == "ok" and conf is not None:
            # an allocation that was acknowledged while a reload was in progress must survive the reload
            for x in nested.get("ips") or ([ipamgen.s2ip(nested["exec"]["ip"])] if nested["exec"]["op"] == "alloc_specific" else []):
                if any(lo <= x <= hi for p in ex.get("_topo", []) for lo, hi in p["ranges"]) or True:
                    out.append(("(existsb (fun kv => fst kv =? %s) (od_alloc %s) || negb (configured (pools_of %s) %s))" % (
                        cN(x), cdump(d), conf_trees(conf), cN(x)), i, "allocation_during_reload_kept"))
        prev = d
    return out


def run(ctx, focus, theorems_module, theorems, refuted, kinds=None, nrandom=(120, 1200), nfault_bases=(6, 40), only=None):
    """only: run just the scenarios whose name starts with this prefix (used by the plugin-level checks to re-validate the
    atomicity of ConfigurePool their model relies on), no random histories, no theorem re-check"""
    ctx.cov["trusted_base"] = vf.TRUSTED_COMMON + [
        "harness fakes: client-go fake clientset as the API server (Create of an existing name / Update, Delete, Get of a missing "
        "name fail and change nothing; an injected failure has no effect; a List/Get with resourceVersion 0 is answered from a "
        "lagging watch cache = the store one history step earlier, harness/cmd/gh/yieldcli.go), informer events delivered on request through the "
        "verif hook; ConfigurePool/AllocateSpecificIP are modelled as atomic steps (DESIGN.md section 5)",
        "Go map iteration order enters the model as an oracle taken from the observed store calls; the model validates it"]
    ctx.assumptions += ["an administrator does not change a reserved object again before galaxy-ipam has seen the previous change",
                        "administrator-created objects carry no node/uid attribute",
                        "single clean fault per operation (a failed rollback delete is a second fault, outside the quantifier)"]
    if only is None:
        ctx.theorems(theorems_module, theorems, refuted, deps=DEPS + [theorems_module])
    else:
        nrandom, nfault_bases = (0, 0), (0, 0)
    rng = ctx.rng
    hists, labels = [], []
    for name, ops in scenarios():
        if only is not None and not name.startswith(only):
            continue
        hists.append(ops)
        labels.append("scenario:" + name)
        ctx.dist("history:scenario")
    n = nrandom[0] if ctx.quick else nrandom[1]
    for _ in range(n):
        hists.append(ipamgen.gen_history(rng, ctx, kinds=kinds))
        labels.append("random")
        ctx.dist("history:random")
    obs = ctx.harness("ipam", [strip(h) for h in hists])
    if obs is None:
        return
    # exhaustive fault index over a subset of the histories
    nb = nfault_bases[0] if ctx.quick else nfault_bases[1]
    variants, vlabels = [], []
    bases = [i for i in range(len(hists)) if not any(o.get("during_list") for o in hists[i])]
    for i in ([] if only is not None else bases[:len(scenarios()) - 1] + bases[len(scenarios()):len(scenarios()) + nb]):
        base_clean = [dict(o, fault=-1) if "fault" in o else o for o in hists[i]]
        clean_obs = ctx.harness("ipam", [strip(base_clean)])[0]
        for v in fault_variants(base_clean, clean_obs.get("steps") or []):
            variants.append(v)
            vlabels.append("fault-variant-of-%d" % i)
    if variants:
        ctx.dist("history:fault-index-variant", len(variants))
        vobs = ctx.harness("ipam", [strip(h) for h in variants])
        hists += variants
        labels += vlabels
        obs += vobs
    corr, mons, monmeta = [], [], []
    for hi, (h, o) in enumerate(zip(hists, obs)):
        ctx.count(strip(h))
        steps = o.get("steps") or []
        for st in steps:
            if st.get("res") in ("panic", "timeout"):
                ctx.violation("monitor", "crdIpam %s during %s" % (st.get("res"), (st.get("exec") or {}).get("op")),
                              {"history": strip(h), "step": st}, found=True)
        # carry the generator's topology into exec for the monitors
        term, nsteps, trunc = history_term(steps)
        if trunc:
            ctx.dist("history-truncated:" + trunc)
        corr.append("(chk_hist %s)" % term)
        for m_ in monitors(steps, focus):
            e, si, kind = m_[:3]
            mons.append(e)
            monmeta.append((hi, si, kind, m_[3] if len(m_) > 3 else []))
        if len(ctx.cov["samples"]) < 3 and labels[hi] == "random":
            ctx.sample({"history": strip(h)["ops"][:6], "first_observed_steps": [{k: v for k, v in s.items() if k != "dump"} for s in steps[:3]]})
    ctx.cov["traces_validated_against_impl"] = len(corr)
    rc = ctx.coq_bools("corr", IMPORTS, corr, shard=25)
    rm = ctx.coq_bools("mon", IMPORTS, mons, shard=150)
    if rc is None or rm is None:
        ctx.violation("correspondence", "the Coq evaluation of the crdIpam histories failed", {}, found=False,
                      theorem="crdIpam correspondence (Corr/Ipamc.v chk_hist)")
        return
    ctx.cov["monitor_evaluations"] = len(mons)
    bad_m = [monmeta[k] for k, b in enumerate(rm) if not b]
    seen = set()
    bad_m.sort(key=lambda m_: 1 if m_[3] else 0)          # failures without a known-finding tag first
    ntag = 0
    for hi, si, kind, tags in bad_m:
        if (hi, kind, bool(tags)) in seen or (tags and (hi, kind, False) in seen):
            continue
        if tags:
            ntag += 1
            if ntag > 3:
                continue
        seen.add((hi, kind, bool(tags)))
        st = obs[hi]["steps"]
        ctx.violation("monitor", "%s: predicate '%s' is false on the implementation's state after step %d (%s) [%s]" % (
            focus, kind, si, (st[si].get("exec") or {}).get("op"), labels[hi]),
            {"history": strip(hists[hi]), "failing_step": si, "observed_steps": [{k: v for k, v in s.items()} for s in st[:si + 1]][-3:],
             "how": "bin/check %s --replay <this file>" % focus}, found=True, tags=tags)
        if len(seen) >= 12:
            break
    bad_c = [k for k, b in enumerate(rc) if not b]
    ctx.cov["disagreements"] = len(bad_c)
    ctx.cov["monitor_failures"] = len(bad_m)
    if bad_c:
        ex = []
        for k in bad_c[:3]:
            term, _, _ = history_term(obs[k]["steps"])
            where = ctx.coq_print("dbg", IMPORTS, "replay ipam0 0 %s" % term)
            ex.append({"history": strip(hists[k]), "label": labels[k], "first_disagreeing_modelled_step": where[-60:],
                       "observed": [{kk: vv for kk, vv in s.items() if kk != "dump"} for s in obs[k]["steps"]]})
        ctx.violation("correspondence", "crdIpam model and implementation disagree on %d histories" % len(bad_c),
                      {"disagreements": ex, "theorems_no_longer_about_the_code": theorems}, found=False,
                      theorem="crdIpam correspondence (Corr/Ipamc.v chk_hist over Model/Ipam.v step)")


def replay(ctx, path):
    r = json.load(open(path))
    rp = r["replay"]
    hs = [rp["history"]] if "history" in rp else [d["history"] for d in rp.get("disagreements", [])]
    obs = ctx.harness("ipam", hs)
    for h, o in zip(hs, obs):
        print(json.dumps({"history": h, "observed_now": o})[:6000])
