From Coq Require Import List NArith Lia.
From stdpp Require Import gmap.
Import ListNotations.
Open Scope N_scope.

(* miniature of DESIGN section 7 / C04: names, incarnations (uids), one ip per name,
   F1 (unbind compares uids) and F2 (bind uses the uid of the pod being bound) applied *)
Record pod := { uid : N; live : bool; bound : option N }.
Record ent := { e_ip : N; e_uid : option N }.                (* stored uid: None = cleared *)
Record w := { pods : gmap N pod;                              (* API truth, by name *)
              alloc : gmap N ent;                             (* by name (the key)  *)
              free : gset N;
              queue : list (N * N);                           (* (name, uid) release events *)
              next : N }.

Inductive op :=
| Create (n : N)
| Finish (n : N)
| Delete (n : N)
| Bind (n x : N)                       (* x: the free ip chosen if one is needed *)
| Event (i : nat) (keep : bool)        (* handle i-th queued event; keep = policy reserves *)
| Resync (n : N) (keep : bool)
| Drop (i : nat).                      (* event lost *)

Definition remove_nth {A} (i : nat) (l : list A) : list A := firstn i l ++ skipn (S i) l.

Definition unbind (s : w) (n : N) (keep : bool) : w :=
  match alloc s !! n with
  | None => s
  | Some e => if keep
      then {| pods := pods s; alloc := <[n := {| e_ip := e_ip e; e_uid := None |}]> (alloc s);
              free := free s; queue := queue s; next := next s |}
      else {| pods := pods s; alloc := delete n (alloc s); free := free s ∪ {[e_ip e]};
              queue := queue s; next := next s |}
  end.

Definition step (s : w) (o : op) : w :=
  match o with
  | Create n =>
      match pods s !! n with
      | Some _ => s
      | None => {| pods := <[n := {| uid := next s; live := true; bound := None |}]> (pods s);
                   alloc := alloc s; free := free s; queue := queue s; next := next s + 1 |}
      end
  | Finish n =>
      match pods s !! n with
      | Some p => if live p then
          {| pods := <[n := {| uid := uid p; live := false; bound := bound p |}]> (pods s);
             alloc := alloc s; free := free s; queue := queue s ++ [(n, uid p)]; next := next s |}
          else s
      | None => s
      end
  | Delete n =>
      match pods s !! n with
      | Some p => {| pods := delete n (pods s); alloc := alloc s; free := free s;
                     queue := queue s ++ [(n, uid p)]; next := next s |}
      | None => s
      end
  | Bind n x =>
      match pods s !! n with
      | Some p => if live p then
          match alloc s !! n with
          | Some e =>
              match e_uid e with
              | Some u' => if decide (u' = uid p)
                  then {| pods := <[n := {| uid := uid p; live := true; bound := Some (e_ip e) |}]> (pods s);
                          alloc := alloc s; free := free s; queue := queue s; next := next s |}
                  else s                                   (* waiting for delete event *)
              | None => {| pods := <[n := {| uid := uid p; live := true; bound := Some (e_ip e) |}]> (pods s);
                           alloc := <[n := {| e_ip := e_ip e; e_uid := Some (uid p) |}]> (alloc s);
                           free := free s; queue := queue s; next := next s |}
              end
          | None => if decide (x ∈ free s) then
              {| pods := <[n := {| uid := uid p; live := true; bound := Some x |}]> (pods s);
                 alloc := <[n := {| e_ip := x; e_uid := Some (uid p) |}]> (alloc s);
                 free := free s ∖ {[x]}; queue := queue s; next := next s |}
              else s
          end else s
      | None => s
      end
  | Event i keep =>
      match nth_error (queue s) i with
      | Some (n, u) =>
          let s' := {| pods := pods s; alloc := alloc s; free := free s;
                       queue := remove_nth i (queue s); next := next s |} in
          match alloc s !! n with
          | Some e => match e_uid e with
                      | Some u' => if decide (u' = u) then unbind s' n keep else s'   (* F1 *)
                      | None => unbind s' n keep
                      end
          | None => s'
          end
      | None => s
      end
  | Resync n keep =>
      match alloc s !! n with
      | Some e =>
          let running := match pods s !! n with
                         | Some p => live p && match e_uid e with Some u' => bool_decide (u' = uid p) | None => true end
                         | None => false end in
          if running then s else unbind s n keep
      | None => s
      end
  | Drop i => {| pods := pods s; alloc := alloc s; free := free s;
                 queue := remove_nth i (queue s); next := next s |}
  end.

Definition Inv (s : w) : Prop :=
  (* C04: a live bound pod owns its ip, stored under its own uid *)
  (forall n p x, pods s !! n = Some p -> live p = true -> bound p = Some x ->
     alloc s !! n = Some {| e_ip := x; e_uid := Some (uid p) |}) /\
  (* queued events never refer to a live incarnation *)
  (forall n u p, In (n, u) (queue s) -> pods s !! n = Some p -> live p = true -> u <> uid p) /\
  (* uids are fresh *)
  (forall n p, pods s !! n = Some p -> uid p < next s) /\
  (forall n u, In (n, u) (queue s) -> u < next s).
