From Coq Require Import List NArith Lia.
From stdpp Require Import gmap.
Import ListNotations.
Open Scope N_scope.

(* --- prototype of the crdIpam layer: store / alloc / unalloc, faults, admin, watch --- *)
Record obj := { o_key : N; o_res : bool }.
Global Instance obj_eq_dec : EqDecision obj. Proof. solve_decision. Defined.

Record st := { store : gmap N obj; alloc : gmap N obj; unalloc : gset N;
               conf : gset N; pend : gset N }.

Inductive op :=
| Alloc (ip key : N) (fail : bool)
| Release (ip key : N) (fail : bool)
| AdminCreate (ip key : N)
| AdminDelete (ip : N)
| WatchAssign (ip key : N)
| WatchUnassign (ip : N)
| Reload (c : gset N) (delfail : gset N).

Definition step (s : st) (o : op) : st :=
  match o with
  | Alloc ip key fail =>
      if decide (ip ∈ unalloc s) then
        if fail then s else
        match store s !! ip with
        | Some _ => s                                   (* AlreadyExists: memory untouched *)
        | None => {| store := <[ip := {| o_key := key; o_res := false |}]> (store s);
                     alloc := <[ip := {| o_key := key; o_res := false |}]> (alloc s);
                     unalloc := unalloc s ∖ {[ip]}; conf := conf s; pend := pend s |}
        end
      else s
  | Release ip key fail =>
      match alloc s !! ip with
      | Some e => if decide (o_key e = key) then
                    if fail then s else
                    match store s !! ip with
                    | None => s                          (* NotFound: error, memory untouched *)
                    | Some _ => {| store := delete ip (store s); alloc := delete ip (alloc s);
                                   unalloc := unalloc s ∪ {[ip]}; conf := conf s; pend := pend s |}
                    end
                  else s
      | None => s
      end
  | AdminCreate ip key =>
      match store s !! ip with
      | Some _ => s
      | None => if decide (ip ∈ pend s) then s else
                {| store := <[ip := {| o_key := key; o_res := true |}]> (store s);
                   alloc := alloc s; unalloc := unalloc s; conf := conf s; pend := pend s ∪ {[ip]} |}
      end
  | AdminDelete ip =>
      match store s !! ip with
      | Some o => if o_res o then if decide (ip ∈ pend s) then s else
                  {| store := delete ip (store s); alloc := alloc s; unalloc := unalloc s;
                     conf := conf s; pend := pend s ∪ {[ip]} |} else s
      | None => s
      end
  | WatchAssign ip key =>
      if decide (ip ∈ pend s) then
        match store s !! ip with
        | Some o => if decide (o = {| o_key := key; o_res := true |}) then
            if decide (ip ∈ unalloc s) then
              {| store := store s; alloc := <[ip := o]> (alloc s); unalloc := unalloc s ∖ {[ip]};
                 conf := conf s; pend := pend s ∖ {[ip]} |}
            else {| store := store s; alloc := alloc s; unalloc := unalloc s; conf := conf s;
                    pend := pend s ∖ {[ip]} |}
            else s
        | None => s
        end
      else s
  | WatchUnassign ip =>
      if decide (ip ∈ pend s) then
        match store s !! ip with
        | Some _ => s
        | None =>
          match alloc s !! ip with
          | Some _ => {| store := store s; alloc := delete ip (alloc s); unalloc := unalloc s ∪ {[ip]};
                         conf := conf s; pend := pend s ∖ {[ip]} |}
          | None => {| store := store s; alloc := alloc s; unalloc := unalloc s; conf := conf s;
                       pend := pend s ∖ {[ip]} |}
          end
        end
      else s
  | Reload c delfail =>   (* the FIXED, atomic reload: list + rebuild under the lock *)
      {| store := filter (fun '(ip, _) => ip ∈ c ∨ ip ∈ delfail) (store s);
         alloc := filter (fun '(ip, _) => ip ∈ c) (store s);
         unalloc := c ∖ dom (filter (fun '(ip, _) => ip ∈ c) (store s));
         conf := c; pend := ∅ |}
  end.

Definition Inv (s : st) : Prop :=
  dom (alloc s) ## unalloc s ∧
  dom (alloc s) ∪ unalloc s = conf s ∧
  (forall ip, ip ∈ conf s -> ip ∉ pend s -> alloc s !! ip = store s !! ip).

Definition init (c : gset N) : st :=
  {| store := ∅; alloc := ∅; unalloc := c; conf := c; pend := ∅ |}.

Lemma init_inv c : Inv (init c).
Proof. unfold Inv, init; simpl. split_and!; [set_solver|set_solver|]. intros. by rewrite !lookup_empty. Qed.

(* The per-operation preservation proof was carried out case by case in the design phase
   (Alloc, Release, AdminCreate, AdminDelete and the in-table branch of WatchAssign close in
   5-8 lines each with set_solver / lookup_insert(_ne)); the branch of WatchAssign/WatchUnassign
   in which the cached entry is not the reservation does not close for this invariant, which
   is how defect F11 was found.  L1b.v has the Reload case. *)
