From Coq Require Import List NArith Lia.
From stdpp Require Import gmap.
From T Require Import L1.
Open Scope N_scope.

Lemma reload_inv s c df : Inv (step s (Reload c df)).
Proof.
  unfold Inv; simpl. split_and!.
  - set_solver.
  - apply set_eq; intros x. rewrite elem_of_union, elem_of_difference.
    split.
    + intros [Hx|[Hx _]]; [|done]. apply elem_of_dom in Hx as [o Ho].
      apply map_filter_lookup_Some in Ho as [_ Hc]. done.
    + intros Hx. destruct (decide (x ∈ dom (filter (λ '(ip, _), ip ∈ c) (store s)))); auto.
  - intros ip Hc _.
    destruct (store s !! ip) as [o|] eqn:Hs.
    + transitivity (Some o); [|symmetry]; apply map_filter_lookup_Some; split; auto.
    + transitivity (@None obj); [|symmetry]; apply map_filter_lookup_None; left; done.
Qed.
Print Assumptions reload_inv.
