From Coq Require Import List NArith Lia.
From stdpp Require Import gmap.
From T Require Import P.
Import ListNotations.
Open Scope N_scope.

Lemma in_firstn {A} (a : A) i l : In a (firstn i l) -> In a l.
Proof. revert l; induction i; intros [|x l]; simpl; intuition. Qed.
Lemma in_skipn {A} (a : A) i l : In a (skipn i l) -> In a l.
Proof. revert l; induction i; intros [|x l]; simpl; intuition. Qed.
Lemma in_remove_nth {A} (a : A) i l : In a (remove_nth i l) -> In a l.
Proof.
  unfold remove_nth. rewrite in_app_iff. intros [H|H].
  - eapply in_firstn; eauto.
  - eapply in_skipn; eauto.
Qed.

Lemma unbind_pods s n k : pods (unbind s n k) = pods s.
Proof. unfold unbind. destruct (alloc s !! n); [destruct k|]; reflexivity. Qed.
Lemma unbind_queue s n k : queue (unbind s n k) = queue s.
Proof. unfold unbind. destruct (alloc s !! n); [destruct k|]; reflexivity. Qed.
Lemma unbind_next s n k : next (unbind s n k) = next s.
Proof. unfold unbind. destruct (alloc s !! n); [destruct k|]; reflexivity. Qed.
Lemma unbind_alloc_ne s n k m : m <> n -> alloc (unbind s n k) !! m = alloc s !! m.
Proof.
  intros Hne. unfold unbind. destruct (alloc s !! n); [destruct k|]; simpl; auto.
  - by rewrite lookup_insert_ne.
  - by rewrite lookup_delete_ne.
Qed.

(* unbinding name n is safe whenever no live bound pod is called n *)
Lemma unbind_inv s n k :
  Inv s -> (forall p x, pods s !! n = Some p -> live p = true -> bound p = Some x -> False) ->
  Inv (unbind s n k).
Proof.
  intros (H1 & H2 & H3 & H4) Hsafe. unfold Inv.
  rewrite unbind_pods, unbind_queue, unbind_next. split_and!; auto.
  intros m p y Hp Hl Hb. destruct (decide (m = n)) as [->|Hne].
  - exfalso; eauto.
  - rewrite unbind_alloc_ne by done. eauto.
Qed.

Lemma step_inv s o : Inv s -> Inv (step s o).
Proof.
  intros HI. pose proof HI as (H1 & H2 & H3 & H4).
  destruct o as [n|n|n|n x|i keep|n keep|i]; simpl.
  - (* Create *)
    destruct (pods s !! n) eqn:Hn; [done|]. unfold Inv; simpl. split_and!.
    + intros m p y Hp Hl Hb. destruct (decide (m = n)) as [->|Hne].
      * rewrite lookup_insert in Hp. by simplify_eq.
      * rewrite lookup_insert_ne in Hp by done. eauto.
    + intros m u p Hin Hp Hl. destruct (decide (m = n)) as [->|Hne].
      * rewrite lookup_insert in Hp. simplify_eq; simpl. apply H4 in Hin. lia.
      * rewrite lookup_insert_ne in Hp by done. eauto.
    + intros m p Hp. destruct (decide (m = n)) as [->|Hne].
      * rewrite lookup_insert in Hp. simplify_eq; simpl. lia.
      * rewrite lookup_insert_ne in Hp by done. apply H3 in Hp. lia.
    + intros m u Hin. apply H4 in Hin. lia.
  - (* Finish *)
    destruct (pods s !! n) as [p0|] eqn:Hn; [|done]. destruct (live p0) eqn:Hl0; [|done].
    unfold Inv; simpl. split_and!.
    + intros m p y Hp Hl Hb. destruct (decide (m = n)) as [->|Hne].
      * rewrite lookup_insert in Hp. by simplify_eq.
      * rewrite lookup_insert_ne in Hp by done. eauto.
    + intros m u p Hin Hp Hl. destruct (decide (m = n)) as [->|Hne].
      * rewrite lookup_insert in Hp. by simplify_eq.
      * rewrite lookup_insert_ne in Hp by done. apply in_app_iff in Hin as [Hin|[Hin|[]]]; [eauto|]. by simplify_eq.
    + intros m p Hp. destruct (decide (m = n)) as [->|Hne].
      * rewrite lookup_insert in Hp. simplify_eq; simpl. eauto.
      * rewrite lookup_insert_ne in Hp by done. eauto.
    + intros m u Hin. apply in_app_iff in Hin as [Hin|[Hin|[]]]; [eauto|]. simplify_eq. eauto.
  - (* Delete *)
    destruct (pods s !! n) as [p0|] eqn:Hn; [|done]. unfold Inv; simpl. split_and!.
    + intros m p y Hp Hl Hb. destruct (decide (m = n)) as [->|Hne].
      * by rewrite lookup_delete in Hp.
      * rewrite lookup_delete_ne in Hp by done. eauto.
    + intros m u p Hin Hp Hl. destruct (decide (m = n)) as [->|Hne].
      * by rewrite lookup_delete in Hp.
      * rewrite lookup_delete_ne in Hp by done. apply in_app_iff in Hin as [Hin|[Hin|[]]]; [eauto|]. by simplify_eq.
    + intros m p Hp. destruct (decide (m = n)) as [->|Hne].
      * by rewrite lookup_delete in Hp.
      * rewrite lookup_delete_ne in Hp by done. eauto.
    + intros m u Hin. apply in_app_iff in Hin as [Hin|[Hin|[]]]; [eauto|]. simplify_eq. eauto.
  - (* Bind *)
    destruct (pods s !! n) as [p0|] eqn:Hn; [|done]. destruct (live p0) eqn:Hl0; [|done].
    destruct (alloc s !! n) as [e|] eqn:Ha.
    + destruct (e_uid e) as [u'|] eqn:Hu.
      * destruct (decide (u' = uid p0)) as [->|]; [|done]. unfold Inv; simpl. split_and!; auto.
        -- intros m p y Hp Hl Hb. destruct (decide (m = n)) as [->|Hne].
           ++ rewrite lookup_insert in Hp. simplify_eq; simpl. destruct e as [eip eu]; simpl in *. by simplify_eq.
           ++ rewrite lookup_insert_ne in Hp by done. eauto.
        -- intros m u p Hin Hp Hl. destruct (decide (m = n)) as [->|Hne].
           ++ rewrite lookup_insert in Hp. simplify_eq; simpl. eauto.
           ++ rewrite lookup_insert_ne in Hp by done. eauto.
        -- intros m p Hp. destruct (decide (m = n)) as [->|Hne].
           ++ rewrite lookup_insert in Hp. simplify_eq; simpl. eauto.
           ++ rewrite lookup_insert_ne in Hp by done. eauto.
      * unfold Inv; simpl. split_and!; auto.
        -- intros m p y Hp Hl Hb. destruct (decide (m = n)) as [->|Hne].
           ++ rewrite lookup_insert in Hp. simplify_eq; simpl in *; simplify_eq. by rewrite lookup_insert.
           ++ rewrite lookup_insert_ne in Hp by done. rewrite lookup_insert_ne by done. eauto.
        -- intros m u p Hin Hp Hl. destruct (decide (m = n)) as [->|Hne].
           ++ rewrite lookup_insert in Hp. simplify_eq; simpl. eauto.
           ++ rewrite lookup_insert_ne in Hp by done. eauto.
        -- intros m p Hp. destruct (decide (m = n)) as [->|Hne].
           ++ rewrite lookup_insert in Hp. simplify_eq; simpl. eauto.
           ++ rewrite lookup_insert_ne in Hp by done. eauto.
    + destruct (decide (x ∈ free s)); [|done]. unfold Inv; simpl. split_and!; auto.
      * intros m p y Hp Hl Hb. destruct (decide (m = n)) as [->|Hne].
        -- rewrite lookup_insert in Hp. simplify_eq; simpl in *; simplify_eq. by rewrite lookup_insert.
        -- rewrite lookup_insert_ne in Hp by done. rewrite lookup_insert_ne by done. eauto.
      * intros m u p Hin Hp Hl. destruct (decide (m = n)) as [->|Hne].
        -- rewrite lookup_insert in Hp. simplify_eq; simpl. eauto.
        -- rewrite lookup_insert_ne in Hp by done. eauto.
      * intros m p Hp. destruct (decide (m = n)) as [->|Hne].
        -- rewrite lookup_insert in Hp. simplify_eq; simpl. eauto.
        -- rewrite lookup_insert_ne in Hp by done. eauto.
  - (* Event: the F1 guard is what makes this case go through *)
    destruct (nth_error (queue s) i) as [[n u]|] eqn:Hq; [|done].
    assert (Hin : In (n, u) (queue s)) by (eapply nth_error_In; eauto).
    set (s' := {| pods := pods s; alloc := alloc s; free := free s; queue := remove_nth i (queue s); next := next s |}).
    assert (HI' : Inv s').
    { unfold Inv, s'; simpl. split_and!; auto.
      - intros m v p Hv. apply in_remove_nth in Hv. eauto.
      - intros m v Hv. apply in_remove_nth in Hv. eauto. }
    destruct (alloc s !! n) as [e|] eqn:Ha; [|exact HI'].
    destruct (e_uid e) as [u'|] eqn:Hu.
    + destruct (decide (u' = u)) as [->|]; [|exact HI'].
      apply unbind_inv; [exact HI'|]. simpl. intros p y Hp Hl Hb.
      pose proof (H1 _ _ _ Hp Hl Hb) as Hal. rewrite Ha in Hal. simplify_eq. simpl in Hu. simplify_eq.
      eapply H2; eauto.
    + apply unbind_inv; [exact HI'|]. simpl. intros p y Hp Hl Hb.
      pose proof (H1 _ _ _ Hp Hl Hb) as Hal. rewrite Ha in Hal. by simplify_eq.
  - (* Resync: releases only after seeing "not running" *)
    destruct (alloc s !! n) as [e|] eqn:Ha; [|done].
    match goal with |- Inv (if ?b then _ else _) => destruct b eqn:Hrun end; [done|].
    apply unbind_inv; [done|]. intros p y Hp Hl Hb.
    pose proof (H1 _ _ _ Hp Hl Hb) as Hal. rewrite Ha in Hal. simplify_eq. simpl in Hrun.
    rewrite Hp, Hl in Hrun. simpl in Hrun. by rewrite bool_decide_eq_true_2 in Hrun.
  - (* Drop *)
    unfold Inv; simpl. split_and!; auto.
    + intros m v p Hv. apply in_remove_nth in Hv. eauto.
    + intros m v Hv. apply in_remove_nth in Hv. eauto.
Qed.

Theorem live_bound_owned_all_histories s ops :
  Inv s -> Inv (fold_left step ops s).
Proof. revert s. induction ops as [|o ops IH]; simpl; intros s H; [done|]. apply IH, step_inv, H. Qed.
Print Assumptions live_bound_owned_all_histories.
