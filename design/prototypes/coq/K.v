From Coq Require Import List Ascii String Bool Lia.
Import ListNotations.

(* strings as list ascii; split on a separator like Go's strings.Split *)
Definition str := list ascii.
Definition us : ascii := "_"%char.

Fixpoint split_aux (c : ascii) (s : str) (cur : str) : list str :=
  match s with
  | [] => [rev cur]
  | x :: s' => if Ascii.eqb x c then rev cur :: split_aux c s' [] else split_aux c s' (x :: cur)
  end.
Definition split (c : ascii) (s : str) : list str := split_aux c s [].

Fixpoint join (c : ascii) (ps : list str) : str :=
  match ps with
  | [] => []
  | [p] => p
  | p :: ps' => p ++ c :: join c ps'
  end.

Definition free (c : ascii) (p : str) : Prop := ~ In c p.

Lemma split_aux_app_free c p cur rest :
  free c p -> split_aux c (p ++ rest) cur = split_aux c rest (rev p ++ cur).
Proof.
  revert cur. induction p as [|x p IH]; intros cur Hf; simpl; [reflexivity|].
  destruct (Ascii.eqb_spec x c) as [->|Hne].
  - exfalso. apply Hf. left; reflexivity.
  - rewrite IH. + rewrite <- app_assoc. reflexivity. + intros Hin; apply Hf; right; exact Hin.
Qed.

Lemma split_join c ps : ps <> [] -> Forall (free c) ps -> split c (join c ps) = ps.
Proof.
  unfold split. induction ps as [|p ps IH]; intros Hne Hf; [congruence|].
  inversion Hf as [|? ? Hp Hps]; subst. destruct ps as [|q ps].
  - simpl. rewrite <- (app_nil_r p) at 1. rewrite split_aux_app_free by assumption.
    simpl. rewrite app_nil_r, rev_involutive. reflexivity.
  - change (join c (p :: q :: ps)) with (p ++ c :: join c (q :: ps)).
    rewrite split_aux_app_free by assumption. simpl. rewrite Ascii.eqb_refl.
    rewrite app_nil_r, rev_involutive. f_equal. apply IH; [congruence|assumption].
Qed.

(* key = [pool..] ty ns app pod joined by "_" ; injectivity on the last three fields *)
Lemma join_inj c ps qs : ps <> [] -> qs <> [] -> Forall (free c) ps -> Forall (free c) qs ->
  join c ps = join c qs -> ps = qs.
Proof.
  intros Hp Hq Fp Fq E. rewrite <- (split_join c ps Hp Fp), <- (split_join c qs Hq Fq), E. reflexivity.
Qed.
Print Assumptions join_inj.
