From T Require Import M.
Require Extraction.
Require Import ExtrOcamlBasic.
Extraction "model.ml" run.
