let rec n_of_int i = if i = 0 then Model.N0 else Model.Npos (pos_of_int i)
and pos_of_int i = if i = 1 then Model.XH else if i land 1 = 0 then Model.XO (pos_of_int (i lsr 1)) else Model.XI (pos_of_int (i lsr 1))
let rec int_of_pos = function Model.XH -> 1 | Model.XO p -> 2 * int_of_pos p | Model.XI p -> 2 * int_of_pos p + 1
let int_of_n = function Model.N0 -> 0 | Model.Npos p -> int_of_pos p
let () =
  let ips = List.init 5000 (fun i -> n_of_int (167772160 + i)) in
  let ops = List.init 20000 (fun i -> (n_of_int (167772160 + (i * 7919) mod 5000), Model.EmptyString)) in
  let t = Sys.time () in
  let r = Model.run ips ops in
  Printf.printf "%d entries in %.3fs first=%d\n" (List.length r) (Sys.time () -. t) (match r with (n,_)::_ -> int_of_n n | [] -> -1)
