From Coq Require Import List NArith String Ascii.
From stdpp Require Import gmap.
Import ListNotations.
Open Scope N_scope.

Record entry := { e_key : string; e_pol : N }.
Record st := { alloc : gmap N entry; unalloc : gmap N nat }.

Definition init (ips : list N) : st :=
  {| alloc := ∅; unalloc := list_to_map (map (fun i => (i, 0%nat)) ips) |}.

Definition allocate (s : st) (choice : N) (k : string) : option st :=
  match unalloc s !! choice with
  | Some _ => Some {| alloc := <[choice := {| e_key := k; e_pol := 0 |}]> (alloc s);
                      unalloc := delete choice (unalloc s) |}
  | None => None
  end.

Definition dump (s : st) : list (N * string) :=
  map (fun '(i, e) => (i, e_key e)) (map_to_list (alloc s)).

Definition run (ips : list N) (ops : list (N * string)) : list (N * string) :=
  dump (fold_left (fun s '(c, k) => match allocate s c k with Some s' => s' | None => s end) ops (init ips)).
