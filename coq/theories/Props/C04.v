(** C04 - A live pod's IP is never released, re-keyed or handed on.

    "While a pod that was bound by galaxy-ipam still exists and has not finished, its IP stays assigned
    to it: no delete/finish event of an earlier same-named pod, no resync pass, no API release request,
    no pod-IP sync and no configuration reload that still contains the IP may free it, move it to
    another owner or ask the cloud provider to unassign it."

    Property theorems only; the proofs are in Proofs/PluginP.v (assembly), Proofs/PluginEnvP.v,
    Proofs/PluginBindP.v, Proofs/PluginUnbindP.v (one file per kind of step) and Proofs/PluginWitness.v
    (concrete histories).

    Quantifier: ALL histories [ops : list pop] of the scheduler-plugin model (Model/Plugin.v) that start in
    the empty world [world0 provider nodes] (with or without cloud provider, any node table): any
    interleaving of environment steps (pod created / deleted / phase change, the informer catching up
    for one pod, statefulset / deployment / pool objects set or removed, a queued event lost), scheduler
    filter and bind calls, queued pod events, resync items, API release requests, pod-IP syncs,
    configuration reloads and process restarts; every oracle (which IP / which order Go's map iteration
    took) and every single injected fault (store call, provider call, pods/binding call).

    Assumptions on histories = [wf_hist], i.e. [wf_op] (Proofs/PluginInv.v) at every step, in words:
      - a pod is created ([EPodPut]) without node and without IPs, with a non-empty UID that no pod
        object galaxy-ipam can still see carries (API server, informer cache, event queue); its
        namespace, name and (for statefulset / deployment pods) owner name are non-empty and contain
        no '_', its pool annotation contains no '_';
      - a finished pod (Succeeded / Failed) never becomes Pending / Running again ([EPodPhase]);
      - the scheduler sends a non-empty UID with every bind request;
      - an API release request carries a key object that is the parse of its own key string;
      - the only crdIpam-level operation is a configuration reload whose deletions of de-configured
        objects all succeed; a reload and a restart keep every IP configured that a not-finished pod of
        the API server holds in its binding annotation;
      - nothing else: filter, event, resync, pod-IP sync steps and all other environment steps are
        unconstrained. *)
From Coq Require Import String.
From stdpp Require Import gmap.
From Galaxy.Base Require Import Strs.
From Galaxy.Model Require Import Nets Pool Ipam Plugin.
From Galaxy.Model Require Keys.
From Galaxy.Proofs Require Import IpamP PluginInv PluginUnbindP PluginP PluginWitness.
Local Open Scope N_scope.

(** in every reachable world, every pod of the API server that was bound and has not finished owns
    its IPs: each is allocated under the pod's key for the pod's UID, and no IP of that key is stored
    for another incarnation *)
Theorem live_bound_owned : ∀ provider nodes ops, wf_hist (world0 provider nodes) ops →
  let w := prun (world0 provider nodes) ops in
  ∀ k p, w_pods w !! k = Some p → live_bound p → owned (w_ipam w) p.
Proof. exact live_bound_owned_l. Qed.
Print Assumptions live_bound_owned.

(** the world invariant [WInv] (of which the statement above is the clause [wi_owned]) is inductive *)
Theorem winv_preserved : ∀ w o, WInv w → wf_op w o → WInv (pstep w o).1.
Proof. exact winv_step. Qed.
Print Assumptions winv_preserved.

(** whatever operation - pod event, resync item, API release, pod-IP sync, reload, restart, filter,
    bind, environment step - is applied to a world satisfying the invariant: the IPs of a pod that is
    live and bound before and is still the same live incarnation afterwards are still allocated under
    its key, for its UID *)
Theorem live_ip_survives_step : ∀ w o k p q x, WInv w → wf_op w o →
  w_pods w !! k = Some p → live_bound p → x ∈ pd_ips p →
  w_pods (pstep w o).1 !! k = Some q → pd_uid q = pd_uid p → finished q = false → x ∈ pd_ips q →
  ∃ e, i_alloc (w_ipam (pstep w o).1) !! x = Some e ∧ e_key e = pod_key q ∧ e_uid e = pd_uid q.
Proof. exact live_ip_survives_step_l. Qed.
Print Assumptions live_ip_survives_step.

(** a late event of an earlier pod with the same key (same namespace, name, owner and pool) changes
    nothing but the queue while a live bound pod of that name exists: no release, no provider call *)
Theorem late_event_ignored : ∀ w n q p o oun fl, WInv w → w_queue w !! n = Some q →
  w_pods w !! pk q = Some p → live_bound p → pod_key p = pod_key q →
  w_ipam (pstep w (PEvent n o oun fl)).1 = w_ipam w ∧ w_cloud (pstep w (PEvent n o oun fl)).1 = w_cloud w ∧
  w_cloudlog (pstep w (PEvent n o oun fl)).1 = w_cloudlog w ∧ w_pods (pstep w (PEvent n o oun fl)).1 = w_pods w.
Proof. exact late_event_ignored_l. Qed.
Print Assumptions late_event_ignored.

(** remark: the premise [pod_key p = pod_key q] cannot be dropped.  A pod of the same namespace and name but
    another owner (here: a bare pod web-0 replaced by a statefulset pod web-0) has another key; the late
    delete event of the earlier pod then rightly releases the earlier pod's own IP (10.100.0.2), so the
    tables change, while the live pod's IP (10.100.0.3) is untouched *)
Theorem late_event_other_key :
  let w := prun (world0 false nodes1) h_other_key in
  let o := PEvent 0 (orc None None [ip2]) [] no_faults in
  WInv w ∧ (pstep w o).2 = ROk ∧
  ∃ q p, w_queue w !! 0%nat = Some q ∧ w_pods w !! pk q = Some p ∧ live_bound p ∧ pd_ips p = [ip3] ∧
         pod_key p ≠ pod_key q ∧ w_ipam (pstep w o).1 ≠ w_ipam w ∧
         is_Some (i_alloc (w_ipam w) !! ip2) ∧ i_alloc (w_ipam (pstep w o).1) !! ip2 = None ∧
         i_alloc (w_ipam (pstep w o).1) !! ip3 = i_alloc (w_ipam w) !! ip3.
Proof. exact late_event_other_key_releases. Qed.
Print Assumptions late_event_other_key.

(** non-vacuity: a concrete well-formed history (one pool 10.100.0.2~10.100.0.9, statefulset pod ns1/web-0
    created, seen by the informer, filtered and bound on node1) whose final world has a live bound pod,
    holding 10.100.0.2 under the key "sts_ns1_web_web-0" for its UID *)
Example live_bound_owned_nonvacuous : ∃ nodes ops, wf_hist (world0 false nodes) ops ∧
  let w := prun (world0 false nodes) ops in
  ∃ k p, w_pods w !! k = Some p ∧ live_bound p ∧ pd_ips p = [174325762] ∧
         ∃ e, i_alloc (w_ipam w) !! 174325762 = Some e ∧ e_key e = L "sts_ns1_web_web-0" ∧ e_uid e = L "uA".
Proof. exists nodes1, h_one. exact h_one_live. Qed.
Print Assumptions live_bound_owned_nonvacuous.

(** ** defects of the pinned commit, repaired by fix: commits in the Go code.
    [prun_fl f1 f2 f13] runs the model with the repair F1 (a pod event of an incarnation other than the one
    the IP is stored for is ignored), F2 (Bind refuses when the informer's pod is another incarnation than
    the one being bound) or F13 (Bind's stored-UID guard covers ALL IPs of the key) switched off;
    [prun_fl true true true = prun].  [violates_c04 w]: some live bound pod of [w] has an IP in its binding
    annotation that is not allocated under its key.  Each history is well-formed and none of its steps is
    stuck (Proofs/PluginWitness.v: [h_f1], [h_f2], [h_f13], [witnesses_not_stuck]). *)

(** F1: the late delete event of the earlier incarnation A releases the IP of the live pod B *)
Theorem live_bound_owned_refuted_late_event_old : ∃ nodes ops, wf_hist (world0 false nodes) ops ∧
  violates_c04 (prun_fl false true true (world0 false nodes) ops).
Proof. exact live_bound_owned_refuted_late_event. Qed.
Print Assumptions live_bound_owned_refuted_late_event_old.

(** F2: Bind of B on the informer's stale object of A stores A's UID with B's IP; A's delete event then
    passes the F1 test and releases it *)
Theorem live_bound_owned_refuted_stale_lister_old : ∃ nodes ops, wf_hist (world0 false nodes) ops ∧
  violates_c04 (prun_fl true false true (world0 false nodes) ops).
Proof. exact live_bound_owned_refuted_stale_lister. Qed.
Print Assumptions live_bound_owned_refuted_stale_lister_old.

(** F13: B is bound while the key still holds A's IP (stored for A's UID); the resync item of A's IP finds
    A "not running" and releases every IP of the key, B's included *)
Theorem live_bound_owned_refuted_mixed_uid_old : ∃ nodes ops, wf_hist (world0 false nodes) ops ∧
  violates_c04 (prun_fl true true false (world0 false nodes) ops).
Proof. exact live_bound_owned_refuted_mixed_uid. Qed.
Print Assumptions live_bound_owned_refuted_mixed_uid_old.

(** remark: with the repairs in place no well-formed history violates - in particular not the witnesses *)
Theorem witnesses_harmless_now :
  (∀ provider nodes ops, wf_hist (world0 provider nodes) ops →
     ¬ violates_c04 (prun (world0 provider nodes) ops) ∧ ¬ violates_c04 (prun_fl true true true (world0 provider nodes) ops)) ∧
  ¬ violates_c04 (prun (world0 false nodes1) h_f1) ∧ ¬ violates_c04 (prun (world0 false nodes1) h_f1c) ∧
  ¬ violates_c04 (prun (world0 false nodes1) h_f2) ∧ ¬ violates_c04 (prun (world0 false nodes1) h_f13).
Proof. exact (conj wf_hist_harmless witnesses_harmless). Qed.
Print Assumptions witnesses_harmless_now.
