(** C04 - A live pod's IP is never released, re-keyed or handed on.

    "While a pod that was bound by galaxy-ipam still exists and has not finished, its IP stays assigned
    to it: no delete/finish event of an earlier same-named pod, no resync pass, no API release request,
    no pod-IP sync and no configuration reload that still contains the IP may free it, move it to
    another owner or ask the cloud provider to unassign it."

    Property theorems only; the proofs are in Proofs/PluginP.v (assembly), Proofs/PluginEnvP.v,
    Proofs/PluginBindP.v, Proofs/PluginUnbindP.v (one file per kind of step), Proofs/PluginWitness.v
    (concrete histories) and Proofs/PluginStaleP.v (pod-IP sync with an earlier pod object).

    Quantifier: ALL histories [ops : list pop] of the scheduler-plugin model (Model/Plugin.v) that start in
    the empty world [world0 provider nodes] (with or without cloud provider, any node table): any
    interleaving of environment steps (pod created / deleted / phase change, the informer catching up
    for one pod, statefulset / deployment / pool objects set or removed, a queued event lost), scheduler
    filter and bind calls, queued pod events, resync items, API release requests, pod-IP syncs,
    configuration reloads and process restarts; every oracle (which IP / which order Go's map iteration
    took) and every single injected fault (store call, provider call, pods/binding call).

    Assumptions on histories = [wf_hist], i.e. [wf_op] (Proofs/PluginInv.v) at every step, in words:
      - a pod is created ([EPodPut]) without node and without IPs, with a non-empty UID that no pod
        object galaxy-ipam can still see carries (API server, informer cache, event queue); its
        namespace, name and (for statefulset / deployment pods) owner name are non-empty and contain
        no '_', its pool annotation contains no '_';
      - a finished pod (Succeeded / Failed) never becomes Pending / Running again ([EPodPhase]);
      - the scheduler sends a non-empty UID with every bind request;
      - an API release request carries a key object that is the parse of its own key string;
      - the only crdIpam-level operation is a configuration reload whose deletions of de-configured
        objects all succeed; a reload and a restart keep every IP configured that a not-finished pod of
        the API server holds in its binding annotation;
      - a pod-IP sync ([PSyncPod p]) is handed a pod object [p] whose names and UID are as above ([wf_pod]), and
        ANY such object: the informer's current object of that name, or an object the informer or the API server
        showed at an earlier point of the history - an earlier incarnation of a pod that has been deleted and
        created again under its name since ([pod_sync_object_current], [pod_sync_object_earlier] below);
      - nothing else: filter, event, resync steps and all other environment steps are unconstrained. *)
From Coq Require Import String.
From stdpp Require Import gmap.
From Galaxy.Base Require Import Strs.
From Galaxy.Model Require Import Nets Pool Ipam Plugin.
From Galaxy.Model Require Keys.
From Galaxy.Proofs Require Import IpamP PluginInv PluginUnbindP PluginP PluginWitness PluginStaleP.
Local Open Scope N_scope.

(** in every reachable world, every pod of the API server that was bound and has not finished owns
    its IPs: each is allocated under the pod's key for the pod's UID, and no IP of that key is stored
    for another incarnation *)
Theorem live_bound_owned : ∀ provider nodes ops, wf_hist (world0 provider nodes) ops →
  let w := prun (world0 provider nodes) ops in
  ∀ k p, w_pods w !! k = Some p → live_bound p → owned (w_ipam w) p.
Proof. exact live_bound_owned_l. Qed.
Print Assumptions live_bound_owned.

(** the world invariant [WInv] (of which the statement above is the clause [wi_owned]) is inductive *)
Theorem winv_preserved : ∀ w o, WInv w → wf_op w o → WInv (pstep w o).1.
Proof. exact winv_step. Qed.
Print Assumptions winv_preserved.

(** whatever operation - pod event, resync item, API release, pod-IP sync, reload, restart, filter,
    bind, environment step - is applied to a world satisfying the invariant: the IPs of a pod that is
    live and bound before and is still the same live incarnation afterwards are still allocated under
    its key, for its UID *)
Theorem live_ip_survives_step : ∀ w o k p q x, WInv w → wf_op w o →
  w_pods w !! k = Some p → live_bound p → x ∈ pd_ips p →
  w_pods (pstep w o).1 !! k = Some q → pd_uid q = pd_uid p → finished q = false → x ∈ pd_ips q →
  ∃ e, i_alloc (w_ipam (pstep w o).1) !! x = Some e ∧ e_key e = pod_key q ∧ e_uid e = pd_uid q.
Proof. exact live_ip_survives_step_l. Qed.
Print Assumptions live_ip_survives_step.

(** a late event of an earlier pod with the same key (same namespace, name, owner and pool) changes
    nothing but the queue while a live bound pod of that name exists: no release, no provider call *)
Theorem late_event_ignored : ∀ w n q p o oun fl, WInv w → w_queue w !! n = Some q →
  w_pods w !! pk q = Some p → live_bound p → pod_key p = pod_key q →
  w_ipam (pstep w (PEvent n o oun fl)).1 = w_ipam w ∧ w_cloud (pstep w (PEvent n o oun fl)).1 = w_cloud w ∧
  w_cloudlog (pstep w (PEvent n o oun fl)).1 = w_cloudlog w ∧ w_pods (pstep w (PEvent n o oun fl)).1 = w_pods w.
Proof. exact late_event_ignored_l. Qed.
Print Assumptions late_event_ignored.

(** remark: the premise [pod_key p = pod_key q] cannot be dropped.  A pod of the same namespace and name but
    another owner (here: a bare pod web-0 replaced by a statefulset pod web-0) has another key; the late
    delete event of the earlier pod then rightly releases the earlier pod's own IP (10.100.0.2), so the
    tables change, while the live pod's IP (10.100.0.3) is untouched *)
Theorem late_event_other_key :
  let w := prun (world0 false nodes1) h_other_key in
  let o := PEvent 0 (orc None None [ip2]) [] no_faults in
  WInv w ∧ (pstep w o).2 = ROk ∧
  ∃ q p, w_queue w !! 0%nat = Some q ∧ w_pods w !! pk q = Some p ∧ live_bound p ∧ pd_ips p = [ip3] ∧
         pod_key p ≠ pod_key q ∧ w_ipam (pstep w o).1 ≠ w_ipam w ∧
         is_Some (i_alloc (w_ipam w) !! ip2) ∧ i_alloc (w_ipam (pstep w o).1) !! ip2 = None ∧
         i_alloc (w_ipam (pstep w o).1) !! ip3 = i_alloc (w_ipam w) !! ip3.
Proof. exact late_event_other_key_releases. Qed.
Print Assumptions late_event_other_key.

(** non-vacuity: a concrete well-formed history (one pool 10.100.0.2~10.100.0.9, statefulset pod ns1/web-0
    created, seen by the informer, filtered and bound on node1) whose final world has a live bound pod,
    holding 10.100.0.2 under the key "sts_ns1_web_web-0" for its UID *)
Example live_bound_owned_nonvacuous : ∃ nodes ops, wf_hist (world0 false nodes) ops ∧
  let w := prun (world0 false nodes) ops in
  ∃ k p, w_pods w !! k = Some p ∧ live_bound p ∧ pd_ips p = [174325762] ∧
         ∃ e, i_alloc (w_ipam w) !! 174325762 = Some e ∧ e_key e = L "sts_ns1_web_web-0" ∧ e_uid e = L "uA".
Proof. exists nodes1, h_one. exact h_one_live. Qed.
Print Assumptions live_bound_owned_nonvacuous.

(** ** defects of the pinned commit, repaired by fix: commits in the Go code.
    [prun_fl f1 f2 f13] runs the model with the repair F1 (a pod event of an incarnation other than the one
    the IP is stored for is ignored), F2 (Bind refuses when the informer's pod is another incarnation than
    the one being bound) or F13 (Bind's stored-UID guard covers ALL IPs of the key) switched off;
    [prun_fl true true true = prun].  [violates_c04 w]: some live bound pod of [w] has an IP in its binding
    annotation that is not allocated under its key.  Each history is well-formed and none of its steps is
    stuck (Proofs/PluginWitness.v: [h_f1], [h_f2], [h_f13], [witnesses_not_stuck]). *)

(** F1: the late delete event of the earlier incarnation A releases the IP of the live pod B *)
Theorem live_bound_owned_refuted_late_event_old : ∃ nodes ops, wf_hist (world0 false nodes) ops ∧
  violates_c04 (prun_fl false true true (world0 false nodes) ops).
Proof. exact live_bound_owned_refuted_late_event. Qed.
Print Assumptions live_bound_owned_refuted_late_event_old.

(** F2: Bind of B on the informer's stale object of A stores A's UID with B's IP; A's delete event then
    passes the F1 test and releases it *)
Theorem live_bound_owned_refuted_stale_lister_old : ∃ nodes ops, wf_hist (world0 false nodes) ops ∧
  violates_c04 (prun_fl true false true (world0 false nodes) ops).
Proof. exact live_bound_owned_refuted_stale_lister. Qed.
Print Assumptions live_bound_owned_refuted_stale_lister_old.

(** F13: B is bound while the key still holds A's IP (stored for A's UID); the resync item of A's IP finds
    A "not running" and releases every IP of the key, B's included *)
Theorem live_bound_owned_refuted_mixed_uid_old : ∃ nodes ops, wf_hist (world0 false nodes) ops ∧
  violates_c04 (prun_fl true true false (world0 false nodes) ops).
Proof. exact live_bound_owned_refuted_mixed_uid. Qed.
Print Assumptions live_bound_owned_refuted_mixed_uid_old.

(** remark: with the repairs in place no well-formed history violates - in particular not the witnesses *)
Theorem witnesses_harmless_now :
  (∀ provider nodes ops, wf_hist (world0 provider nodes) ops →
     ¬ violates_c04 (prun (world0 provider nodes) ops) ∧ ¬ violates_c04 (prun_fl true true true (world0 provider nodes) ops)) ∧
  ¬ violates_c04 (prun (world0 false nodes1) h_f1) ∧ ¬ violates_c04 (prun (world0 false nodes1) h_f1c) ∧
  ¬ violates_c04 (prun (world0 false nodes1) h_f2) ∧ ¬ violates_c04 (prun (world0 false nodes1) h_f13).
Proof. exact (conj wf_hist_harmless witnesses_harmless). Qed.
Print Assumptions witnesses_harmless_now.

(** ** pod-IP sync with a pod object listed or queued earlier (F16)
    syncPodIP is handed a pod OBJECT: the periodic pass lists the informer's pods and then walks the list, a pod update
    handler runs some time after its event was queued.  The step [PSyncPod p fl] of the model is the repaired code
    ([sync_given true], fix 08c3290): holding the pod's lock it asks the informer again, skips an object whose UID is not
    the one the informer shows now, continues with the informer's current object, and syncs a pod the informer does
    not show as given.  [sync_given false] uses the given object as it is (the code before that repair, but with the later
    test F18 of [sync_ips]: no sync while the key holds an IP stored for another UID); the code as it was when F16 was
    found - the given object as it is and no F18 test - is [sync_pod_ip_old] of Proofs/PluginStaleP.v. *)

(** which objects a well-formed history may hand to the sync: (a) the informer's current object ... *)
Theorem pod_sync_object_current : ∀ w p fl, WInv w → w_lister w !! pk p = Some p → wf_op w (PSyncPod p fl).
Proof. exact sync_wf_current. Qed.
Print Assumptions pod_sync_object_current.

(** ... and (b) every object the informer or the API server showed after a prefix of the history, at any later point -
    whatever happened to the pod of that name since (deleted, created again with a fresh UID, bound to another IP) *)
Theorem pod_sync_object_earlier : ∀ provider nodes ops1 ops2 k p fl,
  wf_hist (world0 provider nodes) (ops1 ++ ops2) →
  w_lister (prun (world0 provider nodes) ops1) !! k = Some p ∨ w_pods (prun (world0 provider nodes) ops1) !! k = Some p →
  wf_hist (world0 provider nodes) (ops1 ++ ops2 ++ [PSyncPod p fl]).
Proof. exact sync_wf_earlier. Qed.
Print Assumptions pod_sync_object_earlier.

(** every live bound pod still owns its IPs after a pod-IP sync with ANY pod object (corollary of [winv_preserved]) *)
Theorem stale_sync_keeps_owners : ∀ w p fl k q,
  WInv w → wf_op w (PSyncPod p fl) → w_pods w !! k = Some q → live_bound q →
  owned (w_ipam (sync_given true w p fl)) q.
Proof. exact PluginStaleP.stale_sync_keeps_owners. Qed.
Print Assumptions stale_sync_keeps_owners.

(** an object of another incarnation than the one the informer shows is skipped: the world does not change *)
Theorem stale_sync_skipped : ∀ w p cur fl,
  w_lister w !! pk p = Some cur → pd_uid cur ≠ pd_uid p → sync_given true w p fl = w.
Proof. exact sync_given_stale. Qed.
Print Assumptions stale_sync_skipped.

(** F16: the behaviour before the repair breaks the property on a reachable world (the history the real code ran,
    Proofs/PluginStaleP.v [h_f16]).  Statefulset pod web-0 (uid uA, requesting 10.100.0.3) is created, seen, filtered,
    bound on node1, runs and is seen running by the informer - [pa] is that object; it is deleted, the informer sees
    it, the delete event is handled (10.100.0.3 released, default policy); web-0 (uid uB, requesting 10.100.0.5) is
    created, seen, filtered, bound, runs - [q].  The sync with [pa] takes 10.100.0.3 back under the shared key, stored
    for uA; the resync item of 10.100.0.3 finds "pod (uA) not running" and releases every IP of the key: 10.100.0.5 of
    the running pod is free.  With the repair the same continuation leaves [q] the owner. *)
Theorem stale_sync_refuted_old : ∃ nodes ops ops1 pa q x o ocl,
  wf_hist (world0 false nodes) (ops1 ++ ops) ∧
  let w := prun (world0 false nodes) (ops1 ++ ops) in
  (* [pa] is an earlier object of the pod of that name: Running, annotated with its IP [x] *)
  w_lister (prun (world0 false nodes) ops1) !! pk pa = Some pa ∧ pd_phase pa = 1 ∧ pd_ips pa = [x] ∧
  wf_op w (PSyncPod pa no_faults) ∧
  (* [q] is the pod of that name now: another incarnation, live, bound to another IP, owning it *)
  w_pods w !! pk q = Some q ∧ w_lister w !! pk q = Some q ∧ pk q = pk pa ∧ pd_uid q ≠ pd_uid pa ∧ x ∉ pd_ips q ∧
  live_bound q ∧ owned (w_ipam w) q ∧
  (* old behaviour (the given object synced as it is, no F18 test): after the sync with [pa] and the resync item of [x]
     (not stuck), [q] no longer owns its IP *)
  (resync_section (sync_pod_ip_old w pa no_faults) x o ocl no_faults).2 = SOk ∧
  ¬ owned (w_ipam (resync_section (sync_pod_ip_old w pa no_faults) x o ocl no_faults).1) q ∧
  (∀ y, y ∈ pd_ips q → i_alloc (w_ipam (resync_section (sync_pod_ip_old w pa no_faults) x o ocl no_faults).1) !! y = None) ∧
  (* repaired behaviour, same continuation: [q] keeps it *)
  (resync_section (sync_given true w pa no_faults) x o ocl no_faults).2 = SOk ∧
  owned (w_ipam (resync_section (sync_given true w pa no_faults) x o ocl no_faults).1) q ∧
  (* the later F18 test alone (the given object used as it is, [sync_given false]) also refuses this sync: the key holds
     the IP of [q], stored for another UID *)
  sync_given false w pa no_faults = w.
Proof. exact stale_sync_refuted_old_l. Qed.
Print Assumptions stale_sync_refuted_old.

(** the same history continued with the repaired step and the resync item is well-formed; the sync step changes
    nothing; pod web-0 (uB) still holds 10.100.0.5 under its key for its UID *)
Theorem stale_sync_repaired :
  let w := prun (world0 false nodes1) h_f16 in
  (pstep w (PSyncPod pod_a no_faults)).1 = w ∧
  wf_hist (world0 false nodes1) (h_f16 ++ [PSyncPod pod_a no_faults; PResync ip3 o_f16 [] no_faults]) ∧
  let w' := prun (world0 false nodes1) (h_f16 ++ [PSyncPod pod_a no_faults; PResync ip3 o_f16 [] no_faults]) in
  w_pods w' !! pk pod_b = Some pod_b ∧ live_bound pod_b ∧ owned (w_ipam w') pod_b ∧
  ∃ e, i_alloc (w_ipam w') !! ip5 = Some e ∧ e_key e = pod_key pod_b ∧ e_uid e = pd_uid pod_b.
Proof. exact stale_sync_repaired_on_witness. Qed.
Print Assumptions stale_sync_repaired.

(** non-vacuity of the sync clause of [wf_op]: a reachable world and an object of an earlier incarnation (its UID is not
    the one the informer shows; Running, with an IP annotated) that a well-formed history hands to the sync *)
Example stale_sync_nonvacuous : ∃ nodes ops p cur,
  let w := prun (world0 false nodes) ops in
  wf_hist (world0 false nodes) (ops ++ [PSyncPod p no_faults]) ∧
  w_lister w !! pk p = Some cur ∧ pd_uid cur ≠ pd_uid p ∧ pd_phase p = 1 ∧ pd_ips p ≠ [] ∧
  wf_op w (PSyncPod p no_faults).
Proof. exact stale_sync_nonvacuous_l. Qed.
Print Assumptions stale_sync_nonvacuous.

(** remark: "a pod the informer does not show is synced as given".  After web-0 (uA) is gone and its IP released, the
    sync with the earlier object takes 10.100.0.3 back under the pod's key for uA; no pod of that name exists, so no
    live pod's ownership is concerned and the invariant holds; the resync item of the IP finds no running pod and
    releases it again *)
Theorem stale_sync_of_gone_pod :
  let w := prun (world0 false nodes1) h_f16_gone in
  wf_hist (world0 false nodes1) (h_f16_gone ++ [PSyncPod pod_a no_faults; PResync ip3 (orc None None [ip3]) [] no_faults]) ∧
  w_lister w !! pk pod_a = None ∧ w_pods w !! pk pod_a = None ∧ i_alloc (w_ipam w) !! ip3 = None ∧
  (∃ e, i_alloc (w_ipam (pstep w (PSyncPod pod_a no_faults)).1) !! ip3 = Some e ∧ e_key e = pod_key pod_a ∧ e_uid e = pd_uid pod_a) ∧
  WInv (pstep w (PSyncPod pod_a no_faults)).1 ∧
  i_alloc (w_ipam (prun w [PSyncPod pod_a no_faults; PResync ip3 (orc None None [ip3]) [] no_faults])) !! ip3 = None.
Proof. exact stale_sync_gone_pod. Qed.
Print Assumptions stale_sync_of_gone_pod.
