(** C04 - A live pod's IP is never released, re-keyed or handed on.

    "While a pod that was bound by galaxy-ipam still exists and has not finished, its IP stays assigned
    to it: no delete/finish event of an earlier same-named pod, no resync pass, no API release request,
    no pod-IP sync and no configuration reload that still contains the IP may free it, move it to
    another owner or ask the cloud provider to unassign it."

    Property theorems only; the proofs are in Proofs/PluginP.v (assembly), Proofs/PluginEnvP.v,
    Proofs/PluginBindP.v, Proofs/PluginUnbindP.v (one file per kind of step) and Proofs/PluginWitness.v
    (concrete histories).

    Quantifier: ALL histories [ops : list pop] of the scheduler-plugin model (Model/Plugin.v) that start in
    the empty world [world0 provider nodes] (with or without cloud provider, any node table): any
    interleaving of environment steps (pod created / deleted / phase change, the informer catching up
    for one pod, statefulset / deployment / pool objects set or removed, a queued event lost), scheduler
    filter and bind calls, queued pod events, resync items, API release requests, pod-IP syncs,
    configuration reloads and process restarts; every oracle (which IP / which order Go's map iteration
    took) and every single injected fault (store call, provider call, pods/binding call).

    Assumptions on histories = [wf_hist], i.e. [wf_op] (Proofs/PluginInv.v) at every step, in words:
      - a pod is created ([EPodPut]) without node and without IPs, with a non-empty UID that no pod
        object galaxy-ipam can still see carries (API server, informer cache, event queue); its
        namespace, name and (for statefulset / deployment pods) owner name are non-empty and contain
        no '_', its pool annotation contains no '_';
      - a finished pod (Succeeded / Failed) never becomes Pending / Running again ([EPodPhase]);
      - the scheduler sends a non-empty UID with every bind request;
      - an API release request carries a key object that is the parse of its own key string;
      - the only crdIpam-level operation is a configuration reload whose deletions of de-configured
        objects all succeed; a reload and a restart keep every IP configured that a not-finished pod of
        the API server holds in its binding annotation;
      - nothing else: filter, event, resync, pod-IP sync steps and all other environment steps are
        unconstrained. *)
From Coq Require Import String.
From stdpp Require Import gmap.
From Galaxy.Base Require Import Strs.
From Galaxy.Model Require Import Nets Pool Ipam Plugin.
From Galaxy.Model Require Keys.
From Galaxy.Proofs Require Import IpamP PluginInv PluginUnbindP PluginP PluginWitness.
Local Open Scope N_scope.

(** in every reachable world, every pod of the API server that was bound and has not finished owns
    its IPs: each is allocated under the pod's key for the pod's UID, and no IP of that key is stored
    for another incarnation *)
Theorem live_bound_owned : ∀ provider nodes ops, wf_hist (world0 provider nodes) ops →
  let w := prun (world0 provider nodes) ops in
  ∀ k p, w_pods w !! k = Some p → live_bound p → owned (w_ipam w) p.
Proof. exact live_bound_owned_l. Qed.
Print Assumptions live_bound_owned.

(** the world invariant [WInv] (of which the statement above is the clause [wi_owned]) is inductive *)
Theorem winv_preserved : ∀ w o, WInv w → wf_op w o → WInv (pstep w o).1.
Proof. exact winv_step. Qed.
Print Assumptions winv_preserved.

(** whatever operation - pod event, resync item, API release, pod-IP sync, reload, restart, filter,
    bind, environment step - is applied to a world satisfying the invariant: the IPs of a pod that is
    live and bound before and is still the same live incarnation afterwards are still allocated under
    its key, for its UID *)
Theorem live_ip_survives_step : ∀ w o k p q x, WInv w → wf_op w o →
  w_pods w !! k = Some p → live_bound p → x ∈ pd_ips p →
  w_pods (pstep w o).1 !! k = Some q → pd_uid q = pd_uid p → finished q = false → x ∈ pd_ips q →
  ∃ e, i_alloc (w_ipam (pstep w o).1) !! x = Some e ∧ e_key e = pod_key q ∧ e_uid e = pd_uid q.
Proof. exact live_ip_survives_step_l. Qed.
Print Assumptions live_ip_survives_step.

(** a late event of an earlier pod with the same key (same namespace, name, owner and pool) changes
    nothing but the queue while a live bound pod of that name exists: no release, no provider call *)
Theorem late_event_ignored : ∀ w n q p o oun fl, WInv w → w_queue w !! n = Some q →
  w_pods w !! pk q = Some p → live_bound p → pod_key p = pod_key q →
  w_ipam (pstep w (PEvent n o oun fl)).1 = w_ipam w ∧ w_cloud (pstep w (PEvent n o oun fl)).1 = w_cloud w ∧
  w_cloudlog (pstep w (PEvent n o oun fl)).1 = w_cloudlog w ∧ w_pods (pstep w (PEvent n o oun fl)).1 = w_pods w.
Proof. exact late_event_ignored_l. Qed.
Print Assumptions late_event_ignored.
