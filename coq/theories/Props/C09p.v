(** C09 / C20 - De-configured IPs are never allocated, the tables are the configuration, a rejected configuration
    changes nothing: the statements at the level of the scheduler plugin (Model/Plugin.v), the plugin-level twins of
    [never_hand_reserved], [tables_are_configured], [reject_changes_nothing] of Props/C09.v.
    Property theorems only; proofs in Proofs/PluginAnswerP.v.

    Quantifier: [bound_ip_is_configured]: ANY world satisfying [WInv] (every world reachable by a well-formed
    history does), any bind request carrying a UID, any oracle and fault record; [plugin_tables_are_configured]: ALL
    well-formed histories ([wf_hist], Proofs/PluginInv.v - the assumptions are listed in Props/C01.v) from the empty
    world; the reload statements: ANY world, no assumption.

    Deviations from the statements asked for: [failed_list_changes_nothing] does not need the configuration text to
    be an accepted one - a reload whose List call failed leaves the world as it was whatever the text - and also
    states that the step reports an error. *)
From Coq Require Import String.
From stdpp Require Import gmap.
From Galaxy.Base Require Import Strs.
From Galaxy.Model Require Import Nets Pool Ipam Plugin PluginInfo.
From Galaxy.Model Require Keys.
From Galaxy.Proofs Require Import IpamP PluginInv PluginStickyP PluginAnswerP.
Local Open Scope N_scope.

(** every IP a successful Bind answers with - re-used or freshly allocated - lies in the configuration loaded when
    the request arrived, and Bind leaves the loaded configuration as it is *)
Theorem bound_ip_is_configured : ∀ w ns name uid node o fl w' ips,
  WInv w → uid ≠ [] → bind_section true true w ns name uid node o fl = (w', BOk ips) →
  (∀ x, x ∈ ips → configured (i_pools (w_ipam w)) x = true) ∧ i_pools (w_ipam w') = i_pools (w_ipam w).
Proof. exact bound_ip_is_configured_l. Qed.
Print Assumptions bound_ip_is_configured.

(** in every reachable world of the plugin model the two tables together hold exactly the configured addresses *)
Theorem plugin_tables_are_configured : ∀ provider nodes ops x, wf_hist (world0 provider nodes) ops →
  let i := w_ipam (prun (world0 provider nodes) ops) in
  (is_Some (i_alloc i !! x) ∨ x ∈ i_unalloc i) ↔ configured (i_pools i) x = true.
Proof. exact plugin_tables_are_configured_l. Qed.
Print Assumptions plugin_tables_are_configured.

(** a reload with a configuration text that does not decode leaves the WHOLE world - tables, store, pods, queue,
    provider view - as it was *)
Theorem rejected_reload_changes_nothing : ∀ w conf lf df,
  decode_pools conf = None → (pstep w (PIpam (OConfigure conf lf df))).1 = w.
Proof. exact rejected_reload_changes_nothing_l. Qed.
Print Assumptions rejected_reload_changes_nothing.

(** ... and so does a reload whose List call (ConfigurePool listing the FloatingIP objects) failed, whatever the
    text; the step reports the error *)
Theorem failed_list_changes_nothing : ∀ w conf df,
  (pstep w (PIpam (OConfigure conf true df))).1 = w ∧ (pstep w (PIpam (OConfigure conf true df))).2 = RErr.
Proof. exact failed_list_changes_nothing_l. Qed.
Print Assumptions failed_list_changes_nothing.
