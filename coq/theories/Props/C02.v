(** C02 - Float IP is sticky across reschedule and rolling update (scheduler plugin, sections [filter_section] and
    [bind_section true true] of Model/Plugin.v).  Property theorems only; proofs in Proofs/PluginStickyP.v.
    Quantifier: ANY world [w] (where an invariant is needed: any world satisfying [WInv], which every world
    reachable by a well-formed history satisfies), any pod, node list, oracle (what Go's map iteration chose) and
    fault record.  "The reservation exists" = the allocation table holds an entry under the pod's key (for a
    statefulset / bare pod) or under the pool prefix of its app (deployment, named pool).

    Deviations from the statements asked for (all stated below):
    - [sticky_bind]: premises [WInv w], [uid ≠ []] are not needed and were dropped; conclusion also gives that
      nothing is freed;
    - [sticky_ranges]: premise [uid ≠ []] dropped; WITHOUT pairwise-disjoint range lists the statement is false
      ([sticky_ranges_overlap_refuted]);
    - [dp_takes_reserve]: needs the extra premise [pools_routable] (every loaded pool lists at least one node
      subnet - true of every configuration FloatingIPPool.UnmarshalJSON accepts, see [routable_configure], but not
      recorded in [WInv]); [wf_pod p] is not needed; the conclusion is stronger: filter returns nodes EXACTLY when it
      re-keyed a reserve IP, and then the IP is stored for the pod's UID.  [pools_routable] is an invariant of every
      well-formed history (Proofs/PluginPoolP.v, [ns_ok]): [dp_takes_reserve_reachable] states the same for every
      reachable world without that premise. *)
From Coq Require Import String.
From stdpp Require Import gmap.
From Galaxy.Base Require Import Strs.
From Galaxy.Model Require Import Nets Pool Ipam Plugin PluginInfo.
From Galaxy.Model Require Keys.
From Galaxy.Proofs Require Import IpamP PluginInv PluginStickyP.
From Galaxy.Proofs Require PluginPoolP.
From Galaxy.Proofs Require Import PluginReplicasP.
From Galaxy.Proofs Require Import PluginRoundsP.
Local Open Scope N_scope.

(** a pod (any policy, no requested ranges) whose key holds IPs is offered exactly the nodes from which the IP the
    oracle names is routable, and filter changes nothing *)
Theorem sticky_filter : ∀ w p nodes o fl x e w' r,
  pd_ranges p = [] → i_alloc (w_ipam w) !! x = Some e → e_key e = pod_key p →
  filter_section w p nodes o fl = (w', r) → r ≠ FStuck →
  w' = w ∧ ∃ y ey, i_alloc (w_ipam w) !! y = Some ey ∧ e_key ey = pod_key p ∧
                   r = FNodes (List.filter (node_ok w (subnets_of_ip (w_ipam w) y)) nodes).
Proof. exact sticky_filter_l. Qed.
Print Assumptions sticky_filter.

(** ... and a successful bind writes exactly ONE of the IPs the key already holds - never a fresh one; whatever the
    outcome the IPs of the key stay keyed by it, nothing is allocated and nothing is freed *)
Theorem sticky_bind : ∀ w ns name uid node o fl p x e w' r,
  w_lister w !! (ns, name) = Some p → pd_ranges p = [] →
  i_alloc (w_ipam w) !! x = Some e → e_key e = pod_key p →
  bind_section true true w ns name uid node o fl = (w', r) →
  (∀ ips, r = BOk ips → ∃ y ey, ips = [y] ∧ i_alloc (w_ipam w) !! y = Some ey ∧ e_key ey = pod_key p) ∧
  (∀ y ey, i_alloc (w_ipam w) !! y = Some ey → e_key ey = pod_key p →
           ∃ ey', i_alloc (w_ipam w') !! y = Some ey' ∧ e_key ey' = pod_key p) ∧
  dom (i_alloc (w_ipam w')) = dom (i_alloc (w_ipam w)) ∧ i_unalloc (w_ipam w') = i_unalloc (w_ipam w).
Proof. exact sticky_bind_w. Qed.
Print Assumptions sticky_bind.

(** with k requested range lists, pairwise disjoint ([ranges_disjoint]: no address lies in two different range
    lists of the request): one IP per range list is written, and every range list that already has an IP of the
    key keeps that IP in the same position *)
Theorem sticky_ranges : ∀ w ns name uid node o fl p w' ips,
  WInv w → w_lister w !! (ns, name) = Some p → pd_ranges p ≠ [] → ranges_disjoint (pd_ranges p) →
  bind_section true true w ns name uid node o fl = (w', BOk ips) →
  List.length ips = List.length (pd_ranges p) ∧
  ∀ i y, by_key_ranges (w_ipam w) (pod_key p) (pd_ranges p) !! i = Some (Some y) → ips !! i = Some y.
Proof. exact sticky_ranges_w. Qed.
Print Assumptions sticky_ranges.

(** the disjointness premise is necessary.  Witness [wit4]: the pod requests [10.100.0.2-10.100.0.4] and
    [10.100.0.2] and its key holds 10.100.0.4; Bind allocates 10.100.0.2 for the second list, the re-query
    (ByKeyAndIPRanges) then meets 10.100.0.2 first in BOTH lists: the pod is bound with [10.100.0.2; 10.100.0.2],
    its old IP 10.100.0.4 stays reserved but is not written *)
Theorem sticky_ranges_overlap_refuted :
  ∃ w ns name uid node o fl p w' ips,
    WInv w ∧ uid ≠ [] ∧ w_lister w !! (ns, name) = Some p ∧ pd_ranges p ≠ [] ∧
    bind_section true true w ns name uid node o fl = (w', BOk ips) ∧
    ∃ i y, by_key_ranges (w_ipam w) (pod_key p) (pd_ranges p) !! i = Some (Some y) ∧ ips !! i ≠ Some y.
Proof. exact sticky_ranges_overlap_refuted_l. Qed.
Print Assumptions sticky_ranges_overlap_refuted.

(** deployment / pool pod with policy immutable or never and no IP under its own key: if the app (pool) holds reserve
    IPs, i.e. entries keyed by [Keys.pool_prefix (keyobj_of p)], filter allocates nothing fresh and either changes
    nothing (error - e.g. the app already uses as many IPs as it has replicas -, invalid oracle) or re-keys ONE
    reserve IP to the pod, stored for the pod's UID; it returns nodes exactly in the second case *)
Theorem dp_takes_reserve : ∀ w p nodes o fl w' r,
  WInv w → pools_routable (w_ipam w) → pd_kind p = KDp → policy_of p ≠ 0 → pd_ranges p = [] →
  (∀ y ey, i_alloc (w_ipam w) !! y = Some ey → e_key ey ≠ pod_key p) →
  (∃ y ey, i_alloc (w_ipam w) !! y = Some ey ∧ e_key ey = Keys.pool_prefix (keyobj_of p)) →
  filter_section w p nodes o fl = (w', r) →
  dom (i_alloc (w_ipam w')) = dom (i_alloc (w_ipam w)) ∧
  ((w' = w ∧ ∀ l, r ≠ FNodes l) ∨
   ((∃ l, r = FNodes l) ∧ w_pods w' = w_pods w ∧ w_lister w' = w_lister w ∧
    ∃ y ey ey', i_alloc (w_ipam w) !! y = Some ey ∧ e_key ey = Keys.pool_prefix (keyobj_of p) ∧
                i_alloc (w_ipam w') !! y = Some ey' ∧ e_key ey' = pod_key p ∧ e_uid ey' = pd_uid p ∧
                i_unalloc (w_ipam w') = i_unalloc (w_ipam w) ∧ i_pools (w_ipam w') = i_pools (w_ipam w) ∧
                ∀ z, z ≠ y → i_alloc (w_ipam w') !! z = i_alloc (w_ipam w) !! z)).
Proof. exact dp_takes_reserve_w. Qed.
Print Assumptions dp_takes_reserve.

(** ... for every world reachable by a well-formed history, without the premise [pools_routable]: it is an invariant
    ([PluginPoolP.ns_ok], the same predicate) *)
Theorem pools_routable_reachable : ∀ provider nodes0 ops,
  wf_hist (world0 provider nodes0) ops → pools_routable (w_ipam (prun (world0 provider nodes0) ops)).
Proof. intros * Hwf. exact (proj2 (PluginPoolP.cinv_run ops _ (PluginPoolP.cinv_init provider nodes0) Hwf)). Qed.
Print Assumptions pools_routable_reachable.

Theorem dp_takes_reserve_reachable : ∀ provider nodes0 ops p nodes o fl w' r,
  wf_hist (world0 provider nodes0) ops →
  let w := prun (world0 provider nodes0) ops in
  pd_kind p = KDp → policy_of p ≠ 0 → pd_ranges p = [] →
  (∀ y ey, i_alloc (w_ipam w) !! y = Some ey → e_key ey ≠ pod_key p) →
  (∃ y ey, i_alloc (w_ipam w) !! y = Some ey ∧ e_key ey = Keys.pool_prefix (keyobj_of p)) →
  filter_section w p nodes o fl = (w', r) →
  dom (i_alloc (w_ipam w')) = dom (i_alloc (w_ipam w)) ∧
  ((w' = w ∧ ∀ l, r ≠ FNodes l) ∨
   ((∃ l, r = FNodes l) ∧ w_pods w' = w_pods w ∧ w_lister w' = w_lister w ∧
    ∃ y ey ey', i_alloc (w_ipam w) !! y = Some ey ∧ e_key ey = Keys.pool_prefix (keyobj_of p) ∧
                i_alloc (w_ipam w') !! y = Some ey' ∧ e_key ey' = pod_key p ∧ e_uid ey' = pd_uid p ∧
                i_unalloc (w_ipam w') = i_unalloc (w_ipam w) ∧ i_pools (w_ipam w') = i_pools (w_ipam w) ∧
                ∀ z, z ≠ y → i_alloc (w_ipam w') !! z = i_alloc (w_ipam w) !! z)).
Proof.
  intros * Hwf w. destruct (PluginPoolP.cinv_run ops _ (PluginPoolP.cinv_init provider nodes0) Hwf) as [HW Hns].
  by apply dp_takes_reserve_w.
Qed.
Print Assumptions dp_takes_reserve_reachable.

(** [pools_routable] holds initially and is re-established by every (re)load of the configuration; no other
    operation changes the pools *)
Theorem routable_loaded : ∀ s conf lf df,
  pools_routable ipam0 ∧ (pools_routable s → pools_routable (step s (OConfigure conf lf df)).1.1) ∧
  (pools_routable s → pools_routable (step s (ORestart conf)).1.1).
Proof. intros. split_and!; [exact routable_init|apply routable_configure|apply routable_restart]. Qed.
Print Assumptions routable_loaded.

(** the hypotheses are satisfiable.  Worlds built from the process start ([ipam_init] = the tables of
    [pstep (world0 false nodes) (PIpam (OConfigure conf false []))], two pools) plus reservations:
    (1) statefulset pod web-0, policy never, scheduled again while its key holds 10.100.0.3: filter offers node1 and
        node2 (the pool's node subnets), bind on node2 writes exactly 10.100.0.3 *)
Example sticky_nonvacuous :
  let w := ex_sticky_world in let x := ip4 10 100 0 3 in
  WInv w ∧ w_lister w !! (L "ns1", L "web-0") = Some wit_pod ∧ pd_ranges wit_pod = [] ∧ policy_of wit_pod = 2 ∧
  (∃ e, i_alloc (w_ipam w) !! x = Some e ∧ e_key e = pod_key wit_pod) ∧
  (filter_section w wit_pod ex_allnodes (o_first_is x) no_faults).2 = FNodes [L "node1"; L "node2"] ∧
  (bind_section true true w (L "ns1") (L "web-0") (L "u2") (L "node2") (o_first_is x) no_faults).2 = BOk [x].
Proof. exact ex_sticky_l. Qed.

(** (2) the same pod requesting [10.100.0.3] and [10.101.0.2], the first of which its key holds *)
Example sticky_ranges_nonvacuous :
  let w := ex_ranges_world in let p := ex_ranges_pod in
  WInv w ∧ w_lister w !! (L "ns1", L "web-0") = Some p ∧ pd_ranges p ≠ [] ∧ ranges_disjoint (pd_ranges p) ∧
  by_key_ranges (w_ipam w) (pod_key p) (pd_ranges p) = [Some (ip4 10 100 0 3); None] ∧
  (bind_section true true w (L "ns1") (L "web-0") (L "u2") (L "node1") no_oracle no_faults).2 =
    BOk [ip4 10 100 0 3; ip4 10 101 0 2].
Proof. exact ex_sticky_ranges_l. Qed.

(** (3) a replacement pod of deployment ns1/dp (2 replicas, policy immutable) while the app holds 10.100.0.4 in
        reserve under "dp_ns1_dp_": filter re-keys it to the pod *)
Example dp_takes_reserve_nonvacuous :
  let w := ex_dp_world in let p := ex_dp_pod in let x := ip4 10 100 0 4 in
  WInv w ∧ pools_routable (w_ipam w) ∧ wf_pod p ∧ pd_kind p = KDp ∧ policy_of p ≠ 0 ∧ pd_ranges p = [] ∧
  (∀ y ey, i_alloc (w_ipam w) !! y = Some ey → e_key ey ≠ pod_key p) ∧
  (∃ ey, i_alloc (w_ipam w) !! x = Some ey ∧ e_key ey = Keys.pool_prefix (keyobj_of p)) ∧
  (filter_section w p ex_allnodes (o_choice_is x) no_faults).2 = FNodes [L "node1"] ∧
  (∃ ey', i_alloc (w_ipam (filter_section w p ex_allnodes (o_choice_is x) no_faults).1) !! x = Some ey' ∧ e_key ey' = pod_key p).
Proof. exact ex_dp_reserve_l. Qed.

(** * replacement pods of a deployment / pool with policy immutable or never (Proofs/PluginReplicasP.v)

    [dp_used w k] = the number of IPs the app (the named pool) of key [k] USES, as Filter counts it: exactly the [used]
    expression of [filter_section] - the entries under the pool prefix other than the reserve itself (the bare prefix
    key), for a named pool without a Pool object only those of the same deployment.  [(dp_replicas w k).1] = the
    replicas of the deployment, or the size of the Pool object.

    While the app already uses as many IPs as it has replicas, a replacement pod (no IP under its own key yet) is
    offered NO node and Filter changes nothing: the pod waits for the IP of the pod it replaces.  No further premise
    was needed: [ko_is_dp (keyobj_of p)] follows from [pd_kind p = KDp] without [wf_pod p], and an unsupported policy
    is an error all the same. *)
Theorem dp_waits_for_its_ip : ∀ w p nodes o fl w' r,
  pd_kind p = KDp → policy_of p ≠ 0 → pd_ranges p = [] →
  (∀ y ey, i_alloc (w_ipam w) !! y = Some ey → e_key ey ≠ pod_key p) →
  ((dp_replicas w (keyobj_of p)).1 <= N.of_nat (dp_used w (keyobj_of p)))%N →
  filter_section w p nodes o fl = (w', r) → w' = w ∧ ∀ l, r ≠ FNodes l.
Proof. exact dp_waits_for_its_ip_l. Qed.
Print Assumptions dp_waits_for_its_ip.

(** conversely: whenever Filter offers nodes to such a pod, the app uses fewer IPs than it has replicas *)
Theorem dp_offered_only_below_replicas : ∀ w p nodes o fl w' l,
  pd_kind p = KDp → policy_of p ≠ 0 → pd_ranges p = [] →
  (∀ y ey, i_alloc (w_ipam w) !! y = Some ey → e_key ey ≠ pod_key p) →
  filter_section w p nodes o fl = (w', FNodes l) →
  (N.of_nat (dp_used w (keyobj_of p)) < (dp_replicas w (keyobj_of p)).1)%N.
Proof. exact dp_offered_only_below_replicas_l. Qed.
Print Assumptions dp_offered_only_below_replicas.

(** Filter, then Bind: the pod is bound with an IP that WAITED in the app's reserve - never a fresh one while a
    reserved one waits ([dp_takes_reserve]: the only entry keyed by the pod in [w1] is the re-keyed reserve IP;
    [sticky_bind]: Bind writes exactly one IP the key already holds) *)
Theorem dp_filter_then_bind_uses_reserve : ∀ w p nodes o fl w1 l ns name uid node o2 fl2 w2 ips,
  WInv w → pools_routable (w_ipam w) → pd_kind p = KDp → policy_of p ≠ 0 → pd_ranges p = [] →
  (∀ y ey, i_alloc (w_ipam w) !! y = Some ey → e_key ey ≠ pod_key p) →
  (∃ y ey, i_alloc (w_ipam w) !! y = Some ey ∧ e_key ey = Keys.pool_prefix (keyobj_of p)) →
  filter_section w p nodes o fl = (w1, FNodes l) →
  w_lister w1 !! (ns, name) = Some p →
  bind_section true true w1 ns name uid node o2 fl2 = (w2, BOk ips) →
  ∃ y ey, ips = [y] ∧ i_alloc (w_ipam w) !! y = Some ey ∧ e_key ey = Keys.pool_prefix (keyobj_of p).
Proof. exact dp_filter_then_bind_uses_reserve_l. Qed.
Print Assumptions dp_filter_then_bind_uses_reserve.

(** the hypotheses are satisfiable.
    (4) deployment ns1/dp, policy immutable, ONE replica ([ex_dp_full_world]): the app uses 10.100.0.3 (held by the
        running pod dp-abc-old) and holds 10.100.0.4 in reserve; the replacement pod dp-abc-xyz is offered no node
        (Filter answers with an error) although a reserved IP waits *)
Example dp_waits_nonvacuous :
  let w := ex_dp_full_world in let p := ex_dp_pod in
  WInv w ∧ pools_routable (w_ipam w) ∧ pd_kind p = KDp ∧ policy_of p ≠ 0 ∧ pd_ranges p = [] ∧
  (∀ y ey, i_alloc (w_ipam w) !! y = Some ey → e_key ey ≠ pod_key p) ∧
  (∃ ey, i_alloc (w_ipam w) !! ip4 10 100 0 4 = Some ey ∧ e_key ey = Keys.pool_prefix (keyobj_of p)) ∧
  dp_replicas w (keyobj_of p) = (1, false) ∧ dp_used w (keyobj_of p) = 1%nat ∧
  ((dp_replicas w (keyobj_of p)).1 <= N.of_nat (dp_used w (keyobj_of p)))%N ∧
  (filter_section w p ex_allnodes (o_choice_is (ip4 10 100 0 4)) no_faults).2 = FErr.
Proof. exact ex_dp_waits_l. Qed.
Print Assumptions dp_waits_nonvacuous.

(** (5) the world of (3): 2 replicas, the app uses no IP and holds 10.100.0.4 in reserve.  Filter offers node1
        (0 < 2) and re-keys 10.100.0.4 to the pod; Bind on node1 writes exactly that IP *)
Example dp_filter_then_bind_nonvacuous :
  let w := ex_dp_world in let p := ex_dp_pod in let x := ip4 10 100 0 4 in
  let w1 := (filter_section w p ex_allnodes (o_choice_is x) no_faults).1 in
  WInv w ∧ pools_routable (w_ipam w) ∧ pd_kind p = KDp ∧ policy_of p ≠ 0 ∧ pd_ranges p = [] ∧
  (∀ y ey, i_alloc (w_ipam w) !! y = Some ey → e_key ey ≠ pod_key p) ∧
  (∃ ey, i_alloc (w_ipam w) !! x = Some ey ∧ e_key ey = Keys.pool_prefix (keyobj_of p)) ∧
  dp_used w (keyobj_of p) = 0%nat ∧ (dp_replicas w (keyobj_of p)).1 = 2 ∧
  (filter_section w p ex_allnodes (o_choice_is x) no_faults).2 = FNodes [L "node1"] ∧
  w_lister w1 !! (L "ns1", L "dp-abc-xyz") = Some p ∧
  (bind_section true true w1 (L "ns1") (L "dp-abc-xyz") (L "u5") (L "node1") (o_first_is x) no_faults).2 = BOk [x].
Proof. exact ex_dp_filter_bind_l. Qed.
Print Assumptions dp_filter_then_bind_nonvacuous.

(** ** a restart / a configuration reload keeps the configured allocations (Proofs/PluginRoundsP.v; twin of the monitor
    sticky_reservation_survives_reload)

    ANY world satisfying [WInv] ([WInv] contains "no undelivered administrator change": [i_pending = ∅], and the agreement
    of memory and store), any configuration [conf] the decoder accepts ([decode_pools conf = Some ps]; [pools_ok ps]
    follows, [decode_pools_ok]).  The step is the restart of the process resp. the reload with every deletion of a
    de-configured object succeeding (the only reload [wf_op] admits).  Every entry of the allocation table whose address
    the NEW pools configure ([configured (sort_pools ps) x]; ConfigurePool sorts the pools by gateway) is still in the
    table afterwards, the step answers ROk.
    Deviation from the statement asked for ("[i_alloc (w_ipam w') !! x = Some e]"): the entry of afterwards [e'] is the
    STORE's object for [x]; it has the key, policy, node, uid and reserved label of [e] ([proj], Proofs/IpamP.v) - the
    time stamp [e_time] is the store object's.  [WInv] relates memory and store only up to [proj], and the literal
    statement is false of some worlds satisfying [WInv]: [restart_keeps_exact_entry_refuted] below.  Where the store
    holds [e] itself ([i_store (w_ipam w) !! x = Some e]) the conclusion gives [e' = e]. *)
Theorem restart_keeps_configured_allocations : ∀ w conf ps w' r x e,
  WInv w → decode_pools conf = Some ps → pstep w (PRestart conf) = (w', r) →
  i_alloc (w_ipam w) !! x = Some e → configured (sort_pools ps) x = true →
  r = ROk ∧ ∃ e', i_alloc (w_ipam w') !! x = Some e' ∧ i_store (w_ipam w) !! x = Some e' ∧ proj e' = proj e.
Proof. exact restart_keeps_configured_allocations_l. Qed.
Print Assumptions restart_keeps_configured_allocations.

Theorem reload_keeps_configured_allocations : ∀ w conf ps w' r x e,
  WInv w → decode_pools conf = Some ps → pstep w (PIpam (OConfigure conf false [])) = (w', r) →
  i_alloc (w_ipam w) !! x = Some e → configured (sort_pools ps) x = true →
  r = ROk ∧ ∃ e', i_alloc (w_ipam w') !! x = Some e' ∧ i_store (w_ipam w) !! x = Some e' ∧ proj e' = proj e.
Proof. exact reload_keeps_configured_allocations_l. Qed.
Print Assumptions reload_keeps_configured_allocations.

(** non-vacuity ([ex_sticky_world]: 10.100.0.3 reserved under the key of statefulset pod ns1/web-0): restarted, or
    reloaded, with the configuration [ex_conf2] it runs with, the entry is there literally *)
Example restart_keeps_configured_nonvacuous :
  let w := ex_sticky_world in let x := ip4 10 100 0 3 in
  ∃ ps e, WInv w ∧ decode_pools ex_conf2 = Some ps ∧ i_alloc (w_ipam w) !! x = Some e ∧ e_key e = pod_key wit_pod ∧
          configured (sort_pools ps) x = true ∧
          pstep w (PRestart ex_conf2) = ((pstep w (PRestart ex_conf2)).1, ROk) ∧
          i_alloc (w_ipam (pstep w (PRestart ex_conf2)).1) !! x = Some e ∧
          pstep w (PIpam (OConfigure ex_conf2 false [])) = ((pstep w (PIpam (OConfigure ex_conf2 false []))).1, ROk) ∧
          i_alloc (w_ipam (pstep w (PIpam (OConfigure ex_conf2 false []))).1) !! x = Some e.
Proof. exact ex_restart_keeps_l. Qed.
Print Assumptions restart_keeps_configured_nonvacuous.

(** the literal statement ("the entry is unchanged", time stamp included) is FALSE under [WInv] alone.  World
    [resv_world]: on the tables loaded from [ex_conf2] an administrator reserves 10.100.0.3 (the labelled object is created
    in the store at clock t) and the informer delivers the event (the reservation enters memory at clock t + 1); no change
    is pending, memory and store agree in the sense of the invariant, [WInv] holds.  The restart and the reload rebuild
    memory from the store: the entry [e'] of afterwards has the same key, policy, node, uid and label, and another time
    stamp than the entry [e] of before.  (Such a world is not reachable by a [wf_hist] history - administrator operations
    are not among its steps; whether memory and store are literally equal on reachable worlds is not stated by [WInv] and
    was not investigated.) *)
Theorem restart_keeps_exact_entry_refuted :
  let w := resv_world in let x := ip4 10 100 0 3 in
  ∃ ps e e', WInv w ∧ decode_pools ex_conf2 = Some ps ∧ i_alloc (w_ipam w) !! x = Some e ∧
             configured (sort_pools ps) x = true ∧ e' ≠ e ∧ proj e' = proj e ∧
             i_alloc (w_ipam (pstep w (PRestart ex_conf2)).1) !! x = Some e' ∧
             i_alloc (w_ipam (pstep w (PIpam (OConfigure ex_conf2 false []))).1) !! x = Some e'.
Proof. exact restart_keeps_exact_entry_refuted_l. Qed.
Print Assumptions restart_keeps_exact_entry_refuted.
