(** C13 - The IPs a plugin configures are exactly the IPs IPAM allocated: the statements at the level of the
    scheduler plugin's Bind (section [bind_section true true] of Model/Plugin.v) - what Bind writes for the CNI plugin
    is what galaxy-ipam holds.  The codec half (annotation text to CNI arguments and back) is Props/C13.v.
    Property theorems only; proofs in Proofs/PluginAnswerP.v (on top of Proofs/PluginBindP.v, [bind_ok_owned], and
    Proofs/PluginStickyP.v, [bind_info_configured_l]).

    Quantifier: ANY world [w] satisfying [WInv] (every world reachable by a well-formed history does), any bind
    request carrying a UID, any oracle and fault record.  [p] is the pod object the informer shows for the request.
    - [ip_info i x] (Model/PluginInfo.v): (mask length, gateway, vlan) of the first loaded pool containing [x] - what
      crdIpam.toFloatingIPInfo puts next to the address in the binding annotation;
    - [bind_infos i ips] (Proofs/PluginAnswerP.v) = [map (ip_info i) ips]: the entries of the annotation, in the order
      of the IPs.

    Deviations from the statements asked for: none. *)
From Coq Require Import String.
From stdpp Require Import gmap.
From Galaxy.Base Require Import Strs.
From Galaxy.Model Require Import Nets Pool Ipam Plugin PluginInfo.
From Galaxy.Model Require Keys.
From Galaxy.Proofs Require Import IpamP PluginInv PluginStickyP PluginAnswerP.
Local Open Scope N_scope.

(** a successful Bind answers with one IP per requested range list (one IP when no range is requested); the API
    server's pod object then carries exactly this list, the node and the UID of the request, and every IP of the list
    is allocated in galaxy-ipam under the pod's key for that UID *)
Theorem bind_annotation_is_what_ipam_holds : ∀ w ns name uid node o fl p w' ips,
  WInv w → uid ≠ [] → w_lister w !! (ns, name) = Some p →
  bind_section true true w ns name uid node o fl = (w', BOk ips) →
  List.length ips = Nat.max 1 (List.length (pd_ranges p)) ∧
  ∃ q, w_pods w' !! (ns, name) = Some q ∧ pd_uid q = uid ∧ pd_node q = node ∧ pd_ips q = ips ∧
       ∀ x, x ∈ ips → ∃ e, i_alloc (w_ipam w') !! x = Some e ∧ e_key e = pod_key q ∧ e_uid e = uid.
Proof. exact bind_annotation_is_what_ipam_holds_l. Qed.
Print Assumptions bind_annotation_is_what_ipam_holds.

(** the annotation has exactly one entry per IP - as many as range lists requested, one when none is - and the entry
    of an IP is defined: mask length, gateway and VLAN of a loaded pool that contains the IP *)
Theorem bind_infos_match_ips : ∀ w ns name uid node o fl p w' ips,
  WInv w → uid ≠ [] → w_lister w !! (ns, name) = Some p →
  bind_section true true w ns name uid node o fl = (w', BOk ips) →
  List.length (bind_infos (w_ipam w') ips) = Nat.max 1 (List.length (pd_ranges p)) ∧
  Forall2 (λ x info, ∃ pl, In pl (i_pools (w_ipam w')) ∧ pool_contains pl x = true ∧
                           info = Some (p_masklen pl, p_gateway pl, p_vlan pl)) ips (bind_infos (w_ipam w') ips).
Proof. exact bind_infos_match_ips_l. Qed.
Print Assumptions bind_infos_match_ips.
