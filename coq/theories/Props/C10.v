(** C10 - Cloud-provider assign/unassign calls are well ordered per IP.

    "With a cloud provider configured, an IP is never assigned to a second node while the provider still
    has it assigned to another, every IP of a bound live pod is assigned to that pod's node, and an IP is
    unassigned before it is freed or handed to a different owner."

    Property theorems only; the statement definitions are in Proofs/PluginC10Spec.v, the proofs in
    Proofs/PluginC10P.v (on top of the world invariant [WInv] of Proofs/PluginInv.v and its per-step
    lemmas in PluginEnvP.v / PluginBindP.v / PluginUnbindP.v).

    The provider per IP is the automaton Unassigned | On node; [w_cloud] is its state, [w_cloudlog] the
    successful calls in order.
      [log_wf w]            replaying the log never meets an Assign of an IP that is On another node, and
                            ends in the provider's current state;
      [cloud_live w]        every IP of a live bound pod of the API server is On that pod's node;
      [cloud_alloc w]       an IP that is On a node is allocated, with that node stored in its entry;
      [freed_unassigned w w'] an IP that a step frees or hands to another key is Unassigned after the step.

    Quantifier: ALL histories of the scheduler-plugin model (Model/Plugin.v) from the empty world with a
    provider: pods created / deleted / finishing / moving between nodes, the informer lagging arbitrarily,
    every order of old-pod events versus new-pod filter / bind, resync items, API releases, pod-IP syncs,
    reloads, restarts, every oracle, every single store-call fault of an allocate / release / reserve call,
    every provider call failing cleanly (and the request being retried), the binding call failing.

    Assumptions on histories = [wf_c10_hist]: [wf_op] (the assumptions of C01 / C04, Proofs/PluginInv.v) plus
      - Bind names a node, and no UpdateAttr store call of Bind fails AFTER its AssignIP succeeded
        ([f_update = None]: outside the property's fault quantifier - provider calls failing cleanly);
      - a reload / restart keeps every IP configured that the provider has On a node ([keeps_assigned]);
      - [k3_free]: Bind on [node] happens only when no IP of the pod's key is On ANOTHER node.
    The last one excludes exactly the genuine defect of galaxy-ipam recorded as known finding K3 (reproduced on the
    real code, open); [cloud_wellformed_refuted_rebind] is a concrete [wf_hist] history that takes such a step and
    after which [log_wf] is false.
    Resync items and API releases carry NO condition: the defect K3b (a resync item / API release of a pod holding
    several IPs unassigned the item's IP only but cleared the stored node of, and released, every IP of the key) is
    repaired and the model follows the repaired code.  [cloud_wellformed_refuted_multi_ip_resync_old] and
    [cloud_wellformed_refuted_nodeless_resync_old] record what the code did BEFORE the repair
    ([resync_section_old], Proofs/PluginC10P.v): reachable worlds in which the old resync item breaks [cloud_alloc]
    and the repaired one, with a valid oracle, keeps it. *)
From Coq Require Import String.
From stdpp Require Import gmap.
From Galaxy.Base Require Import Strs.
From Galaxy.Model Require Import Nets Pool Ipam Plugin.
From Galaxy.Model Require Keys.
From Galaxy.Proofs Require Import IpamP PluginInv PluginC10Spec PluginC10P.
Local Open Scope N_scope.

(** in every reachable world of a [wf_c10] history: the calls so far are well ordered, every IP of a live
    bound pod is On the pod's node, and whatever is On a node is allocated with that node stored *)
Theorem cloud_wellformed : ∀ nodes ops, let w0 := world0 true nodes in wf_c10_hist w0 ops →
  let w := prun w0 ops in log_wf w ∧ cloud_live w ∧ cloud_alloc w.
Proof. exact cloud_wellformed_l. Qed.
Print Assumptions cloud_wellformed.

(** the last step of a [wf_c10] history leaves Unassigned every IP it frees or hands to another owner *)
Theorem freed_before_reuse : ∀ nodes ops o, let w0 := world0 true nodes in wf_c10_hist w0 (ops ++ [o]) →
  freed_unassigned (prun w0 ops) (prun w0 (ops ++ [o])).
Proof. exact freed_before_reuse_l. Qed.
Print Assumptions freed_before_reuse.

(** the invariant behind both is inductive *)
Theorem cloud_invariant_preserved : ∀ w o, CInv w → wf_c10 w o → CInv (pstep w o).1.
Proof. exact cinv_step. Qed.
Print Assumptions cloud_invariant_preserved.

(** K3: the binding call of Bind(node1) fails after AssignIP(ip, node1); the retry binds on node2 and calls
    AssignIP(ip, node2) while the provider still has the IP On node1 *)
Theorem cloud_wellformed_refuted_rebind : ∃ nodes ops, wf_hist (world0 true nodes) ops ∧
  log_replay ∅ (w_cloudlog (prun (world0 true nodes) ops)) = None.
Proof. exists c10_nodes, h_k3. exact h_k3_refutes. Qed.
Print Assumptions cloud_wellformed_refuted_rebind.

(** K3b, before the repair: a deleted pod held two IPs On node1; the OLD resync item of one of them unassigned that one
    only and released both - the other is free while the provider still has it On the node.  The repaired item (oracle:
    unassign order, then clearing order) is not stuck and keeps [cloud_alloc] *)
Theorem cloud_wellformed_refuted_multi_ip_resync_old : ∃ nodes ops ip o ocl_old ocl, wf_hist (world0 true nodes) ops ∧
  ¬ cloud_alloc (resync_section_old (prun (world0 true nodes) ops) ip o ocl_old no_faults).1 ∧
  (resync_section (prun (world0 true nodes) ops) ip o ocl no_faults).2 = SOk ∧
  cloud_alloc (resync_section (prun (world0 true nodes) ops) ip o ocl no_faults).1.
Proof. exists c10_nodes, h_k3b, c10_ip2, k3b_orc, [c10_ip2; c10_ip3], ocl_k3b. exact h_k3b_old_refutes. Qed.
Print Assumptions cloud_wellformed_refuted_multi_ip_resync_old.

(** K3b, second form (before the repair): the item's own IP has no node stored (Bind of the next incarnation failed
    cleanly at the second AssignIP) while another IP of the key is On node1: the OLD item called no provider and
    released both IPs.  The repaired item unassigns every IP of the key that has a node stored *)
Theorem cloud_wellformed_refuted_nodeless_resync_old : ∃ nodes ops ip o ocl_old ocl, wf_hist (world0 true nodes) ops ∧
  ¬ cloud_alloc (resync_section_old (prun (world0 true nodes) ops) ip o ocl_old no_faults).1 ∧
  (resync_section (prun (world0 true nodes) ops) ip o ocl no_faults).2 = SOk ∧
  cloud_alloc (resync_section (prun (world0 true nodes) ops) ip o ocl no_faults).1.
Proof. exists c10_nodes, h_k3b_nodeless, c10_ip3, k3b_orc, [], ocl_k3bn. exact h_k3b_nodeless_old_refutes. Qed.
Print Assumptions cloud_wellformed_refuted_nodeless_resync_old.

(** the theorems' domain contains histories with a live bound pod *)
Example c10_nonvacuous : ∃ nodes ops, wf_c10_hist (world0 true nodes) ops ∧
  (∃ k p, w_pods (prun (world0 true nodes) ops) !! k = Some p ∧ live_bound p).
Proof. exists c10_nodes, h_c10_ok. exact h_c10_ok_live. Qed.
Print Assumptions c10_nonvacuous.
