(** C10 - Cloud-provider assign/unassign calls are well ordered per IP.

    "With a cloud provider configured, an IP is never assigned to a second node while the provider still
    has it assigned to another, every IP of a bound live pod is assigned to that pod's node, and an IP is
    unassigned before it is freed or handed to a different owner."

    Property theorems only; the statement definitions are in Proofs/PluginC10Spec.v, the proofs in
    Proofs/PluginC10P.v (on top of the world invariant [WInv] of Proofs/PluginInv.v and its per-step
    lemmas in PluginEnvP.v / PluginBindP.v / PluginUnbindP.v).

    The provider per IP is the automaton Unassigned | On node; [w_cloud] is its state, [w_cloudlog] the
    successful calls in order.
      [log_wf w]            replaying the log never meets an Assign of an IP that is On another node, and
                            ends in the provider's current state;
      [cloud_live w]        every IP of a live bound pod of the API server is On that pod's node;
      [cloud_alloc w]       an IP that is On a node is allocated, with that node stored in its entry;
      [freed_unassigned w w'] an IP that a step frees or hands to another key is Unassigned after the step.

    Quantifier: ALL histories of the scheduler-plugin model (Model/Plugin.v) from the empty world with a
    provider: pods created / deleted / finishing / moving between nodes, the informer lagging arbitrarily,
    every order of old-pod events versus new-pod filter / bind, resync items, API releases, pod-IP syncs,
    reloads, restarts, every oracle, every single store-call fault of an allocate / release / reserve call,
    every provider call failing cleanly (and the request being retried), the binding call failing.

    Assumptions on histories = [wf_c10_hist]: [wf_op] (the assumptions of C01 / C04, Proofs/PluginInv.v) plus
      - Bind names a node, and no UpdateAttr store call of Bind fails AFTER its AssignIP succeeded
        ([f_update = None]: outside the property's fault quantifier - provider calls failing cleanly);
      - a reload / restart keeps every IP configured that the provider has On a node ([keeps_assigned]);
      - [k3_free]: Bind on [node] happens only when no IP of the pod's key is On ANOTHER node;
      - [k3b_free]: a resync item / API release of [ip] happens only when no OTHER IP of the same key is On
        a node.
    The last two exclude exactly the two genuine defects of galaxy-ipam recorded as known findings K3 / K3b
    (reproduced on the real code); [cloud_wellformed_refuted_rebind] and
    [cloud_wellformed_refuted_multi_ip_resync] are concrete [wf_hist] histories that take such a step and
    after which [log_wf] resp. [cloud_alloc] is false. *)
From Coq Require Import String.
From stdpp Require Import gmap.
From Galaxy.Base Require Import Strs.
From Galaxy.Model Require Import Nets Pool Ipam Plugin.
From Galaxy.Model Require Keys.
From Galaxy.Proofs Require Import IpamP PluginInv PluginC10Spec PluginC10P.
Local Open Scope N_scope.

(** in every reachable world of a [wf_c10] history: the calls so far are well ordered, every IP of a live
    bound pod is On the pod's node, and whatever is On a node is allocated with that node stored *)
Theorem cloud_wellformed : ∀ nodes ops, let w0 := world0 true nodes in wf_c10_hist w0 ops →
  let w := prun w0 ops in log_wf w ∧ cloud_live w ∧ cloud_alloc w.
Proof. exact cloud_wellformed_l. Qed.
Print Assumptions cloud_wellformed.

(** the last step of a [wf_c10] history leaves Unassigned every IP it frees or hands to another owner *)
Theorem freed_before_reuse : ∀ nodes ops o, let w0 := world0 true nodes in wf_c10_hist w0 (ops ++ [o]) →
  freed_unassigned (prun w0 ops) (prun w0 (ops ++ [o])).
Proof. exact freed_before_reuse_l. Qed.
Print Assumptions freed_before_reuse.

(** the invariant behind both is inductive *)
Theorem cloud_invariant_preserved : ∀ w o, CInv w → wf_c10 w o → CInv (pstep w o).1.
Proof. exact cinv_step. Qed.
Print Assumptions cloud_invariant_preserved.

(** K3: the binding call of Bind(node1) fails after AssignIP(ip, node1); the retry binds on node2 and calls
    AssignIP(ip, node2) while the provider still has the IP On node1 *)
Theorem cloud_wellformed_refuted_rebind : ∃ nodes ops, wf_hist (world0 true nodes) ops ∧
  log_replay ∅ (w_cloudlog (prun (world0 true nodes) ops)) = None.
Proof. exists c10_nodes, h_k3. exact h_k3_refutes. Qed.
Print Assumptions cloud_wellformed_refuted_rebind.

(** K3b: a deleted pod held two IPs; the resync item of one unassigns that one only and releases both: the
    other is free while the provider still has it On the node *)
Theorem cloud_wellformed_refuted_multi_ip_resync : ∃ nodes ops, wf_hist (world0 true nodes) ops ∧
  ¬ cloud_alloc (prun (world0 true nodes) ops).
Proof. exists c10_nodes, h_k3b. exact h_k3b_refutes. Qed.
Print Assumptions cloud_wellformed_refuted_multi_ip_resync.

(** the theorems' domain contains histories with a live bound pod *)
Example c10_nonvacuous : ∃ nodes ops, wf_c10_hist (world0 true nodes) ops ∧
  (∃ k p, w_pods (prun (world0 true nodes) ops) !! k = Some p ∧ live_bound p).
Proof. exists c10_nodes, h_c10_ok. exact h_c10_ok_live. Qed.
Print Assumptions c10_nonvacuous.
