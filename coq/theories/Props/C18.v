(** C18 - No request, watched object or configuration can crash or wedge a daemon.   (proof: PARTIAL)
    Property theorems only; proofs are in Proofs/SurfP.v, Proofs/PoolP.v, Proofs/LocksetP.v.

    FULL STATEMENT (not provable as a theorem about these models): for EVERY pod object, HTTP request, NetworkPolicy,
    CNI request and configuration text, galaxy-ipam and galaxy answer with a result or an error in bounded time and keep
    no lock.  PROVED below, for all inputs, on executable models of the pure parsing/decision surfaces: no [Panic]
    point (nil dereference, index out of range) is reached and the range walk returns within stated fuel; and every
    function whose lock operations pass [locks_balanced_b] (evaluated at run time on the paths extracted from the Go
    source) runs each path to completion without blocking on itself and leaves every lock free.  MISSING: Filter / Bind /
    pod events end to end, the HTTP handlers with go-restful's entity decoding, the API controllers, the PolicyManager
    beyond rule-set alignment, encoding/json itself - these are only differentially tested (harness/cmd/ghsurf). *)
From Coq Require Import List Ascii String NArith ZArith Bool.
From Galaxy.Base Require Import Strs.
From Galaxy.Model Require Import Nets Pool Page Surf Lockset.
From Galaxy.Proofs Require Import NetsP PoolP SurfP LocksetP.
Import ListNotations.
Open Scope N_scope.

(** ---- configuration text (Model/Pool.v, Model/Nets.v; tied to the code by C20's correspondence) *)
Theorem unmarshal_pool_no_panic : forall j, unmarshal_pool cur_flags j <> Panic.
Proof. exact unmarshal_pool_no_panic_l. Qed.
Print Assumptions unmarshal_pool_no_panic.

Theorem parse_range_total : forall s, parse_range s = None \/ exists f l, parse_range s = Some (f, l).
Proof. exact parse_range_total_l. Qed.
Print Assumptions parse_range_total.

(** walkIPRanges (ConfigurePool and its four other callers) returns within [total size + 2] steps for every
    list of ordered ranges below 2^32 - pool ranges and a pod's request_ip_range alike *)
Theorem walk_terminates : forall p, Forall range_ok (p_ranges p) ->
  enumerate cur_flags (N.to_nat (total_size p) + 2) p <> None.
Proof. exact enumerate_terminates_l. Qed.
Print Assumptions walk_terminates.

(** ---- networks annotation: no annotation value (text form or any JSON tree) makes resolveNetworks dereference nil *)
Theorem net_annotation_no_panic : forall conf a, resolve_networks cur_sflags conf a <> Panic.
Proof. exact net_annotation_no_panic_l. Qed.
Print Assumptions net_annotation_no_panic.

(** ---- Preempt: nil Pod, nil victims, nil victim pods, any victim map *)
Theorem preempt_no_panic : forall keep a, preempt cur_sflags keep a <> Panic.
Proof. exact preempt_no_panic_l. Qed.
Print Assumptions preempt_no_panic.

(** ---- policy: for every combination of policyTypes and rule lists, every pod and every set of matching peers, the
    sync procedures index existing rule sets inside their bounds and never touch a nil table *)
Theorem policy_sync_no_panic : forall n target hit_i hit_e, sync_policy cur_sflags n target hit_i hit_e <> Panic.
Proof. exact policy_sync_no_panic_l. Qed.
Print Assumptions policy_sync_no_panic.

Theorem policy_rules_aligned : forall n,
  (forall rs, fst (policy_result n) = Some rs -> List.length rs = List.length (np_ingress n)) /\
  (forall rs, snd (policy_result n) = Some rs -> List.length rs = List.length (np_egress n)).
Proof. exact policy_rules_aligned_l. Qed.
Print Assumptions policy_rules_aligned.

(** ---- CNI request and CNI_ARGS *)
Theorem cni_request_no_panic : forall env, cni_request env <> Panic.
Proof. exact cni_request_no_panic_l. Qed.
Print Assumptions cni_request_no_panic.

(** ---- Pagination: 0 <= start <= end <= len for every page/size text, and page*size cannot overflow int64 *)
Theorem pagination_slice_safe : forall ps ss len,
  let p := parse_page ps in let s := parse_size ss in
  page_start p s len <= page_end p s len /\ page_end p s len <= len /\ p * s < 2 ^ 63 /\ 1 <= s.
Proof. exact pagination_slice_safe_l. Qed.
Print Assumptions pagination_slice_safe.

Theorem parse_pod_index_no_panic : forall name, parse_pod_index name <> Panic.
Proof. exact parse_pod_index_no_panic_l. Qed.
Print Assumptions parse_pod_index_no_panic.

(** ---- lock balance: a path accepted by the decision procedure, run by any thread from the all-free lock state,
    completes (it never waits for a lock it holds itself) and leaves every lock free *)
Theorem balanced_sound : forall p, balanced_path p = true -> forall t L, (forall l, L l = Shared []) ->
  exists L', run t (expand p []) L L' /\ forall l, L' l = Shared [].
Proof. exact balanced_sound_l. Qed.
Print Assumptions balanced_sound.

Theorem locks_balanced : forall fns, locks_balanced_b fns = true ->
  forall f p, In f fns -> In p f -> forall t L, (forall l, L l = Shared []) ->
  exists L', run t (expand p []) L L' /\ forall l, L' l = Shared [].
Proof. exact locks_balanced_l. Qed.
Print Assumptions locks_balanced.

(** non-vacuity: inputs that pass through every stage *)
Example surfaces_nonvacuous :
  resolve_networks cur_sflags galaxy_conf (AJson (JArr [JObj [(L "name", JStr (L "galaxy-flannel"))];
                                                        JObj [(L "name", JStr (L "galaxy-k8s-vlan")); (L "interface", JStr (L "eth1"))]])) = Ok 2 /\
  resolve_networks cur_sflags galaxy_conf (AText (L "ns1/galaxy-flannel@eth1, galaxy-k8s-vlan")) = Ok 2 /\
  preempt cur_sflags (fun _ => true) {| pa_pod := Some false; pa_victims := [(L "n1", Some [Some 1; None]); (L "n2", None)]; pa_meta := [] |}
    = Ok [L "n1"] /\
  sync_policy cur_sflags {| np_types := [TIngress]; np_ingress := [[PPod; PIpBlock]; [PNs]]; np_egress := [[PPod]] |} true
              (fun _ _ => true) (fun _ _ => true) = Ok tt /\
  balanced_path [LAct (RAcq 0); LAct (RRel 0); LAct (Acq 0); LDefer (Rel 0)] = true.
Proof. vm_compute. repeat split. Qed.

(** ---- defects of the pinned commit, repaired by `fix:` commits; the witnesses are corpus cases *)
Theorem net_annotation_refuted_null : resolve_networks old_sflags galaxy_conf (AJson (JArr [JNull])) = Panic.
Proof. exact net_annotation_refuted_null_l. Qed.
Print Assumptions net_annotation_refuted_null.

Theorem preempt_refuted_nil_pod :
  preempt old_sflags (fun _ => true) {| pa_pod := None; pa_victims := []; pa_meta := [] |} = Panic.
Proof. exact preempt_refuted_nil_pod_l. Qed.
Print Assumptions preempt_refuted_nil_pod.

Theorem preempt_refuted_nil_victim :
  preempt old_sflags (fun _ => true) {| pa_pod := Some true; pa_victims := [(L "n1", None)]; pa_meta := [] |} = Panic /\
  preempt old_sflags (fun _ => true) {| pa_pod := Some true; pa_victims := [(L "n1", Some [None])]; pa_meta := [] |} = Panic.
Proof. exact preempt_refuted_nil_victim_l. Qed.
Print Assumptions preempt_refuted_nil_victim.

Theorem policy_sync_refuted_omitted_direction :
  sync_policy old_sflags {| np_types := [TIngress]; np_ingress := []; np_egress := [[PPod]] |} false
              (fun _ _ => true) (fun _ _ => true) = Panic /\
  sync_policy old_sflags {| np_types := [TEgress]; np_ingress := [[PNs]]; np_egress := [] |} false
              (fun _ _ => true) (fun _ _ => true) = Panic.
Proof. exact policy_sync_refuted_l. Qed.
Print Assumptions policy_sync_refuted_omitted_direction.

Theorem unmarshal_pool_refuted_null_subnet : exists j, unmarshal_pool old_flags j = Panic.
Proof. exact unmarshal_pool_refuted_null_subnet_l. Qed.
Print Assumptions unmarshal_pool_refuted_null_subnet.

Theorem walk_refuted_wrap_c18 : forall fuel cur acc, cur < two32 ->
  walk_range old_flags fuel cur 4294967295 acc = None.
Proof. exact walk_refuted_wrap_l. Qed.
Print Assumptions walk_refuted_wrap_c18.
