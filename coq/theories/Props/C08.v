(** C08 - Multi-IP requests get one IP per range, all or nothing (crdIpam layer).
    Property theorems only; proofs in Proofs/IpamP.v. *)
From stdpp Require Import gmap.
From Galaxy.Base Require Import Strs.
From Galaxy.Model Require Import Nets Pool Ipam.
From Galaxy.Proofs Require Import IpamP.
Local Open Scope N_scope.

(** success: exactly one IP per requested range list, in request order, pairwise distinct, the i-th
    inside the i-th list, each free before and routable from the node's subnet; afterwards they
    are owned by the key in memory AND in the store, and nothing else changed *)
Theorem alloc_ranges_ok : ∀ s key sn rss a nfail s' ips, Inv s →
  alloc_ranges s key sn rss a nfail = (s', AOk, ips) →
  Inv s' ∧ NoDup ips ∧ length ips = length rss ∧
  Forall2 (λ x rs, subnet_candidate s sn x = true ∧ existsb (λ r, range_contains r x) rs = true) ips rss ∧
  (∀ y, i_alloc s' !! y = if decide (y ∈ ips) then Some (mk_entry key a false (i_clock s)) else i_alloc s !! y) ∧
  (∀ y, i_store s' !! y = if decide (y ∈ ips) then Some (mk_entry key a false (i_clock s)) else i_store s !! y) ∧
  (∀ y, y ∈ ips → i_store s !! y = None) ∧
  i_unalloc s' = i_unalloc s ∖ list_to_set ips ∧ i_pools s' = i_pools s.
Proof. exact alloc_ranges_ok_state. Qed.
Print Assumptions alloc_ranges_ok.

(** all or nothing: if the call does not succeed - some range list has no free routable IP, or the
    j-th object creation fails for ANY j (injected failure or a name conflict) - the state after the
    rollback is IDENTICAL to the state before: no IP stays allocated, no object stays in the store *)
Theorem alloc_ranges_atomic : ∀ s key sn rss a nfail s' r ips,
  alloc_ranges s key sn rss a nfail = (s', r, ips) → r ≠ AOk → s' = s ∧ ips = [].
Proof. exact alloc_ranges_atomic_l. Qed.
Print Assumptions alloc_ranges_atomic.

(** the explicit rollback loop restores the store it started from, whatever prefix was created *)
Theorem rollback_restores : ∀ key a t ips st nfail st' created ok,
  create_all st key a t ips nfail = (st', created, ok) → rollback st' created = st.
Proof. intros key a t ips st nfail st' created ok H. apply (create_all_spec _ _ _ _ _ _ _ _ _ H). Qed.
Print Assumptions rollback_restores.
