(** C08 - Multi-IP requests get one IP per range, all or nothing: the statements at the level of the scheduler
    plugin's Bind (section [bind_section true true] of Model/Plugin.v), the plugin-level twins of the crdIpam-level
    theorems of Props/C08.v.  Property theorems only; proofs in Proofs/PluginAnswerP.v.

    Quantifier: ANY world [w] satisfying [WInv] (every world reachable by a well-formed history does), any bind
    request, oracle and fault record.  [p] is the pod object the informer shows for the request, [pd_ranges p] its
    request_ip_range (a list of range lists).
    - [in_ranges rl x] (Proofs/PluginStickyP.v) = [existsb (λ r, range_contains r x) rl]: the address lies in one of
      the ranges of the list - the predicate ByKeyAndIPRanges / AllocateInSubnetsAndIPRange walk with;
    - [ranges_disjoint rss] (ibid.): no address lies in two different range lists of the request;
    - [holds i key x] (Proofs/PluginAnswerP.v) = [∃ e, i_alloc i !! x = Some e ∧ e_key e = key]: the allocation table
      holds [x] under [key].

    Deviations from the statements asked for: none in the premises.  [bind_all_or_nothing] keeps the premise
    [r ≠ BStuck] although it is not used (a stuck section - an oracle the model rejects - changes nothing);
    [uid ≠ []] is not needed for either theorem. *)
From Coq Require Import String.
From stdpp Require Import gmap.
From Galaxy.Base Require Import Strs.
From Galaxy.Model Require Import Nets Pool Ipam Plugin PluginInfo.
From Galaxy.Model Require Keys.
From Galaxy.Proofs Require Import IpamP PluginInv PluginStickyP PluginAnswerP.
From Galaxy.Proofs Require Import PluginRoundsP.
Local Open Scope N_scope.

(** a successful Bind of a pod requesting k range lists answers with k IPs, the i-th inside the i-th range list
    (whether it was held by the key before or allocated now); they are pairwise different when no address lies in
    two range lists (without that premise the same IP can be written twice: [sticky_ranges_overlap_refuted] of
    Props/C02.v) *)
Theorem bind_ranges_in_order : ∀ w ns name uid node o fl p w' ips,
  WInv w → w_lister w !! (ns, name) = Some p → pd_ranges p ≠ [] →
  bind_section true true w ns name uid node o fl = (w', BOk ips) →
  List.length ips = List.length (pd_ranges p) ∧
  (∀ i x rl, ips !! i = Some x → pd_ranges p !! i = Some rl → in_ranges rl x = true) ∧
  (ranges_disjoint (pd_ranges p) → NoDup ips).
Proof. exact bind_ranges_in_order_l. Qed.
Print Assumptions bind_ranges_in_order.

(** all or nothing: whatever the outcome of the section - the j-th object creation failing for ANY j, a provider
    call or an UpdateAttr failing, pods/binding refused, the pod gone - either the key's IPs are exactly what they
    were, or EVERY requested range list has an IP of the key; a partial allocation is never left behind *)
Theorem bind_all_or_nothing : ∀ w ns name uid node o fl p w' r,
  WInv w → w_lister w !! (ns, name) = Some p → pd_ranges p ≠ [] →
  bind_section true true w ns name uid node o fl = (w', r) → r ≠ BStuck →
  (∀ x, holds (w_ipam w') (pod_key p) x ↔ holds (w_ipam w) (pod_key p) x) ∨
  (∀ i rl, pd_ranges p !! i = Some rl → ∃ x, holds (w_ipam w') (pod_key p) x ∧ in_ranges rl x = true).
Proof. exact bind_all_or_nothing_l. Qed.
Print Assumptions bind_all_or_nothing.

(** non-vacuity of [bind_ranges_in_order]: on freshly loaded tables (pool A 10.100.0.2-4, pool B 10.101.0.2-3, both
    routable from node1) the statefulset pod ns1/web-0 requesting the two range lists [10.100.0.3] and [10.101.0.2]
    is bound on node1 with exactly these two addresses *)
Example bind_ranges_in_order_nonvacuous :
  ∃ w ns name uid node o fl p w' ips,
    WInv w ∧ w_lister w !! (ns, name) = Some p ∧ List.length (pd_ranges p) = 2%nat ∧ ranges_disjoint (pd_ranges p) ∧
    bind_section true true w ns name uid node o fl = (w', BOk ips) ∧ ips = [ip4 10 100 0 3; ip4 10 101 0 2].
Proof. exact ex_bind_two_ranges_l. Qed.
Print Assumptions bind_ranges_in_order_nonvacuous.

(** the same request with the SECOND object creation failing ([f_store = Some 1]): the first object is deleted
    again, Bind answers with an error, and the key's IPs are what they were (none) - the first disjunct of
    [bind_all_or_nothing] with [r = BErr]; allocation table and store are those of before *)
Example bind_store_fault_keeps_nothing :
  let w := ex_ftb_world in let p := ex_ranges_pod in
  let res := bind_section true true w (L "ns1") (L "web-0") (pd_uid p) (L "node1") no_oracle (store_fault 1) in
  WInv w ∧ w_lister w !! (L "ns1", L "web-0") = Some p ∧ List.length (pd_ranges p) = 2%nat ∧
  res.2 = BErr ∧ (∀ x, holds (w_ipam res.1) (pod_key p) x ↔ holds (w_ipam w) (pod_key p) x) ∧
  (∀ x, ¬ holds (w_ipam res.1) (pod_key p) x) ∧
  i_alloc (w_ipam res.1) = i_alloc (w_ipam w) ∧ i_store (w_ipam res.1) = i_store (w_ipam w).
Proof. exact ex_bind_store_fault_l. Qed.
Print Assumptions bind_store_fault_keeps_nothing.

(** ** the IP ByKeyAndIPRanges answers for a range list is the first in walk order (Proofs/PluginRoundsP.v; twin of the
    monitor held_ip_of_a_range_list_is_the_first_in_walk_order)

    ANY tables [s], key and request [rss]; [by_key_ranges s key rss] (Model/Ipam.v) has one slot per range list, what Filter
    and Bind re-use.  "First" is said with the model's own walk: [met_before rl y x] (Proofs/PluginRoundsP.v) =
    [y ≠ x] and [first_in_ranges (λ z, (z =? y) || (z =? x)) (ranges_fuel rl) rl = Some (Some y)] - the walk of [rl] that
    looks for the two addresses [x] and [y] meets [y].  The i-th slot [Some x]: the key holds [x], [x] lies in the i-th
    range list, and no address the walk meets before [x] is held by the key. *)
Theorem held_slot_is_first_in_walk_order : ∀ s key rss i x rl,
  by_key_ranges s key rss !! i = Some (Some x) → rss !! i = Some rl →
  holds s key x ∧ in_ranges rl x = true ∧ ∀ y, met_before rl y x → ¬ holds s key y.
Proof. exact held_slot_is_first_in_walk_order_l. Qed.
Print Assumptions held_slot_is_first_in_walk_order.

(** determinism: the answer depends only on the SET of addresses the key holds (not on attributes, time stamps, other
    keys' entries or Go's map order) *)
Theorem by_key_ranges_deterministic : ∀ s s' key rss,
  (∀ y, holds s key y ↔ holds s' key y) → by_key_ranges s key rss = by_key_ranges s' key rss.
Proof. exact by_key_ranges_deterministic_l. Qed.
Print Assumptions by_key_ranges_deterministic.

(** a range list that is the single range [lo, hi]: the answer is the SMALLEST address of the range the key holds *)
Theorem held_slot_single_range : ∀ s key rss i x lo hi,
  by_key_ranges s key rss !! i = Some (Some x) → rss !! i = Some [((lo, hi) : range)] →
  holds s key x ∧ lo <= x ∧ x <= hi ∧ ∀ y, lo <= y → y <= hi → holds s key y → x <= y.
Proof. exact held_slot_single_range_l. Qed.
Print Assumptions held_slot_single_range.

(** ... and for a list that starts with the range [lo, hi]: no held address of [lo, hi] lies below the answer *)
Theorem held_slot_first_range : ∀ s key rss i x lo hi (rest : list range),
  by_key_ranges s key rss !! i = Some (Some x) → rss !! i = Some (((lo, hi) : range) :: rest) →
  ∀ y, lo <= y → y <= hi → holds s key y → x <= y.
Proof. exact held_slot_first_range_l. Qed.
Print Assumptions held_slot_first_range.

(** non-vacuity ([walk_ipam]: the key of ns1/web-0 holds 10.100.0.3 and 10.100.0.4): for the single range
    10.100.0.2-10.100.0.4 the slot is 10.100.0.3; 10.100.0.4 is held and in the range, but met later; 10.100.0.2 is met
    before 10.100.0.3 and is not held *)
Example held_slot_is_first_nonvacuous :
  let rss := [[((ip4 10 100 0 2, ip4 10 100 0 4) : range)]] in
  Inv2 walk_ipam ∧ by_key_ranges walk_ipam (pod_key wit_pod) rss !! 0%nat = Some (Some (ip4 10 100 0 3)) ∧
  holds walk_ipam (pod_key wit_pod) (ip4 10 100 0 4) ∧ in_ranges [(ip4 10 100 0 2, ip4 10 100 0 4)] (ip4 10 100 0 4) = true ∧
  met_before [(ip4 10 100 0 2, ip4 10 100 0 4)] (ip4 10 100 0 2) (ip4 10 100 0 3) ∧
  ¬ holds walk_ipam (pod_key wit_pod) (ip4 10 100 0 2).
Proof. exact ex_held_slot_first_l. Qed.
Print Assumptions held_slot_is_first_nonvacuous.
