(** C01 - A floating IP is never held by two live pods.

    "At every moment each floating IP has at most one owner, and no two pods that are alive at the same
    time (created, not deleted, not Succeeded/Failed) have been handed the same IP in their binding
    annotation. This holds whatever the order in which scheduler filter/bind calls, pod events, resync
    passes, API releases, configuration reloads and restarts interleave."

    Property theorems only; the proofs are in Proofs/PluginP.v (assembly), Proofs/PluginEnvP.v,
    Proofs/PluginBindP.v, Proofs/PluginUnbindP.v (one file per kind of step) and Proofs/PluginWitness.v
    (concrete histories).

    Quantifier: ALL histories [ops : list pop] of the scheduler-plugin model (Model/Plugin.v) that start in
    the empty world [world0 provider nodes] (with or without cloud provider, any node table): any
    interleaving of environment steps (pod created / deleted / phase change, the informer catching up
    for one pod, statefulset / deployment / pool objects set or removed, a queued event lost), scheduler
    filter and bind calls, queued pod events, resync items, API release requests, pod-IP syncs,
    configuration reloads and process restarts; every oracle (which IP / which order Go's map iteration
    took) and every single injected fault (store call, provider call, pods/binding call).

    Assumptions on histories = [wf_hist], i.e. [wf_op] (Proofs/PluginInv.v) at every step, in words:
      - a pod is created ([EPodPut]) without node and without IPs, with a non-empty UID that no pod
        object galaxy-ipam can still see carries (API server, informer cache, event queue); its
        namespace, name and (for statefulset / deployment pods) owner name are non-empty and contain
        no '_', its pool annotation contains no '_';
      - a finished pod (Succeeded / Failed) never becomes Pending / Running again ([EPodPhase]);
      - the scheduler sends a non-empty UID with every bind request;
      - an API release request carries a key object that is the parse of its own key string;
      - the only crdIpam-level operation is a configuration reload whose deletions of de-configured
        objects all succeed; a reload and a restart keep every IP configured that a not-finished pod of
        the API server holds in its binding annotation;
      - a pod-IP sync is handed a pod object whose names and UID are as above, and ANY such object: the informer's
        current one or one shown at an earlier point of the history (an earlier incarnation; Props/C04.v, F16);
      - nothing else: filter, event, resync steps and all other environment steps are unconstrained. *)
From Coq Require Import String.
From stdpp Require Import gmap.
From Galaxy.Base Require Import Strs.
From Galaxy.Model Require Import Nets Pool Ipam Plugin.
From Galaxy.Model Require Keys.
From Galaxy.Proofs Require Import IpamP PluginInv PluginP PluginWitness.
From Galaxy.Proofs Require Import PluginStickyP PluginRoundsP.
Local Open Scope N_scope.

(** (a) each IP has at most one owner: the allocation table [i_alloc] is a finite MAP from IP to one
    entry (one key), an IP is never both allocated and free, and the two tables together are exactly
    the configured addresses *)
Theorem one_owner : ∀ provider nodes ops, wf_hist (world0 provider nodes) ops →
  let w := prun (world0 provider nodes) ops in
  (∀ x, x ∈ i_unalloc (w_ipam w) → i_alloc (w_ipam w) !! x = None) ∧
  (∀ x, is_Some (i_alloc (w_ipam w) !! x) ∨ x ∈ i_unalloc (w_ipam w) ↔ configured (i_pools (w_ipam w)) x = true).
Proof. intros provider nodes ops H. exact (one_owner_full _ (winv_reachable _ _ _ H)). Qed.
Print Assumptions one_owner.

(** (b) two different pods of the API server that are both bound and not finished never carry the
    same IP in their binding annotations *)
Theorem live_pods_disjoint : ∀ provider nodes ops, wf_hist (world0 provider nodes) ops →
  let w := prun (world0 provider nodes) ops in
  ∀ k1 k2 p q x, w_pods w !! k1 = Some p → w_pods w !! k2 = Some q → k1 ≠ k2 → live_bound p → live_bound q →
                 x ∈ pd_ips p → x ∉ pd_ips q.
Proof.
  intros provider nodes ops H w k1 k2 p q x Hp Hq Hne Hlp Hlq Hxp Hxq.
  exact (live_pods_disjoint_l _ k1 k2 p q x (winv_reachable _ _ _ H) Hp Hq Hne Hlp Hlq Hxp Hxq).
Qed.
Print Assumptions live_pods_disjoint.

(** non-vacuity: a concrete well-formed history (one pool 10.100.0.2~10.100.0.9; the statefulset pods
    ns1/web-0 and ns1/web-1 created, seen by the informer, filtered and bound on node1) whose final world
    has two live bound pods, holding 10.100.0.2 and 10.100.0.3 *)
Example live_pods_disjoint_nonvacuous : ∃ nodes ops, wf_hist (world0 false nodes) ops ∧
  let w := prun (world0 false nodes) ops in
  ∃ k1 k2 p q, k1 ≠ k2 ∧ w_pods w !! k1 = Some p ∧ w_pods w !! k2 = Some q ∧ live_bound p ∧ live_bound q ∧
               pd_ips p = [174325762] ∧ pd_ips q = [174325763].
Proof. exists nodes1, h_two. exact h_two_live. Qed.
Print Assumptions live_pods_disjoint_nonvacuous.

(** ** defect F1 of the pinned commit (repaired by a fix: commit in the Go code): a pod event of an earlier
    incarnation was not ignored.  [prun_fl false true true] runs the model with that repair switched off
    ([prun_fl true true true = prun]).  Witness [h_f1c] of Proofs/PluginWitness.v: statefulset pod A (web-0)
    bound to 10.100.0.2 and finished, its finish event handled; A deleted, B (same name, new UID) created
    and bound to 10.100.0.2; A's late delete event releases B's IP; a third pod C (web-1) is bound and
    receives 10.100.0.2 while B is still live. *)
Theorem live_pods_disjoint_refuted_late_event_old : ∃ nodes ops, wf_hist (world0 false nodes) ops ∧
  ∃ k1 k2 p q x, let w := prun_fl false true true (world0 false nodes) ops in
    w_pods w !! k1 = Some p ∧ w_pods w !! k2 = Some q ∧ k1 ≠ k2 ∧ live_bound p ∧ live_bound q ∧
    x ∈ pd_ips p ∧ x ∈ pd_ips q.
Proof. exact live_pods_disjoint_refuted_late_event. Qed.
Print Assumptions live_pods_disjoint_refuted_late_event_old.

(** ** resync passes by keys without a pod (Proofs/PluginRoundsP.v; twin of the run-time monitor of the scenario
    pool-name-with-underscore)

    ANY world (no invariant needed), any oracles and faults: when ParseKey of the key stored for [ip] yields an empty pod
    name or an empty app name - a pool reserve "pool__p_", an app reserve "dp_ns_app_", or a key that does not split into
    exactly four '_'-separated fields - [resync_skip] is true and the resync item of [ip] changes nothing and answers SOk:
    the entry is neither unassigned, nor cleared, nor released, nor re-keyed. *)
Theorem resync_passes_by_keys_without_a_pod : ∀ w ip o ocl fl e,
  i_alloc (w_ipam w) !! ip = Some e →
  Keys.ko_pod (Keys.parse_key (e_key e)) = [] ∨ Keys.ko_app (Keys.parse_key (e_key e)) = [] →
  resync_skip e (Keys.parse_key (e_key e)) = true ∧ resync_section w ip o ocl fl = (w, SOk).
Proof. exact resync_passes_by_keys_without_a_pod_l. Qed.
Print Assumptions resync_passes_by_keys_without_a_pod.

(** in particular the key of a deployment pod whose pool annotation contains '_' (pool "team_a", deployment ns1/api, pod
    api-7f9c6d-w1; such an annotation is excluded by [wf_pod], the Go code accepts it): ParseKey cuts the pool name at
    its first '_' ("team") and is left with five fields, so it returns neither pod nor app name - every entry stored
    under this key is skipped by the resync passes, also while no pod with the stored UID runs *)
Example underscore_pool_key_is_skipped :
  us_pool_key = L "pool__team_a_dp_ns1_api_api-7f9c6d-w1" ∧
  Keys.ko_pod (Keys.parse_key us_pool_key) = [] ∧ Keys.ko_app (Keys.parse_key us_pool_key) = [] ∧
  Keys.ko_pool (Keys.parse_key us_pool_key) = L "team" ∧
  ∀ e, e_key e = us_pool_key → resync_skip e (Keys.parse_key (e_key e)) = true.
Proof. split; [reflexivity|]. destruct us_pool_key_parse as (H1 & H2 & H3). split_and!; [done..|exact us_pool_key_skipped]. Qed.
Print Assumptions underscore_pool_key_is_skipped.

(** non-vacuity on a concrete world ([us_pool_world]: pools of [ex_conf2], 10.100.0.3 allocated under that key for uid
    u9 on node1, and no pod object with that uid anywhere): the entry is skipped although [pod_running] is false for it,
    and the resync item of the address, with any oracles and faults, leaves the world as it is *)
Example resync_passes_by_nonvacuous :
  let w := us_pool_world in let x := ip4 10 100 0 3 in
  WInv w ∧
  (∃ e, i_alloc (w_ipam w) !! x = Some e ∧ e_key e = us_pool_key ∧ e_uid e = L "u9" ∧ e_node e = L "node1" ∧
        Keys.ko_pod (Keys.parse_key (e_key e)) = [] ∧ resync_skip e (Keys.parse_key (e_key e)) = true ∧
        pod_running w (Keys.ko_ns (Keys.parse_key (e_key e))) (Keys.ko_pod (Keys.parse_key (e_key e))) (e_uid e) = false) ∧
  ∀ o ocl fl, resync_section w x o ocl fl = (w, SOk).
Proof. exact ex_resync_skips_us_pool_l. Qed.
Print Assumptions resync_passes_by_nonvacuous.
