(** C17 - GC removes only dead containers' state, and eventually all of it.
    Property theorems only; proofs are in Proofs/GcP.v, the model in Model/Gc.v.
    The runtime (docker inspect / CRI PodSandboxStatus + pod lookup) is an arbitrary oracle:
    [orc c n] is the answer to the n-th inspect call for container id [c]. *)
From Coq Require Import List NArith Bool Ascii String.
From Galaxy.Base Require Import Strs.
From Galaxy.Model Require Import Nets Gc.
From Galaxy.Proofs Require Import GcP.
Import ListNotations.
Open Scope string_scope.
Open Scope list_scope.

(** the cleanup decision is "yes" exactly for: docker not-found / exited / dead; CRI not-found, or a
    not-ready sandbox whose pod is gone or has no waiting/running container ([gone]) *)
Theorem should_cleanup_exact : forall a, should_cleanup a = true <-> gone a.
Proof. exact should_cleanup_exact_l. Qed.
Print Assumptions should_cleanup_exact.

(** ... and "no" on every error, for running/created/paused containers, ready sandboxes, pods with a
    running or waiting container, and when the pod lookup errs *)
Theorem should_cleanup_never : forall a,
  (a = Docker DErr \/ (exists s, a = Docker (DOk s) /\ s <> Some (L "exited") /\ s <> Some (L "dead")) \/
   a = Cri CErr \/ a = Cri CNil \/ a = Cri CReady \/ a = Cri (CNotReady PErr) \/
   (exists sts, a = Cri (CNotReady (PFound sts)) /\ (In Running sts \/ In Waiting sts))) ->
  should_cleanup a = false.
Proof. exact should_cleanup_never. Qed.
Print Assumptions should_cleanup_never.

(** for ALL directory contents (non-IP names, empty files, CRLF first lines, sub-directories, missing
    directories), all oracles and any earlier history [cl]: every file a round removes was attributed
    to a container [c] ([owner_ip]: IP-named non-empty file, first line trimmed; [owner_gc]: file
    name) and an inspect call made for [c] IN THIS ROUND answered "gone"; the port-clean callbacks are
    exactly the removed gc-dir files' containers *)
Theorem gc_safe : forall orc f cl f' cl' out,
  gc_round orc f cl = (f', cl', out) ->
  (forall i rm name c, nth_error (removed_ip out) i = Some rm -> In (name, c) rm ->
     exists es e n, nth_error (ipdirs f) i = Some (Some es) /\ In e es /\ fst e = name /\ owner_ip e = Some c /\
                    should_cleanup (orc c n) = true /\ (calls_get cl c <= n < calls_get cl' c)%nat) /\
  (forall i rm name c, nth_error (removed_gc out) i = Some rm -> In (name, c) rm ->
     exists es e n, nth_error (gcdirs f) i = Some (Some es) /\ In e es /\ fst e = name /\ owner_gc e = Some c /\
                    should_cleanup (orc c n) = true /\ (calls_get cl c <= n < calls_get cl' c)%nat) /\
  ports_cleaned out = map snd (List.concat (removed_gc out)).
Proof. exact gc_safe_l. Qed.
Print Assumptions gc_safe.

(** over any number of rounds: a file attributed to no container, or to a container for which the
    runtime never answers "gone" (errors, running, pod-lookup errors ...), is never removed *)
Theorem gc_safe_keeps : forall orc n f cl f' cl' outs,
  gc_rounds n orc f cl = (f', cl', outs) ->
  (forall i es e, nth_error (ipdirs f) i = Some (Some es) -> In e es -> kept owner_ip orc e ->
     exists es', nth_error (ipdirs f') i = Some (Some es') /\ In e es') /\
  (forall i es e, nth_error (gcdirs f) i = Some (Some es) -> In e es -> kept owner_gc orc e ->
     exists es', nth_error (gcdirs f') i = Some (Some es') /\ In e es').
Proof. exact gc_rounds_keeps. Qed.
Print Assumptions gc_safe_keeps.

(** if at most [k] of the inspect answers for [c] say anything but "gone" - the runtime errs at most
    k times for a dead container - then after k+1 rounds no file of [c] is left, in any directory *)
Theorem gc_live : forall orc c k f cl f' cl' outs,
  (forall n, (keepcount orc c n <= k)%nat) ->
  gc_rounds (S k) orc f cl = (f', cl', outs) -> ~ has_file f' c.
Proof. exact gc_live_l. Qed.
Print Assumptions gc_live.

(** the hypotheses are met by concrete non-trivial inputs: a dead container whose first inspect errs,
    with an IP file (CRLF) and a gc file, next to a running one; two rounds *)
Definition ex_orc : oracle := fun c n =>
  if str_eqb c (L "dead01") then (match n with O => Docker DErr | _ => Docker (DOk (Some (L "exited"))) end)
  else Docker (DOk (Some (L "running"))).
Definition ex_fs : fs :=
  {| ipdirs := [Some [(L "10.0.0.2", NFile (L "dead01" ++ ["013"%char; "010"%char] ++ L "eth0"));
                      (L "10.0.0.3", NFile (L "live01")); (L "last_reserved_ip.0", NFile (L "10.0.0.3"))]; None];
     gcdirs := [Some [(L "dead01", NFile (L "{}")); (L "live01", NFile (L "{}")); (L "port", NDir)]] |}.
Example live_nonvacuous :
  (forall n, (keepcount ex_orc (L "dead01") n <= 1)%nat) /\
  has_file ex_fs (L "dead01") /\
  let '(f', _, outs) := gc_rounds 2 ex_orc ex_fs [] in
  map ports_cleaned outs = [[L "dead01"]; []] /\
  ipdirs f' = [Some [(L "10.0.0.3", NFile (L "live01")); (L "last_reserved_ip.0", NFile (L "10.0.0.3"))]; None].
Proof.
  split; [|split].
  - assert (forall n, keepcount ex_orc (L "dead01") (S n) = 1%nat) as H.
    { induction n as [|n IH]; [reflexivity|]. change (keepcount ex_orc (L "dead01") (S (S n)))
        with (keepcount ex_orc (L "dead01") (S n) + 0)%nat. rewrite IH. reflexivity. }
    intros [|n]; [apply le_0_n|rewrite H; apply le_n].
  - right. eexists. eexists. split; [left; reflexivity|]. split; [left; reflexivity|reflexivity].
  - vm_compute. split; reflexivity.
Qed.
