(** C05 - Persisted FloatingIPs equal in-memory state; restart safe (crdIpam layer).
    Property theorems only; proofs in Proofs/IpamP.v.  Quantifier: ALL histories of crdIpam
    operations ([op]: every method, reloads, restarts, administrator reservations, informer
    deliveries), every fault index ([fail]/[nfail] arguments: the store call that fails cleanly)
    and every oracle (which free IP / which order the map iteration took). *)
From Coq Require Import String.
From stdpp Require Import gmap.
From Galaxy.Base Require Import Strs.
From Galaxy.Model Require Import Nets Pool Ipam.
From Galaxy.Proofs Require Import IpamP.
Local Open Scope N_scope.

(** the invariant [Inv] (tables disjoint; tables = configured addresses; on every configured IP
    memory and store agree on owner, policy, node, uid and the reserved label - or an
    administrator's change of that IP is still undelivered) holds initially and is preserved by
    every operation, successful or failed *)
Theorem agree_invariant : ∀ ops, Inv (run ipam0 ops).
Proof. intros ops. apply run_inv, inv0. Qed.
Print Assumptions agree_invariant.

Theorem agree_step : ∀ s o, Inv s → Inv (step s o).1.1.
Proof. exact step_inv. Qed.
Print Assumptions agree_step.

(** with no undelivered administrator change: exact agreement on every configured IP *)
Theorem agree_quiescent : ∀ ops, let s := run ipam0 ops in i_pending s = ∅ →
  ∀ x, configured (i_pools s) x = true → proj <$> (i_alloc s !! x) = proj <$> (i_store s !! x).
Proof. intros ops s Hp x Hx. apply (agree_quiescent_l s); [apply run_inv, inv0|done|done]. Qed.
Print Assumptions agree_quiescent.

(** a restarted process (empty memory, same store, same configuration) reconstructs exactly the tables it had *)
Theorem restart_exact : ∀ ops, let s := run ipam0 ops in i_pending s = ∅ →
  let s' := restart s (i_pools s) in
  proj <$> i_alloc s' = proj <$> i_alloc s ∧ i_unalloc s' = i_unalloc s ∧
  (∀ x, configured (i_pools s) x = true → i_store s' !! x = i_store s !! x).
Proof. intros ops s Hp. apply restart_exact_l; [apply run_inv, inv0|done]. Qed.
Print Assumptions restart_exact.

Example agree_nonvacuous : ∃ s, Inv s ∧ size (i_alloc s) = 1%nat ∧ size (i_unalloc s) = 1%nat.
Proof. exact inv_example. Qed.

(** defects of the pinned commit (F3 list-before-lock, F11 stale delete event), repaired by fix: commits *)
Theorem agree_refuted_reload_window_old :
  let snapshot := configure_old_list w0 in
  let s1 := (alloc_in_subnet w0 (L "sts_ns1_a_a-0"%string) (167772416, 24) wattr (Some 174325762) false).1.1 in
  let s2 := configure_old_apply s1 [wpool] snapshot in
  is_Some (i_store s2 !! 174325762) ∧ i_alloc s2 !! 174325762 = None ∧ bool_decide (174325762 ∈ i_unalloc s2) = true.
Proof. exact agree_refuted_reload_window. Qed.
Print Assumptions agree_refuted_reload_window_old.

Theorem agree_refuted_stale_event_old :
  let s1 := admin_reserve w0 174325762 (L "pool__reserved_"%string) 2 in
  let s2 := (watch_deliver false s1 174325762).1 in
  let s3 := admin_unreserve s2 174325762 in
  let s4 := configure_with s3 [wpool] (i_store s3) ∅ in
  let s5 := (alloc_in_subnet s4 (L "sts_ns1_a_a-0"%string) (167772416, 24) wattr (Some 174325762) false).1.1 in
  let s6 := (watch_deliver false s5 174325762).1 in
  (∃ e, i_store s6 !! 174325762 = Some e ∧ e_key e = L "sts_ns1_a_a-0"%string) ∧ i_alloc s6 !! 174325762 = None ∧
  (∃ e, i_alloc (watch_deliver true s5 174325762).1 !! 174325762 = Some e ∧ e_key e = L "sts_ns1_a_a-0"%string).
Proof. exact agree_refuted_stale_event. Qed.
Print Assumptions agree_refuted_stale_event_old.
