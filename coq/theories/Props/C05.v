(** C05 - Persisted FloatingIPs equal in-memory state; restart safe (crdIpam layer).
    Property theorems only; proofs in Proofs/IpamP.v.  Quantifier: ALL histories of crdIpam
    operations ([op]: every method, reloads, restarts, administrator reservations, informer
    deliveries), every fault index ([fail]/[nfail] arguments: the store call that fails cleanly)
    and every oracle (which free IP / which order the map iteration took). *)
From Coq Require Import String.
From stdpp Require Import gmap.
From Galaxy.Base Require Import Strs.
From Galaxy.Model Require Import Nets Pool Ipam.
From Galaxy.Proofs Require Import IpamP.
Local Open Scope N_scope.

(** the invariant [Inv] (tables disjoint; tables = configured addresses; on every configured IP
    memory and store agree on owner, policy, node, uid and the reserved label - or an
    administrator's change of that IP is still undelivered) holds initially and is preserved by
    every operation, successful or failed *)
Theorem agree_invariant : ∀ ops, Inv (run ipam0 ops).
Proof. intros ops. apply run_inv, inv0. Qed.
Print Assumptions agree_invariant.

Theorem agree_step : ∀ s o, Inv s → Inv (step s o).1.1.
Proof. exact step_inv. Qed.
Print Assumptions agree_step.

(** with no undelivered administrator change: exact agreement on every configured IP *)
Theorem agree_quiescent : ∀ ops, let s := run ipam0 ops in i_pending s = ∅ →
  ∀ x, configured (i_pools s) x = true → proj <$> (i_alloc s !! x) = proj <$> (i_store s !! x).
Proof. intros ops s Hp x Hx. apply (agree_quiescent_l s); [apply run_inv, inv0|done|done]. Qed.
Print Assumptions agree_quiescent.

(** a restarted process (empty memory, same store, same configuration) reconstructs exactly the tables it had *)
Theorem restart_exact : ∀ ops, let s := run ipam0 ops in i_pending s = ∅ →
  let s' := restart s (i_pools s) in
  proj <$> i_alloc s' = proj <$> i_alloc s ∧ i_unalloc s' = i_unalloc s ∧
  (∀ x, configured (i_pools s) x = true → i_store s' !! x = i_store s !! x).
Proof. intros ops s Hp. apply restart_exact_l; [apply run_inv, inv0|done]. Qed.
Print Assumptions restart_exact.

Example agree_nonvacuous : ∃ s, Inv s ∧ size (i_alloc s) = 1%nat ∧ size (i_unalloc s) = 1%nat.
Proof. exact inv_example. Qed.

(** defects of the pinned commit (F3 list-before-lock, F11 stale delete event), repaired by fix: commits *)
Theorem agree_refuted_reload_window_old :
  let snapshot := configure_old_list w0 in
  let s1 := (alloc_in_subnet w0 (L "sts_ns1_a_a-0"%string) (167772416, 24) wattr (Some 174325762) false).1.1 in
  let s2 := configure_old_apply s1 [wpool] snapshot in
  is_Some (i_store s2 !! 174325762) ∧ i_alloc s2 !! 174325762 = None ∧ bool_decide (174325762 ∈ i_unalloc s2) = true.
Proof. exact agree_refuted_reload_window. Qed.
Print Assumptions agree_refuted_reload_window_old.

Theorem agree_refuted_stale_event_old :
  let s1 := admin_reserve w0 174325762 (L "pool__reserved_"%string) 2 in
  let s2 := (watch_deliver false s1 174325762).1 in
  let s3 := admin_unreserve s2 174325762 in
  let s4 := configure_with s3 [wpool] (i_store s3) ∅ in
  let s5 := (alloc_in_subnet s4 (L "sts_ns1_a_a-0"%string) (167772416, 24) wattr (Some 174325762) false).1.1 in
  let s6 := (watch_deliver false s5 174325762).1 in
  (∃ e, i_store s6 !! 174325762 = Some e ∧ e_key e = L "sts_ns1_a_a-0"%string) ∧ i_alloc s6 !! 174325762 = None ∧
  (∃ e, i_alloc (watch_deliver true s5 174325762).1 !! 174325762 = Some e ∧ e_key e = L "sts_ns1_a_a-0"%string).
Proof. exact agree_refuted_stale_event. Qed.
Print Assumptions agree_refuted_stale_event_old.

(** * C05 at the scheduler-plugin level: the process dies between two API calls, then restarts

    "If the process dies between any two API calls, a restart followed by resync leaves no leaked IP, no doubly
    owned IP, and every existing pod keeps the IP it was bound with."

    Model: Model/PluginCrash.v (read its header).  galaxy-ipam writes the store before its memory and memory does
    not survive the process, so a section that dies right before its k-th API call leaves, for the restarted
    process, the state of the section whose k-th call failed cleanly - except inside Bind's multi-IP allocation,
    where a failed creation rolls the created objects back and a dead process does not: [bind_crash].
    [restart_world] is the restarted process (Init = decode + ConfigurePool over the store; informers list afresh,
    the event queue is empty).  [WInv] is the world invariant of Proofs/PluginInv.v; [keeps_live]: the
    configuration the process restarts with still contains the IPs of the live pods.  Proofs: Proofs/PluginCrashP.v. *)
From Galaxy.Model Require Import Plugin PluginCrash.
From Galaxy.Proofs Require Import PluginInv PluginPolicyP PluginWitness PluginCrashP.

(** a process death inside Bind's multi-IP allocation, then a restart: the world invariant holds again.
    [is_Some (decode_pools conf)]: the restarted process gets a configuration it can decode - otherwise Init fails
    and there is no restarted process (the model's [ORestart] then leaves the state as it is, see
    [crash_in_bind_needs_decodable_conf] below). *)
Theorem crash_in_bind_restart_safe : ∀ w ns name uid node k wc conf,
  WInv w → uid ≠ [] → bind_crash w ns name uid node k = Some wc → keeps_live w conf → is_Some (decode_pools conf) →
  WInv (restart_world wc conf).
Proof. intros w ns name uid node k wc conf HW _ Hc Hkl Hd. by apply (crash_in_bind_restart_safe_l w ns name uid node k). Qed.
Print Assumptions crash_in_bind_restart_safe.

(** a process death at any other call of any section = that call failing cleanly, then a restart *)
Theorem crash_elsewhere_restart_safe : ∀ w o conf, WInv w → wf_op w o → keeps_live (pstep w o).1 conf →
  WInv (restart_world (pstep w o).1 conf).
Proof. exact crash_elsewhere_restart_safe_l. Qed.
Print Assumptions crash_elsewhere_restart_safe.

(** what the property promises, read off the invariant of the restarted world [w'] (of either theorem above):
    no doubly owned IP - an IP is never free and allocated, and two live bound pods never share an IP *)
Theorem after_restart_no_double_owner : ∀ w', WInv w' →
  (∀ x, x ∈ i_unalloc (w_ipam w') → i_alloc (w_ipam w') !! x = None) ∧
  (∀ k1 k2 p q x, w_pods w' !! k1 = Some p → w_pods w' !! k2 = Some q → k1 ≠ k2 → live_bound p → live_bound q →
                  x ∈ pd_ips p → x ∉ pd_ips q).
Proof. exact after_restart_no_double_owner_l. Qed.
Print Assumptions after_restart_no_double_owner.

(** every existing live bound pod keeps the IPs it was bound with: each is allocated under the pod's key for the
    pod's UID, and no IP of that key is stored for another incarnation ([owned]); the pods are those of the world
    before the crash: [w_pods (restart_world w conf) = w_pods w] *)
Theorem after_restart_pods_keep_ips : ∀ w' k p, WInv w' → w_pods w' !! k = Some p → live_bound p → owned (w_ipam w') p.
Proof. intros w' k p HW. exact (wi_owned _ HW k p). Qed.
Print Assumptions after_restart_pods_keep_ips.

Theorem restart_world_fresh_informer : ∀ w conf,
  w_lister (restart_world w conf) = w_pods (restart_world w conf) ∧ w_queue (restart_world w conf) = [] ∧
  w_pods (restart_world w conf) = w_pods w.
Proof. intros w conf. split_and!; reflexivity. Qed.

(** no leaked IP: after one resync pass of the restarted process over (at least) all allocated IPs, every entry
    under a pod key that the pass does not skip and whose pod no longer exists (or has finished, or is another
    incarnation) is one that the release policy keeps for the pod (C03's [resync_pass_no_orphans], instantiated with
    the restarted world, whose informer cache equals the API server's pods) *)
Theorem after_restart_resync_no_leak : ∀ w conf items w',
  WInv (restart_world w conf) →
  (∀ x, is_Some (i_alloc (w_ipam (restart_world w conf)) !! x) → x ∈ items) →
  resync_pass (restart_world w conf) items w' →
  ∀ x e q, i_alloc (w_ipam w') !! x = Some e → wf_pod q → e_key e = pod_key q → e_policy e ≤ 2 →
           resync_skip e (keyobj_of q) = false → pod_gone w' q (e_uid e) →
           policy_verdict w' (keyobj_of q) (e_policy e) = KeepForPod.
Proof. exact after_restart_resync_no_leak_l. Qed.
Print Assumptions after_restart_resync_no_leak.

(** non-vacuity: a reachable world (well-formed history [h_crash]: one pool, a statefulset pod requesting the two
    ranges [10.100.0.2] and [10.100.0.5], informer synced, both free); Bind dies after the first of its two
    creations: the store has exactly one object more (10.100.0.2, keyed by the pod, stored for its UID) while the
    tables of the dead process still list that IP as free; the restarted process has it allocated under the
    pod's key, 10.100.0.5 is not allocated, and the invariant holds *)
Example crash_nonvacuous :
  wf_hist (world0 false nodes1) h_crash ∧
  ∃ wc, bind_crash w_crash (L "ns1") (L "web-0") (L "uA") (L "node1") 1 = Some wc ∧
    size (i_store (w_ipam wc)) = S (size (i_store (w_ipam w_crash))) ∧
    i_store (w_ipam w_crash) !! ip2 = None ∧ i_store (w_ipam wc) !! ip5 = None ∧
    (∃ o, i_store (w_ipam wc) !! ip2 = Some o ∧ e_key o = L "sts_ns1_web_web-0" ∧ e_uid o = L "uA") ∧
    i_alloc (w_ipam wc) = i_alloc (w_ipam w_crash) ∧ i_unalloc (w_ipam wc) = i_unalloc (w_ipam w_crash) ∧
    bool_decide (ip2 ∈ i_unalloc (w_ipam wc)) = true ∧
    keeps_live w_crash conf1 ∧
    (∃ e, i_alloc (w_ipam (restart_world wc conf1)) !! ip2 = Some e ∧ e_key e = L "sts_ns1_web_web-0" ∧ e_uid e = L "uA") ∧
    bool_decide (ip2 ∈ i_unalloc (w_ipam (restart_world wc conf1))) = false ∧
    i_alloc (w_ipam (restart_world wc conf1)) !! ip5 = None ∧
    WInv (restart_world wc conf1).
Proof. exact crash_example. Qed.
Print Assumptions crash_nonvacuous.

(** the premise [is_Some (decode_pools conf)] of [crash_in_bind_restart_safe] cannot be dropped: with an undecodable
    configuration the model's restart leaves the dead process's memory next to the store it wrote *)
Theorem crash_in_bind_needs_decodable_conf :
  ∃ wc, bind_crash w_crash (L "ns1") (L "web-0") (L "uA") (L "node1") 1 = Some wc ∧
        keeps_live w_crash [JNull] ∧ decode_pools [JNull] = None ∧ ¬ WInv (restart_world wc [JNull]).
Proof. exact crash_needs_decodable_conf. Qed.
Print Assumptions crash_in_bind_needs_decodable_conf.
