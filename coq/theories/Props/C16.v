(** C16 - Installed rules enforce Kubernetes NetworkPolicy semantics.

    FULL STATEMENT (Proofs/K8sPolicyP.v [enforces]):
      forall H : str -> str, (forall a b, H a = H b -> a = b) ->        (the name hash is injective)
      forall (c : cluster) (f : flow), galaxy_allows H c f = k8s_allows c f
    where galaxy_allows walks FORWARD of the kernel PolicyManager.Run installs (Model/Policy.v [run]) on the
    nodes hosting the two ends and k8s_allows is the NetworkPolicy reference of DESIGN.md appendix D.

    The statement is FALSE for the current code, in six independent ways (known findings K6a-e,g); each has a
    witness below, reproduced on the real code by bin/check C16 (corpus/C16.json).  What is proved for all
    inputs is [enforces_partial_general] (per node: [enforces_partial_node], per policy chain:
    [enforces_partial_policy_chain], simple fragment: [enforces_partial]): compiler correctness on the fragment
    where galaxy is right - the same equation, for every cluster in [frag_g] and every flow without cross-talk and
    with at most one hooked end per node (see the statements).  Theorems only; proofs are in Proofs/K8sPolicyP.v (refutation) and
    Proofs/K8sPolicyFragP.v (the positive half, on top of the C15 lemmas about a Run from an empty node). *)
From Coq Require Import List Ascii String NArith Bool.
From Galaxy.Base Require Import Strs.
From Galaxy.Model Require Import Nets Netfilter Policy K8sPolicy.
From Galaxy.Proofs Require Import PolicyP K8sPolicyP K8sPolicyFragP.
Import ListNotations.
Open Scope N_scope.

Theorem enforces_refuted : ~ enforces.
Proof. exact not_enforces. Qed.
Print Assumptions enforces_refuted.

(** (a) a podSelector-only peer is resolved in all namespaces *)
Theorem enforces_refuted_podsel_all_ns : exists c f, galaxy_allows Hx c f <> k8s_allows c f.
Proof. exact refuted_a. Qed.
Print Assumptions enforces_refuted_podsel_all_ns.

(** (b) a namespaceSelector+podSelector peer ignores the namespace selector *)
Theorem enforces_refuted_nspod_ignores_ns : exists c f, galaxy_allows Hx c f <> k8s_allows c f.
Proof. exact refuted_b. Qed.
Print Assumptions enforces_refuted_nspod_ignores_ns.

(** (c) a rule with ports but an empty from/to installs nothing *)
Theorem enforces_refuted_empty_peers : exists c f, galaxy_allows Hx c f <> k8s_allows c f.
Proof. exact refuted_c. Qed.
Print Assumptions enforces_refuted_empty_peers.

(** (d) the ipBlocks of a rule share one hash:net set: an except of one block cuts a hole in another *)
Theorem enforces_refuted_merged_except : exists c f, galaxy_allows Hx c f <> k8s_allows c f.
Proof. exact refuted_d. Qed.
Print Assumptions enforces_refuted_merged_except.

(** (e) an egress rule of a policy accepts ingress traffic between pods the policy selects *)
Theorem enforces_refuted_cross_talk : exists c f, galaxy_allows Hx c f <> k8s_allows c f.
Proof. exact refuted_e. Qed.
Print Assumptions enforces_refuted_cross_talk.

(** (g) on one node the source's egress ACCEPT skips the destination's ingress isolation *)
Theorem enforces_refuted_egress_shortcut : exists c f, galaxy_allows Hx c f <> k8s_allows c f.
Proof. exact refuted_g. Qed.
Print Assumptions enforces_refuted_egress_shortcut.

(** the concrete verdicts of the six witnesses (galaxy, reference) *)
Theorem refutation_verdicts :
  (galaxy_allows Hx Ca fa = true /\ k8s_allows Ca fa = false) /\
  (galaxy_allows Hx Cb fa = true /\ k8s_allows Cb fa = false) /\
  (galaxy_allows Hx Cc fc = false /\ k8s_allows Cc fc = true) /\
  (galaxy_allows Hx Cd fd = false /\ k8s_allows Cd fd = true) /\
  (galaxy_allows Hx Ce fe = true /\ k8s_allows Ce fe = false) /\
  (galaxy_allows Hx Cg fg = true /\ k8s_allows Cg fg = false).
Proof. exact (conj witness_a (conj witness_b (conj witness_c (conj witness_d (conj witness_e witness_g))))). Qed.
Print Assumptions refutation_verdicts.

(** ---- the positive half: compiler correctness on the fragment where galaxy is right (DESIGN.md appendix D)

    The fragment [frag_g c] (Proofs/K8sPolicyFragP.v; a boolean, every condition is listed here):
      (1) every rule of a direction its policy affects has at least one peer                           (K6c outside)
      (2) every peer is an ipBlock, a namespaceSelector-only peer, or a podSelector-only peer all of whose matching
          pods (of the whole cluster) live in the policy's namespace; no namespaceSelector+podSelector peer
                                                                                                  (K6a, K6b outside)
      (3) at most one ipBlock per rule; CIDR addresses < 2^32 and prefix lengths <= 32; every exception has a
          strictly longer prefix than its block (block and exception never print to the same set element, K5d)
                                                                                                       (K6d outside)
      (4) every port entry is numeric with protocol "tcp" or "udp"
      well-formed cluster: policy keys name_namespace pairwise distinct, pod keys pairwise distinct, pod addresses
      < 2^32 and pairwise distinct.
    Premises on the flow:
      [flow_ok f]: source and destination addresses < 2^32;
      (5) [no_cross c f]: no policy that selects an egress-isolated pod owning the source address has an INGRESS rule
          matching the flow (the policy affects ingress and selects the destination, the port matches, a peer matches
          the source); symmetrically no policy that selects an ingress-isolated pod owning the destination has an
          EGRESS rule matching the flow                                                                (K6e outside);
      (6) [one_hooked c f]: there is no pair (pod owning the source address, pod owning the destination address) on ONE
          node with the source egress-isolated and the destination ingress-isolated                    (K6g outside).
    The simple fragment [frag c] = [frag_g c] and (5a) every policy affects exactly one direction (affects_in xor
    affects_eg, policyTypes defaulted as the API does) and (5b) no pod is isolated in both directions; it implies
    [no_cross c f] for every flow.
    Premise on the name hash: it does not collide on the policy keys nor on the keys of the pods of a node the flow
    crosses ([hash_distinct], the premise of C15's sync_exact_partial_fresh); the _injective variants discharge it
    for an injective hash.

    Then the verdict of the packet walk over the kernels PolicyManager.Run installs (from a node without any
    netfilter state) on the nodes of the two ends IS the NetworkPolicy reference verdict. *)
Theorem enforces_partial_general : forall (H : str -> str) (c : cluster) (f : flow),
  (forall n, In n (flow_nodes c f) -> hash_distinct H n c = true) ->
  frag_g c = true -> flow_ok f = true -> no_cross c f = true -> one_hooked c f = true ->
  galaxy_allows H c f = k8s_allows c f.
Proof. exact enforces_partial_g_l. Qed.
Print Assumptions enforces_partial_general.

Theorem enforces_partial_general_injective : forall H : str -> str, (forall a b, H a = H b -> a = b) ->
  forall (c : cluster) (f : flow), frag_g c = true -> flow_ok f = true -> no_cross c f = true ->
  one_hooked c f = true -> galaxy_allows H c f = k8s_allows c f.
Proof. exact enforces_partial_g_inj. Qed.
Print Assumptions enforces_partial_general_injective.

(** on the simple fragment (one direction per policy, no pod isolated both ways) the only premise on the flow that
    depends on the policies is (6) *)
Theorem enforces_partial : forall (H : str -> str) (c : cluster) (f : flow),
  (forall n, In n (flow_nodes c f) -> hash_distinct H n c = true) ->
  frag c = true -> flow_ok f = true -> one_hooked c f = true ->
  galaxy_allows H c f = k8s_allows c f.
Proof. exact enforces_partial_l. Qed.
Print Assumptions enforces_partial.

(** the same for an injective name hash (the quantifier of [enforces]) *)
Theorem enforces_partial_injective : forall H : str -> str, (forall a b, H a = H b -> a = b) ->
  forall (c : cluster) (f : flow), frag c = true -> flow_ok f = true -> one_hooked c f = true ->
  galaxy_allows H c f = k8s_allows c f.
Proof. exact enforces_partial_inj. Qed.
Print Assumptions enforces_partial_injective.

(** per node, as the models are: FORWARD of the kernel installed on node n accepts the new connection exactly when
    every pod of n owning the source address may send (egress_ok) and every pod of n owning the destination address
    may receive (ingress_ok) *)
Theorem enforces_partial_node : forall (H : str -> str) (n : str) (c : cluster) (f : flow),
  hash_distinct H n c = true -> frag_g c = true -> flow_ok f = true -> no_cross c f = true -> one_hooked c f = true ->
  verdict (installed H n c) forward f =
  forallb (fun s => negb (str_eqb (pod_node s) n) || egress_ok c s f) (pods_at c (f_src f)) &&
  forallb (fun d => negb (str_eqb (pod_node d) n) || ingress_ok c d f) (pods_at c (f_dst f)).
Proof. exact node_enforces. Qed.
Print Assumptions enforces_partial_node.

(** one policy chain (no premise (5), (6)): the installed chain of policy x ACCEPTs the packet exactly when x affects
    ingress, selects the destination and some ingress rule has a matching port and a peer matching the source - or x
    affects egress, selects the source and some egress rule has a matching port and a peer matching the destination.
    (The second disjunct reached from GLX-INGRESS, the first reached from GLX-EGRESS, is the cross-talk K6e.) *)
Theorem enforces_partial_policy_chain : forall (H : str -> str) (n : str) (c : cluster) (f : flow),
  hash_distinct H n c = true -> frag_g c = true -> flow_ok f = true ->
  forall x, In x (c_pols c) ->
  chain_accepts (k_sets (installed H n c)) (policy_chain_rules (compile_one H c x)) f =
  affects_in x && (sel_at c x (f_dst f) &&
     existsb (fun r => port_ok r (f_proto f) (f_dport f) && peers_ok c x r (f_src f)) (np_ingress x)) ||
  affects_eg x && (sel_at c x (f_src f) &&
     existsb (fun r => port_ok r (f_proto f) (f_dport f) && peers_ok c x r (f_dst f)) (np_egress x)).
Proof. exact policy_chain_accepts. Qed.
Print Assumptions enforces_partial_policy_chain.

(** the simple fragment is inhabited by a non-trivial cluster: two namespaces, five pods on two nodes, two policies
    (an ingress policy with a podSelector peer, an ipBlock with an exception, a namespaceSelector peer and tcp+udp
    ports; an egress policy with an ipBlock with an exception); six flows satisfying the premises, three allowed
    and three denied - by the reference and by the walk over the installed rules *)
Example enforces_partial_nonvacuous :
  (frag xp_c = true) /\ (List.length (c_pols xp_c) = 2%nat) /\
  (forallb (fun f => flow_ok f && one_hooked xp_c f) xp_flows = true) /\
  (map (k8s_allows xp_c) xp_flows = [true; false; true; false; true; false]) /\
  (map (galaxy_allows Hx xp_c) xp_flows = [true; false; true; false; true; false]).
Proof. exact enforces_partial_example_l. Qed.

(** the general fragment is larger: a cluster with a policy that affects BOTH directions (outside [frag]), five flows
    satisfying the premises (two allowed, three denied); the K6e witness violates [no_cross] *)
Example enforces_partial_general_nonvacuous :
  (frag_g xq_c = true) /\ (frag xq_c = false) /\
  (forallb (fun f => flow_ok f && no_cross xq_c f && one_hooked xq_c f) xq_flows = true) /\
  (map (k8s_allows xq_c) xq_flows = [true; true; false; false; false]) /\
  (map (galaxy_allows Hx xq_c) xq_flows = [true; true; false; false; false]) /\
  (no_cross Ce fe = false).
Proof. exact enforces_partial_example_g_l. Qed.
