(** C16 - Installed rules enforce Kubernetes NetworkPolicy semantics.

    FULL STATEMENT (Proofs/K8sPolicyP.v [enforces]):
      forall H : str -> str, (forall a b, H a = H b -> a = b) ->        (the name hash is injective)
      forall (c : cluster) (f : flow), galaxy_allows H c f = k8s_allows c f
    where galaxy_allows walks FORWARD of the kernel PolicyManager.Run installs (Model/Policy.v [run]) on the
    nodes hosting the two ends and k8s_allows is the NetworkPolicy reference of DESIGN.md appendix D.

    The statement is FALSE for the current code, in six independent ways (known findings K6a-e,g); each has a
    witness below, reproduced on the real code by bin/check C16 (corpus/C16.json).  What is proved for all
    inputs is [enforces_partial_*]: compiler correctness of one policy chain, per side, on the fragment where
    galaxy is right (see the statements).  Theorems only; proofs are in Proofs/K8sPolicyP.v. *)
From Coq Require Import List Ascii String NArith Bool.
From Galaxy.Base Require Import Strs.
From Galaxy.Model Require Import Nets Netfilter Policy K8sPolicy.
From Galaxy.Proofs Require Import K8sPolicyP.
Import ListNotations.
Open Scope N_scope.

Theorem enforces_refuted : ~ enforces.
Proof. exact not_enforces. Qed.
Print Assumptions enforces_refuted.

(** (a) a podSelector-only peer is resolved in all namespaces *)
Theorem enforces_refuted_podsel_all_ns : exists c f, galaxy_allows Hx c f <> k8s_allows c f.
Proof. exact refuted_a. Qed.
Print Assumptions enforces_refuted_podsel_all_ns.

(** (b) a namespaceSelector+podSelector peer ignores the namespace selector *)
Theorem enforces_refuted_nspod_ignores_ns : exists c f, galaxy_allows Hx c f <> k8s_allows c f.
Proof. exact refuted_b. Qed.
Print Assumptions enforces_refuted_nspod_ignores_ns.

(** (c) a rule with ports but an empty from/to installs nothing *)
Theorem enforces_refuted_empty_peers : exists c f, galaxy_allows Hx c f <> k8s_allows c f.
Proof. exact refuted_c. Qed.
Print Assumptions enforces_refuted_empty_peers.

(** (d) the ipBlocks of a rule share one hash:net set: an except of one block cuts a hole in another *)
Theorem enforces_refuted_merged_except : exists c f, galaxy_allows Hx c f <> k8s_allows c f.
Proof. exact refuted_d. Qed.
Print Assumptions enforces_refuted_merged_except.

(** (e) an egress rule of a policy accepts ingress traffic between pods the policy selects *)
Theorem enforces_refuted_cross_talk : exists c f, galaxy_allows Hx c f <> k8s_allows c f.
Proof. exact refuted_e. Qed.
Print Assumptions enforces_refuted_cross_talk.

(** (g) on one node the source's egress ACCEPT skips the destination's ingress isolation *)
Theorem enforces_refuted_egress_shortcut : exists c f, galaxy_allows Hx c f <> k8s_allows c f.
Proof. exact refuted_g. Qed.
Print Assumptions enforces_refuted_egress_shortcut.

(** the concrete verdicts of the six witnesses (galaxy, reference) *)
Theorem refutation_verdicts :
  (galaxy_allows Hx Ca fa = true /\ k8s_allows Ca fa = false) /\
  (galaxy_allows Hx Cb fa = true /\ k8s_allows Cb fa = false) /\
  (galaxy_allows Hx Cc fc = false /\ k8s_allows Cc fc = true) /\
  (galaxy_allows Hx Cd fd = false /\ k8s_allows Cd fd = true) /\
  (galaxy_allows Hx Ce fe = true /\ k8s_allows Ce fe = false) /\
  (galaxy_allows Hx Cg fg = true /\ k8s_allows Cg fg = false).
Proof. exact (conj witness_a (conj witness_b (conj witness_c (conj witness_d (conj witness_e witness_g))))). Qed.
Print Assumptions refutation_verdicts.
